//! C16. stream `determ`: the same SQL text compiled again after other compilations (and namer calls) in the same process,
//! and from another thread, must give an equal relation and the same rendered text; rendering twice gives the same text;
//! compiling the rendered text gives the same output schema and the same rows, and rendering that again is readable with the same schema.
//! stream `namer`: sequences of namer operations and the base-37 encoder against the Lean model.
use crate::common::*;
use crate::exec::Cell;
use crate::s_sqlx::{gen_data2, gen_sql, world2};
use qrlew::{ast, data_type::DataTyped as _, namer, relation::{Relation, Variant as _}, sql::{parse, relation::QueryWithRelations}};
use serde_json::{json, Value as J};
use std::hash::{Hash, Hasher};

const EXTRA: [(&str, bool); 31] = [
    ("SELECT random() AS r, a AS a FROM t1", false),
    ("SELECT a AS a FROM t1 WHERE random() < 0.5", false),
    ("SELECT a + 1, b * 2, a + 1 FROM t1", false),
    ("SELECT count(*), sum(c), b FROM t1 GROUP BY b", false),
    ("SELECT * FROM t1 JOIN t2 ON t1.a = t2.a", false),
    ("SELECT * FROM t1 JOIN t2 USING (a)", false),
    ("SELECT a FROM t1 UNION SELECT a FROM t2", false),
    ("SELECT t.a FROM (SELECT a FROM t1) AS t", false),
    ("WITH u AS (SELECT a, b FROM t1) SELECT a FROM u WHERE b > 0", false),
    ("SELECT upper(d), count(DISTINCT a) FROM t1 GROUP BY upper(d)", false),
    ("SELECT CASE WHEN b > 0 THEN 1 ELSE 0 END, d FROM t1 ORDER BY d, 1", false),
    ("SELECT a AS a, k AS k FROM t1 LEFT JOIN t3 ON t1.e = t3.k ORDER BY a, k", true),
    // the same expression in two roles (select item and HAVING / GROUP BY / ORDER BY / WHERE)
    ("SELECT b, count(a) > 2 FROM t1 GROUP BY b HAVING count(a) > 2", false),
    ("SELECT b, sum(c) FROM t1 GROUP BY b HAVING sum(c) > 10", false),
    ("SELECT b + 1, count(*) FROM t1 GROUP BY b + 1", false),
    ("SELECT a + b FROM t1 WHERE a + b > 0 ORDER BY a + b", false),
    ("SELECT count(*), count(*) FROM t1 HAVING count(*) > 0", false),
    ("SELECT d, max(c) - min(c) FROM t1 GROUP BY d HAVING max(c) - min(c) >= 0", false),
    // the same multi-stage sub-query on both sides of a join / set operation (several shared CTEs to order in the WITH clause)
    ("WITH t AS (SELECT d AS d, sum(2 * a) AS s, count(*) AS n FROM t1 WHERE b > 0 GROUP BY d) SELECT x.d AS d, x.s AS s, y.n AS n FROM t AS x JOIN t AS y ON x.d = y.d", false),
    ("WITH t AS (SELECT b AS b, max(c) AS m FROM t1 GROUP BY b) SELECT x.b AS b, x.m AS m FROM t AS x JOIN t AS y ON x.b = y.b JOIN t AS z ON y.b = z.b", false),
    ("WITH t AS (SELECT DISTINCT a AS a FROM t1 WHERE b > 0) SELECT a AS a FROM t UNION SELECT a AS a FROM t", false),
    // the same variadic function with different numbers of arguments (anything cached per thread must depend on the arity)
    ("SELECT concat(d, 'x') AS s FROM t1", false),
    ("SELECT concat(d, '-', d) AS s FROM t1", false),
    ("SELECT concat(g) AS s, greatest(a, f, 2) AS m FROM t2", false),
    ("SELECT concat('a', g, 'b', 'c') AS s, least(a, 1) AS m FROM t2", false),
    // NATURAL joins of relations that share several columns (the conjuncts of the ON condition have to come in one order)
    // (explicit select list: for SELECT * SQLite keeps the left table's column order where the standard puts the common columns first)
    ("SELECT a AS a, c AS c, z AS z FROM t1 NATURAL JOIN (SELECT a AS a, b AS b, d AS d, a + 1 AS z FROM t1) AS u", false),
    ("SELECT c AS c FROM t1 NATURAL LEFT JOIN (SELECT a AS a, b AS b, c AS c, d AS d, e AS e FROM t1 WHERE b > 0) AS y", false),
    ("SELECT count(*) AS n FROM (SELECT a AS a, b AS b, c AS c FROM t1) AS x NATURAL JOIN (SELECT a AS a, b AS b, c AS c FROM t1) AS y", false),
    // set operations whose two sides name their columns differently (the output names have to be made up)
    ("SELECT a, b FROM t1 UNION SELECT a AS x, a - 2 AS y FROM t2", false),
    ("SELECT a AS p, d AS q FROM t1 EXCEPT SELECT a AS r, g AS s FROM t2", false),
    ("SELECT k AS u FROM t3 INTERSECT SELECT a AS v FROM t1", false),
];

pub fn gen(rng: &mut Rng, k: usize, _tier: &str) -> J {
    let (sql, ordered) = if k % 3 == 0 { let (s, o) = *rng.pick(&EXTRA); (s.to_string(), o) } else { gen_sql(rng) };
    let pre: Vec<String> = (0..rng.below(4)).map(|_| if rng.chance(1, 3) { rng.pick(&EXTRA).0.to_string() } else { gen_sql(rng).0 }).collect();
    json!({"sql": sql, "ordered": ordered, "pre": pre, "bumps": rng.below(5), "data_seed": rng.next() % 1000000})
}

fn compile(sql: &str) -> Result<Result<Relation, String>, (String, String)> {
    let rels = world2();
    guarded(|| { let q = parse(sql).map_err(|e| e.to_string())?; Relation::try_from(QueryWithRelations::new(&q, &rels)).map_err(|e| e.to_string()) })
}
fn render(rel: &Relation) -> String { ast::Query::from(rel).to_string() }
fn schema_sig(rel: &Relation) -> Vec<(String, String)> { rel.schema().iter().map(|f| (f.name().to_string(), f.data_type().to_string())).collect() }
fn rows_key(rows: &[Vec<Cell>], ordered: bool) -> Vec<String> { let mut v: Vec<String> = rows.iter().map(|r| r.iter().map(|c| match c { Cell::Real(f) => format!("{:.6}", f), Cell::Int(i) => format!("{:.6}", *i as f64), o => o.key() }).collect::<Vec<_>>().join("|")).collect(); if !ordered { v.sort(); } v }

/// the two relations have the same column names and sizes, and column types that are equal as sets (`DataType ==` is mutual inclusion)
/// while their text differs: the signature of the `DataType` Hash / Eq mismatch
/// the same, for a comparison that is about the column types only (a read-back through a dialect whose LIMIT spelling changes the declared size)
pub fn same_types_modulo_structure(a: &Relation, b: &Relation) -> bool { same_modulo(a, b, false) }
pub fn same_modulo_type_structure(a: &Relation, b: &Relation) -> bool { same_modulo(a, b, true) }
fn same_modulo(a: &Relation, b: &Relation, with_size: bool) -> bool {
    use qrlew::data_type::DataType;
    // integer types as explicit value sets (the library's own `==` distinguishes `int[0 2]` from `int{0, 1, 2}`)
    fn ints(t: &DataType) -> Option<std::collections::BTreeSet<i64>> {
        match t { DataType::Optional(o) => ints(o.data_type()),
            DataType::Integer(i) => { let mut s = std::collections::BTreeSet::new(); for [lo, hi] in i.iter() { if hi.checked_sub(*lo)? > 10000 { return None; } for v in *lo..=*hi { s.insert(v); } } Some(s) }
            // the same set written as float points (float{0} for int{0}): `DataType ==` is mutual inclusion modulo the Integer -> Float embedding
            DataType::Float(f) => { let mut s = std::collections::BTreeSet::new(); for [lo, hi] in f.iter() { if lo != hi || lo.fract() != 0.0 || lo.abs() > 1e15 { return None; } s.insert(*lo as i64); } Some(s) }
            _ => None }
    }
    // `null` (no value at all: the relation cannot have rows) on one side, any other spelling (`option(null)`, `option(any)`) on the other
    let void = |t: &DataType| matches!(t, DataType::Null) || matches!(t, DataType::Optional(o) if matches!(o.data_type(), DataType::Null)) || { let s = t.to_string(); s == "∅" || s == "option(∅)" };
    let same_set = |x: &DataType, y: &DataType| x.to_string() == y.to_string() || x == y || void(x) || void(y) || matches!((ints(x), ints(y)), (Some(p), Some(q)) if p == q && matches!(x, DataType::Optional(_)) == matches!(y, DataType::Optional(_)));
    a.schema().len() == b.schema().len() && (!with_size || a.size() == b.size())
        && a.schema().iter().zip(b.schema().iter()).all(|(x, y)| x.name() == y.name() && same_set(&x.data_type(), &y.data_type()))
        && a.schema().iter().zip(b.schema().iter()).any(|(x, y)| x.data_type().to_string() != y.data_type().to_string())
}

pub fn eval(case: &J) -> Outcome {
    let mut out = Outcome::new();
    let sql = case["sql"].as_str().unwrap().to_string();
    let cls = if sql.contains("random()") { "random" } else if sql.contains(" AS ") && !sql.contains("SELECT *") { "aliased" } else { "implicit-names" };
    out.tag(&format!("class={cls}"));
    let r1 = match compile(&sql) { Ok(Ok(r)) => r, Ok(Err(_)) => { out.tag("trivial"); out.tag("compile-err"); return out; }
        Err((loc, msg)) => { out.tag("trivial"); out.fail(&format!("C18/determ/compile-panic/{}{}", site(&loc, &msg), compile_panic_cause(&sql, &loc, &msg).map(|c| format!("/{c}")).unwrap_or_default()), format!("{sql}: {msg}")); return out; } };
    let t1 = match guarded(|| render(&r1)) { Ok(t) => t, Err((loc, msg)) => { out.fail(&format!("C18/determ/render-panic/{}", site(&loc, &msg)), format!("{sql}: {msg}")); return out; } };
    // rendering twice
    if render(&r1) != t1 { out.fail(&format!("C16/determ/render-twice-differs/{cls}"), format!("{sql}: two renderings of the same relation differ")); }
    // other compilations and namer traffic in between
    for p in case["pre"].as_array().unwrap() { let _ = compile(p.as_str().unwrap()); }
    for _ in 0..case["bumps"].as_u64().unwrap() { namer::new_name("map"); namer::new_name("field"); namer::new_id("UNIFORM_SAMPLING"); namer::new_name(""); }
    out.tag(&format!("pre={}", case["pre"].as_array().unwrap().len()));
    let again = |label: &str, r2: Result<Result<Relation, String>, (String, String)>, out: &mut Outcome| {
        match r2 {
            Ok(Ok(r2)) => {
                if r2 != r1 {
                    // same columns, every pair of types equal as sets but written differently (a value list on one side, an interval on the other)?
                    let c = if same_modulo_type_structure(&r1, &r2) { "type-structure" } else { cls };
                    out.fail(&format!("C16/determ/relation-differs/{label}/{c}"), format!("{sql}: compiled again ({label}) gives a different relation: names {:?} vs {:?}, schemas {} vs {}", r1.name(), r2.name(), r1.schema(), r2.schema()));
                }
                else if render(&r2) != t1 { out.fail(&format!("C16/determ/text-differs/{label}/{cls}"), format!("{sql}: compiled again ({label}) renders differently")); }
            }
            _ => out.fail(&format!("C16/determ/outcome-differs/{label}/{cls}"), format!("{sql}: compiled once, fails when compiled again ({label})")),
        }
    };
    again("later", compile(&sql), &mut out);
    let s2 = sql.clone();
    let th = std::thread::spawn(move || compile(&s2)).join();
    match th { Ok(r) => again("other-thread", r, &mut out), Err(_) => out.fail(&format!("C16/determ/outcome-differs/other-thread/{cls}"), format!("{sql}: thread died")) }
    // several threads at once, each compiling the other queries of the case around the one under test (different interleavings of the global counter)
    let others: Vec<String> = case["pre"].as_array().unwrap().iter().map(|p| p.as_str().unwrap().to_string()).collect();
    let handles: Vec<_> = (0..3usize).map(|t| { let (s3, o3) = (sql.clone(), others.clone()); std::thread::spawn(move || {
        for (i, p) in o3.iter().enumerate() { if i % 3 == t { let _ = compile(p); } }
        let r = compile(&s3);
        for (i, p) in o3.iter().enumerate() { if i % 3 != t { let _ = compile(p); } }
        r }) }).collect();
    for h in handles { match h.join() { Ok(r) => again("concurrent", r, &mut out), Err(_) => out.fail(&format!("C16/determ/outcome-differs/concurrent/{cls}"), format!("{sql}: thread died")) } }
    // fixpoint: compile the rendered text
    // (when the rendering itself declares one CTE name twice with different bodies, everything downstream is the known name collision)
    // `x IS TRUE` / `x IS FALSE`: the reader wraps x in a cast to boolean every time the text is read, so each render + compile adds a cast
    // (and the second cast makes the declared type optional): the recorded is-bool-cast finding, named by its cause
    let cls = if crate::s_dialect::duplicate_cte_class(&t1) == "cte-name-collision" { "cte-name-collision" } else if sql.contains(" IS TRUE") || sql.contains(" IS FALSE") { "is-bool-cast" } else { cls };
    let sig1 = schema_sig(&r1);
    let r4 = match compile(&t1) {
        Ok(Ok(r)) => r,
        Ok(Err(e)) => { out.fail(&format!("C16/determ/rendered-not-readable/{cls}"), format!("{sql}: rendered as {t1}, which the reader rejects: {e}")); return out; }
        Err((loc, msg)) => { out.fail(&format!("C18/determ/reread-panic/{}", site(&loc, &msg)), format!("{t1}: {msg}")); return out; }
    };
    let sig4 = schema_sig(&r4);
    if sig1.iter().map(|x| &x.0).collect::<Vec<_>>() != sig4.iter().map(|x| &x.0).collect::<Vec<_>>() { out.fail(&format!("C16/determ/fixpoint-names-differ/{cls}"), format!("{sql}: output columns {:?} become {:?} after render + compile", sig1.iter().map(|x| &x.0).collect::<Vec<_>>(), sig4.iter().map(|x| &x.0).collect::<Vec<_>>())); return out; }
    if sig1 != sig4 { let d = sig1.iter().zip(sig4.iter()).find(|(a, b)| a != b).unwrap(); out.fail(&format!("C16/determ/fixpoint-types-differ/{}", if same_modulo_type_structure(&r1, &r4) { "type-structure" } else { cls }), format!("{sql}: column `{}` has type {} but {} after render + compile", d.0 .0, d.0 .1, d.1 .1)); }
    let t4 = render(&r4);
    match compile(&t4) { Ok(Ok(r5)) => { if schema_sig(&r5) != sig4 { out.fail(&format!("C16/determ/second-fixpoint-schema-differs/{}", if same_modulo_type_structure(&r4, &r5) { "type-structure" } else if crate::s_dialect::duplicate_cte_class(&t4) == "cte-name-collision" { "cte-name-collision" } else { cls }), format!("{sql}: schema changes at the second render + compile")); } }
        _ => { let dc = crate::s_dialect::duplicate_cte_class(&t4); out.fail(&format!("C16/determ/rendered-not-readable/second/{}", if dc != "duplicate-cte-unclassified" { dc } else { cls }), format!("{sql}: second rendering {t4} is not readable")) } }
    // semantics: r1 and r4 return the same rows
    let mut rng = Rng::new(case["data_seed"].as_u64().unwrap());
    let data = gen_data2(&mut rng);
    let db = data.load();
    if cls != "random" {
        match (db.run(&r1), db.run(&r4)) {
            (Ok(a), Ok(b)) => { let ord = case["ordered"].as_bool().unwrap_or(false); if rows_key(&a.1, ord) != rows_key(&b.1, ord) { out.fail(&format!("C16/determ/fixpoint-rows-differ/{cls}"), format!("{sql}: rows {:?} become {:?} after render + compile", a.1.iter().take(5).collect::<Vec<_>>(), b.1.iter().take(5).collect::<Vec<_>>())); } else { out.tag("fixpoint-same-rows"); } }
            (Ok(_), Err(e)) => out.fail(&format!("C16/determ/fixpoint-not-executable/{}", if e.contains("duplicate WITH table name") { crate::s_dialect::duplicate_cte_class(&crate::exec::render(&r4)) } else { cls }), format!("{sql}: second-generation SQL fails: {e}")),
            _ => { out.tag("not-executable"); }
        }
        // "… reproduces the same query semantics as the relation it came from": the relation came from `sql`, so the second-generation query
        // must return what the source text returns (when SQLite can run the source text as it is)
        if out.oracle.is_empty() {
            if let (Ok(src), Ok(b)) = (db.query(&sql), db.run(&r4)) {
                let ord = case["ordered"].as_bool().unwrap_or(false);
                if rows_key(&src.1, ord) != rows_key(&b.1, ord) {
                    // the recorded defects of the reader (C08) show up here as well, under their own names
                    let cause = if sql.contains("log10(") || sql.contains("log2(") { "log-base-inverted".to_string() } else if sql.contains("tan(") { "division-by-null-is-zero".to_string() }
                        else if crate::s_sqlx::duplicate_unnamed_items(&sql) { "duplicate-unnamed-items".to_string() } else if crate::s_sqlx::orders_by_missing_column(&r1) { "order-by-missing-column".to_string() } else { crate::s_sqlx::query_class(&sql) };
                    out.fail(&format!("C16/determ/reparse-differs-from-source/{cause}"), format!("{sql}: the source returns {:?} but the query rendered, read back and rendered again returns {:?}", src.1.iter().take(5).collect::<Vec<_>>(), b.1.iter().take(5).collect::<Vec<_>>()));
                } else { out.tag("source-same-rows"); }
            }
        }
    }
    out
}

// ------------------------------------------------------------------------------------------------
pub fn gen_namer(rng: &mut Rng, _k: usize, _tier: &str) -> J {
    let prefixes = ["map", "field", "", "x"];
    let ops: Vec<J> = (0..1 + rng.below(10)).map(|_| match rng.below(4) {
        0 => json!(["name", *rng.pick(&prefixes)]),
        1 => json!(["id", *rng.pick(&prefixes)]),
        2 => json!(["encode", (*rng.pick(&[37u64, 36, 62, 2])), rng.below(7), if rng.chance(1, 4) { *rng.pick(&[0u64, u64::MAX, 37 * 37 * 37 * 37, 37 * 37 * 37 * 37 - 1]) } else { rng.next() }.to_string()]),
        _ => json!(["content", *rng.pick(&prefixes), rng.below(1000)]),
    }).collect();
    json!({"ops": ops})
}

pub fn eval_namer(case: &J) -> Outcome {
    let mut out = Outcome::new();
    namer::reset();
    let mut res: Vec<J> = vec![]; let mut hashes: Vec<J> = vec![];
    for op in case["ops"].as_array().unwrap() {
        let kind = op[0].as_str().unwrap();
        match kind {
            "name" => { res.push(json!(namer::new_name(op[1].as_str().unwrap()))); hashes.push(J::Null); }
            "id" => { res.push(json!(namer::new_id(op[1].as_str().unwrap()).to_string())); hashes.push(J::Null); }
            "encode" => { let alpha = match op[1].as_u64().unwrap() { 37 => qrlew::encoder::BASE_37, 36 => qrlew::encoder::BASE_36, 62 => qrlew::encoder::BASE_62, _ => "01" };
                res.push(json!(qrlew::encoder::Encoder::new(alpha, op[2].as_u64().unwrap() as usize).encode(op[3].as_str().unwrap().parse::<u64>().unwrap()))); hashes.push(J::Null); }
            _ => { let c = op[2].as_u64().unwrap(); let mut h = std::collections::hash_map::DefaultHasher::new(); c.hash(&mut h); hashes.push(json!(h.finish().to_string())); res.push(json!(namer::name_from_content(op[1].as_str().unwrap(), &c))); }
        }
        out.tag(&format!("op={kind}"));
    }
    out.imp = json!(res);
    out.aux = json!({"hashes": hashes});
    out
}

//! Execution of relations on SQLite (system libsqlite3 through rusqlite), used to observe what the IR *means*:
//! the relation is rendered with the library's SQLite translator, a few spellings SQLite lacks are shimmed
//! (user functions MD5, FIRST/LAST, GREATEST/LEAST, RANDOM override; VALUES with a column list), and run on an in-memory database.
use qrlew::{ast, dialect_translation::{sqlite::SQLiteTranslator, RelationWithTranslator}, relation::Relation};
use rusqlite::{functions::{Aggregate, Context, FunctionFlags}, types::{Value as SV, ValueRef}, Connection};
use std::sync::{atomic::{AtomicU64, Ordering}, Arc};

#[derive(Clone, Debug, PartialEq)]
pub enum Cell { Null, Int(i64), Real(f64), Text(String) }

impl Cell {
    pub fn as_f64(&self) -> Option<f64> { match self { Cell::Int(i) => Some(*i as f64), Cell::Real(f) => Some(*f), _ => None } }
    pub fn key(&self) -> String { match self { Cell::Null => "NULL".into(), Cell::Int(i) => format!("{}", *i as f64), Cell::Real(f) => format!("{}", f), Cell::Text(s) => format!("'{s}'") } }
}
impl std::fmt::Display for Cell {
    fn fmt(&self, f: &mut std::fmt::Formatter<'_>) -> std::fmt::Result { match self { Cell::Null => write!(f, "NULL"), Cell::Int(i) => write!(f, "{i}"), Cell::Real(x) => write!(f, "{x}"), Cell::Text(s) => write!(f, "'{s}'") } }
}

/// how `RANDOM()` behaves in this connection
#[derive(Clone)]
pub enum RandomMode {
    /// constant: 0.25 neutralises the Box–Muller term (cos(2π·0.25) = 0)
    Const(f64),
    /// SplitMix64 stream from a seed (one draw per call)
    Seeded(u64),
}

pub struct Db { pub conn: Connection, counter: Arc<AtomicU64> }

struct FirstAgg; struct LastAgg;
impl Aggregate<Option<SV>, SV> for FirstAgg {
    fn init(&self, _: &mut Context<'_>) -> rusqlite::Result<Option<SV>> { Ok(None) }
    fn step(&self, ctx: &mut Context<'_>, acc: &mut Option<SV>) -> rusqlite::Result<()> { if acc.is_none() { *acc = Some(ctx.get::<SV>(0)?); } Ok(()) }
    fn finalize(&self, _: &mut Context<'_>, acc: Option<Option<SV>>) -> rusqlite::Result<SV> { Ok(acc.flatten().unwrap_or(SV::Null)) }
}
impl Aggregate<Option<SV>, SV> for LastAgg {
    fn init(&self, _: &mut Context<'_>) -> rusqlite::Result<Option<SV>> { Ok(None) }
    fn step(&self, ctx: &mut Context<'_>, acc: &mut Option<SV>) -> rusqlite::Result<()> { *acc = Some(ctx.get::<SV>(0)?); Ok(()) }
    fn finalize(&self, _: &mut Context<'_>, acc: Option<Option<SV>>) -> rusqlite::Result<SV> { Ok(acc.flatten().unwrap_or(SV::Null)) }
}

/// MEAN / VAR / STD (sample variance) — the stock SQLite translator emits these names
struct MomentAgg(u8);
impl Aggregate<(f64, f64, f64), SV> for MomentAgg {
    fn init(&self, _: &mut Context<'_>) -> rusqlite::Result<(f64, f64, f64)> { Ok((0.0, 0.0, 0.0)) }
    fn step(&self, ctx: &mut Context<'_>, acc: &mut (f64, f64, f64)) -> rusqlite::Result<()> { if let Some(x) = num(&ctx.get_raw(0)) { acc.0 += 1.0; acc.1 += x; acc.2 += x * x; } Ok(()) }
    fn finalize(&self, _: &mut Context<'_>, acc: Option<(f64, f64, f64)>) -> rusqlite::Result<SV> {
        let (n, s, q) = acc.unwrap_or((0.0, 0.0, 0.0));
        if n == 0.0 { return Ok(SV::Null); }
        Ok(match self.0 { 0 => SV::Real(s / n), _ if n < 2.0 => SV::Null, 1 => SV::Real(((q - s * s / n) / (n - 1.0)).max(0.0)), _ => SV::Real(((q - s * s / n) / (n - 1.0)).max(0.0).sqrt()) })
    }
}

fn num(v: &ValueRef) -> Option<f64> { match v { ValueRef::Integer(i) => Some(*i as f64), ValueRef::Real(f) => Some(*f), _ => None } }

impl Db {
    pub fn new(random: RandomMode) -> Db {
        let conn = Connection::open_in_memory().unwrap();
        let counter = Arc::new(AtomicU64::new(0));
        let det = FunctionFlags::SQLITE_UTF8 | FunctionFlags::SQLITE_DETERMINISTIC;
        // md5: an opaque injective text function is all the rewriting needs
        conn.create_scalar_function("md5", 1, det, |ctx| { let v = ctx.get_raw(0); Ok(match v { ValueRef::Null => SV::Null, ValueRef::Text(t) => SV::Text(format!("md5_{}", String::from_utf8_lossy(t))), ValueRef::Integer(i) => SV::Text(format!("md5_{i}")), ValueRef::Real(f) => SV::Text(format!("md5_{f}")), ValueRef::Blob(_) => SV::Text("md5_blob".into()) }) }).unwrap();
        for (name, take_max) in [("greatest", true), ("least", false)] {
            conn.create_scalar_function(name, -1, det, move |ctx| {
                // PostgreSQL semantics: NULL arguments are ignored
                let mut best: Option<(f64, SV)> = None; let mut best_text: Option<String> = None;
                for i in 0..ctx.len() {
                    let r = ctx.get_raw(i);
                    if let Some(x) = num(&r) { let sv: SV = match r { ValueRef::Integer(i) => SV::Integer(i), _ => SV::Real(x) }; best = match best { None => Some((x, sv)), Some((b, bsv)) => if (take_max && x > b) || (!take_max && x < b) { Some((x, sv)) } else { Some((b, bsv)) } }; }
                    else if let ValueRef::Text(t) = r { let s = String::from_utf8_lossy(t).to_string(); best_text = match best_text { None => Some(s), Some(b) => if (take_max && s > b) || (!take_max && s < b) { Some(s) } else { Some(b) } }; }
                }
                Ok(match (best, best_text) { (Some((_, sv)), _) => sv, (None, Some(s)) => SV::Text(s), _ => SV::Null })
            }).unwrap();
        }
        conn.create_scalar_function("char_length", 1, det, |ctx| Ok(match ctx.get_raw(0) { ValueRef::Text(t) => SV::Integer(String::from_utf8_lossy(t).chars().count() as i64), ValueRef::Null => SV::Null, _ => SV::Null })).unwrap();
        // CONCAT (SQLite gets it in 3.44): PostgreSQL semantics, NULL arguments are ignored
        // SQLite's own UPPER / LOWER fold ASCII letters only; PostgreSQL (the reference semantics) folds every letter
        conn.create_scalar_function("upper", 1, det, |ctx| Ok(match ctx.get_raw(0) { ValueRef::Text(t) => SV::Text(String::from_utf8_lossy(t).to_uppercase()), ValueRef::Null => SV::Null, ValueRef::Integer(i) => SV::Text(i.to_string()), ValueRef::Real(f) => SV::Text(f.to_string()), _ => SV::Null })).unwrap();
        conn.create_scalar_function("lower", 1, det, |ctx| Ok(match ctx.get_raw(0) { ValueRef::Text(t) => SV::Text(String::from_utf8_lossy(t).to_lowercase()), ValueRef::Null => SV::Null, ValueRef::Integer(i) => SV::Text(i.to_string()), ValueRef::Real(f) => SV::Text(f.to_string()), _ => SV::Null })).unwrap();
        conn.create_scalar_function("concat", -1, det, |ctx| {
            let mut s = String::new();
            for i in 0..ctx.len() { match ctx.get_raw(i) { ValueRef::Null => {}, ValueRef::Text(t) => s.push_str(&String::from_utf8_lossy(t)), ValueRef::Integer(i) => s.push_str(&i.to_string()), ValueRef::Real(f) => s.push_str(&f.to_string()), ValueRef::Blob(_) => {} } }
            Ok(SV::Text(s))
        }).unwrap();
        conn.create_aggregate_function("first", 1, FunctionFlags::SQLITE_UTF8, FirstAgg).unwrap();
        conn.create_aggregate_function("last", 1, FunctionFlags::SQLITE_UTF8, LastAgg).unwrap();
        conn.create_aggregate_function("mean", 1, FunctionFlags::SQLITE_UTF8, MomentAgg(0)).unwrap();
        conn.create_aggregate_function("var", 1, FunctionFlags::SQLITE_UTF8, MomentAgg(1)).unwrap();
        conn.create_aggregate_function("std", 1, FunctionFlags::SQLITE_UTF8, MomentAgg(2)).unwrap();
        {
            let c = counter.clone();
            conn.create_scalar_function("random", 0, FunctionFlags::SQLITE_UTF8, move |_| {
                Ok(match &random {
                    RandomMode::Const(x) => *x,
                    RandomMode::Seeded(seed) => { let k = c.fetch_add(1, Ordering::Relaxed); let mut z = seed.wrapping_add(k.wrapping_mul(0x9E3779B97F4A7C15)).wrapping_add(0x9E3779B97F4A7C15);
                        z = (z ^ (z >> 30)).wrapping_mul(0xBF58476D1CE4E5B9); z = (z ^ (z >> 27)).wrapping_mul(0x94D049BB133111EB); z ^= z >> 31; ((z >> 11) as f64 + 0.5) / (1u64 << 53) as f64 }
                })
            }).unwrap();
        }
        Db { conn, counter }
    }

    /// a connection without any of the user functions (what a stock SQLite offers)
    pub fn from_conn(conn: Connection) -> Db { Db { conn, counter: Arc::new(AtomicU64::new(0)) } }

    pub fn random_calls(&self) -> u64 { self.counter.load(Ordering::Relaxed) }

    pub fn create_table(&self, name: &str, cols: &[&str], rows: &[Vec<Cell>]) {
        self.conn.execute(&format!("CREATE TABLE \"{name}\" ({})", cols.iter().map(|c| format!("\"{c}\"")).collect::<Vec<_>>().join(", ")), []).unwrap();
        let sql = format!("INSERT INTO \"{name}\" VALUES ({})", cols.iter().map(|_| "?").collect::<Vec<_>>().join(", "));
        let mut st = self.conn.prepare(&sql).unwrap();
        for r in rows {
            let vals: Vec<SV> = r.iter().map(|c| match c { Cell::Null => SV::Null, Cell::Int(i) => SV::Integer(*i), Cell::Real(f) => SV::Real(*f), Cell::Text(s) => SV::Text(s.clone()) }).collect();
            st.execute(rusqlite::params_from_iter(vals.iter())).unwrap();
        }
    }

    pub fn query(&self, sql: &str) -> Result<(Vec<String>, Vec<Vec<Cell>>), String> {
        let mut st = self.conn.prepare(sql).map_err(|e| e.to_string())?;
        let names: Vec<String> = st.column_names().iter().map(|s| s.to_string()).collect();
        let n = names.len();
        let rows = st.query_map([], |row| { (0..n).map(|i| Ok(match row.get_ref(i)? { ValueRef::Null => Cell::Null, ValueRef::Integer(i) => Cell::Int(i), ValueRef::Real(f) => Cell::Real(f), ValueRef::Text(t) => Cell::Text(String::from_utf8_lossy(t).to_string()), ValueRef::Blob(_) => Cell::Text("<blob>".into()) })).collect::<rusqlite::Result<Vec<Cell>>>() }).map_err(|e| e.to_string())?;
        let mut out = vec![];
        for r in rows { out.push(r.map_err(|e| e.to_string())?); }
        Ok((names, out))
    }

    /// render with the library's SQLite translator (+ shims) and execute
    pub fn run(&self, rel: &Relation) -> Result<(Vec<String>, Vec<Vec<Cell>>), String> { self.query(&render(rel)) }
}

/// SQL text of a relation for SQLite, with the textual shims SQLite needs
pub fn render(rel: &Relation) -> String {
    let q = ast::Query::from(RelationWithTranslator(rel, SQLiteTranslator)).to_string();
    shim(&q)
}

/// an infinite float is written `inf` by the library (Rust's Display), which no SQL engine reads; SQLite's spelling of infinity is 9e999.
/// (That the library writes `inf` at all is reported by the streams that judge the text, not hidden here.)
pub fn shim_inf(sql: &str) -> String {
    let b: Vec<char> = sql.chars().collect();
    let mut out = String::with_capacity(sql.len());
    let (mut i, mut q1, mut q2) = (0usize, false, false);
    while i < b.len() {
        let c = b[i];
        if c == '\'' && !q2 { q1 = !q1; } else if c == '"' && !q1 { q2 = !q2; }
        if !q1 && !q2 && c == 'i' && i + 2 < b.len() + 0 && b[i + 1] == 'n' && b.get(i + 2) == Some(&'f')
            && (i == 0 || !(b[i - 1].is_alphanumeric() || b[i - 1] == '_')) && b.get(i + 3).map_or(true, |n| !(n.is_alphanumeric() || *n == '_')) {
            out.push_str("9e999"); i += 3; continue;
        }
        out.push(c); i += 1;
    }
    out
}

pub fn shim(sql: &str) -> String {
    let sql_owned = shim_inf(sql); let sql: &str = &sql_owned;
    // `(VALUES (1), (2)) AS "v" ("v")`  ->  `(SELECT column1 AS "v" FROM (VALUES (1), (2))) AS "v"`  (SQLite has no derived-table column lists)
    let mut out = String::new();
    let mut rest = sql;
    while let Some(i) = rest.find("(VALUES ") {
        out.push_str(&rest[..i]);
        let tail = &rest[i..];
        // find the matching close paren of "(VALUES"
        let mut depth = 0usize; let mut end = None; let mut in_str = false;
        for (k, ch) in tail.char_indices() {
            if ch == '\'' { in_str = !in_str; }
            if in_str { continue; }
            if ch == '(' { depth += 1; } else if ch == ')' { depth -= 1; if depth == 0 { end = Some(k); break; } }
        }
        let Some(end) = end else { out.push_str(tail); rest = ""; break; };
        let body = &tail[1..end]; // VALUES (...), (...)
        let after = &tail[end + 1..];
        // expect ` AS name (col)`
        if let Some(a) = after.strip_prefix(" AS ") {
            let name_end = a.find(' ').unwrap_or(a.len());
            let name = &a[..name_end];
            let a2 = &a[name_end..];
            if let Some(a3) = a2.strip_prefix(" (") { if let Some(ce) = a3.find(')') {
                let col = &a3[..ce];
                out.push_str(&format!("(SELECT column1 AS {col} FROM ({body})) AS {name}"));
                rest = &a3[ce + 1..];
                continue;
            } }
        }
        out.push_str(&tail[..end + 1]);
        rest = after;
    }
    out.push_str(rest);
    out
}

use serde_json::{json, Value};
use std::cell::RefCell;

thread_local! { pub static LAST_PANIC: RefCell<Option<(String, String)>> = RefCell::new(None); }

/// SplitMix64: every random choice of a stream derives from one state.
pub struct Rng(pub u64);
impl Rng {
    pub fn new(seed: u64) -> Self { Rng(seed.wrapping_add(0x9E3779B97F4A7C15)) }
    pub fn next(&mut self) -> u64 {
        self.0 = self.0.wrapping_add(0x9E3779B97F4A7C15);
        let mut z = self.0;
        z = (z ^ (z >> 30)).wrapping_mul(0xBF58476D1CE4E5B9);
        z = (z ^ (z >> 27)).wrapping_mul(0x94D049BB133111EB);
        z ^ (z >> 31)
    }
    pub fn below(&mut self, n: u64) -> u64 { if n == 0 { 0 } else { self.next() % n } }
    pub fn range(&mut self, lo: i64, hi: i64) -> i64 { lo + self.below((hi - lo + 1) as u64) as i64 }
    pub fn chance(&mut self, num: u64, den: u64) -> bool { self.below(den) < num }
    pub fn pick<'a, T>(&mut self, xs: &'a [T]) -> &'a T { &xs[self.below(xs.len() as u64) as usize] }
    pub fn unit(&mut self) -> f64 { (self.next() >> 11) as f64 / (1u64 << 53) as f64 }
}

pub fn fnv(s: &str) -> u64 {
    let mut h: u64 = 0xcbf29ce484222325;
    for b in s.bytes() { h ^= b as u64; h = h.wrapping_mul(0x100000001b3); }
    h
}

/// Result of evaluating one case on the implementation.
pub struct Outcome {
    /// canonical implementation output, compared with the Lean model's output (Null = not compared)
    pub imp: Value,
    /// data for the model driver that is not itself compared (e.g. the rule-annotated tree produced by the real setter)
    pub aux: Value,
    /// property-level oracle failures (independent of the model): key identifies site + failure class
    pub oracle: Vec<Value>,
    /// distribution tags for the evidence
    pub tags: Vec<String>,
}
impl Outcome {
    pub fn new() -> Self { Outcome { imp: Value::Null, aux: Value::Null, oracle: vec![], tags: vec![] } }
    pub fn fail(&mut self, key: &str, what: String) { self.oracle.push(json!({"key": key, "what": what})); }
    pub fn tag(&mut self, t: &str) { self.tags.push(t.to_string()); }
}

/// Run `f` under catch_unwind; Err carries (location, message) of the panic.
pub fn guarded<T>(f: impl FnOnce() -> T) -> Result<T, (String, String)> {
    LAST_PANIC.with(|p| *p.borrow_mut() = None);
    match std::panic::catch_unwind(std::panic::AssertUnwindSafe(f)) {
        Ok(v) => Ok(v),
        Err(_) => Err(LAST_PANIC.with(|p| p.borrow_mut().take()).unwrap_or(("?".into(), "?".into()))),
    }
}

/// `/repo/src/a/b.rs:123` -> `a/b.rs` (line numbers are not part of finding keys)
pub fn site_file(loc: &str) -> String {
    let f = loc.rsplit_once(':').map(|x| x.0).unwrap_or(loc);
    match f.find("/src/") { Some(i) => f[i + 5..].to_string(), None => f.to_string() }
}

/// coarse class of a panic message (part of finding keys, so that a new kind of panic in a file with a known one is still reported)
pub fn panic_kind(msg: &str) -> &'static str {
    if msg.contains("not yet implemented") || msg.contains("not implemented") { "todo" }
    else if msg.starts_with("assertion") { "assert" }
    else if msg.contains("called `Result::unwrap()`") || msg.contains("called `Option::unwrap()`") { "unwrap" }
    else if msg.contains("index out of bounds") || msg.contains("out of range") { "index" }
    else if msg.contains("divide by zero") { "arith-divide-by-zero" }
    else if msg.contains("remainder with a divisor of zero") { "arith-remainder-by-zero" }
    else if msg.contains("negate with overflow") { "arith-negate-overflow" }
    else if msg.contains("add with overflow") { "arith-add-overflow" }
    else if msg.contains("subtract with overflow") { "arith-subtract-overflow" }
    else if msg.contains("multiply with overflow") { "arith-multiply-overflow" }
    else if msg.contains("overflow") { "arith-overflow" }
    else if msg.contains("stack") { "stack" }
    else { "explicit" }
}
/// `<file>/<panic kind>`
pub fn site(loc: &str, msg: &str) -> String { format!("{}/{}", site_file(loc), panic_kind(msg)) }

/// does some column of some node of the relation have an empty type (a range the WHERE clause has emptied)?  Part of the key of
/// rewriting panics: the recorded defect is "an aggregate over an emptied range", not "any panic at that line".
pub fn has_empty_range(rel: &qrlew::relation::Relation) -> bool {
    use qrlew::{relation::Variant as _, data_type::DataTyped as _};
    rel.schema().iter().any(|f| f.data_type().to_string().contains('∅')) || rel.inputs().iter().any(|i| has_empty_range(i))
}

/// the cause of a compile-time panic, when the message and the query text name it: a division (also inside tan = sin / cos) whose
/// operand ranges contain 0; a function applied to a column whose range the WHERE clause has made empty
pub fn compile_panic_cause(sql: &str, loc: &str, msg: &str) -> Option<&'static str> {
    if msg.contains("min <= max") && (sql.contains(" / ") || sql.contains("tan(")) { Some("division") }
    else if msg.contains("divide by zero") { Some("division") }
    else if msg.contains("Option::unwrap()") && loc.contains("data_type/function.rs") { Some("function-of-empty-range") }
    else { None }
}

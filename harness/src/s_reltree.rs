//! stream `reltree`: random trees of relational operators written as a chain of CTEs; the size bound and the UNIQUE flags the
//! real compiler declares for the result, and the rows SQLite returns for the rendered relation, against the Lean model
//! `Qrlew.RelTree` (`sizeMax`, `uniq`, `eval`) — the functions the tree-level C07 / C14 theorems are about.
use crate::common::*;
use crate::exec::{Cell, RandomMode};
use qrlew::{builder::{Ready, With}, hierarchy::Hierarchy, relation::{field::Constraint, Relation, Variant as _}, sql::{parse, relation::QueryWithRelations}, DataType};
use serde_json::{json, Value as J};
use std::sync::Arc;

/// (name, declared size, columns with their UNIQUE flag)
const TABLES: [(&str, i64, [(&str, bool); 3]); 3] = [("t0", 6, [("a", true), ("b", false), ("c", false)]), ("t1", 9, [("a", false), ("b", true), ("c", false)]), ("t2", 4, [("a", false), ("b", false), ("c", false)])];

fn world() -> Hierarchy<Arc<Relation>> {
    TABLES.iter().map(|(name, n, cols)| {
        let schema: qrlew::relation::Schema = cols.iter().map(|(c, u)| (*c, DataType::integer_interval(0, 9), if *u { Some(Constraint::Unique) } else { None })).collect();
        let t: Relation = Relation::table().name(*name).schema(schema).size(*n).build();
        (vec![name.to_string()], Arc::new(t))
    }).collect()
}

fn width(t: &J) -> usize {
    let a = t.as_array().unwrap();
    match a[0].as_str().unwrap() {
        "table" => 3, "map" => a[1].as_array().unwrap().len(), "join" => width(&a[3]) + width(&a[4]),
        "union" => width(&a[2]), "intersect" | "except" => width(&a[1]), _ => a[1].as_array().unwrap().len() + 1,
    }
}

fn gen_tree(rng: &mut Rng, depth: u32, with_limit: bool) -> J {
    if depth == 0 || rng.chance(1, 4) { return json!(["table", rng.below(3)]); }
    match rng.below(9) {
        0 | 1 | 2 => { let t = gen_tree(rng, depth - 1, with_limit); let w = width(&t) as u64;
            let n = 1 + rng.below(3); let proj: Vec<J> = (0..n).map(|_| { let c = rng.below(w); match rng.below(6) { 0 | 1 | 2 => json!([c, "id"]), 3 => json!([c, "neg"]), 4 => json!([c, "abs"]), _ => json!([c, "plus", rng.range(-2, 2)]) } }).collect();
            let flt = if rng.chance(1, 3) { json!([rng.below(w), rng.range(-2, 3)]) } else { J::Null };
            let (off, lim) = if with_limit && rng.chance(1, 3) { { let lim = rng.below(6); (if rng.chance(1, 2) { json!(rng.below(4)) } else { J::Null }, json!(lim)) } } else { (J::Null, J::Null) };
            json!(["map", proj, flt, off, lim, t]) }
        3 | 4 => { let l = gen_tree(rng, depth - 1, with_limit); let r = gen_tree(rng, depth - 1, with_limit); json!(["join", rng.below(width(&l) as u64), rng.below(width(&r) as u64), l, r]) }
        // set operations need sides of equal width: both are cut to the narrower one
        5 => { let l = gen_tree(rng, depth - 1, with_limit); let r = gen_tree(rng, depth - 1, with_limit); let w = width(&l).min(width(&r)); json!(["union", rng.chance(1, 2), cut(l, w), cut(r, w)]) }
        6 => { let l = gen_tree(rng, depth - 1, with_limit); let r = gen_tree(rng, depth - 1, with_limit); let w = width(&l).min(width(&r)); json!([*rng.pick(&["intersect", "except"]), cut(l, w), cut(r, w)]) }
        _ => { let t = gen_tree(rng, depth - 1, with_limit); let w = width(&t) as u64; let k0 = rng.below(w);
            let keys: Vec<u64> = if w > 1 && rng.chance(1, 2) { let mut k1 = rng.below(w); if k1 == k0 { k1 = (k0 + 1) % w; } vec![k0, k1] } else { vec![k0] };
            json!(["reduce", keys, t]) }
    }
}

fn cut(t: J, w: usize) -> J { if width(&t) == w { t } else { json!(["map", (0..w).map(|i| json!([i, "id"])).collect::<Vec<_>>(), J::Null, J::Null, J::Null, t]) } }

fn cols(w: usize, pre: &str) -> String { (0..w).map(|i| format!("{pre}c{i} AS c{i}")).collect::<Vec<_>>().join(", ") }

fn emit(t: &J, ctes: &mut Vec<String>) -> String {
    let a = t.as_array().unwrap();
    let body = match a[0].as_str().unwrap() {
        "table" => format!("SELECT a AS c0, b AS c1, c AS c2 FROM t{}", a[1]),
        "map" => { let i = emit(&a[5], ctes);
            let items: Vec<String> = a[1].as_array().unwrap().iter().enumerate().map(|(k, p)| { let c = format!("c{}", p[0]); let e = match p[1].as_str().unwrap() { "id" => c, "neg" => format!("-{c}"), "abs" => format!("abs({c})"), _ => format!("{c} + {}", p[2]) }; format!("{e} AS c{k}") }).collect();
            let w = if a[2].is_null() { String::new() } else { format!(" WHERE c{} > {}", a[2][0], a[2][1]) };
            let lim = if a[4].is_null() { String::new() } else { format!(" LIMIT {}", a[4]) }; let off = if a[3].is_null() { String::new() } else { format!(" OFFSET {}", a[3]) };
            format!("SELECT {} FROM {i}{w}{lim}{off}", items.join(", ")) }
        "join" => { let (wl, wr) = (width(&a[3]), width(&a[4])); let l = emit(&a[3], ctes); let r = emit(&a[4], ctes);
            let items: Vec<String> = (0..wl).map(|i| format!("l.c{i} AS c{i}")).chain((0..wr).map(|i| format!("r.c{i} AS c{}", wl + i))).collect();
            format!("SELECT {} FROM {l} AS l JOIN {r} AS r ON l.c{} = r.c{}", items.join(", "), a[1], a[2]) }
        "union" => { let w = width(&a[2]); let l = emit(&a[2], ctes); let r = emit(&a[3], ctes); format!("SELECT {} FROM {l} UNION{} SELECT {} FROM {r}", cols(w, ""), if a[1] == true { " ALL" } else { "" }, cols(w, "")) }
        op @ ("intersect" | "except") => { let w = width(&a[1]); let l = emit(&a[1], ctes); let r = emit(&a[2], ctes); format!("SELECT {} FROM {l} {} SELECT {} FROM {r}", cols(w, ""), op.to_uppercase(), cols(w, "")) }
        _ => { let i = emit(&a[2], ctes); let keys: Vec<String> = a[1].as_array().unwrap().iter().map(|k| format!("c{k}")).collect();
            let items: Vec<String> = keys.iter().enumerate().map(|(j, k)| format!("{k} AS c{j}")).collect();
            format!("SELECT {}, count(*) AS c{} FROM {i} GROUP BY {}", items.join(", "), keys.len(), keys.join(", ")) }
    };
    let name = format!("n{}", ctes.len());
    ctes.push(format!("{name} AS ({body})"));
    name
}

pub fn gen(rng: &mut Rng, _k: usize, _tier: &str) -> J {
    let with_limit = rng.chance(1, 4);
    let depth = 1 + rng.below(3) as u32;
    let tree = gen_tree(rng, depth, with_limit);
    // conforming instances: at most the declared number of rows, UNIQUE columns without repetition
    let tables: Vec<J> = TABLES.iter().map(|(_, n, cs)| { let rows = rng.below(*n as u64 + 1) as usize;
        let mut pools: Vec<Vec<i64>> = cs.iter().map(|_| (0..10).collect()).collect();
        json!((0..rows).map(|_| cs.iter().enumerate().map(|(j, (_, u))| if *u { let i = rng.below(pools[j].len() as u64) as usize; pools[j].remove(i) } else { rng.range(0, 4) }).collect::<Vec<i64>>()).collect::<Vec<_>>()) }).collect();
    let decl: Vec<J> = TABLES.iter().map(|(_, n, cs)| json!([n, cs.iter().map(|(_, u)| *u).collect::<Vec<_>>()])).collect();
    json!({"tree": tree, "tables": tables, "decl": decl, "with_limit": with_limit})
}

fn has_limit(t: &J) -> bool { match t { J::Array(a) => (a.first().and_then(|x| x.as_str()) == Some("map") && (!a[3].is_null() || !a[4].is_null())) || a.iter().any(has_limit), _ => false } }

pub fn eval(case: &J) -> Outcome {
    let mut out = Outcome::new();
    let mut ctes = vec![];
    let top = emit(&case["tree"], &mut ctes);
    let w = width(&case["tree"]);
    let sql = format!("WITH {} SELECT {} FROM {top}", ctes.join(", "), cols(w, ""));
    fn walk(t: &J, acc: &mut Vec<String>) { if let Some(a) = t.as_array() { if let Some(s) = a.first().and_then(|x| x.as_str()) { if ["table", "map", "join", "union", "intersect", "except", "reduce"].contains(&s) { acc.push(s.to_string()); } } for x in a { walk(x, acc); } } }
    let mut ops = vec![]; walk(&case["tree"], &mut ops); ops.sort(); ops.dedup();
    for k in &ops { out.tag(&format!("op={k}")); }
    let rels = world();
    let rel = match guarded(|| { let q = parse(&sql).map_err(|e| e.to_string())?; Relation::try_from(QueryWithRelations::new(&q, &rels)).map_err(|e| e.to_string()) }) {
        Ok(Ok(r)) => r, Ok(Err(e)) => { out.tag("trivial"); out.tag("compile-err"); out.aux = json!({"sql": sql, "err": e}); return out; }
        Err((loc, msg)) => { out.tag("trivial"); out.fail(&format!("C18/reltree/compile-panic/{}", site(&loc, &msg)), format!("{sql}: {msg}")); return out; } };
    let uniq: Vec<bool> = rel.schema().iter().map(|f| f.has_unique_or_primary_key_constraint()).collect();
    let size_max = rel.size().max().cloned();
    let limited = has_limit(&case["tree"]);
    let db = crate::exec::Db::new(RandomMode::Const(0.25));
    for (i, (name, _, cs)) in TABLES.iter().enumerate() {
        let rows: Vec<Vec<Cell>> = case["tables"][i].as_array().unwrap().iter().map(|r| r.as_array().unwrap().iter().map(|c| Cell::Int(c.as_i64().unwrap())).collect()).collect();
        db.create_table(name, &cs.iter().map(|(c, _)| *c).collect::<Vec<_>>(), &rows);
    }
    match db.run(&rel) {
        Ok((names, res)) => {
            let idx: Vec<usize> = (0..w).filter_map(|i| names.iter().position(|n| *n == format!("c{i}"))).collect();
            if idx.len() != w { out.tag("trivial"); out.fail("C08/reltree/output-columns", format!("{sql}: the relation outputs {:?}", names)); return out; }
            let show = |c: &Cell| -> String { match c { Cell::Null => "null".to_string(), Cell::Int(v) => v.to_string(), Cell::Real(x) if x.fract() == 0.0 => (*x as i64).to_string(), other => format!("{:?}", other) } };
            let mut rows: Vec<String> = res.iter().map(|r| idx.iter().map(|i| show(&r[*i])).collect::<Vec<_>>().join("|")).collect();
            rows.sort();
            if rows.is_empty() { out.tag("trivial"); }
            // property-level oracles on the implementation itself
            if let Some(m) = size_max { if res.len() as i64 > m { out.fail(&format!("C07/reltree/size-outside-bounds/{}", ops.join("+")), format!("{sql}: {} rows, declared size at most {m} (tables {})", res.len(), case["tables"])); } }
            for (k, u) in uniq.iter().enumerate() { if *u { let mut v: Vec<String> = res.iter().map(|r| show(&r[idx[k]])).filter(|s| s != "null").collect(); let n = v.len(); v.sort(); v.dedup();
                if v.len() != n { out.fail(&format!("C14/reltree/duplicate-in-unique-column/{}", ops.join("+")), format!("{sql}: column c{k} is declared unique but the rows are {:?} (tables {})", rows, case["tables"])); break; } } }
            // rows are compared unless a LIMIT / OFFSET makes them depend on the scan order
            out.imp = json!({"size_max": size_max, "uniq": uniq, "rows": if limited { J::Null } else { json!(rows) }});
            out.aux = json!({"sql": sql});
        }
        // two nodes given the same 4-character content-derived name (the recorded C16 / C17 finding): nothing to compare
        Err(e) if e.contains("duplicate WITH table name") => { out.tag("trivial"); out.tag("cte-name-collision"); out.fail("C17/sqlite/reltree-not-executable/cte-name-collision", format!("{sql}: {e}")); }
        Err(e) => { out.imp = json!("exec-error"); out.fail("C17/sqlite/reltree-not-executable", format!("{sql}: {e}")); }
    }
    out
}

//! Stream `intervals`: histories of interval-set operations on the real `Intervals<B>`
//! for B in {i64, f64, String} (rank-encoded), compared with the Lean model, plus a naive
//! set-of-points oracle on the rank grid.
use crate::common::*;
use qrlew::data_type::intervals::{Bound, Intervals};
use serde_json::{json, Value};

const CAP: usize = 128;

fn gen_set(rng: &mut Rng, grid: i64, maxn: u64) -> Vec<[i64; 2]> {
    // an arbitrary (unsorted, possibly overlapping) list of intervals; the Intervals value is built through the API
    let n = rng.below(maxn + 1);
    (0..n).map(|_| { let a = rng.range(0, grid); let w = if rng.chance(1, 2) { 0 } else { rng.range(0, 6) }; [a, (a + w).min(grid)] }).collect()
}

pub fn gen(rng: &mut Rng, k: usize, tier: &str) -> Value {
    let kind = *rng.pick(&["int", "float", "text"]);
    // profile: small grids force touching / nested / equal endpoints; stride profiles force capacity crossings
    let profile = k % 4;
    let (grid, nops) = match profile {
        0 => (24, rng.range(1, 30)),
        1 => (80, rng.range(1, 80)),
        2 => (600, rng.range(100, if tier == "thorough" { 600 } else { 400 })),
        _ => (320, rng.range(100, 300)),
    };
    let mut ops: Vec<Value> = vec![];
    let init = gen_set(rng, grid, if profile >= 2 { 150 } else { 6 });
    for j in 0..nops {
        let mut r = rng.below(100);
        if profile == 3 && r >= 70 && rng.chance(3, 4) { r = rng.below(70); }
        if profile >= 2 && r < 70 {
            // mostly disjoint singletons / short intervals on an even stride => many intervals
            let a = 2 * rng.range(0, grid / 2);
            if profile == 3 && j % 8 != 7 { let a = 2 * ((j as i64) % (grid / 2)); ops.push(json!(["U", a, a])); }
            else { ops.push(json!(["U", a, a + rng.range(0, 1).min(grid - a)])); }
        } else if r < 45 {
            let a = rng.range(0, grid); let w = rng.range(0, 8); let b = rng.range(a, (a + w).min(grid));
            ops.push(json!(["U", a, b]));
        } else if r < 60 {
            let a = rng.range(0, grid); let b = rng.range(a, grid);
            ops.push(json!(["I", a, b]));
        } else if r < 78 {
            ops.push(json!(["US", gen_set(rng, grid, if profile >= 2 { 140 } else { 5 })]));
        } else if r < 96 {
            ops.push(json!(["IS", gen_set(rng, grid, if profile >= 2 { 140 } else { 5 })]));
        } else {
            ops.push(json!(["H"]));
        }
    }
    json!({"kind": kind, "grid": grid, "init": init, "ops": ops})
}

trait Rank: Bound { fn of_rank(r: i64) -> Self; fn to_rank(&self) -> i64; }
impl Rank for i64 { fn of_rank(r: i64) -> i64 { r * 3 - 500 } fn to_rank(&self) -> i64 { (self + 500) / 3 } }
impl Rank for f64 { fn of_rank(r: i64) -> f64 { (r as f64) * 0.25 - 10.0 } fn to_rank(&self) -> i64 { ((self + 10.0) * 4.0) as i64 } }
impl Rank for String { fn of_rank(r: i64) -> String { format!("k{:05}", r) } fn to_rank(&self) -> i64 { self[1..].parse().unwrap_or(-1) } }

fn build<B: Rank>(s: &Value) -> Intervals<B> {
    s.as_array().unwrap().iter().fold(Intervals::<B>::empty(), |acc, p| {
        acc.union_interval(B::of_rank(p[0].as_i64().unwrap()), B::of_rank(p[1].as_i64().unwrap()))
    })
}

fn canon<B: Rank>(x: &Intervals<B>, grid: i64) -> Vec<[i64; 2]> {
    // decode bounds back to ranks (of_rank is strictly monotone, so search is fine)
    let dec = |b: &B| -> i64 { let r = b.to_rank(); if r >= 0 && r <= grid && &B::of_rank(r) == b { r } else { -1 } };
    x.iter().map(|[a, b]| [dec(a), dec(b)]).collect()
}

fn points(set: &[[i64; 2]], grid: i64) -> Vec<bool> {
    let mut v = vec![false; (grid + 1) as usize];
    for [a, b] in set { for x in *a..=*b { v[x as usize] = true; } }
    v
}

fn run<B: Rank>(case: &Value, out: &mut Outcome) -> Value {
    let grid = case["grid"].as_i64().unwrap();
    let mut cur: Intervals<B> = build(&case["init"]);
    // exact semantics on the grid
    let to_pairs = |v: &Value| -> Vec<[i64; 2]> { v.as_array().unwrap().iter().map(|p| [p[0].as_i64().unwrap(), p[1].as_i64().unwrap()]).collect() };
    let mut exact = points(&to_pairs(&case["init"]), grid);
    let mut maxlen = cur.len();
    let mut collapsed = false;
    for (step, op) in case["ops"].as_array().unwrap().iter().enumerate() {
        let before_pts = points(&canon(&cur, grid), grid);
        match op[0].as_str().unwrap() {
            "U" => { let (a, b) = (op[1].as_i64().unwrap(), op[2].as_i64().unwrap());
                     cur = cur.union_interval(B::of_rank(a), B::of_rank(b)); for x in a..=b { exact[x as usize] = true; } }
            "I" => { let (a, b) = (op[1].as_i64().unwrap(), op[2].as_i64().unwrap());
                     cur = cur.intersection_interval(B::of_rank(a), B::of_rank(b)); for x in 0..=grid { if x < a || x > b { exact[x as usize] = false; } } }
            "US" => { let s = to_pairs(&op[1]); cur = cur.union(build(&op[1])); let p = points(&s, grid); for x in 0..=grid as usize { exact[x] |= p[x]; } }
            "IS" => { let s = to_pairs(&op[1]); cur = cur.intersection(build(&op[1])); let p = points(&s, grid); for x in 0..=grid as usize { exact[x] &= p[x]; } }
            "H" => { cur = cur.into_interval(); }
            _ => panic!("bad op"),
        }
        maxlen = maxlen.max(cur.len());
        // oracle (independent of the Lean model): invariant + no point lost
        let c = canon(&cur, grid);
        let mut ok_sorted = c.len() < CAP;
        for i in 0..c.len() { if c[i][0] > c[i][1] || c[i][0] < 0 { ok_sorted = false; } if i > 0 && c[i - 1][1] >= c[i][0] { ok_sorted = false; } }
        if !ok_sorted { out.fail("C11/intervals/invariant", format!("after step {step} ({op}) the interval list is not sorted/disjoint/within capacity: {:?}", c)); break; }
        let got = points(&c, grid);
        if op[0] == "U" || op[0] == "US" {
            // precision lost by a union = the capacity collapse happened in this step
            let operand = if op[0] == "U" { points(&[[op[1].as_i64().unwrap(), op[2].as_i64().unwrap()]], grid) } else { points(&to_pairs(&op[1]), grid) };
            if (0..=grid as usize).any(|x| got[x] && !before_pts[x] && !operand[x]) { collapsed = true; }
        }
        if let Some(x) = (0..=grid as usize).find(|&x| exact[x] && !got[x]) {
            out.fail("C11/intervals/lost-point", format!("after step {step} ({op}) rank {x} is in the exact result but not in {:?}", c)); break;
        }
        // contains / is_subset_of agree with the denotation
        let probe = (step as i64 * 7) % (grid + 1);
        if cur.contains(&B::of_rank(probe)) != got[probe as usize] {
            out.fail("C11/intervals/contains", format!("contains(rank {probe}) = {} but intervals are {:?}", cur.contains(&B::of_rank(probe)), c)); break;
        }
    }
    if maxlen >= 100 { out.tag("len>=100"); }
    if collapsed { out.tag("capacity-collapse"); }
    json!(canon(&cur, grid))
}

pub fn eval(case: &Value) -> Outcome {
    let mut out = Outcome::new();
    let kind = case["kind"].as_str().unwrap_or("int").to_string();
    out.tag(&format!("kind={kind}"));
    let r = guarded(|| {
        let mut o = Outcome::new();
        let v = match kind.as_str() { "int" => run::<i64>(case, &mut o), "float" => run::<f64>(case, &mut o), _ => run::<String>(case, &mut o) };
        (v, o)
    });
    match r {
        Ok((v, o)) => { out.imp = v; out.oracle.extend(o.oracle); out.tags.extend(o.tags); }
        Err((loc, msg)) => { out.imp = json!("panic"); out.fail(&format!("C11/intervals/panic/{}", site_file(&loc)), format!("panic at {loc}: {msg}")); }
    }
    out
}

//! stream `dpagg`: the whole DP rewriting of an aggregation (`Reduce::differentially_private_aggregates`: the sums it
//! derives, their clipping constants, `l2_clipped_sums`, the recombination into count / sum / avg / variance / stddev),
//! executed on SQLite with the noise draws at 0, against the Lean model `Qrlew.DpAgg` (Float instance).  Clipping is active
//! in a good share of the cases (units with more rows than the declared multiplicity), so the comparison is not the identity.
use crate::common::*;
use crate::exec::{Cell, RandomMode};
use crate::ir;
use qrlew::{builder::{Ready, With}, differential_privacy::DpParameters, hierarchy::Hierarchy, privacy_unit_tracking::PrivacyUnit,
            relation::{Relation, Variant as _}, sql::{parse, relation::QueryWithRelations}, DataType};
use serde_json::{json, Value as J};
use std::sync::Arc;

pub fn gen(rng: &mut Rng, _k: usize, _tier: &str) -> J {
    let n_units = 1 + rng.below(6); let n_groups = 1 + rng.below(3);
    let integer = rng.chance(1, 3);
    let a = if integer { *rng.pick(&[4.0, 10.0, 1.0]) } else { *rng.pick(&[4.0, 10.0, 0.5]) };
    let n_rows = rng.below(28);
    // a few units own most rows, so that the multiplicity bound is exceeded
    let rows: Vec<J> = (0..n_rows).map(|_| { let u = if rng.chance(1, 2) { 0 } else { rng.below(n_units) };
        let x = if rng.chance(1, 10) { J::Null } else if integer { json!(rng.range(-(a as i64), a as i64) as f64) } else { json!((rng.range(-(2.0 * a) as i64, (2.0 * a) as i64) as f64) * 0.5) };
        // a second aggregated column with its own NULL pattern and range [0, 3A]
        let y = if rng.chance(1, 4) { J::Null } else { json!((rng.range(0, (6.0 * a) as i64) as f64) * 0.5) };
        json!([u, rng.below(n_groups), x, y]) }).collect();
    // `lo_zero`: a one-sided declared range [0, A] (the values are folded into it)
    let lo_zero = rng.chance(1, 3);
    let rows: Vec<J> = if lo_zero { rows.into_iter().map(|r| json!([r[0], r[1], r[2].as_f64().map(|x| x.abs()), r[3]])).collect() } else { rows };
    json!({"n_units": n_units, "n_groups": n_groups, "a": a, "integer": integer, "lo_zero": lo_zero, "two_columns": rng.chance(1, 2), "rows": rows, "mult": *rng.pick(&[1.0, 2.0, 3.0, 50.0]),
           "eps": *rng.pick(&[1.0, 100.0]), "delta": *rng.pick(&[1e-3, 1e-6])})
}

pub fn eval(case: &J) -> Outcome {
    let mut out = Outcome::new();
    let (a, ng, mult) = (case["a"].as_f64().unwrap(), case["n_groups"].as_i64().unwrap(), case["mult"].as_f64().unwrap());
    let integer = case["integer"].as_bool().unwrap();
    let lo_zero = case["lo_zero"].as_bool().unwrap();
    let lo = if lo_zero { 0.0 } else { -a };
    let xt = if integer { DataType::integer_interval(lo as i64, a as i64) } else { DataType::float_interval(lo, a) };
    let table: Relation = Relation::table().name("t").schema(vec![
        ("pu", DataType::integer_interval(0, 10)), ("g", DataType::integer_values((0..ng).collect::<Vec<i64>>())), ("x", DataType::optional(xt)), ("y", DataType::optional(DataType::float_interval(0., 3. * a))),
    ].into_iter().collect::<qrlew::relation::Schema>()).size(100).build();
    let rels: Hierarchy<Arc<Relation>> = vec![(vec!["t".to_string()], Arc::new(table))].into_iter().collect();
    let two = case["two_columns"].as_bool().unwrap_or(false);
    let sql = if two { "SELECT g AS g, count(x) AS c, sum(x) AS s, avg(x) AS m, variance(x) AS v, stddev(x) AS d, count(y) AS c2, sum(y) AS s2, avg(y) AS m2, variance(y) AS v2, stddev(y) AS d2 FROM t GROUP BY g" }
              else { "SELECT g AS g, count(x) AS c, sum(x) AS s, avg(x) AS m, variance(x) AS v, stddev(x) AS d FROM t GROUP BY g" };
    let pu = PrivacyUnit::from(vec![("t", vec![], "pu")]);
    let p = DpParameters::new(case["eps"].as_f64().unwrap(), case["delta"].as_f64().unwrap(), 0.5, mult, 1.0, 5);
    let rel = match guarded(|| { let q = parse(sql).map_err(|e| e.to_string())?; Relation::try_from(QueryWithRelations::new(&q, &rels)).map_err(|e| e.to_string()) }) {
        Ok(Ok(r)) => r, Ok(Err(e)) => { out.tag("trivial"); out.tag("compile-err"); let _ = e; return out; }
        Err((loc, msg)) => { out.tag("trivial"); out.fail(&format!("C18/dpagg/compile-panic/{}", site(&loc, &msg)), msg); return out; } };
    let dp = match guarded(|| rel.rewrite_with_differential_privacy(&rels, None, pu.clone(), p.clone())) {
        Ok(Ok(d)) => d, Ok(Err(e)) => { out.tag("trivial"); out.tag("dp-err"); let _ = e; return out; }
        Err((loc, msg)) => { out.tag("trivial"); out.fail(&format!("C18/dpagg/rewrite-panic/{}", site(&loc, &msg)), msg); return out; } };
    let rows: Vec<Vec<Cell>> = case["rows"].as_array().unwrap().iter().map(|r| vec![Cell::Int(r[0].as_i64().unwrap()), Cell::Int(r[1].as_i64().unwrap()),
        match r[2].as_f64() { None => Cell::Null, Some(x) => { if integer { Cell::Int(x as i64) } else { Cell::Real(x) } } }, r[3].as_f64().map_or(Cell::Null, Cell::Real)]).collect();
    let db = crate::exec::Db::new(RandomMode::Const(1.0)); // ln(1) = 0: every Box–Muller draw is exactly 0 (with 0.25 it is σ·6e-17, visible when σ is huge)
    db.create_table("t", &["pu", "g", "x", "y"], &rows);
    let facts = ir::facts(dp.relation());
    if !facts.taus.is_empty() { out.tag("tau"); }
    match db.run(dp.relation()) {
        Ok((names, res)) => {
            let idx = |n: &str| names.iter().position(|x| x == n);
            let wanted: Vec<&str> = if two { vec!["g", "c", "s", "m", "v", "d", "c2", "s2", "m2", "v2", "d2"] } else { vec!["g", "c", "s", "m", "v", "d"] };
            let pos: Vec<usize> = wanted.iter().filter_map(|n| idx(n)).collect();
            if pos.len() != wanted.len() { out.tag("trivial"); out.fail("C08/dpagg/output-columns", format!("the DP relation outputs {:?}", names)); return out; }
            let (gi, ci, si, mi, vi, di) = (pos[0], pos[1], pos[2], pos[3], pos[4], pos[5]);
            let mut table: Vec<J> = res.iter().map(|r| { let mut v = vec![json!(r[gi].as_f64().map(|x| x as i64))]; v.extend(pos[1..].iter().map(|i| json!(r[*i].as_f64()))); J::Array(v) }).collect();
            table.sort_by(|x, y| x[0].as_i64().cmp(&y[0].as_i64()));
            // the clipping constants of the derived columns, grouped by the aggregated column they belong to (told apart by the declared bound)
            let mut clips: Vec<(String, f64)> = facts.clips.clone(); clips.sort_by(|x, y| x.0.cmp(&y.0));
            let base = |n: &str| n.trim_start_matches("_ONE_").trim_start_matches("_SQUARE_").to_string();
            let group = |bound: f64| -> J { let b = clips.iter().find(|(n, c)| !n.starts_with("_ONE_") && !n.starts_with("_SQUARE_") && (c - bound).abs() <= 1e-9 * bound.abs().max(1.0)).map(|(n, _)| n.clone());
                match b { None => J::Null, Some(b) => { let get = |pre: &str| clips.iter().find(|(n, _)| *n == format!("{pre}{b}")).map(|(_, c)| *c); json!([get("_ONE_"), get(""), get("_SQUARE_")]) } } };
            let _ = base;
            out.aux = json!({"table": table, "n_clips": clips.len(), "clips_x": group(a * mult), "clips_y": if two { group(3.0 * a * mult) } else { J::Null }});
            out.imp = json!({"agg_ok": true});
            let units: std::collections::BTreeMap<i64, usize> = rows.iter().fold(Default::default(), |mut m, r| { if let Cell::Int(u) = r[0] { *m.entry(u).or_default() += 1; } m });
            if units.values().any(|n| *n as f64 > mult) { out.tag("clipping-active"); } else { out.tag("clipping-inactive"); }
            if rows.len() < 2 { out.tag("trivial"); }
            // property-level oracle (C09): with clipping inactive the released statistics are those of the data
            if !units.values().any(|n| *n as f64 > mult) {
                for g in 0..ng {
                    let Some(r) = res.iter().find(|r| r[gi].as_f64().map(|x| x as i64) == Some(g)) else { out.fail("C09/dpagg/group-missing", format!("group {g} (listed in the type of g) is absent from the DP result {:?}; rows {}", res, case["rows"])); break; };
                  for col in 0..(if two { 2 } else { 1 }) {
                    let (ci, si, mi, vi, di) = (pos[1 + 5 * col], pos[2 + 5 * col], pos[3 + 5 * col], pos[4 + 5 * col], pos[5 + 5 * col]);
                    let xs: Vec<f64> = rows.iter().filter(|r| r[1] == Cell::Int(g)).filter_map(|r| r[2 + col].as_f64()).collect();
                    let n = xs.len() as f64; let sum: f64 = xs.iter().sum(); let mean = if n > 0.0 { sum / n } else { 0.0 };
                    let pvar = if n > 0.0 { xs.iter().map(|x| (x - mean) * (x - mean)).sum::<f64>() / n } else { 0.0 };
                    let svar = if n > 1.0 { pvar * n / (n - 1.0) } else { pvar };
                    let near = |a: Option<f64>, b: f64| a.map_or(false, |a| (a - b).abs() <= 1e-6 * (1.0 + b.abs()));
                    let bad = if !near(r[ci].as_f64(), n) { Some("count") } else if !near(r[si].as_f64(), sum) { Some("sum") } else if !near(r[mi].as_f64(), mean) { Some("avg") }
                        else if !(near(r[vi].as_f64(), pvar) || near(r[vi].as_f64(), svar)) { Some("var") } else if !(near(r[di].as_f64(), pvar.sqrt()) || near(r[di].as_f64(), svar.sqrt())) { Some("std") } else { None };
                    if let Some(k) = bad { out.fail(&format!("C09/dpagg/{k}-mismatch"), format!("multiplicity {mult}, no unit owns more rows, noise draws 0: group {g} has {} values {:?} (count {n}, sum {sum}, mean {mean}, variance {pvar} / {svar}) but the DP relation released {:?}", if col == 0 { "x" } else { "y" }, xs, r)); break; }
                  }
                  if !out.oracle.is_empty() { break; }
                }
            }
        }
        // two nodes given the same 4-character content-derived name (the recorded C16 / C17 finding): nothing to compare
        Err(e) if e.contains("duplicate WITH table name") => { out.tag("trivial"); out.tag("cte-name-collision"); out.fail("C17/sqlite/dpagg-not-executable/cte-name-collision", e); }
        Err(e) => { out.imp = json!("exec-error"); out.fail("C17/sqlite/dpagg-not-executable", e); }
    }
    out
}

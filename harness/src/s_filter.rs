//! Streams for C10: `filter` (integer-column row types: real DataType::filter vs Lean model + row oracle) and
//! `filterx` (mixed column kinds, nullable columns, IN lists, unsupported sub-terms: row oracle only).
use crate::common::*;
use crate::s_dtype::mem;
use crate::tygen::*;
use qrlew::{data_type::{self, function::Function as _, value::Value, DataType}, expr::Expr};
use serde_json::{json, Value as J};

// predicate AST: ["gt"|"ge"|"lt"|"le"|"eq", opnd, opnd] | ["and", p, q] | ["or", p, q] | ["other", p] (an unsupported wrapper: NOT(NOT p))
// opnd: ["col", i] | ["lit", k]
fn gen_opnd(rng: &mut Rng, ncols: usize) -> J { if rng.chance(3, 5) { json!(["col", rng.below(ncols as u64)]) } else { json!(["lit", rng.range(-3, 9)]) } }
fn gen_pred(rng: &mut Rng, depth: u32, ncols: usize) -> J {
    if depth == 0 || rng.chance(2, 5) {
        let op = *rng.pick(&["gt", "ge", "lt", "le", "eq"]);
        let l = gen_opnd(rng, ncols); let mut r = gen_opnd(rng, ncols);
        if jtag(&l) == "lit" && jtag(&r) == "lit" { r = json!(["col", rng.below(ncols as u64)]); }
        return json!([op, l, r]);
    }
    match rng.below(7) { 0 | 1 | 2 => json!(["and", gen_pred(rng, depth - 1, ncols), gen_pred(rng, depth - 1, ncols)]),
                         3 | 4 | 5 => json!(["or", gen_pred(rng, depth - 1, ncols), gen_pred(rng, depth - 1, ncols)]),
                         _ => json!(["other", gen_pred(rng, depth - 1, ncols)]) }
}

pub fn gen(rng: &mut Rng, k: usize, _tier: &str) -> J {
    let ncols = 1 + rng.below(3) as usize;
    let cols: Vec<Vec<[i64; 2]>> = (0..ncols).map(|_| { let n = 1 + rng.below(3); (0..n).map(|_| { let a = rng.range(-4, 10); let b = if rng.chance(1, 3) { a } else { rng.range(-4, 10) }; [a.min(b), a.max(b)] }).collect() }).collect();
    let pred = gen_pred(rng, 1 + (k % 3) as u32, ncols);
    // rows: drawn from the column sets (endpoints, neighbours)
    let rows: Vec<Vec<i64>> = (0..6).map(|_| cols.iter().map(|c| { let p = rng.pick(c); rng.range(p[0], p[1]) }).collect()).collect();
    json!({"cols": cols, "pred": pred, "rows": rows})
}

fn opnd_expr(o: &J) -> Expr { if jtag(o) == "col" { Expr::col(format!("c{}", o[1].as_u64().unwrap())) } else { Expr::val(o[1].as_i64().unwrap()) } }
pub fn pred_expr(p: &J) -> Expr {
    match jtag(p) {
        "gt" => Expr::gt(opnd_expr(&p[1]), opnd_expr(&p[2])), "ge" => Expr::gt_eq(opnd_expr(&p[1]), opnd_expr(&p[2])),
        "lt" => Expr::lt(opnd_expr(&p[1]), opnd_expr(&p[2])), "le" => Expr::lt_eq(opnd_expr(&p[1]), opnd_expr(&p[2])),
        "eq" => Expr::eq(opnd_expr(&p[1]), opnd_expr(&p[2])),
        "and" => Expr::and(pred_expr(&p[1]), pred_expr(&p[2])), "or" => Expr::or(pred_expr(&p[1]), pred_expr(&p[2])),
        _ => Expr::not(Expr::not(pred_expr(&p[1]))),
    }
}

pub fn eval(case: &J) -> Outcome {
    let mut out = Outcome::new();
    let cols: Vec<data_type::Integer> = case["cols"].as_array().unwrap().iter().map(|c| c.as_array().unwrap().iter().fold(data_type::Integer::empty(), |a, p| a.union_interval(p[0].as_i64().unwrap(), p[1].as_i64().unwrap()))).collect();
    let t = DataType::structured(cols.iter().enumerate().map(|(i, c)| (format!("c{i}"), DataType::Integer(c.clone()))).collect::<Vec<_>>());
    let e = pred_expr(&case["pred"]);
    let r = guarded(|| t.filter(&e));
    let ft = match r { Ok(ft) => ft, Err((loc, msg)) => { out.imp = json!("panic"); out.fail(&format!("C18/filter/panic/{}", site(&loc, &msg)), format!("({t}).filter({e}) panicked: {msg}")); return out; } };
    // canonical: per column interval list, if still an integer column
    let mut canon = vec![]; let mut all_int = true;
    if let DataType::Struct(s) = &ft { for (_, ct) in s.fields() { match ct.as_ref() { DataType::Integer(i) => canon.push(json!(i.iter().map(|[a, b]| json!([a, b])).collect::<Vec<_>>())), other => { all_int = false; canon.push(json!(other.to_string())); } } } } else { all_int = false; }
    out.imp = json!({"cols": canon});
    if !all_int { out.tag("non-int-result"); }
    if ft != t { out.tag("narrowed"); } else { out.tag("trivial"); }
    oracle_rows(&mut out, &t, &ft, &e, case["rows"].as_array().unwrap().iter().map(|r| Value::structured(r.as_array().unwrap().iter().enumerate().map(|(i, x)| (format!("c{i}"), Value::integer(x.as_i64().unwrap()))).collect::<Vec<_>>())).collect(), "int");
    out
}

fn oracle_rows(out: &mut Outcome, t: &DataType, ft: &DataType, e: &Expr, rows: Vec<Value>, cls: &str) {
    let mut sat = 0;
    for row in rows {
        if !mem(t, &row) { continue; }
        match guarded(|| e.value(&row)) {
            Ok(Ok(v)) => {
                let truth = match &v { Value::Boolean(b) => **b, Value::Optional(o) => matches!(o.as_deref(), Some(Value::Boolean(b)) if **b), _ => false };
                if truth { sat += 1; if !mem(ft, &row) { let cls = format!("{cls}{}", if crate::s_dtype::vclass(&row) == "huge" { "/huge" } else { "" }); out.fail(&format!("C10/filter/dropped-row/{cls}"), format!("row {row} of {t} satisfies {e} but is not in the narrowed type {ft}")); break; } }
            }
            _ => {}
        }
    }
    if sat > 0 { out.tag("row-satisfies"); }
}

// ------------------------------------------------------------------------------------------------
// filterx: mixed kinds

fn gen_lit_for(rng: &mut Rng, t: &J) -> J {
    let base = if jtag(t) == "opt" { &t[1] } else { t };
    match jtag(base) {
        "int" => if rng.chance(1, 4) { json!(["float", rng.range(-8, 16) as f64 * 0.5]) } else { json!(["int", rng.range(-3, 9)]) },
        "float" => if rng.chance(1, 4) { json!(["int", rng.range(-3, 9)]) } else { json!(["float", rng.range(-8, 32) as f64 * 0.25]) },
        "text" => json!(["text", rng.pick(&TEXTS).to_string()]),
        "bool" => json!(["bool", rng.chance(1, 2)]),
        "date" => json!(["date", rng.range(-400, 9000)]),
        "datetime" => json!(["datetime", rng.range(-400, 9000) * 86400]),
        _ => json!(["int", rng.range(-3, 9)]),
    }
}

fn gen_predx(rng: &mut Rng, depth: u32, cols: &[J]) -> J {
    if depth == 0 || rng.chance(2, 5) {
        let i = rng.below(cols.len() as u64) as usize;
        return match rng.below(10) {
            0..=4 => { let op = *rng.pick(&["gt", "ge", "lt", "le", "eq"]); let lit = json!(["val", gen_lit_for(rng, &cols[i])]); if rng.chance(1, 3) { json!([op, lit, ["col", i]]) } else { json!([op, ["col", i], lit]) } }
            5 | 6 => { let j = rng.below(cols.len() as u64) as usize; let op = *rng.pick(&["gt", "ge", "lt", "le", "eq"]); json!([op, ["col", i], ["col", j]]) }
            // a test compared with a boolean literal, in either order: (a > 5) = FALSE holds where the test does not
            7 if rng.chance(1, 3) => { let op = *rng.pick(&["gt", "le", "eq"]); let inner = if rng.chance(1, 3) { let n = 1 + rng.below(3); json!(["in", ["col", i], (0..n).map(|_| gen_lit_for(rng, &cols[i])).collect::<Vec<_>>()]) } else { json!([op, ["col", i], ["val", gen_lit_for(rng, &cols[i])]]) };
                                       json!(["eqbool", inner, rng.chance(1, 2), rng.chance(1, 2)]) }
            7 => { let n = 1 + rng.below(3); json!(["in", ["col", i], (0..n).map(|_| gen_lit_for(rng, &cols[i])).collect::<Vec<_>>()]) }
            8 if rng.chance(1, 2) => json!(["plusgt", ["col", i], ["val", gen_lit_for(rng, &cols[i])]]),   // (col + 1) > lit : unsupported shape
            // a function of a numeric column (one-to-one or not) tested against a list or a bound: whatever the filter narrows, it may not
            // narrow the column as if the function were not there
            8 => { let base = if jtag(&cols[i]) == "opt" { &cols[i][1] } else { &cols[i] };
                   if !matches!(jtag(base), "int" | "float") { json!(["boolcol", ["col", i]]) } else {
                   let f = *rng.pick(&["neg", "neg", "abs", "exp", "double"]);
                   if rng.chance(1, 2) { let n = 1 + rng.below(3); json!(["fnin", f, ["col", i], (0..n).map(|_| json!(["int", rng.range(-4, 6)])).collect::<Vec<_>>()]) }
                   else { let op = *rng.pick(&["gt", "le", "eq"]); json!(["fncmp", f, op, ["col", i], ["val", ["int", rng.range(-4, 6)]]]) } } }
            _ => json!(["boolcol", ["col", i]]),
        };
    }
    match rng.below(7) { 0 | 1 | 2 => json!(["and", gen_predx(rng, depth - 1, cols), gen_predx(rng, depth - 1, cols)]),
                         3 | 4 | 5 => json!(["or", gen_predx(rng, depth - 1, cols), gen_predx(rng, depth - 1, cols)]),
                         _ => json!(["other", gen_predx(rng, depth - 1, cols)]) }
}

pub fn genx(rng: &mut Rng, k: usize, _tier: &str) -> J {
    let ncols = 1 + rng.below(3) as usize;
    let cols: Vec<J> = (0..ncols).map(|_| { let t = match rng.below(8) { 0 | 1 | 2 => gen_int_ty(rng, false), 3 | 4 => gen_float_ty(rng, false), 5 => gen_text_ty(rng), 6 => json!(["bool", [[0, 1]]]), _ => { let a = rng.range(-400, 9000); json!(["date", [[a, a + rng.range(0, 900)]]]) } }; if rng.chance(1, 4) { json!(["opt", t]) } else { t } }).collect();
    let pred = gen_predx(rng, 1 + (k % 3) as u32, &cols);
    let rows: Vec<Vec<J>> = (0..8).map(|_| cols.iter().map(|c| gen_val_in(rng, c).unwrap_or(json!(["none"]))).collect()).collect();
    json!({"cols": cols, "pred": pred, "rows": rows})
}

fn opndx(o: &J) -> Expr { if jtag(o) == "col" { Expr::col(format!("c{}", o[1].as_u64().unwrap())) } else { Expr::Value(val_of(&o[1])) } }
fn wrapx(f: &str, e: Expr) -> Expr { match f { "neg" => Expr::opposite(e), "abs" => Expr::abs(e), "exp" => Expr::exp(e), _ => Expr::multiply(Expr::val(2), e) } }
fn predx_expr(p: &J) -> Expr {
    match jtag(p) {
        "gt" => Expr::gt(opndx(&p[1]), opndx(&p[2])), "ge" => Expr::gt_eq(opndx(&p[1]), opndx(&p[2])),
        "lt" => Expr::lt(opndx(&p[1]), opndx(&p[2])), "le" => Expr::lt_eq(opndx(&p[1]), opndx(&p[2])),
        "eq" => Expr::eq(opndx(&p[1]), opndx(&p[2])),
        "in" => Expr::in_list(opndx(&p[1]), Expr::list(p[2].as_array().unwrap().iter().map(val_of).collect::<Vec<Value>>())),
        "plusgt" => Expr::gt(Expr::plus(opndx(&p[1]), Expr::val(1)), opndx(&p[2])),
        "eqbool" => { let (t, b) = (predx_expr(&p[1]), Expr::val(p[2].as_bool().unwrap())); if p[3] == true { Expr::eq(b, t) } else { Expr::eq(t, b) } }
        "fnin" => Expr::in_list(wrapx(p[1].as_str().unwrap(), opndx(&p[2])), Expr::list(p[3].as_array().unwrap().iter().map(val_of).collect::<Vec<Value>>())),
        "fncmp" => { let l = wrapx(p[1].as_str().unwrap(), opndx(&p[3])); let r = opndx(&p[4]); match p[2].as_str().unwrap() { "gt" => Expr::gt(l, r), "le" => Expr::lt_eq(l, r), _ => Expr::eq(l, r) } }
        "boolcol" => opndx(&p[1]),
        "and" => Expr::and(predx_expr(&p[1]), predx_expr(&p[2])), "or" => Expr::or(predx_expr(&p[1]), predx_expr(&p[2])),
        _ => Expr::not(Expr::not(predx_expr(&p[1]))),
    }
}

pub fn evalx(case: &J) -> Outcome {
    let mut out = Outcome::new();
    let cols: Vec<DataType> = case["cols"].as_array().unwrap().iter().map(ty_of).collect();
    let t = DataType::structured(cols.iter().enumerate().map(|(i, c)| (format!("c{i}"), c.clone())).collect::<Vec<_>>());
    let e = predx_expr(&case["pred"]);
    let ft = match guarded(|| t.filter(&e)) { Ok(ft) => ft, Err((loc, msg)) => { out.tag("trivial"); out.fail(&format!("C18/filter/panic/{}", site(&loc, &msg)), format!("({t}).filter({e}) panicked: {msg}")); return out; } };
    if ft != t { out.tag("narrowed"); } else { out.tag("trivial"); }
    let rows: Vec<Value> = case["rows"].as_array().unwrap().iter().map(|r| Value::structured(r.as_array().unwrap().iter().enumerate().map(|(i, x)| (format!("c{i}"), val_of(x))).collect::<Vec<_>>())).collect();
    let has_opt = cols.iter().any(|c| matches!(c, DataType::Optional(_)));
    // a comparison between columns of different kinds (bool vs text, date vs int, ...) goes through cross-variant conversions
    fn kind_of(t: &J) -> &str { let b = if jtag(t) == "opt" { &t[1] } else { t }; match jtag(b) { "int" | "float" => "num", k => k } }
    fn cross(p: &J, cols: &[J]) -> bool {
        match jtag(p) {
            "and" | "or" => cross(&p[1], cols) || cross(&p[2], cols),
            "other" => cross(&p[1], cols),
            "gt" | "ge" | "lt" | "le" | "eq" => jtag(&p[1]) == "col" && jtag(&p[2]) == "col" && kind_of(&cols[p[1][1].as_u64().unwrap() as usize]) != kind_of(&cols[p[2][1].as_u64().unwrap() as usize]),
            _ => false,
        }
    }
    let cross_kind = cross(&case["pred"], case["cols"].as_array().unwrap());
    let cls = format!("{}{}", if has_opt { "mixed-nullable" } else { "mixed" }, if cross_kind { "/cross-kind" } else { "" });
    oracle_rows(&mut out, &t, &ft, &e, rows, &cls);
    out
}

// ------------------------------------------------------------------------------------------------
// stream `joinnarrow`: the column types of a Join after its ON predicate, for the four kinds of join, against `Qrlew.joinNarrow`
// (the function `C10.join_matched_sound` / `join_preserved_side_untouched` are about)

pub fn gen_join(rng: &mut Rng, k: usize, _tier: &str) -> J {
    let (nl, nr) = (1 + rng.below(2) as usize, 1 + rng.below(2) as usize);
    let cols: Vec<Vec<[i64; 2]>> = (0..nl + nr).map(|_| { let n = 1 + rng.below(3); (0..n).map(|_| { let a = rng.range(-4, 10); let b = if rng.chance(1, 3) { a } else { rng.range(-4, 10) }; [a.min(b), a.max(b)] }).collect() }).collect();
    json!({"cols": cols, "nl": nl, "pred": gen_pred(rng, 1 + (k % 3) as u32, nl + nr), "kind": *rng.pick(&["inner", "left", "right", "full"])})
}

pub fn eval_join(case: &J) -> Outcome {
    use qrlew::{builder::{Ready, With}, relation::{Join, Relation, Variant as _}};
    use std::sync::Arc;
    let mut out = Outcome::new();
    let nl = case["nl"].as_u64().unwrap() as usize;
    let cols: Vec<data_type::Integer> = case["cols"].as_array().unwrap().iter().map(|c| c.as_array().unwrap().iter().fold(data_type::Integer::empty(), |a, p| a.union_interval(p[0].as_i64().unwrap(), p[1].as_i64().unwrap()))).collect();
    let table = |name: &str, range: std::ops::Range<usize>| -> Relation { Relation::table().name(name).schema(range.map(|i| (format!("c{i}"), DataType::Integer(cols[i].clone()))).collect::<qrlew::relation::Schema>()).size(10).build() };
    let (l, r) = (table("l", 0..nl), table("r", nl..cols.len()));
    fn qual(p: &J, nl: usize) -> Expr {
        let o = |o: &J| -> Expr { if jtag(o) == "col" { let i = o[1].as_u64().unwrap() as usize; Expr::qcol(if i < nl { Join::left_name() } else { Join::right_name() }.to_string(), format!("c{i}")) } else { Expr::val(o[1].as_i64().unwrap()) } };
        match jtag(p) { "gt" => Expr::gt(o(&p[1]), o(&p[2])), "ge" => Expr::gt_eq(o(&p[1]), o(&p[2])), "lt" => Expr::lt(o(&p[1]), o(&p[2])), "le" => Expr::lt_eq(o(&p[1]), o(&p[2])), "eq" => Expr::eq(o(&p[1]), o(&p[2])),
            "and" => Expr::and(qual(&p[1], nl), qual(&p[2], nl)), "or" => Expr::or(qual(&p[1], nl), qual(&p[2], nl)), _ => Expr::not(Expr::not(qual(&p[1], nl))) }
    }
    let on = qual(&case["pred"], nl);
    let kind = case["kind"].as_str().unwrap();
    out.tag(&format!("kind={kind}"));
    let built = guarded(|| -> Result<Relation, String> { let b = Relation::join(); let b = match kind { "inner" => b.inner(on.clone()), "left" => b.left_outer(on.clone()), "right" => b.right_outer(on.clone()), _ => b.full_outer(on.clone()) };
        b.left(Arc::new(l.clone())).right(Arc::new(r.clone())).try_build().map_err(|e: qrlew::relation::Error| e.to_string()) });
    let j = match built { Ok(Ok(j)) => j, Ok(Err(e)) => { out.tag("trivial"); out.imp = json!({"err": e}); return out; }
        Err((loc, msg)) => { out.tag("trivial"); out.imp = json!("panic"); out.fail(&format!("C18/joinnarrow/panic/{}", site(&loc, &msg)), format!("{kind} join on {on}: {msg}")); return out; } };
    // the declared column types, side by side (the nullable wrapper an outer join puts on a side is not part of the comparison)
    let ivs = |t: &DataType| -> J { let t = match t { DataType::Optional(o) => o.data_type().clone(), t => t.clone() }; match t { DataType::Integer(i) => json!(i.iter().map(|[a, b]| json!([a, b])).collect::<Vec<_>>()), other => json!({"other": other.to_string()}) } };
    let fields: Vec<J> = j.schema().iter().map(|f| { use qrlew::data_type::DataTyped as _; ivs(&f.data_type()) }).collect();
    if fields.len() != cols.len() { out.tag("trivial"); out.imp = json!({"err": "field count"}); return out; }
    let unchanged = fields.iter().zip(cols.iter()).all(|(f, c)| *f == json!(c.iter().map(|[a, b]| json!([a, b])).collect::<Vec<_>>()));
    if unchanged { out.tag("trivial"); } else { out.tag("narrowed"); }
    out.imp = json!({"left": fields[..nl].to_vec(), "right": fields[nl..].to_vec()});
    out
}

//! stream `exprimg`: arithmetic expression trees (+, -, *, greatest, least over integer columns and literals): the range the real
//! `Expr::super_image` propagates and the value `Expr::value` computes on a row, against the Lean model `Qrlew.ExprImg`
//! (`image`, `eval`) — the functions `C06Tree.arith_expr_sound` is about.
use crate::common::*;
use qrlew::{data_type::{self, function::Function as _, value::Value, DataType}, expr::Expr};
use serde_json::{json, Value as J};
use std::ops::Deref;

fn gen_tree(rng: &mut Rng, depth: u32, ncols: u64) -> J {
    if depth == 0 || rng.chance(1, 4) { return if rng.chance(2, 3) { json!(["col", rng.below(ncols)]) } else { json!(["lit", rng.range(-6, 6)]) }; }
    let op = *rng.pick(&["plus", "minus", "mul", "plus", "minus", "greatest", "least"]);
    json!([op, gen_tree(rng, depth - 1, ncols), gen_tree(rng, depth - 1, ncols)])
}

pub fn gen(rng: &mut Rng, k: usize, _tier: &str) -> J {
    let ncols = 1 + rng.below(3);
    let extremes = k % 5 == 0;
    // column types: unions of 1-3 intervals; values are drawn from the small part so that the row never overflows
    let cols: Vec<J> = (0..ncols).map(|_| { let n = 1 + rng.below(3); json!((0..n).map(|_| { let a = rng.range(-30, 30); let b = if rng.chance(1, 3) { a } else { a + rng.range(0, 25) };
        if extremes && rng.chance(1, 6) { json!([a, i64::MAX]) } else if extremes && rng.chance(1, 6) { json!([i64::MIN, b]) } else { json!([a, b]) } }).collect::<Vec<_>>()) }).collect();
    let vals: Vec<i64> = cols.iter().map(|c| { let iv = rng.pick(c.as_array().unwrap()).clone(); let (lo, hi) = (iv[0].as_i64().unwrap().max(-60), iv[1].as_i64().unwrap().min(60)); if lo <= hi { rng.range(lo, hi) } else { iv[0].as_i64().unwrap().max(iv[1].as_i64().unwrap().min(0)) } }).collect();
    let depth = 1 + rng.below(3) as u32;
    json!({"cols": cols, "vals": vals, "expr": gen_tree(rng, depth, ncols)})
}

fn expr_of(j: &J) -> Expr {
    match j[0].as_str().unwrap() {
        "col" => Expr::col(format!("c{}", j[1])),
        "lit" => Expr::val(j[1].as_i64().unwrap()),
        "plus" => Expr::plus(expr_of(&j[1]), expr_of(&j[2])),
        "minus" => Expr::minus(expr_of(&j[1]), expr_of(&j[2])),
        "greatest" => Expr::greatest(expr_of(&j[1]), expr_of(&j[2])),
        "least" => Expr::least(expr_of(&j[1]), expr_of(&j[2])),
        _ => Expr::multiply(expr_of(&j[1]), expr_of(&j[2])),
    }
}

pub fn eval(case: &J) -> Outcome {
    let mut out = Outcome::new();
    let ints = |j: &J| -> data_type::Integer { j.as_array().unwrap().iter().fold(data_type::Integer::empty(), |a, p| a.union_interval(p[0].as_i64().unwrap(), p[1].as_i64().unwrap())) };
    let cols: Vec<data_type::Integer> = case["cols"].as_array().unwrap().iter().map(ints).collect();
    let vals: Vec<i64> = case["vals"].as_array().unwrap().iter().map(|v| v.as_i64().unwrap()).collect();
    if cols.iter().zip(vals.iter()).any(|(t, v)| !t.contains(v)) { out.tag("trivial"); out.tag("gen-miss"); return out; }
    let e = expr_of(&case["expr"]);
    if matches!(case["expr"][0].as_str(), Some("col") | Some("lit")) { out.tag("trivial"); }
    let row_t = DataType::structured(cols.iter().enumerate().map(|(i, t)| (format!("c{i}"), DataType::Integer(t.clone()))).collect::<Vec<_>>());
    let row_v = Value::structured(vals.iter().enumerate().map(|(i, v)| (format!("c{i}"), Value::integer(*v))).collect::<Vec<_>>());
    let img = guarded(|| e.super_image(&row_t));
    let val = guarded(|| e.value(&row_v));
    let imgj = match &img { Ok(Ok(DataType::Integer(i))) => json!(i.iter().map(|[a, b]| json!([a, b])).collect::<Vec<_>>()), Ok(Ok(t)) => json!({"other": t.to_string()}), Ok(Err(_)) => json!("err"),
        Err((loc, msg)) => { out.fail(&format!("C18/exprimg/image-panic/{}", site(loc, msg)), format!("super_image of {e} on {row_t} panicked: {msg}")); json!("panic") } };
    let valj = match &val { Ok(Ok(Value::Integer(v))) => json!(*(v.deref())), Ok(Ok(v)) => json!({"other": v.to_string()}), Ok(Err(_)) => json!("err"),
        Err((loc, msg)) => { out.fail(&format!("C18/exprimg/value-panic/{}", site(loc, msg)), format!("value of {e} at {row_v} panicked: {msg}")); json!("panic") } };
    // property-level oracle (C06): the value lies in the propagated range
    if let (Ok(Ok(DataType::Integer(i))), Ok(Ok(Value::Integer(v)))) = (&img, &val) { if !i.contains(v.deref()) { out.fail("C06/exprimg/unsound-image", format!("{e} at {row_v} = {v} but the propagated range of {row_t} is {i}")); } }
    out.imp = json!({"image": imgj, "value": valj});
    out
}

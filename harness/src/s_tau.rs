//! stream `taukeys`: the whole key-release pipeline of a DP GROUP BY over a private-valued key (distinct (key, unit) pairs,
//! contribution limiting, noisy count of units, threshold) as the real rewriting builds it, executed on SQLite with constant draws
//! (all ranks tie, noise 0), against the Lean model `Qrlew.TauKeys.releasedKeys` with the threshold read off the relation.
use crate::common::*;
use crate::exec::{Cell, RandomMode};
use crate::ir;
use qrlew::{builder::{Ready, With}, differential_privacy::DpParameters, hierarchy::Hierarchy, privacy_unit_tracking::PrivacyUnit,
            relation::{Relation, Variant as _}, sql::{parse, relation::QueryWithRelations}, DataType};
use serde_json::{json, Value as J};
use std::sync::Arc;

pub fn gen(rng: &mut Rng, _k: usize, _tier: &str) -> J {
    let n_units = rng.range(1, 14);
    let n_keys = rng.range(1, 6);
    let mut rows: Vec<J> = vec![];
    // common keys held by many units, rare keys held by one or two; some units spread over many keys
    for u in 0..n_units { let spread = if rng.chance(1, 5) { n_keys } else { rng.range(1, 2) };
        for _ in 0..spread { let k = if rng.chance(1, 6) { 10 + rng.range(0, 3) } else { rng.below(n_keys as u64) as i64 }; for _ in 0..rng.range(1, 2) { rows.push(json!([u, k, rng.range(0, 40) as f64 * 0.5])); } } }
    json!({"rows": rows, "sql": *rng.pick(&["SELECT key AS k0, sum(amt) AS c FROM v GROUP BY key", "SELECT key AS k0, count(amt) AS c FROM v GROUP BY key", "SELECT key AS k0 FROM v GROUP BY key", "SELECT DISTINCT key AS k0 FROM v"]),
           "eps": *rng.pick(&[2.0, 5.0, 20.0, 200.0]), "delta": *rng.pick(&[0.1, 0.3, 0.45]), "share": *rng.pick(&[0.5, 0.9]), "groups": *rng.pick(&[1u64, 2, 3, 6]), "hash": rng.chance(1, 2),
           // the unit column declared by the list of its possible values (a finite set) instead of a range
           "uid_values": rng.chance(1, 3)})
}

pub fn eval(case: &J) -> Outcome {
    let mut out = Outcome::new();
    let sql = case["sql"].as_str().unwrap();
    let table: Relation = Relation::table().name("v").schema(vec![("uid", if case["uid_values"] == true { DataType::integer_values((0..16).collect::<Vec<i64>>()) } else { DataType::integer_interval(0, 100) }), ("key", DataType::integer_interval(0, 20)), ("amt", DataType::float_interval(0., 20.))].into_iter().collect::<qrlew::relation::Schema>()).size(1000).build();
    let rels: Hierarchy<Arc<Relation>> = vec![(vec!["v".to_string()], Arc::new(table))].into_iter().collect();
    let rel = match guarded(|| { let q = parse(sql).map_err(|e| e.to_string())?; Relation::try_from(QueryWithRelations::new(&q, &rels)).map_err(|e| e.to_string()) }) { Ok(Ok(r)) => r, _ => { out.tag("trivial"); return out; } };
    let pu = PrivacyUnit::from((vec![("v", vec![], "uid")], case["hash"].as_bool().unwrap_or(true)));
    let kk = case["groups"].as_u64().unwrap();
    let p = DpParameters::new(case["eps"].as_f64().unwrap(), case["delta"].as_f64().unwrap(), case["share"].as_f64().unwrap(), 100.0, 1.0, kk);
    let dp = match guarded(|| rel.rewrite_with_differential_privacy(&rels, None, pu.clone(), p.clone())) {
        Ok(Ok(d)) => d, Ok(Err(_)) => { out.tag("trivial"); out.tag("dp-err"); return out; }
        Err((loc, msg)) => { out.tag("trivial"); out.fail(&format!("C18/taukeys/rewrite-panic/{}", site(&loc, &msg)), format!("{sql}: {msg}")); return out; } };
    let facts = ir::facts(dp.relation());
    let rows: Vec<Vec<Cell>> = case["rows"].as_array().unwrap().iter().map(|r| vec![Cell::Int(r[0].as_i64().unwrap()), Cell::Int(r[1].as_i64().unwrap()), Cell::Real(r[2].as_f64().unwrap())]).collect();
    let Some((_, tau, strict)) = facts.taus.first().cloned() else {
        // no threshold anywhere although the key is private-valued: whatever is released is released on the strength of the data alone
        out.tag("no-threshold");
        let db = crate::exec::Db::new(RandomMode::Const(1.0));
        db.create_table("v", &["uid", "key", "amt"], &rows);
        if let Ok((names, res)) = db.run(dp.relation()) { if let Some(ki) = names.iter().position(|n| n == "k0") {
            for r in &res { if let Some(k) = r[ki].as_f64() { let n = { let mut u: Vec<i64> = rows.iter().filter(|x| x[1] == Cell::Int(k as i64)).filter_map(|x| x[0].as_f64().map(|y| y as i64)).collect(); u.sort(); u.dedup(); u.len() };
                if n <= 1 { out.fail("C04/taukeys/singleton-released-without-threshold", format!("{sql} with {:?}: the rewritten query has no threshold on the number of privacy units per key and releases the key {k}, held by {n} privacy unit (rows {})", p, case["rows"]));
                            out.fail("C02/exec/private-key-released-without-threshold", format!("{sql}: key {k} held by one unit is released without any threshold")); break; } } } } }
        return out; };
    if facts.taus.len() != 1 { out.tag("several-thresholds"); }
    let db = crate::exec::Db::new(RandomMode::Const(1.0)); // ln(1) = 0: the count noise is exactly 0; all contribution ranks tie
    db.create_table("v", &["uid", "key", "amt"], &rows);
    match db.run(dp.relation()) {
        Ok((names, res)) => {
            let Some(ki) = names.iter().position(|n| n == "k0") else { out.tag("trivial"); out.fail("C08/taukeys/output-columns", format!("{:?}", names)); return out; };
            let mut keys: Vec<i64> = res.iter().filter_map(|r| r[ki].as_f64().map(|x| x as i64)).collect(); keys.sort(); keys.dedup();
            if keys.is_empty() { out.tag("nothing-released"); } else { out.tag("keys-released"); }
            if keys.len() != res.len() { out.fail("C08/taukeys/duplicate-group", format!("{sql}: the DP result holds a key twice: {:?}", res)); }
            // count > τ for integer counts: count > ⌊τ⌋ (count ≥ τ when the comparison is not strict)
            out.aux = json!({"tau_floor": if strict { tau.floor() } else { (tau - 1.0).ceil() }, "tau": tau, "k": kk});
            out.imp = json!({"released": keys});
            // property-level oracle (C04): a released key is held by more than τ distinct units
            for k in &keys { let n = { let mut u: Vec<i64> = rows.iter().filter(|r| r[1] == Cell::Int(*k)).filter_map(|r| r[0].as_f64().map(|x| x as i64)).collect(); u.sort(); u.dedup(); u.len() };
                if !(n as f64 > tau) && strict { out.fail("C04/taukeys/rare-key-released", format!("{sql} with {:?}: with the noise draw at 0 the key {k} is released although only {n} privacy unit(s) hold it and τ = {tau} (rows {})", p, case["rows"])); break; } }
        }
        Err(e) if e.contains("duplicate WITH table name") => { out.tag("trivial"); out.tag("cte-name-collision"); out.fail("C17/sqlite/taukeys-not-executable/cte-name-collision", format!("{sql}: {e}")); }
        Err(e) => { out.imp = json!("exec-error"); out.fail("C17/sqlite/taukeys-not-executable", format!("{sql}: {e}")); }
    }
    out
}

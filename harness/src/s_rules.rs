//! Streams for C13 / C02: the rewriting-rule search on generated relation trees.
//!  - `rules`: real set_rewriting_rules / eliminate / select / score / entry points vs the Lean model,
//!    brute-force existence/optimality oracle, structural lineage audit of the rewritten relation (C02).
//!  - `dump_rules()`: the rule table as attached by the real setter to probe nodes (translator input).
use crate::common::*;
use qrlew::{
    builder::With,
    differential_privacy::DpParameters,
    expr::{Expr, Identifier},
    hierarchy::Hierarchy,
    privacy_unit_tracking::{PrivacyUnit, Strategy},
    relation::{Relation, Variant as _},
    rewriting::{
        rewriting_rule::{Property, RelationWithRewritingRule, RelationWithRewritingRules, RewritingRule, RewritingRulesEliminator, RewritingRulesSelector, RewritingRulesSetter, Score},
    },
    sql::{parse, relation::QueryWithRelations},
    synthetic_data::SyntheticData,
    visitor::Acceptor,
    DataType, Ready,
};
use serde_json::{json, Value as J};
use std::sync::Arc;

pub fn world() -> Hierarchy<Arc<Relation>> {
    // primary keys are declared on the ids (as a real catalog would)
    const PK: qrlew::relation::field::Constraint = qrlew::relation::field::Constraint::PrimaryKey;
    let users: Relation = Relation::table().name("users").schema(vec![
        ("id", DataType::integer_interval(0, 1000), Some(PK)), ("age", DataType::integer_interval(0, 100), None),
        ("city", DataType::text_values(["A".to_string(), "B".to_string(), "C".to_string()]), None), ("income", DataType::float_interval(0., 1000.), None),
        ("seg", DataType::text_values(["p".to_string(), "q".to_string()]), None),   // a second column with a declared finite value set
        ("debt", DataType::integer_interval(-30, 0), None),   // a range that lies entirely on the negative side (its upper bound is 0)
    ].into_iter().collect::<qrlew::relation::Schema>()).size(1000).build();
    let orders: Relation = Relation::table().name("orders").schema(vec![
        ("id", DataType::integer_interval(0, 10000), Some(PK)), ("user_id", DataType::integer_interval(0, 1000), None),
        ("amount", DataType::float_interval(0., 100.), None), ("qty", DataType::integer_interval(0, 10), None),
        ("bal", DataType::integer_interval(-50, 20), None),   // a range whose negative side dominates
        ("eps", DataType::float_interval(0., 1e-18), None),   // a tiny range: its clipping constant lies below the machine epsilon
    ].into_iter().collect::<qrlew::relation::Schema>()).size(10000).build();
    let products: Relation = Relation::table().name("products").schema(vec![
        ("pid", DataType::integer_interval(0, 100), Some(PK)), ("price", DataType::float_interval(0., 50.), None),
        ("cat", DataType::text_values(["x".to_string(), "y".to_string()]), None),
    ].into_iter().collect::<qrlew::relation::Schema>()).size(100).build();
    // a table two foreign-key hops away from the privacy unit (items -> orders -> users); the foreign-key columns are not named like the keys they reference
    let items: Relation = Relation::table().name("items").schema(vec![
        ("id", DataType::integer_interval(0, 100000), Some(PK)), ("order_id", DataType::integer_interval(0, 10000), None), ("price", DataType::float_interval(0., 20.), None),
    ].into_iter().collect::<qrlew::relation::Schema>()).size(30000).build();
    vec![(vec!["users".to_string()], Arc::new(users)), (vec!["orders".to_string()], Arc::new(orders)), (vec!["products".to_string()], Arc::new(products)), (vec!["items".to_string()], Arc::new(items))].into_iter().collect()
}

/// catalog styles: 0 = tables registered under their name (name == path); 1, 2 = tables whose path differs from their name,
/// registered under both (what `io::Database::relations()` does), privacy unit spelled by name (1) or by path (2)
pub fn world_styled(style: u64) -> Hierarchy<Arc<Relation>> {
    if style == 0 { return world(); }
    let base = world();
    let mut out: Vec<(Vec<String>, Arc<Relation>)> = vec![];
    for (name, path) in [("users", "user_table"), ("orders", "order_table"), ("products", "product_table"), ("items", "item_table")] {
        let r = base.get(&[name.to_string()]).unwrap();
        let t: Relation = Relation::table().name(name).path([path]).schema(r.schema().clone()).size(*r.size().max().unwrap()).build();
        let t = Arc::new(t);
        out.push((vec![name.to_string()], t.clone()));
        out.push((vec![path.to_string()], t));
    }
    out.into_iter().collect()
}

pub fn privacy_unit_styled(style: u64) -> PrivacyUnit {
    if style == 2 { PrivacyUnit::from(vec![("user_table", vec![], "id"), ("order_table", vec![("user_id", "user_table", "id")], "id"), ("item_table", vec![("order_id", "order_table", "id"), ("user_id", "user_table", "id")], "id")]) } else { privacy_unit() }
}

pub fn privacy_unit() -> PrivacyUnit {
    PrivacyUnit::from(vec![("users", vec![], "id"), ("orders", vec![("user_id", "users", "id")], "id"), ("items", vec![("order_id", "orders", "id"), ("user_id", "users", "id")], "id")])
}

pub fn synthetic() -> SyntheticData {
    SyntheticData::new(Hierarchy::from([
        (vec!["users"], Identifier::from("users_sd")), (vec!["orders"], Identifier::from("orders_sd")), (vec!["products"], Identifier::from("products_sd")), (vec!["items"], Identifier::from("items_sd")),
    ]))
}

pub const PROTECTED: [&str; 3] = ["users", "orders", "items"];

/// every sub-query exposes columns (k int, v float); sub-queries are emitted as a chain of CTEs
/// (a derived table inside a set-operation operand makes the parser-to-relation visitor panic: C18 finding)
fn gen_q(rng: &mut Rng, depth: u32, ctes: &mut Vec<String>) -> String {
    let body = if depth == 0 || rng.chance(1, 4) {
        match rng.below(6) {
            0 => "SELECT id AS k, income AS v FROM users".to_string(),
            1 => "SELECT user_id AS k, amount AS v FROM orders".to_string(),
            2 => "SELECT pid AS k, price AS v FROM products".to_string(),
            4 => "SELECT id AS k, debt AS v FROM users".to_string(),
            _ => "SELECT id AS k, age AS v FROM users".to_string(),
        }
    } else {
        match rng.below(12) {
            // a base table (protected or public) as a direct input of a join, on either side, with a sub-query on the other
            10 => { let b = gen_q(rng, depth - 1, ctes); let (t, kcol, vcol) = *rng.pick(&[("users", "id", "income"), ("orders", "user_id", "amount"), ("products", "pid", "price")]);
                    if rng.chance(1, 2) { format!("SELECT {t}.{kcol} AS k, {t}.{vcol} - {b}.v AS v FROM {t} JOIN {b} ON {t}.{kcol} = {b}.k") } else { format!("SELECT {t}.{kcol} AS k, {t}.{vcol} + {b}.v AS v FROM {b} JOIN {t} ON {b}.k = {t}.{kcol}") } }
            11 => { let b = gen_q(rng, depth - 1, ctes); let (t, kcol, vcol) = *rng.pick(&[("users", "id", "income"), ("orders", "user_id", "amount")]);
                    format!("SELECT {t}.{kcol} AS k, {t}.{vcol} * {b}.v AS v FROM {t} CROSS JOIN {b}") }
            0 | 1 => { let w = if rng.chance(1, 2) { " WHERE v > 3" } else { "" }; let c = gen_q(rng, depth - 1, ctes); format!("SELECT k, v + 1 AS v FROM {c}{w}") }
            2 | 3 => { let c = gen_q(rng, depth - 1, ctes); format!("SELECT k, sum(v) AS v FROM {c} GROUP BY k") }
            4 => { let c = gen_q(rng, depth - 1, ctes); format!("SELECT count(v) AS k, avg(v) AS v FROM {c}") }
            5 => { let c = gen_q(rng, depth - 1, ctes); format!("SELECT k, max(v) AS v FROM {c} GROUP BY k") }
            6 | 7 => { let jt = *rng.pick(&["JOIN", "LEFT JOIN"]); let a = gen_q(rng, depth - 1, ctes); let b = gen_q(rng, depth - 1, ctes);
                       // the same sub-query on both sides: the two inputs of the join are one relation, which a derivation may label differently
                       if a == b { format!("SELECT l.k AS k, l.v + r.v AS v FROM {a} AS l {jt} {a} AS r ON l.k = r.k") } else { format!("SELECT {a}.k AS k, {a}.v + {b}.v AS v FROM {a} {jt} {b} ON {a}.k = {b}.k") } }
            8 if rng.chance(1, 2) => { let a = gen_q(rng, depth - 1, ctes); format!("SELECT l.k AS k, l.v - r.v AS v FROM {a} AS l JOIN {a} AS r ON l.k = r.k") }
            8 => { let a = gen_q(rng, depth - 1, ctes); let b = gen_q(rng, depth - 1, ctes); format!("SELECT k, v FROM {a} UNION SELECT k, v FROM {b}") }
            _ => { let c = gen_q(rng, depth - 1, ctes); format!("SELECT k, count(v) AS v FROM {c} GROUP BY k") }
        }
    };
    let name = format!("q{}", ctes.len());
    ctes.push(format!("{name} AS ({body})"));
    name
}

/// two aggregated sub-queries of different depths: one under a chain of projections and joined to a protected table, the other a plain
/// GROUP BY; several acceptable derivations (each sub-query kept privacy-unit-preserving or published with DP) whose scores are not monotone
/// in the order of enumeration
fn gen_two_depths(rng: &mut Rng) -> String {
    let n = 1 + rng.below(4);
    let mut ctes = vec!["q0 AS (SELECT user_id AS k, sum(amount) AS v FROM orders GROUP BY user_id)".to_string()];
    for i in 0..n { ctes.push(format!("q{} AS (SELECT k, v + {} AS v FROM q{})", i + 1, rng.range(1, 3), i)); }
    let deep = format!("q{n}");
    let (t, kc, vc) = *rng.pick(&[("users", "id", "income"), ("orders", "user_id", "amount")]);
    ctes.push(format!("qj AS (SELECT {t}.{kc} AS k, {t}.{vc} + {deep}.v AS v FROM {t} JOIN {deep} ON {t}.{kc} = {deep}.k)"));
    let m = rng.below(3);
    ctes.push(format!("g0 AS (SELECT {} AS k, {} AS v FROM {} GROUP BY {})", if rng.chance(1, 2) { "id" } else { "age" }, *rng.pick(&["count(age)", "sum(income)", "avg(income)"]), "users", "k").replace("GROUP BY k", if ctes.len() % 2 == 0 { "GROUP BY id" } else { "GROUP BY id" }).replace("age AS k", "id AS k"));
    for i in 0..m { ctes.push(format!("g{} AS (SELECT k, v * 2 AS v FROM g{})", i + 1, i)); }
    let (a, b) = if rng.chance(1, 2) { ("qj".to_string(), format!("g{m}")) } else { (format!("g{m}"), "qj".to_string()) };
    format!("WITH {} SELECT {a}.k AS k, {a}.v + {b}.v AS v FROM {a} JOIN {b} ON {a}.k = {b}.k", ctes.join(", "))
}

pub fn gen(rng: &mut Rng, k: usize, _tier: &str) -> J {
    if k % 10 == 9 { return json!({"sql": gen_two_depths(rng), "synthetic": false, "strategy": "hard", "catalog": 0}); }
    let mut ctes = vec![];
    let depth = 1 + (k % 3) as u32;
    let root = gen_q(rng, depth, &mut ctes);
    // mostly a projection of the last sub-query; sometimes a set operation of two sub-queries is itself the top-level query
    let sql = if rng.chance(1, 6) { let other = gen_q(rng, depth.saturating_sub(1), &mut ctes); if other == root { format!("WITH {} SELECT k, v FROM {root}", ctes.join(", ")) } else { format!("WITH {} SELECT k, v FROM {root} UNION SELECT k, v FROM {other}", ctes.join(", ")) } }
              else { format!("WITH {} SELECT k, v FROM {root}", ctes.join(", ")) };
    json!({"sql": sql, "synthetic": rng.chance(1, 2), "strategy": if rng.chance(1, 2) { "hard" } else { "soft" }, "catalog": rng.below(3)})
}

pub fn lab(p: &Property) -> &'static str {
    match p { Property::Private => "priv", Property::SyntheticData => "sd", Property::PrivacyUnitPreserving => "pup", Property::DifferentiallyPrivate => "dp", Property::Published => "pubd", Property::Public => "pub" }
}
fn jrule(r: &RewritingRule) -> J { json!([r.inputs().iter().map(lab).collect::<Vec<_>>(), lab(r.output())]) }

fn jtree(t: &RelationWithRewritingRules) -> J {
    let rules: Vec<J> = t.attributes().iter().map(jrule).collect();
    let kids: Vec<J> = t.inputs().iter().map(|i| jtree(i)).collect();
    json!({"kind": fine_kind(t.relation()), "rules": rules, "in": kids})
}
fn jderiv(t: &RelationWithRewritingRule) -> J {
    let kids: Vec<J> = t.inputs().iter().map(|i| jderiv(i)).collect();
    json!({"rule": jrule(t.attributes()), "in": kids})
}
/// node kind as used by the generated rule table (decided here independently of the setter)
pub fn fine_kind(r: &Relation) -> &'static str {
    use qrlew::expr::aggregate::Aggregate as A;
    match r {
        Relation::Table(t) => if PROTECTED.contains(&t.name()) { "tableProtected" } else { "tablePublic" },
        Relation::Reduce(red) => {
            let ok = red.aggregate().iter().all(|f| match f.aggregate() {
                A::Mean | A::MeanDistinct | A::Count | A::CountDistinct | A::Sum | A::SumDistinct | A::Std | A::StdDistinct | A::Var | A::VarDistinct => true,
                A::Min | A::Max | A::Median | A::First | A::Last | A::Quantile(_) | A::Quantiles(_) => red.group_by().contains(f.column()),
                _ => false });
            if ok { "reduceDpOk" } else { "reduceDpNo" }
        }
        _ => kind(r),
    }
}

pub fn kind(r: &Relation) -> &'static str {
    match r { Relation::Table(_) => "table", Relation::Map(_) => "map", Relation::Reduce(_) => "reduce", Relation::Join(_) => "join", Relation::Set(_) => "set", Relation::Values(_) => "values" }
}

/// all consistent labelings by brute force (independent of eliminate/select): returns (root label, score) list
fn brute(t: &RelationWithRewritingRules) -> Vec<(Property, f64)> {
    let sc = |p: &Property| match p { Property::SyntheticData => 1., Property::PrivacyUnitPreserving => 2., Property::DifferentiallyPrivate => 5., Property::Published => 1., Property::Public => 10., _ => 0. };
    let kids: Vec<Vec<(Property, f64)>> = t.inputs().iter().map(|i| brute(i)).collect();
    let mut out = vec![];
    for r in t.attributes() {
        match kids.len() {
            0 => out.push((*r.output(), sc(r.output()))),
            1 => for (l, s) in &kids[0] { if r.inputs().get(0) == Some(l) { out.push((*r.output(), sc(r.output()) + s)); } },
            _ => for (l, s) in &kids[0] { for (l2, s2) in &kids[1] { if r.inputs().get(0) == Some(l) && r.inputs().get(1) == Some(l2) { out.push((*r.output(), sc(r.output()) + s + s2)); } } },
        }
    }
    out
}

/// C02 lineage audit of a rewritten relation: walking down from the root, a protected base table may only be
/// reached after crossing a Map that adds noise which itself lies above a Reduce (the DP aggregation / the noisy
/// threshold), and a protected table must never appear at all when the root is labelled Public.
fn audit(rel: &Relation, noise_above: bool, reduce_below_noise: bool, path: &mut Vec<String>, bad: &mut Vec<String>) {
    match rel {
        Relation::Table(t) => {
            // what the rendered SQL reads is the table's path, whatever the node is called
            let name = t.path().last().map(|x| x.to_string()).unwrap_or_else(|_| t.name().to_string());
            if PROTECTED.contains(&name.as_str()) && !(noise_above && reduce_below_noise) {
                bad.push(format!("protected table `{name}` reached through [{}] without a noisy aggregation in between", path.join(" > ")));
            }
        }
        _ => {
            // noise = a random draw scaled by a positive σ (σ · N(0,1) with σ = 0 is no noise); a random draw without a recognisable scale counts as noise
            let has_noise = match rel { Relation::Map(m) => m.projection().iter().chain(m.filter().iter()).any(|e| format!("{e}").contains("random") && crate::ir::noise_sigma(e).map_or(true, |s| s > 0.0)), _ => false };
            let is_reduce = matches!(rel, Relation::Reduce(_));
            path.push(format!("{}{}", kind(rel), if has_noise { "(noise)" } else { "" }));
            for i in rel.inputs() {
                audit(i, noise_above || has_noise, reduce_below_noise || ((noise_above || has_noise) && is_reduce), path, bad);
            }
            path.pop();
        }
    }
}

/// a rewritten relation without its generated names: node kinds, column counts, which Maps draw noise, which tables are read, and the event
fn signature(rel: &Relation, event: &str) -> String {
    fn walk(r: &Relation, out: &mut String) {
        let kind = match r { Relation::Table(t) => format!("T:{}", t.name()), Relation::Map(m) => format!("M{}{}{}", m.schema().len(), if m.projection().iter().any(|e| format!("{e}").contains("random")) { "~" } else { "" }, if m.filter().is_some() { "?" } else { "" }),
            Relation::Reduce(x) => format!("R{}g{}", x.schema().len(), x.group_by().len()), Relation::Join(j) => format!("J{}", j.schema().len()), Relation::Set(x) => format!("S{}", x.schema().len()), Relation::Values(v) => format!("V{}", v.schema().len()) };
        out.push_str(&kind); out.push('(');
        for i in r.inputs() { walk(i, out); out.push(','); }
        out.push(')');
    }
    let mut s = String::new(); walk(rel, &mut s); format!("{s} event {event}")
}

pub fn eval(case: &J) -> Outcome {
    let mut out = Outcome::new();
    let sql = case["sql"].as_str().unwrap();
    let style = case["catalog"].as_u64().unwrap_or(0);
    let rels = world_styled(style);
    let privacy_unit = || privacy_unit_styled(style);
    out.tag(&format!("catalog={style}"));
    let synth = if case["synthetic"].as_bool().unwrap_or(false) { Some(if style == 0 { synthetic() } else { SyntheticData::new(Hierarchy::from([(vec!["user_table"], Identifier::from("users_sd")), (vec!["order_table"], Identifier::from("orders_sd")), (vec!["product_table"], Identifier::from("products_sd")), (vec!["item_table"], Identifier::from("items_sd"))])) }) } else { None };
    let strategy = if case["strategy"] == "soft" { Strategy::Soft } else { Strategy::Hard };
    let dp = DpParameters::from_epsilon_delta(1.0, 1e-5);
    let relation = match guarded(|| { let q = parse(sql).map_err(|e| e.to_string())?; Relation::try_from(QueryWithRelations::new(&q, &rels)).map_err(|e| e.to_string()) }) {
        Ok(Ok(r)) => r,
        Ok(Err(e)) => { out.tag("trivial"); out.tag("parse-err"); out.imp = json!({"err": e}); return out; }
        Err((loc, msg)) => { out.tag("trivial"); out.fail(&format!("C18/rules/parse-panic/{}", site(&loc, &msg)), format!("{sql}: {msg}")); return out; }
    };
    let r = guarded(|| {
        let with_rules = relation.set_rewriting_rules(RewritingRulesSetter::new(&rels, synth.clone(), privacy_unit(), dp.clone(), strategy));
        let tree = jtree(&with_rules);
        let elim = with_rules.map_rewriting_rules(RewritingRulesEliminator);
        let jelim = jtree(&elim);
        let sel = elim.select_rewriting_rules(RewritingRulesSelector);
        let scored: Vec<(J, &'static str, f64)> = sel.iter().map(|d| (jderiv(d), lab(d.attributes().output()), d.accept(Score))).collect();
        let all = brute(&with_rules);
        // what applying the arg-max derivation gives (filter by acceptable root + max_by, as the entry points do), as a name-free signature:
        // the entry points must return exactly this
        let applied = |acc: &[&str]| -> Option<String> {
            let mut best: Option<usize> = None;
            for (i, sc) in scored.iter().enumerate() { if acc.contains(&sc.1) { best = match best { Some(b) if scored[b].2 > sc.2 => Some(b), _ => Some(i) }; } }
            let i = best?;
            guarded(|| { let rw = sel[i].rewrite(qrlew::rewriting::rewriting_rule::Rewriter::new(&rels)); signature(rw.relation(), &format!("{:?}", rw.dp_event())) }).ok()
        };
        let (sig_dp, sig_pup) = (applied(&["pub", "pubd", "dp", "sd"]), applied(&["pub", "pup"]));
        (tree, jelim, scored, all, sig_dp, sig_pup)
    });
    let (tree, jelim, scored, all, sig_dp, sig_pup) = match r { Ok(x) => x, Err((loc, msg)) => { out.fail(&format!("C18/rules/search-panic/{}", site(&loc, &msg)), format!("{sql}: {msg}")); out.tag("trivial"); return out; } };
    out.tag(&format!("derivations={}", match scored.len() { 0 => "0", 1..=9 => "1-9", 10..=99 => "10-99", _ => "100+" }));
    if scored.len() < 2 { out.tag("trivial"); }
    // replicate the entry points' filter + max_by on the real selection result
    let pick = |acc: &[&str]| -> J {
        let mut best: Option<&(J, &'static str, f64)> = None;
        for s in scored.iter().filter(|s| acc.contains(&s.1)) { best = match best { Some(b) if b.2 > s.2 => Some(b), _ => Some(s) }; }
        best.map_or(J::Null, |b| json!({"deriv": b.0, "score": b.2 as i64}))
    };
    let chosen_dp = pick(&["pub", "pubd", "dp", "sd"]);
    let chosen_pup = pick(&["pub", "pup"]);
    // the real entry points
    let dp_res = guarded(|| relation.rewrite_with_differential_privacy(&rels, synth.clone(), privacy_unit(), dp.clone()));
    let pup_res = guarded(|| relation.rewrite_as_privacy_unit_preserving(&rels, synth.clone(), privacy_unit(), dp.clone(), Some(strategy)));
    let status = |r: &Result<Result<qrlew::rewriting::rewriting_rule::RelationWithDpEvent, qrlew::rewriting::Error>, (String, String)>| match r { Ok(Ok(_)) => "ok", Ok(Err(_)) => "err", Err(_) => "panic" };
    let (dp_s, pup_s) = (status(&dp_res), status(&pup_res));
    out.tag(&format!("dp={dp_s}")); out.tag(&format!("pup={pup_s}"));
    // brute-force oracle (C13): existence and optimality, independently of eliminate/select
    // NB: the DP entry point always uses Strategy::Hard; the tree above was labelled with the case's strategy, so only compare when hard
    for (name, acc, st, chosen, applicable) in [("dp", vec![Property::Public, Property::Published, Property::DifferentiallyPrivate, Property::SyntheticData], dp_s, &chosen_dp, strategy == Strategy::Hard),
                                   ("pup", vec![Property::Public, Property::PrivacyUnitPreserving], pup_s, &chosen_pup, true)] {
        if !applicable { continue; }
        let best = all.iter().filter(|(l, _)| acc.contains(l)).map(|(_, s)| *s).fold(None, |m: Option<f64>, s| Some(m.map_or(s, |m| m.max(s))));
        match (best, st) {
            (Some(_), "err") => out.fail(&format!("C13/rules/{name}/unreachable-but-derivation-exists"), format!("{sql}: a consistent derivation with an acceptable root exists but the compiler reported the property unreachable")),
            (None, "ok") => out.fail(&format!("C13/rules/{name}/rewritten-without-derivation"), format!("{sql}: no consistent derivation with an acceptable root label exists but the compiler returned a rewriting")),
            // a panic is not a rewriting either (the C18 report of the same run names the line; this one says what C13 promises)
            (Some(_), "panic") => { let r = if name == "dp" { &dp_res } else { &pup_res }; if let Err((loc, msg)) = r {
                out.fail(&format!("C13/rules/{name}/panic-instead-of-rewriting/{}{}", site(loc, msg), if has_empty_range(&relation) { "/empty-range" } else { "" }), format!("{sql}: a consistent derivation with an acceptable root exists but the entry point panicked: {msg}")); } }
            _ => {}
        }
        // the derivation is applied as selected: every node it labels DP is rewritten into a noisy aggregation (counted along the tree, as the
        // derivation is), so the relation returned has at least as many noise Maps as the derivation has DP nodes
        if name == "dp" { if let (Ok(Ok(rw)), Some(d)) = (&dp_res, chosen.get("deriv")) {
            fn dp_nodes(d: &J) -> usize { (if d["rule"][1] == "dp" { 1 } else { 0 }) + d["in"].as_array().map_or(0, |a| a.iter().map(dp_nodes).sum()) }
            fn noise_maps(r: &Relation) -> usize { (match r { Relation::Map(m) if m.projection().iter().any(|e| format!("{e}").contains("random")) => 1, _ => 0 }) + r.inputs().iter().map(|i| noise_maps(i)).sum::<usize>() }
            let (want, got) = (dp_nodes(d), noise_maps(rw.relation()));
            if got < want { out.fail("C13/rules/dp/applied-derivation-differs", format!("{sql}: the selected derivation rewrites {want} node(s) into DP aggregations but the relation returned contains {got} noisy aggregation(s)")); }
            else if want > 0 { out.tag("dp-application-checked"); }
        } }
        if let (Some(b), Some(c)) = (best, chosen.get("score").and_then(|s| s.as_i64())) {
            if (c as f64) < b { out.fail(&format!("C13/rules/{name}/not-best-score"), format!("{sql}: the derivation applied has score {c} but a consistent acceptable derivation with score {b} exists")); }
        }
        if let Some(d) = chosen.get("deriv") { check_consistent(d, &tree, name, sql, &mut out); }
        // the rewriting returned is the rewriting of the best-scoring derivation, not of another acceptable one
        let (res, want) = if name == "dp" { (&dp_res, &sig_dp) } else { (&pup_res, &sig_pup) };
        if let (Ok(Ok(rw)), Some(want)) = (res, want) {
            let got = signature(rw.relation(), &format!("{:?}", rw.dp_event()));
            if &got != want { out.fail(&format!("C13/rules/{name}/applied-derivation-is-not-the-selected-one"), format!("{sql}: the entry point returns a rewriting with signature {got}, the rewriting of the best-scoring acceptable derivation has {want}")); }
            else { out.tag("applied-signature-checked"); }
        }
    }
    // C02 audit of what the DP compiler returned
    if let Ok(Ok(rw)) = &dp_res {
        let mut bad = vec![];
        audit(rw.relation(), false, false, &mut vec![], &mut bad);
        // synthetic replacement is allowed: protected names never appear in SD relations (they are renamed), so `bad` only lists real protected tables
        for b in bad { out.fail("C02/rewritten/unnoised-path", format!("{sql}: in the relation returned by rewrite_with_differential_privacy, {b}")); }
        out.tag("dp-audited");
    }
    out.aux = json!({"tree": tree, "hard": strategy == Strategy::Hard, "synthetic": synth.is_some()});
    out.imp = json!({"table_ok": true, "elim": jelim, "select": scored.iter().map(|s| s.0.clone()).collect::<Vec<_>>(), "chosen_dp": chosen_dp, "chosen_pup": chosen_pup,
                     "dp_ok": if strategy == Strategy::Hard { json!(dp_s != "err") } else { J::Null }, "pup_ok": pup_s != "err"});
    if dp_s == "panic" { if let Err((loc, msg)) = &dp_res { out.fail(&format!("C18/rules/dp-rewrite-panic/{}{}", site(loc, msg), if has_empty_range(&relation) { "/empty-range" } else { "" }), format!("{sql}: {msg}")); } }
    if pup_s == "panic" { if let Err((loc, msg)) = &pup_res { out.fail(&format!("C18/rules/pup-rewrite-panic/{}{}", site(loc, msg), if has_empty_range(&relation) { "/empty-range" } else { "" }), format!("{sql}: {msg}")); } }
    out
}

/// the applied derivation is well-typed w.r.t. the rules attached by the setter
fn check_consistent(d: &J, t: &J, name: &str, sql: &str, out: &mut Outcome) {
    let rule = &d["rule"];
    if !t["rules"].as_array().unwrap().contains(rule) { out.fail(&format!("C13/rules/{name}/rule-not-attached"), format!("{sql}: derivation uses rule {rule} which the setter did not attach to this node")); return; }
    let kids = d["in"].as_array().unwrap();
    let ins = rule[0].as_array().unwrap();
    for (i, k) in kids.iter().enumerate() {
        if ins.get(i) != Some(&k["rule"][1]) { out.fail(&format!("C13/rules/{name}/ill-typed"), format!("{sql}: rule {rule} expects input {i} labelled {:?} but the child produces {}", ins.get(i), k["rule"][1])); return; }
        check_consistent(k, &t["in"][i], name, sql, out);
    }
}

/// Translator input: the rules the real setter attaches to probe nodes, per node kind and configuration.
pub fn dump_rules() -> J {
    let rels = world();
    let probes: Vec<(&str, &str)> = vec![
        ("tableProtected", "SELECT id AS k FROM users"), ("tablePublic", "SELECT pid AS k FROM products"),
        ("map", "SELECT id AS k FROM users"), ("reduceDpOk", "SELECT sum(income) AS v FROM users"),
        ("reduceDpNo", "SELECT max(income) AS v FROM users"), ("join", "SELECT a.id AS k FROM users AS a JOIN orders AS b ON a.id = b.user_id"),
        ("set", "SELECT id AS k FROM users UNION SELECT pid AS k FROM products"),
    ];
    let mut table = vec![];
    for synth in [false, true] { for strategy in [Strategy::Soft, Strategy::Hard] {
        for (kindname, sql) in &probes {
            let q = parse(sql).unwrap();
            let relation = Relation::try_from(QueryWithRelations::new(&q, &rels)).unwrap();
            let wr = relation.set_rewriting_rules(RewritingRulesSetter::new(&rels, if synth { Some(synthetic()) } else { None }, privacy_unit(), DpParameters::from_epsilon_delta(1.0, 1e-5), strategy));
            // find the first node of the requested kind (top-down)
            fn find<'a>(t: &'a RelationWithRewritingRules<'a>, want: &str) -> Option<&'a RelationWithRewritingRules<'a>> {
                if kind(t.relation()) == want { return Some(t); }
                for i in t.inputs() { if let Some(x) = find(i, want) { return Some(x); } }
                None
            }
            let want = match *kindname { "tableProtected" | "tablePublic" => "table", "map" => "map", "reduceDpOk" | "reduceDpNo" => "reduce", "join" => "join", _ => "set" };
            let node = find(&wr, want).expect("probe node");
            table.push(json!({"kind": kindname, "synthetic": synth, "hard": strategy == Strategy::Hard, "rules": node.attributes().iter().map(jrule).collect::<Vec<_>>()}));
        }
        // values node through the builder
        let values: Relation = Relation::values().name("vals").values([1.0, 2.0]).build();
        let wr = values.set_rewriting_rules(RewritingRulesSetter::new(&rels, if synth { Some(synthetic()) } else { None }, privacy_unit(), DpParameters::from_epsilon_delta(1.0, 1e-5), strategy));
        table.push(json!({"kind": "values", "synthetic": synth, "hard": strategy == Strategy::Hard, "rules": wr.attributes().iter().map(jrule).collect::<Vec<_>>()}));
    } }
    let _ = Expr::val(1);
    json!({"rules": table})
}

// ------------------------------------------------------------------------------------------------
// stream `sdpartial`: a synthetic-data mapping that omits one protected table. Whatever the compiler answers (error, or a rewritten
// relation), a result labelled without any DP mechanism must not read a protected table.

pub fn gen_sdpartial(rng: &mut Rng, _k: usize, _tier: &str) -> J {
    let sql = *rng.pick(&["SELECT user_id AS u, amount AS a FROM orders", "SELECT id AS i, age AS a FROM users WHERE age > 30", "SELECT max(amount) AS m FROM orders",
                          "SELECT users.age AS a, orders.amount AS b FROM users JOIN orders ON users.id = orders.user_id", "SELECT sum(amount) AS s FROM orders", "SELECT price AS p FROM items",
                          "SELECT count(*) AS n FROM users", "SELECT city AS c, count(id) AS n FROM users GROUP BY city"]);
    json!({"sql": sql, "omit": *rng.pick(&["orders", "users", "items"])})
}

pub fn eval_sdpartial(case: &J) -> Outcome {
    let mut out = Outcome::new();
    let sql = case["sql"].as_str().unwrap();
    let omit = case["omit"].as_str().unwrap();
    let rels = world();
    let relation = match guarded(|| { let q = parse(sql).map_err(|e| e.to_string())?; Relation::try_from(QueryWithRelations::new(&q, &rels)).map_err(|e| e.to_string()) }) { Ok(Ok(r)) => r, _ => { out.tag("trivial"); return out; } };
    let mapping: Vec<(Vec<&str>, Identifier)> = [("users", "users_sd"), ("orders", "orders_sd"), ("products", "products_sd"), ("items", "items_sd")].iter().filter(|(t, _)| *t != omit).map(|(t, sd)| (vec![*t], Identifier::from(*sd))).collect();
    let synth = SyntheticData::new(Hierarchy::from_iter(mapping));
    out.tag(&format!("omit={omit}"));
    match guarded(|| relation.rewrite_with_differential_privacy(&rels, Some(synth.clone()), privacy_unit(), DpParameters::from_epsilon_delta(1.0, 1e-5))) {
        Err((loc, msg)) => { out.tag("panic"); out.fail(&format!("C18/sdpartial/rewrite-panic/{}", site(&loc, &msg)), format!("{sql} with a synthetic-data mapping that omits `{omit}`: {msg}")); }
        Ok(Err(_)) => { out.tag("refused"); }
        Ok(Ok(rw)) => {
            out.tag("rewritten");
            let mut bad = vec![];
            audit(rw.relation(), false, false, &mut vec![], &mut bad);
            for b in bad { out.fail("C02/sdpartial/unnoised-path", format!("{sql} with a synthetic-data mapping that omits `{omit}`: in the relation returned by rewrite_with_differential_privacy, {b}")); }
        }
    }
    out
}

//! Stream `fn` (C06): soundness of range propagation, checked on the implementation:
//! draw a set S (data type) and a concrete argument v in S, evaluate y = f(v); then super_image(S) must succeed and contain y.
//! Three kinds of cases: scalar functions, aggregates (over list types), composed expression trees.
use crate::common::*;
use crate::s_dtype::mem;
use crate::tygen::*;
use qrlew::{
    data_type::{function::Function as _, value::Value, DataType},
    expr::{aggregate::Aggregate, function::Function as F, Expr},
};
use serde_json::{json, Value as J};
use std::sync::Arc;

pub fn function_table() -> Vec<(&'static str, F, &'static str)> {
    // (name, variant, argument category)
    vec![
        ("Opposite", F::Opposite, "n"), ("Not", F::Not, "b"), ("Plus", F::Plus, "nn"), ("Minus", F::Minus, "nn"), ("Multiply", F::Multiply, "nn"),
        ("Divide", F::Divide, "nn"), ("Modulo", F::Modulo, "ii"), ("StringConcat", F::StringConcat, "tt"), ("Gt", F::Gt, "cc"), ("Lt", F::Lt, "cc"),
        ("GtEq", F::GtEq, "cc"), ("LtEq", F::LtEq, "cc"), ("Eq", F::Eq, "cc"), ("NotEq", F::NotEq, "cc"), ("And", F::And, "bb"), ("Or", F::Or, "bb"),
        ("Xor", F::Xor, "bb"), ("BitwiseOr", F::BitwiseOr, "ii"), ("BitwiseAnd", F::BitwiseAnd, "ii"), ("BitwiseXor", F::BitwiseXor, "ii"),
        ("Exp", F::Exp, "n"), ("Ln", F::Ln, "n"), ("Log", F::Log, "n"), ("Abs", F::Abs, "n"), ("Sin", F::Sin, "n"), ("Cos", F::Cos, "n"), ("Sqrt", F::Sqrt, "n"),
        ("Pow", F::Pow, "nn"), ("Case", F::Case, "bxx"), ("Concat2", F::Concat(2), "tt"), ("Concat3", F::Concat(3), "ttt"), ("CharLength", F::CharLength, "t"),
        ("Lower", F::Lower, "t"), ("Upper", F::Upper, "t"), ("Md5", F::Md5, "t"), ("Position", F::Position, "tt"), ("Pi", F::Pi, ""),
        ("CastAsText", F::CastAsText, "x"), ("CastAsFloat", F::CastAsFloat, "x"), ("CastAsInteger", F::CastAsInteger, "x"), ("CastAsBoolean", F::CastAsBoolean, "x"),
        ("CastAsDateTime", F::CastAsDateTime, "x"), ("CastAsDate", F::CastAsDate, "x"), ("CastAsTime", F::CastAsTime, "x"),
        ("Least", F::Least, "nn"), ("Greatest", F::Greatest, "nn"), ("Rtrim", F::Rtrim, "tt"), ("Ltrim", F::Ltrim, "tt"), ("Substr", F::Substr, "ti"),
        ("SubstrWithSize", F::SubstrWithSize, "tii"), ("Ceil", F::Ceil, "n"), ("Floor", F::Floor, "n"), ("Round", F::Round, "ni"), ("Trunc", F::Trunc, "ni"),
        ("RegexpContains", F::RegexpContains, "tt"), ("RegexpReplace", F::RegexpReplace, "ttt"), ("Encode", F::Encode, "tt"), ("Decode", F::Decode, "tt"), ("Unhex", F::Unhex, "t"),
        ("ExtractEpoch", F::ExtractEpoch, "d"), ("ExtractYear", F::ExtractYear, "d"), ("ExtractMonth", F::ExtractMonth, "d"), ("ExtractDay", F::ExtractDay, "d"),
        ("ExtractHour", F::ExtractHour, "d"), ("ExtractMinute", F::ExtractMinute, "d"), ("ExtractSecond", F::ExtractSecond, "d"), ("ExtractMicrosecond", F::ExtractMicrosecond, "d"),
        ("ExtractMillisecond", F::ExtractMillisecond, "d"), ("ExtractDow", F::ExtractDow, "d"), ("ExtractWeek", F::ExtractWeek, "d"), ("Dayname", F::Dayname, "d"),
        ("FromUnixtime", F::FromUnixtime, "i"), ("UnixTimestamp", F::UnixTimestamp, "d"), ("DateFormat", F::DateFormat, "dt"), ("Quarter", F::Quarter, "d"),
        ("DatetimeDiff", F::DatetimeDiff, "ddt"), ("Date", F::Date, "d"), ("Coalesce", F::Coalesce, "xx"), ("Sign", F::Sign, "n"), ("Like", F::Like, "tt"), ("Ilike", F::Ilike, "tt"),
        ("Choose", F::Choose, "ix"), ("IsNull", F::IsNull, "x"), ("IsBool", F::IsBool, "bb"),
        // x IN l with a list that is a column, not a literal: its type says which elements it may hold and how many, not which it does hold
        ("InList", F::InList, "iL"),
    ]
}

pub fn aggregate_table() -> Vec<(&'static str, Aggregate)> {
    vec![("Min", Aggregate::Min), ("Max", Aggregate::Max), ("Median", Aggregate::Median), ("NUnique", Aggregate::NUnique), ("First", Aggregate::First), ("Last", Aggregate::Last),
         ("Mean", Aggregate::Mean), ("MeanDistinct", Aggregate::MeanDistinct), ("List", Aggregate::List), ("Count", Aggregate::Count), ("CountDistinct", Aggregate::CountDistinct),
         ("Sum", Aggregate::Sum), ("SumDistinct", Aggregate::SumDistinct), ("Std", Aggregate::Std), ("StdDistinct", Aggregate::StdDistinct), ("Var", Aggregate::Var), ("VarDistinct", Aggregate::VarDistinct),
         ("Quantile", Aggregate::Quantile(0.5))]
}

const CASE_TEXTS: [&str; 12] = ["", "A", "B", "Z", "a", "b", "ab", "z", "Ab", "0", "12", " x "];

fn gen_text_ty2(rng: &mut Rng) -> J {
    if rng.chance(1, 5) { return json!(["text", [["\u{0}", "\u{10FFFF}"]]]); }
    let n = 1 + rng.below(3);
    let ps: Vec<[String; 2]> = (0..n).map(|_| { let a = rng.pick(&CASE_TEXTS).to_string(); let b = if rng.chance(2, 3) { a.clone() } else { rng.pick(&CASE_TEXTS).to_string() }; if a <= b { [a, b] } else { [b, a] } }).collect();
    json!(["text", ps])
}

fn gen_arg_ty(rng: &mut Rng, cat: char, extremes: bool) -> J {
    let t = match cat {
        'n' => if rng.chance(1, 2) { gen_int_ty(rng, extremes) } else { gen_float_ty(rng, extremes) },
        'i' => gen_int_ty(rng, extremes),
        'b' => { let k = rng.below(3); json!(["bool", match k { 0 => vec![[0, 0]], 1 => vec![[1, 1]], _ => vec![[0, 1]] }]) }
        't' => gen_text_ty2(rng),
        'd' => match rng.below(3) { 0 => { let n = 1 + rng.below(2); json!(["date", (0..n).map(|_| { let a = rng.range(-40000, 40000); let b = a + rng.range(0, 800); [a, b] }).collect::<Vec<_>>()]) }
                                    1 => { let n = 1 + rng.below(2); json!(["datetime", (0..n).map(|_| { let a = rng.range(-40000, 40000) * 86400 + rng.range(0, 86399); let b = a + rng.range(0, 80000000); [a, b] }).collect::<Vec<_>>()]) }
                                    _ => { let a = rng.range(0, 86399); let b = rng.range(a, 86399); json!(["time", [[a, b]]]) } },
        // a list of small integers: a finite element set or an interval, and a size range around the number of possible elements
        'L' => { let n = 1 + rng.below(3) as i64; let base = rng.range(-2, 3);
                 let elem = if rng.chance(2, 3) { json!(["int", (0..n).map(|i| [base + i, base + i]).collect::<Vec<_>>()]) } else { json!(["int", [[base, base + n - 1]]]) };
                 let lo = (n - rng.range(0, 1)).max(0); return json!(["list", elem, [[lo, lo + rng.range(0, 2)]]]); }
        'c' => match rng.below(4) { 0 => gen_int_ty(rng, extremes), 1 => gen_float_ty(rng, extremes), 2 => gen_text_ty2(rng), _ => gen_arg_ty(rng, 'd', extremes) },
        _ => gen_scalar_ty(rng, extremes),
    };
    if rng.chance(1, 8) { json!(["opt", t]) } else { t }
}

/// expression AST: ["col", i] | ["fn", name, [args]]
fn gen_expr(rng: &mut Rng, depth: u32, ncols: usize, table: &[(&'static str, F, &'static str)]) -> J {
    if depth == 0 || rng.chance(1, 3) { return json!(["col", rng.below(ncols as u64)]); }
    let numeric: Vec<&(&'static str, F, &'static str)> = table.iter().filter(|(_, _, c)| ["n", "nn", "ni"].contains(c)).collect();
    let (name, _, cat) = **rng.pick(&numeric);
    let args: Vec<J> = cat.chars().map(|_| gen_expr(rng, depth - 1, ncols, table)).collect();
    json!(["fn", name, args])
}

pub fn gen(rng: &mut Rng, k: usize, tier: &str) -> J {
    let table = function_table();
    let extremes = k % 4 == 0;
    match k % 10 {
        0..=5 => {
            // scalar function, functions are cycled so that each gets the same number of cases
            let (name, _, cat) = table[(k / 10 * 6 + k % 10) % table.len()];
            let mut tys: Vec<J> = vec![];
            for c in cat.chars() {
                // the two branches of case / coalesce mostly share a type
                if c == 'x' && !tys.is_empty() && rng.chance(2, 3) { let last = tys.last().unwrap().clone(); tys.push(gen_related_col(rng, &last, extremes)); } else { tys.push(gen_arg_ty(rng, c, extremes)); }
            }
            // x IN l: mostly an x whose type lies inside the list's element type
            if name == "InList" && rng.chance(3, 4) { let ivs: Vec<J> = tys[1][1][1].as_array().unwrap().clone(); let keep: Vec<J> = ivs.iter().filter(|_| rng.chance(2, 3)).cloned().collect(); tys[0] = json!(["int", if keep.is_empty() { ivs } else { keep }]); }
            let vals: Vec<J> = tys.iter().map(|t| gen_val_in(rng, t).unwrap_or(json!(["none"]))).collect();
            json!({"kind": "fn", "f": name, "tys": tys, "vals": vals})
        }
        6 | 7 => {
            let aggs = aggregate_table();
            let (name, _) = aggs[(k / 10 * 2 + k % 10) % aggs.len()];
            let elem = match rng.below(6) { 0 | 1 => gen_int_ty(rng, extremes), 2 | 3 => gen_float_ty(rng, extremes), 4 => gen_text_ty2(rng), _ => json!(["opt", gen_int_ty(rng, false)]) };
            let elem = if elem[1].as_array().map_or(false, |a| a.is_empty()) || (jtag(&elem) == "opt" && elem[1][1].as_array().map_or(false, |a| a.is_empty())) { json!(["int", [[0, 5]]]) } else { elem };
            let lo = rng.range(0, 3); let hi = lo + rng.range(0, 4);
            let ty = json!(["list", elem, [[lo, hi]]]);
            let val = gen_val_in(rng, &ty);
            json!({"kind": "agg", "f": name, "ty": ty, "val": val})
        }
        _ => {
            let ncols = 1 + rng.below(3) as usize;
            let cols: Vec<J> = (0..ncols).map(|_| gen_arg_ty(rng, 'n', extremes)).collect();
            let depth = if tier == "thorough" { 2 + rng.below(4) as u32 } else { 1 + rng.below(3) as u32 };
            let e = gen_expr(rng, depth, ncols, &table);
            let vals: Vec<J> = cols.iter().map(|t| gen_val_in(rng, t).unwrap_or(json!(["none"]))).collect();
            json!({"kind": "expr", "cols": cols, "expr": e, "vals": vals})
        }
    }
}

pub fn expr_of(j: &J, table: &[(&'static str, F, &'static str)]) -> Expr {
    match j[0].as_str().unwrap() {
        "col" => Expr::col(format!("c{}", j[1].as_u64().unwrap())),
        "val" => Expr::Value(val_of(&j[1])),
        _ => { let f = table.iter().find(|(n, _, _)| *n == j[1].as_str().unwrap()).unwrap().1;
               Expr::Function(qrlew::expr::Function::new(f, j[2].as_array().unwrap().iter().map(|a| Arc::new(expr_of(a, table))).collect())) }
    }
}

/// classify the argument situation of a failing function case (part of the finding key)
/// numeric span (max - min) of an argument set; sets wider than one period of sin/cos are a known weak spot
fn span(t: &DataType) -> f64 {
    match t { DataType::Integer(i) => match (i.min(), i.max()) { (Some(a), Some(b)) => *b as f64 - *a as f64, _ => 0.0 },
              DataType::Float(i) => match (i.min(), i.max()) { (Some(a), Some(b)) => b - a, _ => 0.0 },
              DataType::Optional(o) => span(o.data_type()), _ => 0.0 }
}
/// largest magnitude among numeric argument values (lists included)
fn scale_of(vals: &[Value]) -> f64 {
    fn one(v: &Value) -> f64 { match v { Value::Integer(i) => (**i as f64).abs(), Value::Float(f) => if f.is_finite() { f.abs() } else { 0.0 }, Value::Optional(o) => o.as_deref().map(one).unwrap_or(0.0), Value::List(l) => l.iter().map(one).fold(0.0, f64::max), _ => 0.0 } }
    vals.iter().map(one).fold(0.0, f64::max)
}

fn arg_class(tys: &[DataType], vals: &[Value]) -> String {
    let mut parts = vec![];
    for t in tys { parts.push(vname(t)); }
    let huge = vals.iter().any(|v| crate::s_dtype::vclass(v) == "huge");
    let multi = tys.iter().any(|t| span(t) > 6.2);
    // arguments beyond 1e6 in magnitude: the period reduction of sin/cos loses about |x|·2^-52 of absolute precision
    let large = vals.iter().any(|v| match v { Value::Integer(i) => (**i as f64).abs() > 1e6, Value::Float(f) => f.abs() > 1e6, Value::Optional(o) => matches!(o.as_deref(), Some(Value::Float(f)) if f.abs() > 1e6) || matches!(o.as_deref(), Some(Value::Integer(i)) if (**i as f64).abs() > 1e6), _ => false });
    let huge = huge || large;
    format!("{}{}{}", parts.join(","), if huge { "/huge" } else { "" }, if multi { "/wide" } else { "" })
}

pub fn eval(case: &J) -> Outcome {
    let mut out = Outcome::new();
    let table = function_table();
    let kind = case["kind"].as_str().unwrap();
    match kind {
        "fn" => {
            let name = case["f"].as_str().unwrap();
            let f = table.iter().find(|(n, _, _)| *n == name).unwrap().1;
            let tys: Vec<DataType> = case["tys"].as_array().unwrap().iter().map(ty_of).collect();
            let vals: Vec<Value> = case["vals"].as_array().unwrap().iter().map(val_of).collect();
            out.tag(&format!("fn={name}"));
            if tys.iter().zip(vals.iter()).any(|(t, v)| !mem(t, v)) { out.tag("trivial"); out.tag("gen-miss"); return out; }
            let y = guarded(|| f.value(&vals));
            let img = guarded(|| f.super_image(&tys));
            judge(&mut out, &format!("fn/{name}"), &format!("{name}({})", vals.iter().map(|v| v.to_string()).collect::<Vec<_>>().join(", ")),
                  &format!("({})", tys.iter().map(|t| t.to_string()).collect::<Vec<_>>().join(", ")), y, img,
                  // the text of a float zero: -0.0 and 0.0 are one member of float{0} and two texts (the recorded C11 / C12 signed-zero finding)
                  &format!("{}{}", arg_class(&tys, &vals), if name == "CastAsText" && vals.iter().any(|v| crate::s_dtype::vclass(v) == "signed-zero") { "/signed-zero" } else { "" }), scale_of(&vals));
        }
        "agg" => {
            let name = case["f"].as_str().unwrap();
            let a = aggregate_table().into_iter().find(|(n, _)| *n == name).unwrap().1;
            out.tag(&format!("agg={name}"));
            if case["val"].is_null() { out.tag("trivial"); return out; }
            let ty = ty_of(&case["ty"]); let v = val_of(&case["val"]);
            if !mem(&ty, &v) { out.tag("trivial"); out.tag("gen-miss"); return out; }
            let y = guarded(|| a.value(&v));
            let img = guarded(|| a.super_image(&ty));
            let n = if let Value::List(l) = &v { l.len() } else { 0 };
            judge(&mut out, &format!("agg/{name}"), &format!("{name}{v}"), &ty.to_string(), y, img, &format!("{}/n={}", vname(&ty_of(&case["ty"][1])), n.min(3)), scale_of(std::slice::from_ref(&v)));
        }
        _ => {
            let cols: Vec<DataType> = case["cols"].as_array().unwrap().iter().map(ty_of).collect();
            let vals: Vec<Value> = case["vals"].as_array().unwrap().iter().map(val_of).collect();
            if cols.iter().zip(vals.iter()).any(|(t, v)| !mem(t, v)) { out.tag("trivial"); out.tag("gen-miss"); return out; }
            let e = expr_of(&case["expr"], &table);
            let row_t = DataType::structured(cols.iter().enumerate().map(|(i, t)| (format!("c{i}"), t.clone())).collect::<Vec<_>>());
            let row_v = Value::structured(vals.iter().enumerate().map(|(i, v)| (format!("c{i}"), v.clone())).collect::<Vec<_>>());
            out.tag("expr");
            // blame the smallest sub-expression that is unsound while all of its own sub-expressions are sound:
            // the finding is keyed by that function symbol, in the same namespace as the function-level cases
            fn subs(e: &Expr, acc: &mut Vec<Expr>) { if let Expr::Function(f) = e { for a in f.arguments() { subs(&a, acc); } acc.push(e.clone()); } }
            let mut nodes = vec![]; subs(&e, &mut nodes);
            if nodes.is_empty() { out.tag("trivial"); }
            for node in nodes {
                let fname = if let Expr::Function(f) = &node { table.iter().find(|(_, v, _)| *v == f.function()).map(|t| t.0).unwrap_or("?") } else { "?" };
                let y = guarded(|| node.value(&row_v));
                let img = guarded(|| node.super_image(&row_t));
                let before = out.oracle.len();
                // classify by the node's own arguments (their values on this row and their propagated types)
                let (mut atys, mut avals) = (vec![], vec![]);
                if let Expr::Function(f) = &node { for a in f.arguments() {
                    if let Ok(Ok(v)) = guarded(|| a.value(&row_v)) { avals.push(v); }
                    if let Ok(Ok(t)) = guarded(|| a.super_image(&row_t)) { atys.push(t); }
                } }
                judge(&mut out, &format!("fn/{fname}"), &format!("{node} at {row_v}"), &row_t.to_string(), y, img, &arg_class(&atys, &avals), scale_of(&avals));
                if out.oracle.len() > before { break; }
            }
        }
    }
    out
}

/// class of the produced value (part of the finding key)
fn result_class(y: &Value) -> &'static str {
    match y {
        Value::Optional(o) => match o.as_ref() { None => "null", Some(v) => result_class(v) },
        Value::Float(f) => if f.is_nan() { "nan" } else if f.is_infinite() { "inf" } else { "value" },
        _ => "value",
    }
}

/// membership, with a relative tolerance of 1e-9 on float results (IEEE rounding is outside the model: the image of a
/// finite value set is computed by the same closure as the value, possibly after a period shift or a reordering of operations)
fn mem_tol(t: &DataType, y: &Value, arg_scale: f64, root_of_difference: bool) -> bool {
    if mem(t, y) { return true; }
    let yv = match y { Value::Optional(o) => match o.as_ref() { Some(v) => (**v).clone(), None => return false }, v => v.clone() };
    if let Value::Float(f) = &yv {
        let f: f64 = **f;
        if !f.is_finite() { return false; }
        let tt = match t { DataType::Optional(o) => o.data_type().clone(), t => t.clone() };
        if let DataType::Float(iv) = &tt {
            // plus a few ulps of the largest argument: range reduction of sin / cos and cancellation in sums lose that much
            // (arguments beyond 1e6 are the `/huge` class, judged without this allowance: there the range reduction is simply wrong)
            // a standard deviation is the square root of a difference of nearly equal terms: the k·ε·scale² the variance loses to
            // cancellation becomes sqrt(k·ε)·scale (std of three copies of 2.9999999999999996 is computed as 4.2e-8, not 0)
            let eps = 1e-9 * f.abs().max(1e-300) + 1e-12 + if arg_scale <= 1e6 { 16.0 * f64::EPSILON * arg_scale + if root_of_difference { (16.0 * f64::EPSILON).sqrt() * arg_scale } else { 0.0 } } else { 0.0 };
            return iv.iter().any(|[a, b]| f >= a - eps && f <= b + eps);
        }
    }
    false
}

fn judge<E1: std::fmt::Display, E2: std::fmt::Display>(out: &mut Outcome, site: &str, what: &str, set: &str,
        y: Result<Result<Value, E1>, (String, String)>, img: Result<Result<DataType, E2>, (String, String)>, cls: &str, arg_scale: f64) {
    if let Err((loc, msg)) = &img { out.fail(&format!("C18/{site}/super_image-panic/{}", crate::common::site(loc, msg)), format!("super_image of {what} on {set} panicked at {loc}: {msg}")); }
    match y {
        Err((loc, msg)) => { out.tag("value-panic"); out.fail(&format!("C18/{site}/value-panic/{}", crate::common::site(&loc, &msg)), format!("{what} panicked at {loc}: {msg}")); }
        Ok(Err(_)) => { out.tag("value-err"); out.tag("trivial"); }
        Ok(Ok(y)) => {
            out.tag("value-ok");
            match img {
                Ok(Ok(t)) => { if !mem_tol(&t, &y, arg_scale, site.contains("/Std")) { let cls = format!("{}{}{}{}", result_class(&y), if cls.contains("/huge") || crate::s_dtype::vclass(&y) == "huge" { "/huge" } else { "" }, if cls.contains("/wide") { "/wide" } else { "" }, if cls.ends_with("/signed-zero") { "/signed-zero" } else { "" }); out.fail(&format!("C06/{site}/unsound-image/{cls}"), format!("{what} = {y} but the propagated range of the arguments' type {set} is {t}, which does not contain it")); } }
                Ok(Err(e)) => out.fail(&format!("C06/{site}/image-fails/{}", result_class(&y)), format!("{what} = {y} but range propagation on {set} fails: {e}")),
                Err(_) => {}
            }
        }
    }
}

// ------------------------------------------------------------------------------------------------
// stream `fnimg`: images of the integer +, -, *, sum on generated interval sets, compared with the Lean model

pub fn gen_img(rng: &mut Rng, k: usize, _tier: &str) -> J {
    let extremes = k % 3 == 0;
    let f = *rng.pick(&["plus", "minus", "multiply", "sum"]);
    let mut set = |rng: &mut Rng, nonneg: bool| -> Vec<[i64; 2]> {
        let n = 1 + rng.below(3);
        (0..n).map(|_| { let a = if nonneg { rng.range(0, 6) } else { int_bound(rng, extremes) }; let b = if rng.chance(1, 2) { a } else if nonneg { rng.range(0, 6) } else { int_bound(rng, extremes) }; [a.min(b), a.max(b)] }).collect()
    };
    let s1 = set(rng, false);
    let s2 = set(rng, f == "sum");
    json!({"f": f, "s1": s1, "s2": s2})
}

pub fn eval_img(case: &J) -> Outcome {
    use qrlew::data_type::{self, function::{self, Function as _}};
    let mut out = Outcome::new();
    let ints = |j: &J| -> data_type::Integer { j.as_array().unwrap().iter().fold(data_type::Integer::empty(), |a, p| a.union_interval(p[0].as_i64().unwrap(), p[1].as_i64().unwrap())) };
    let (s1, s2) = (ints(&case["s1"]), ints(&case["s2"]));
    let f = case["f"].as_str().unwrap();
    out.tag(&format!("f={f}"));
    let r = guarded(|| {
        let arg = DataType::structured_from_data_types([DataType::Integer(s1.clone()), DataType::Integer(s2.clone())]);
        match f {
            "plus" => function::plus().super_image(&arg),
            "minus" => function::minus().super_image(&arg),
            "multiply" => function::multiply().super_image(&arg),
            _ => function::sum().super_image(&DataType::List(data_type::List::new(Arc::new(DataType::Integer(s1.clone())), s2.clone()))),
        }
    });
    out.imp = match r {
        Ok(Ok(DataType::Integer(i))) => json!(i.iter().map(|[a, b]| json!([a, b])).collect::<Vec<_>>()),
        Ok(Ok(t)) => json!({"other": t.to_string()}),
        Ok(Err(_)) => json!("err"),
        Err((loc, msg)) => { out.fail(&format!("C18/fnimg/{f}/panic/{}", site(&loc, &msg)), format!("super_image of {f} on ({s1}, {s2}) panicked: {msg}")); json!("panic") }
    };
    out
}

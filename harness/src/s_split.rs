//! C08. stream `split`: select items mixing aggregates and scalar functions are cut by the real `expr::split::Split`
//! into Map / Reduce / Map layers; the layers (names resolved to the content they stand for) are compared with the
//! Lean model (`Model/Split.lean`), and, independently, inlined back into one expression that must be the original.
use crate::common::*;
use qrlew::expr::{aggregate::Aggregate as AggK, function::Function as FnK, split::{Map, Reduce, Split}, Expr};
use serde_json::{json, Value as J};

fn gen_s(rng: &mut Rng, depth: u32) -> J {
    if depth == 0 || rng.chance(1, 3) { return if rng.chance(1, 4) { json!(["lit", rng.range(-3, 4)]) } else { json!(["col", rng.below(3)]) }; }
    if rng.chance(1, 3) { let f = *rng.pick(&["abs", "neg"]); json!(["app1", f, gen_s(rng, depth - 1)]) } else { let f = *rng.pick(&["plus", "minus", "times"]); let a = gen_s(rng, depth - 1); let b = gen_s(rng, depth - 1); json!(["app2", f, a, b]) }
}
fn gen_a(rng: &mut Rng, depth: u32) -> J {
    if depth == 0 || rng.chance(1, 3) { return if rng.chance(1, 6) { json!(["lit", rng.range(-3, 4)]) } else { let g = *rng.pick(&["sum", "count", "min", "max"]); let d = 1 + rng.below(2) as u32; json!(["agg", g, gen_s(rng, d)]) }; }
    if rng.chance(1, 4) { let f = *rng.pick(&["abs", "neg"]); json!(["app1", f, gen_a(rng, depth - 1)]) } else { let f = *rng.pick(&["plus", "minus", "times"]); let a = gen_a(rng, depth - 1); let b = gen_a(rng, depth - 1); json!(["app2", f, a, b]) }
}
pub fn gen(rng: &mut Rng, k: usize, _tier: &str) -> J {
    // every fourth case repeats an aggregate on purpose (merged columns)
    let a = if k % 4 == 3 { let x = gen_a(rng, 1); let f = *rng.pick(&["plus", "minus", "times"]); let y = gen_a(rng, 1); json!(["app2", f, x.clone(), json!(["app2", "plus", y, x])]) } else { let d = 1 + rng.below(3) as u32; gen_a(rng, d) };
    json!({"item": a})
}

fn to_expr(j: &J) -> Expr {
    let tag = j[0].as_str().unwrap();
    match tag {
        "col" => Expr::col(format!("c{}", j[1].as_u64().unwrap())),
        "lit" => Expr::val(j[1].as_i64().unwrap()),
        "agg" => { let e = to_expr(&j[2]); match j[1].as_str().unwrap() { "sum" => Expr::sum(e), "count" => Expr::count(e), "min" => Expr::min(e), _ => Expr::max(e) } }
        "app1" => { let e = to_expr(&j[2]); match j[1].as_str().unwrap() { "abs" => Expr::abs(e), _ => Expr::opposite(e) } }
        _ => { let (a, b) = (to_expr(&j[2]), to_expr(&j[3])); match j[1].as_str().unwrap() { "plus" => Expr::plus(a, b), "minus" => Expr::minus(a, b), _ => Expr::multiply(a, b) } }
    }
}

/// expression -> the JSON form above; `resolve` turns a column name into what it stands for
fn to_json(e: &Expr, resolve: &dyn Fn(&str) -> Result<J, String>) -> Result<J, String> {
    match e {
        Expr::Column(c) => resolve(c.last().map_err(|e| e.to_string())?),
        Expr::Value(v) => { let s = v.to_string(); s.parse::<i64>().map(|n| json!(["lit", n])).map_err(|_| format!("unexpected value {s}")) }
        Expr::Function(f) => {
            let args: Result<Vec<J>, String> = f.arguments().iter().map(|a| to_json(a, resolve)).collect(); let args = args?;
            match (f.function(), args.len()) {
                (FnK::Abs, 1) => Ok(json!(["app1", "abs", args[0]])), (FnK::Opposite, 1) => Ok(json!(["app1", "neg", args[0]])),
                (FnK::Plus, 2) => Ok(json!(["app2", "plus", args[0], args[1]])), (FnK::Minus, 2) => Ok(json!(["app2", "minus", args[0], args[1]])), (FnK::Multiply, 2) => Ok(json!(["app2", "times", args[0], args[1]])),
                (other, _) => Err(format!("unexpected function {other}")),
            }
        }
        Expr::Aggregate(a) => { let arg = to_json(a.argument(), resolve)?; let g = match a.aggregate() { AggK::Sum => "sum", AggK::Count => "count", AggK::Min => "min", AggK::Max => "max", o => return Err(format!("unexpected aggregate {o}")) }; Ok(json!(["agg", g, arg])) }
        _ => Err("unexpected struct".into()),
    }
}

fn col_json(name: &str) -> Result<J, String> { name.strip_prefix('c').and_then(|n| n.parse::<u64>().ok()).map(|i| json!(["col", i])).ok_or_else(|| format!("unknown column {name}")) }

/// canonical dump of a top Map over an optional Reduce over an optional bottom Map
fn dump(top: &Map) -> Result<J, String> {
    let bottom: Option<&Map> = top.reduce().and_then(|r| r.map());
    if let Some(b) = bottom { if b.reduce().is_some() { return Err("more than three layers".into()); } }
    let res_bottom = |name: &str| -> Result<J, String> {
        match bottom { Some(b) => match b.named_exprs().iter().find(|(n, _)| n == name) { Some((_, e)) => to_json(e, &col_json), None => Err(format!("the Reduce reads `{name}`, which the bottom Map does not produce")) }, None => col_json(name) }
    };
    let reduce: Option<&Reduce> = top.reduce();
    let res_reduce = |name: &str| -> Result<J, String> {
        match reduce { Some(r) => match r.named_aggregates().iter().find(|(n, _)| n == name) {
                Some((_, ac)) => { let g = match ac.aggregate() { AggK::Sum => "sum", AggK::Count => "count", AggK::Min => "min", AggK::Max => "max", o => return Err(format!("unexpected aggregate {o}")) }; Ok(json!(["ref", g, res_bottom(ac.column().last().map_err(|e| e.to_string())?)?])) }
                None => Err(format!("the top Map reads `{name}`, which the Reduce does not produce")) },
            None => col_json(name) }
    };
    let (_, out) = top.named_exprs().iter().find(|(n, _)| n == "out").ok_or("no `out` column in the top Map")?;
    let post = to_json(out, &res_reduce)?;
    // the columns the item actually reads (the Reduce may carry unused ones, e.g. `first` of a literal that shares its name with an argument)
    fn refs(j: &J, acc: &mut Vec<J>) { match j[0].as_str().unwrap_or("") { "ref" => acc.push(j.clone()), "app1" => refs(&j[2], acc), "app2" => { refs(&j[2], acc); refs(&j[3], acc) } _ => {} } }
    let mut used: Vec<J> = vec![]; refs(&post, &mut used);
    let mut aggs: Vec<String> = used.iter().map(|j| j.to_string()).collect();
    let mut pre: Vec<String> = used.iter().map(|j| j[2].to_string()).collect();
    let produced = reduce.map(|r| r.named_aggregates().len()).unwrap_or(0);
    aggs.sort(); aggs.dedup(); pre.sort(); pre.dedup();
    let extra = produced > aggs.len();
    Ok(json!({"post": post, "aggs": aggs, "pre": pre, "group_by": reduce.map(|r| r.group_by().len()).unwrap_or(0), "extra": extra}))
}

/// put the aggregates back where the references are
fn inline(j: &J) -> J {
    match j[0].as_str().unwrap() { "ref" => json!(["agg", j[1], j[2]]), "app1" => json!(["app1", j[1], inline(&j[2])]), "app2" => json!(["app2", j[1], inline(&j[2]), inline(&j[3])]), _ => j.clone() }
}

/// two different expressions (or aggregates) of one layer carry the same content-derived name
fn layer_name_collision(top: &Map) -> bool {
    fn dup<T: PartialEq>(v: &[(String, T)]) -> bool { v.iter().enumerate().any(|(i, (n, e))| v[..i].iter().any(|(m, f)| m == n && f != e)) }
    let bottom = top.reduce().and_then(|r| r.map());
    bottom.map(|b| dup(b.named_exprs())).unwrap_or(false) || top.reduce().map(|r| dup(r.named_aggregates())).unwrap_or(false) || dup(top.named_exprs())
}

pub fn eval(case: &J) -> Outcome {
    let mut out = Outcome::new();
    let item = &case["item"];
    let expr = to_expr(item);
    let n_aggs = item.to_string().matches("\"agg\"").count();
    out.tag(&format!("aggregates={}", n_aggs.min(4)));
    let split = match guarded(|| Split::from(("out", expr.clone()))) { Ok(s) => s, Err((loc, msg)) => { out.imp = json!("panic"); out.fail(&format!("C18/split/panic/{}", site(&loc, &msg)), format!("{expr}: {msg}")); return out; } };
    let top: Map = match split { Split::Map(m) => m, Split::Reduce(r) => r.into_map() };
    match dump(&top) {
        Ok(d) => {
            if inline(&d["post"]) != *item { out.fail(if layer_name_collision(&top) { "C08/split/name-collision" } else { "C08/split/item-changed" }, format!("{expr} is split into layers that recombine to {} (layers: {top})", inline(&d["post"]))); }
            if d["extra"].as_bool().unwrap_or(false) { out.tag("unused-reduce-columns"); }
            let mut d = d; d.as_object_mut().unwrap().remove("extra");
            // with colliding names the layers are corrupt in a way the model (which assumes injective names) does not describe
            out.imp = if layer_name_collision(&top) { J::Null } else { d };
        }
        Err(e) => { out.imp = json!({"error": e}); out.fail("C08/split/layers-inconsistent", format!("{expr}: {e} (layers: {top})")); }
    }
    out
}

// ------------------------------------------------------------------------------------------------
// stream `splitlist`: a whole select list without GROUP BY (`Split::from_iter`): the top Map must have one column per item, in the
// order of the list, each recombining to its item — against `Qrlew.Split.topAll` (the function `split_list_preserves` is about)

pub fn gen_list(rng: &mut Rng, _k: usize, _tier: &str) -> J {
    let n = 1 + rng.below(4);
    // aggregate-free items (literals) before, between and after the aggregate items
    let items: Vec<J> = (0..n).map(|_| if rng.chance(1, 3) { json!(["lit", rng.range(-3, 9)]) } else { let d = 1 + rng.below(2) as u32; gen_a(rng, d) }).collect();
    json!({"items": items})
}

pub fn eval_list(case: &J) -> Outcome {
    let mut out = Outcome::new();
    let items: Vec<J> = case["items"].as_array().unwrap().clone();
    let named: Vec<(String, Expr)> = items.iter().enumerate().map(|(i, it)| (format!("o{i}"), to_expr(it))).collect();
    let n_aggs = case["items"].to_string().matches("\"agg\"").count();
    if n_aggs == 0 || items.len() < 2 { out.tag("trivial"); }
    if items.iter().any(|it| it[0] == "lit") { out.tag("has-literal-item"); }
    let split = match guarded(|| named.iter().cloned().collect::<Split>()) { Ok(s) => s, Err((loc, msg)) => { out.imp = json!("panic"); out.fail(&format!("C18/splitlist/panic/{}", site(&loc, &msg)), format!("{:?}: {msg}", named.iter().map(|(n, e)| format!("{e} AS {n}")).collect::<Vec<_>>())); return out; } };
    let top: Map = match split { Split::Map(m) => m, Split::Reduce(r) => r.into_map() };
    let bottom: Option<&Map> = top.reduce().and_then(|r| r.map());
    let res_bottom = |name: &str| -> Result<J, String> { match bottom { Some(b) => match b.named_exprs().iter().find(|(n, _)| n == name) { Some((_, e)) => to_json(e, &col_json), None => Err(format!("the Reduce reads `{name}`, which the bottom Map does not produce")) }, None => col_json(name) } };
    let reduce: Option<&Reduce> = top.reduce();
    let res_reduce = |name: &str| -> Result<J, String> {
        match reduce { Some(r) => match r.named_aggregates().iter().find(|(n, _)| n == name) {
                Some((_, ac)) => { let g = match ac.aggregate() { AggK::Sum => "sum", AggK::Count => "count", AggK::Min => "min", AggK::Max => "max", AggK::First => "first", o => return Err(format!("unexpected aggregate {o}")) };
                    let arg = res_bottom(ac.column().last().map_err(|e| e.to_string())?)?;
                    // a literal item travels through the Reduce as first(literal): it is still that literal
                    if g == "first" { Ok(arg) } else { Ok(json!(["ref", g, arg])) } }
                None => Err(format!("the top Map reads `{name}`, which the Reduce does not produce")) },
            None => col_json(name) }
    };
    let collided = layer_name_collision(&top);
    let cols: Result<Vec<J>, String> = top.named_exprs().iter().map(|(n, e)| to_json(e, &res_reduce).map(|j| json!([n, j]))).collect();
    match cols {
        Ok(cols) => {
            let want: Vec<J> = items.iter().enumerate().map(|(i, it)| json!([format!("o{i}"), it])).collect();
            let back: Vec<J> = cols.iter().map(|c| json!([c[0], inline(&c[1])])).collect();
            if back != want && !collided { out.fail("C08/splitlist/columns-differ", format!("the select list {:?} is split into a top Map whose columns recombine to {:?}", want.iter().map(|w| w.to_string()).collect::<Vec<_>>(), cols.iter().map(|w| w.to_string()).collect::<Vec<_>>())); }
            out.imp = if collided { J::Null } else { J::Array(cols) };
        }
        Err(e) => { out.imp = json!({"error": e}); if !collided { out.fail("C08/splitlist/layers-inconsistent", format!("{e} (layers: {top})")); } else { out.imp = J::Null; } }
    }
    out
}

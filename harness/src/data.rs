//! Database instances for the `s_rules::world()` schemas.
use crate::common::Rng;
use crate::exec::{Cell, Db, RandomMode};

#[derive(Clone, Debug)]
pub struct Data {
    pub users: Vec<Vec<Cell>>,    // id, age, city, income, seg, debt
    pub orders: Vec<Vec<Cell>>,   // id, user_id, amount, qty, bal, eps
    pub products: Vec<Vec<Cell>>, // pid, price, cat
    pub items: Vec<Vec<Cell>>,    // id, order_id, price
}

pub fn gen_data(rng: &mut Rng, n_users: usize, max_orders_per_user: u64) -> Data {
    let cities = ["A", "B", "C"];
    let users: Vec<Vec<Cell>> = (0..n_users).map(|i| vec![Cell::Int(i as i64), Cell::Int(rng.range(0, 100)), Cell::Text(rng.pick(&cities).to_string()), Cell::Real(rng.range(0, 4000) as f64 * 0.25)]).map(|mut r: Vec<Cell>| { let seg = match (&r[0], &r[1]) { (Cell::Int(i), Cell::Int(a)) if (i + a) % 2 == 0 => "p", _ => "q" }; r.push(Cell::Text(seg.to_string())); let debt = match &r[1] { Cell::Int(a) => -(a % 31), _ => 0 }; r.push(Cell::Int(debt)); r }).collect();
    let mut orders = vec![]; let mut oid = 0;
    for u in 0..n_users { for _ in 0..rng.below(max_orders_per_user + 1) { orders.push(vec![Cell::Int(oid), Cell::Int(u as i64), Cell::Real(rng.range(0, 400) as f64 * 0.25), Cell::Int(rng.range(0, 10)), Cell::Int(*rng.pick(&[-50i64, -50, -37, -20, -1, 0, 7, 20])), Cell::Real(1e-18)]); oid += 1; } }
    let products: Vec<Vec<Cell>> = (0..8).map(|i| vec![Cell::Int(i), Cell::Real(rng.range(0, 200) as f64 * 0.25), Cell::Text(if i % 2 == 0 { "x" } else { "y" }.to_string())]).collect();
    // order ids and user ids overlap on purpose (both start at 0)
    let mut items = vec![]; let mut iid = 0;
    for o in &orders { for _ in 0..rng.below(3) { items.push(vec![Cell::Int(iid), o[0].clone(), Cell::Real(rng.range(0, 80) as f64 * 0.25)]); iid += 1; } }
    Data { users, orders, products, items }
}

impl Data {
    pub fn load(&self, random: RandomMode) -> Db {
        let db = Db::new(random);
        db.create_table("users", &["id", "age", "city", "income", "seg", "debt"], &self.users);
        db.create_table("orders", &["id", "user_id", "amount", "qty", "bal", "eps"], &self.orders);
        db.create_table("products", &["pid", "price", "cat"], &self.products);
        db.create_table("items", &["id", "order_id", "price"], &self.items);
        db
    }
    /// the neighbouring database: all rows owned by privacy unit `uid` removed (users row and its orders)
    pub fn without_user(&self, uid: i64) -> Data {
        let gone: Vec<Cell> = self.orders.iter().filter(|r| r[1] == Cell::Int(uid)).map(|r| r[0].clone()).collect();
        Data { users: self.users.iter().filter(|r| r[0] != Cell::Int(uid)).cloned().collect(), orders: self.orders.iter().filter(|r| r[1] != Cell::Int(uid)).cloned().collect(), products: self.products.clone(),
               items: self.items.iter().filter(|r| !gone.contains(&r[1])).cloned().collect() }
    }
    /// only the rows owned by `uid` (public tables kept)
    pub fn only_user(&self, uid: i64) -> Data {
        let mine: Vec<Cell> = self.orders.iter().filter(|r| r[1] == Cell::Int(uid)).map(|r| r[0].clone()).collect();
        Data { users: self.users.iter().filter(|r| r[0] == Cell::Int(uid)).cloned().collect(), orders: self.orders.iter().filter(|r| r[1] == Cell::Int(uid)).cloned().collect(), products: self.products.clone(),
               items: self.items.iter().filter(|r| mine.contains(&r[1])).cloned().collect() }
    }
}

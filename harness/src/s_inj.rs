//! Stream `inj` (C12): conversions between variants. For a source type A, a target variant B and values v1, v2 of A:
//! image membership, totality on A, injectivity, round trip, refusal of lossy conversions.
//! Also `ofint`: Rust's `i64 as f64` against the Lean rounding model.
use crate::common::*;
use crate::s_dtype::mem;
use crate::tygen::*;
use qrlew::data_type::{injection::{InjectInto, Injection}, value::Value, DataType, Variant};
use serde_json::{json, Value as J};

fn target(rng: &mut Rng) -> J {
    match rng.below(9) {
        0 => json!(["int", [[i64::MIN, i64::MAX]]]), 1 => json!(["float", [[f64::MIN, f64::MAX]]]),
        2 => json!(["text", [["", "\u{10FFFF}"]]]), 3 => json!(["bool", [[0, 1]]]), 4 => json!(["bytes"]),
        5 => json!(["datetime", [[-4000000000i64, 4000000000i64]]]), 6 => json!(["date", [[-40000, 40000]]]),
        7 => json!(["opt", ["any"]]), _ => json!(["float", [[-1000.0, 1000.0]]]),
    }
}

pub fn gen(rng: &mut Rng, k: usize, _tier: &str) -> J {
    let extremes = k % 2 == 0;
    let a = match rng.below(12) { 10 | 11 => { let n = 2 + rng.below(2) as usize; let names = ["a", "b", "c"]; json!(["struct", (0..n).map(|i| json!([names[i], gen_scalar_ty(rng, extremes)])).collect::<Vec<_>>()]) } 0..=6 => gen_scalar_ty(rng, extremes), 7 => json!(["opt", gen_scalar_ty(rng, extremes)]),
                                  8 => { let n = 1 + rng.below(3) as usize; { let names = ["a", "b", "c"]; json!(["struct", (0..n).map(|i| json!([names[i], gen_scalar_ty(rng, extremes)])).collect::<Vec<_>>()]) } }
                                  _ => json!(["list", gen_scalar_ty(rng, extremes), [[0, 3]]]) };
    // composite targets: a struct with some of the source's fields (each widened to the full Float / Text variant or kept),
    // a list / optional of a wider element — the liftings of `Base<Struct, Struct>`, `Base<List, List>`, `Base<Optional, Optional>`
    let widen = |rng: &mut Rng, t: &J| -> J { match (jtag(t), rng.below(3)) { ("int", 0) | ("bool", 0) | ("float", 0) => json!(["float", [[f64::MIN, f64::MAX]]]), ("int", 1) | ("bool", 1) => json!(["int", [[i64::MIN, i64::MAX]]]), _ => t.clone() } };
    let composite = rng.chance(1, 2);
    let b = match jtag(&a) {
        "struct" if composite => { let mut fs: Vec<J> = a[1].as_array().unwrap().iter().map(|f| json!([f[0], widen(rng, &f[1])])).collect(); if fs.len() > 1 && rng.chance(1, 2) { let i = rng.below(fs.len() as u64) as usize; fs.remove(i); } json!(["struct", fs]) }
        "list" if composite => json!(["list", widen(rng, &a[1]), [[0, 5]]]),
        "opt" if composite => json!(["opt", widen(rng, &a[1])]),
        _ => target(rng),
    };
    let v1 = gen_val_in(rng, &a);
    // a second value close to the first (neighbouring integers / floats collide first)
    let v2 = match &v1 {
        Some(v) if jtag(v) == "int" && rng.chance(1, 2) => { let x = v[1].as_i64().unwrap(); Some(json!(["int", if rng.chance(1, 2) { x.saturating_add(1) } else { x.saturating_sub(1) }])) }
        Some(v) if jtag(v) == "float" && rng.chance(1, 3) => { let x = v[1].as_f64().unwrap(); Some(json!(["float", if x == 0.0 { -0.0 } else { -x }])) }
        // the same second, another sub-second part
        Some(v) if (jtag(v) == "datetime" || jtag(v) == "time") && rng.chance(1, 2) => { let ms = v[2].as_i64().unwrap_or(0); Some(json!([jtag(v), v[1], if ms == 250 { 500 } else { 250 }])) }
        // a struct that differs from the first one in a single field
        Some(v) if jtag(v) == "struct" && rng.chance(2, 3) => { let mut fs: Vec<J> = v[1].as_array().unwrap().clone(); let i = rng.below(fs.len() as u64) as usize; let fname = fs[i][0].clone();
            let fty = a[1].as_array().unwrap().iter().find(|f| f[0] == fname).map(|f| f[1].clone()); match fty.and_then(|t| gen_val_in(rng, &t)) { Some(nv) => { fs[i] = json!([fname, nv]); Some(json!(["struct", fs])) } None => gen_val_in(rng, &a) } }
        _ => gen_val_in(rng, &a),
    };
    json!({"a": a, "b": b, "v1": v1, "v2": v2})
}

fn vclass(v: &Value) -> &'static str {
    match v {
        Value::Integer(i) => if (**i as i128).abs() > (1i128 << 53) { "huge" } else { "-" },
        Value::Float(f) => if f.abs() > 9007199254740992.0 { "huge" } else if **f == 0.0 { "signed-zero" } else { "-" },
        Value::Optional(o) => o.as_ref().map_or("-", |x| vclass(x)),
        Value::Struct(s) => if s.iter().any(|(_, x)| vclass(x) == "huge") { "huge" } else if s.iter().any(|(_, x)| vclass(x) == "signed-zero") { "signed-zero" } else { "-" },
        Value::List(l) => if l.iter().any(|x| vclass(x) == "huge") { "huge" } else if l.iter().any(|x| vclass(x) == "signed-zero") { "signed-zero" } else { "-" },
        _ => "-",
    }
}

pub fn eval(case: &J) -> Outcome {
    let mut out = Outcome::new();
    let a = ty_of(&case["a"]); let b = ty_of(&case["b"]);
    let pair = format!("{}->{}", vname(&a), vname(&b));
    out.tag(&format!("pair={pair}"));
    let inj = match guarded(|| a.inject_into(&b)) {
        Ok(Ok(i)) => i,
        Ok(Err(_)) => { out.tag("no-injection"); out.tag("trivial"); return out; }
        Err((loc, msg)) => { out.tag("trivial"); out.fail(&format!("C18/inj/inject_into-panic/{}", site(&loc, &msg)), format!("inject_into({a}, {b}) panicked: {msg}")); return out; }
    };
    // the conversion is "accepted" when into_data_type succeeds (inject_into itself is lazy)
    let img = guarded(|| a.into_data_type(&b).map_err(|e| qrlew::data_type::injection::Error::NoInjection(e.to_string())));
    if !matches!(img, Ok(Ok(_))) { out.tag("no-injection"); out.tag("trivial"); return out; }
    out.tag("injection");
    let vals: Vec<Value> = ["v1", "v2"].iter().filter_map(|k| if case[*k].is_null() { None } else { Some(val_of(&case[*k])) }).filter(|v| guarded(|| a.contains(v)).unwrap_or(false)).collect();
    if vals.is_empty() { out.tag("trivial"); }
    let mut images: Vec<(Value, Value)> = vec![];
    for v in &vals {
        match guarded(|| inj.value(v)) {
            Err((loc, msg)) => out.fail(&format!("C18/inj/value-panic/{}", site(&loc, &msg)), format!("converting {v} from {a} into {b} panicked: {msg}")),
            Ok(Err(e)) => out.fail(&format!("C12/inj/{pair}/not-total/{}", vclass(v)), format!("{a} converts into the variant of {b}, but its member {v} is refused: {e}")),
            Ok(Ok(w)) => {
                if let Ok(Ok(t)) = &img { if !guarded(|| t.contains(&w)).unwrap_or(true) { out.fail(&format!("C12/inj/{pair}/image-not-in-super-image/{}", vclass(v)), format!("{v} of {a} converts to {w}, which is outside the converted type {t}")); } }
                // value preservation for numeric conversions
                let preserved = match (v, &w) {
                    (Value::Integer(i), Value::Float(f)) => (**f) as i128 == **i as i128 && f.fract() == 0.0,
                    (Value::Float(f), Value::Integer(i)) => **f == **i as f64 && (**i as f64) as i128 == **i as i128,
                    (Value::Boolean(x), Value::Integer(i)) => **i == **x as i64,
                    (Value::Integer(i), Value::Boolean(x)) => **i == **x as i64,
                    _ => true,
                };
                if !preserved { out.fail(&format!("C12/inj/{pair}/value-not-preserved/{}", vclass(v)), format!("{v} of {a} converts to {w}: the numeric value changed")); }
                images.push((v.clone(), w));
            }
        }
        // round trip
        if let Some((_, w)) = images.last().filter(|(x, _)| x == v) {
            if let Ok(Ok(t)) = &img {
                if let Ok(Ok(back)) = guarded(|| t.inject_into(&a)) {
                    match guarded(|| back.value(w)) {
                        Ok(Ok(v2)) => if &v2 != v && !(mem(&DataType::from(v2.clone()), v)) { out.fail(&format!("C12/inj/{pair}/round-trip/{}", vclass(v)), format!("{v} -> {w} -> {v2}: converting back does not return the original value")); } else { out.tag("round-trip-ok"); },
                        _ => {}
                    }
                }
            }
        }
    }
    // injectivity
    if images.len() == 2 && images[0].0 != images[1].0 && images[0].1 == images[1].1 {
        let c = if vclass(&images[0].0) != "-" { vclass(&images[0].0) } else { vclass(&images[1].0) };
        out.fail(&format!("C12/inj/{pair}/not-injective/{c}"), format!("two different values {} and {} of {a} both convert to {}", images[0].0, images[1].0, images[0].1));
    }
    if images.len() == 2 { out.tag("two-values"); }
    out
}

// ------------------------------------------------------------------------------------------------
pub fn gen_ofint(rng: &mut Rng, _k: usize, _tier: &str) -> J {
    let n: i64 = match rng.below(6) {
        0 => rng.range(-1000, 1000),
        1 => { let e = rng.range(50, 62); let base = 1i64 << e; let d = rng.range(-4100, 4100); (if rng.chance(1, 2) { base } else { -base }).saturating_add(d) }
        2 => *rng.pick(&[i64::MAX, i64::MIN, i64::MAX - 1, i64::MIN + 1, (1 << 53) + 1, (1 << 53) - 1, 1 << 53, -(1 << 53) - 1, (1 << 54) + 2, (1 << 54) + 6, (1 << 62) + (1 << 8), (1 << 62) + 3 * (1 << 8)]),
        3 => (rng.next() >> 1) as i64,
        4 => -((rng.next() >> 1) as i64),
        _ => { let e = rng.range(53, 62); let m = (rng.next() >> 11) as i64 | (1 << 52); let sh = (e - 52) as u32; (m << sh).wrapping_add(rng.range(-3, 3) + (1i64 << (sh - 1))) }
    };
    json!({"n": n})
}
pub fn eval_ofint(case: &J) -> Outcome {
    let mut out = Outcome::new();
    let n = case["n"].as_i64().unwrap();
    let f = n as f64;
    // (n as f64) is an integer; print it exactly through i128
    out.imp = json!((f as i128).to_string());
    if n.unsigned_abs() < (1 << 53) { out.tag("trivial"); }
    out
}

// ------------------------------------------------------------------------------------------------
// stream `injbase`: the typed base injections between numeric variants (Float<->Integer, Boolean->Integer, Integer->Text...)
// exercised directly through `injection::From(domain).into(co_domain)`

pub fn gen_base(rng: &mut Rng, k: usize, _tier: &str) -> J {
    let pair = *rng.pick(&["f2i", "i2f", "b2i", "i2t", "f2t", "f2i", "i2f", "i2b", "b2t", "d2dt", "dt2d", "dt2d", "d2t", "dt2t", "tm2t"]);
    let extremes = k % 2 == 0;
    // finite value sets (the case in which lossy-looking conversions are accepted) and intervals
    let floats: Vec<f64> = (0..1 + rng.below(3)).map(|_| match rng.below(10) {
        0 => *rng.pick(&[1e19, 2e19, 9223372036854775808.0, 9223372036854777856.0, -9223372036854775808.0, -9223372036854777856.0, 1e300, -1e300, f64::MAX, f64::MIN, 1.8446744073709552e19]),
        1 => *rng.pick(&[9007199254740992.0, 9007199254740994.0, -9007199254740992.0, 4611686018427387904.0]),
        2 | 3 => rng.range(-8, 16) as f64 * 0.5,
        _ => rng.range(-1000, 1000) as f64 }).collect();
    let ints: Vec<i64> = (0..1 + rng.below(3)).map(|_| int_bound(rng, extremes)).collect();
    // dates (days from 1970-01-01), datetimes (day, second of the day, nanosecond): midnight with and without a sub-second part, the
    // last nanosecond of a day, a leap day; times (second of the day, nanosecond)
    let days: Vec<i64> = (0..1 + rng.below(3)).map(|_| if rng.chance(1, 5) { *rng.pick(&[0i64, -1, 11016, 18321, 19782]) } else { rng.range(-20000, 30000) }).collect();
    let stamps: Vec<J> = (0..1 + rng.below(3)).map(|_| { let d = if rng.chance(1, 2) && !days.is_empty() { *rng.pick(&days) } else { rng.range(-20000, 30000) };
        let (s, n) = match rng.below(6) { 0 | 1 => (0, 0), 2 => (0, *rng.pick(&[1i64, 250_000_000, 999_999_999])), 3 => (86399, 999_999_999), 4 => (rng.range(0, 86399), 0), _ => (rng.range(0, 86399), rng.range(0, 999_999_999)) };
        json!([d, s, n]) }).collect();
    let small_ints: Vec<i64> = (0..1 + rng.below(3)).map(|_| rng.range(-1, 2)).collect();
    json!({"pair": pair, "floats": floats, "ints": ints, "bools": [rng.chance(1, 2), rng.chance(1, 2)], "days": days, "stamps": stamps, "small_ints": small_ints})
}

pub fn eval_base(case: &J) -> Outcome {
    use qrlew::data_type::{self, injection};
    let mut out = Outcome::new();
    let pair = case["pair"].as_str().unwrap();
    out.tag(&format!("pair={pair}"));
    let floats: Vec<f64> = case["floats"].as_array().unwrap().iter().map(|x| x.as_f64().unwrap()).collect();
    let ints: Vec<i64> = case["ints"].as_array().unwrap().iter().map(|x| x.as_i64().unwrap()).collect();
    let bools: Vec<bool> = case["bools"].as_array().unwrap().iter().map(|x| x.as_bool().unwrap()).collect();
    // generic driver over one typed injection
    fn drive<D: Variant + Clone + std::fmt::Display, C: Variant + Clone + std::fmt::Display>(out: &mut Outcome, name: &str, dom: D, cod: C, vals: Vec<D::Element>,
        exact: &dyn Fn(&D::Element, &C::Element) -> bool, class: &dyn Fn(&D::Element) -> &'static str)
        where injection::Base<D, C>: Injection<Domain = D, CoDomain = C>, D::Element: Clone + PartialEq + std::fmt::Display, C::Element: Clone + PartialEq + std::fmt::Display {
        let inj = match guarded(|| injection::From(dom.clone()).into(cod.clone())) { Ok(Ok(i)) => i, Ok(Err(_)) => { out.tag("trivial"); out.tag("no-injection"); return; }
            Err((loc, msg)) => { out.tag("trivial"); out.fail(&format!("C18/injbase/{name}/panic/{}", site(&loc, &msg)), msg); return; } };
        let img = guarded(|| inj.super_image(&dom));
        let accepted = matches!(img, Ok(Ok(_)));
        out.tag(if accepted { "accepted" } else { "refused" });
        let mut images: Vec<(D::Element, C::Element)> = vec![];
        for v in &vals {
            let cls = class(v);
            match guarded(|| inj.value(v)) {
                Ok(Ok(w)) => {
                    if !exact(v, &w) { out.fail(&format!("C12/injbase/{name}/value-not-preserved/{cls}"), format!("{v} of {dom} converts to {w}: the value changed (a lossy conversion must be refused)")); }
                    if let Ok(Ok(t)) = &img { if !guarded(|| t.contains(&w)).unwrap_or(true) { out.fail(&format!("C12/injbase/{name}/image-not-in-super-image/{cls}"), format!("{v} of {dom} converts to {w}, outside the converted type {t}")); } }
                    images.push((v.clone(), w));
                }
                Ok(Err(_)) => { if accepted { out.fail(&format!("C12/injbase/{name}/not-total/{cls}"), format!("{dom} converts into {cod} (super_image succeeds) but its member {v} is refused")); } }
                Err((loc, msg)) => out.fail(&format!("C18/injbase/{name}/value-panic/{}", site(&loc, &msg)), msg),
            }
        }
        for i in 0..images.len() { for j in 0..i { if images[i].0 != images[j].0 && images[i].1 == images[j].1 {
            let cls = if class(&images[i].0) != "-" { class(&images[i].0) } else { class(&images[j].0) };
            out.fail(&format!("C12/injbase/{name}/not-injective/{cls}"), format!("{} and {} of {dom} both convert to {}", images[i].0, images[j].0, images[i].1)); } } }
        if images.is_empty() { out.tag("trivial"); }
    }
    use qrlew::data_type::value as v;
    match pair {
        "f2i" => drive(&mut out, "Float->Integer", data_type::Float::from_values(floats.clone()), data_type::Integer::default(), floats.iter().map(|x| v::Float::from(*x)).collect(),
                       &|a, b| **a == **b as f64 && (**b as f64) as i128 == **b as i128 && (**a).abs() < 9.3e18 && ((**a) as i128 == **b as i128), &|a| if a.abs() == 9223372036854775808.0 { "at-2p63" } else if a.abs() > 9223372036854775808.0 { "beyond-i64" } else if a.abs() > 9007199254740992.0 { "huge" } else { "-" }),
        "i2f" => drive(&mut out, "Integer->Float", data_type::Integer::from_values(ints.clone()), data_type::Float::default(), ints.iter().map(|x| v::Integer::from(*x)).collect(),
                       &|a, b| (**b) as i128 == **a as i128 && b.fract() == 0.0, &|a| if (**a as i128).abs() > (1i128 << 53) { "huge" } else { "-" }),
        "b2i" => drive(&mut out, "Boolean->Integer", data_type::Boolean::from_values(bools.clone()), data_type::Integer::default(), bools.iter().map(|x| v::Boolean::from(*x)).collect(), &|a, b| **b == **a as i64, &|_| "-"),
        "i2t" => drive(&mut out, "Integer->Text", data_type::Integer::from_values(ints.clone()), data_type::Text::default(), ints.iter().map(|x| v::Integer::from(*x)).collect(), &|a, b| b.parse::<i64>().ok() == Some(**a), &|_| "-"),
        "i2b" => { let xs: Vec<i64> = case["small_ints"].as_array().unwrap().iter().map(|x| x.as_i64().unwrap()).collect();
                   drive(&mut out, "Integer->Boolean", data_type::Integer::from_values(xs.clone()), data_type::Boolean::default(), xs.iter().map(|x| v::Integer::from(*x)).collect(), &|a, b| (**a == 0 || **a == 1) && **b == (**a == 1), &|_| "-") }
        "b2t" => drive(&mut out, "Boolean->Text", data_type::Boolean::from_values(bools.clone()), data_type::Text::default(), bools.iter().map(|x| v::Boolean::from(*x)).collect(), &|a, b| b.parse::<bool>().ok() == Some(**a), &|_| "-"),
        "d2dt" | "d2t" | "dt2d" | "dt2t" | "tm2t" => {
            use chrono::{NaiveDate, NaiveDateTime, NaiveTime, Timelike};
            let epoch = NaiveDate::from_ymd_opt(1970, 1, 1).unwrap();
            let day = |d: i64| epoch + chrono::Duration::days(d);
            let dates: Vec<NaiveDate> = case["days"].as_array().unwrap().iter().map(|x| day(x.as_i64().unwrap())).collect();
            let stamps: Vec<NaiveDateTime> = case["stamps"].as_array().unwrap().iter().map(|x| day(x[0].as_i64().unwrap()).and_time(NaiveTime::from_num_seconds_from_midnight_opt(x[1].as_u64().unwrap() as u32, x[2].as_u64().unwrap() as u32).unwrap())).collect();
            let times: Vec<NaiveTime> = stamps.iter().map(|s| s.time()).collect();
            let sub = |t: &NaiveDateTime| -> &'static str { if t.time().num_seconds_from_midnight() == 0 && t.time().nanosecond() != 0 { "midnight+fraction" } else if t.time().nanosecond() != 0 { "fraction" } else { "-" } };
            match pair {
                "d2dt" => drive(&mut out, "Date->DateTime", data_type::Date::from_values(dates.clone()), data_type::DateTime::default(), dates.iter().map(|x| v::Date::from(*x)).collect(), &|a, b| **b == a.and_hms_opt(0, 0, 0).unwrap(), &|_| "-"),
                "d2t" => drive(&mut out, "Date->Text", data_type::Date::from_values(dates.clone()), data_type::Text::default(), dates.iter().map(|x| v::Date::from(*x)).collect(), &|a, b| b.parse::<NaiveDate>().ok() == Some(**a), &|_| "-"),
                "dt2d" => drive(&mut out, "DateTime->Date", data_type::DateTime::from_values(stamps.clone()), data_type::Date::default(), stamps.iter().map(|x| v::DateTime::from(*x)).collect(), &|a, b| b.and_hms_opt(0, 0, 0).unwrap() == **a, &|a| sub(a)),
                "dt2t" => drive(&mut out, "DateTime->Text", data_type::DateTime::from_values(stamps.clone()), data_type::Text::default(), stamps.iter().map(|x| v::DateTime::from(*x)).collect(), &|a, b| NaiveDateTime::parse_from_str(b, "%Y-%m-%d %H:%M:%S%.f").ok() == Some(**a), &|a| sub(a)),
                _ => drive(&mut out, "Time->Text", data_type::Time::from_values(times.clone()), data_type::Text::default(), times.iter().map(|x| v::Time::from(*x)).collect(), &|a, b| NaiveTime::parse_from_str(b, "%H:%M:%S%.f").ok() == Some(**a), &|_| "-"),
            }
        }
        _ => drive(&mut out, "Float->Text", data_type::Float::from_values(floats.clone()), data_type::Text::default(), floats.iter().map(|x| v::Float::from(*x)).collect(), &|a, b| b.parse::<f64>().ok() == Some(**a), &|a| if **a == 0.0 { "signed-zero" } else { "-" }),
    }
    out
}

// ------------------------------------------------------------------------------------------------
// stream `injtime`: Date -> DateTime and DateTime -> Date, against the Lean model (`dateToStamp`, `stampToDate?`)

pub fn gen_time(rng: &mut Rng, k: usize, tier: &str) -> J { let c = gen_base(rng, k, tier); json!({"days": c["days"], "stamps": c["stamps"]}) }

pub fn eval_time(case: &J) -> Outcome {
    use chrono::{Datelike, NaiveDate, NaiveDateTime, NaiveTime, Timelike};
    use qrlew::data_type::{self, injection, value as v};
    let mut out = Outcome::new();
    let epoch = NaiveDate::from_ymd_opt(1970, 1, 1).unwrap();
    let day = |d: i64| epoch + chrono::Duration::days(d);
    let dayno = |d: &NaiveDate| (d.num_days_from_ce() - epoch.num_days_from_ce()) as i64;
    let dates: Vec<NaiveDate> = case["days"].as_array().unwrap().iter().map(|x| day(x.as_i64().unwrap())).collect();
    let stamps: Vec<NaiveDateTime> = case["stamps"].as_array().unwrap().iter().map(|x| day(x[0].as_i64().unwrap()).and_time(NaiveTime::from_num_seconds_from_midnight_opt(x[1].as_u64().unwrap() as u32, x[2].as_u64().unwrap() as u32).unwrap())).collect();
    let r = guarded(|| {
        let fwd = injection::From(data_type::Date::default()).into(data_type::DateTime::default()).map_err(|e| e.to_string())?;
        let bwd = injection::From(data_type::DateTime::default()).into(data_type::Date::default()).map_err(|e| e.to_string())?;
        let d2dt: Vec<J> = dates.iter().map(|d| match fwd.value(&v::Date::from(*d)) { Ok(t) => json!([dayno(&t.date()), t.time().num_seconds_from_midnight(), t.time().nanosecond()]), Err(_) => json!("refused") }).collect();
        let dt2d: Vec<J> = stamps.iter().map(|t| match bwd.value(&v::DateTime::from(*t)) { Ok(d) => json!(dayno(&d)), Err(_) => json!("refused") }).collect();
        Ok::<J, String>(json!({"d2dt": d2dt, "dt2d": dt2d}))
    });
    match r { Ok(Ok(j)) => { if !stamps.iter().any(|t| t.time().num_seconds_from_midnight() == 0) { out.tag("trivial"); } out.imp = j; }
              Ok(Err(e)) => { out.tag("trivial"); out.imp = json!({"err": e}); }
              Err((loc, msg)) => { out.tag("trivial"); out.fail(&format!("C18/injtime/panic/{}", site(&loc, &msg)), msg); } }
    out
}

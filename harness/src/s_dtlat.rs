//! stream `dtlat`: the DataType lattice on the composite fragment the SQL path produces — integer interval sets, Optional,
//! two-field structs (nested at will) and lists with a size — `is_subset_of`, `super_union`, `super_intersection` and value
//! membership of the real code against the Lean model `Qrlew.DTLat` (the functions `Props/C11Lat.lean` proves sound).
use crate::common::*;
use qrlew::data_type::{self, value::Value, DataType, Variant as _};
use serde_json::{json, Value as J};
use std::sync::Arc;

fn gen_ivs(rng: &mut Rng) -> J { let n = rng.below(3); let mut lo = rng.range(-6, 2); let mut v = vec![]; for _ in 0..=n { let hi = lo + if rng.chance(1, 3) { 0 } else { rng.range(0, 4) }; v.push(json!([lo, hi])); lo = hi + rng.range(2, 4); } if rng.chance(1, 12) { json!([]) } else { json!(v) } }

/// the admissible lengths of a list: one interval, or two with a hole between them (what a union of list types produces)
fn gen_size(rng: &mut Rng) -> J { let lo = rng.range(0, 2); let hi = lo + rng.range(0, 2); if rng.chance(1, 3) { let lo2 = hi + rng.range(2, 3); json!([[lo, hi], [lo2, lo2 + rng.range(0, 1)]]) } else { json!([[lo, hi]]) } }

fn gen_ty(rng: &mut Rng, depth: u32) -> J {
    if depth == 0 || rng.chance(1, 3) { return json!(["int", gen_ivs(rng)]); }
    // Optional wraps scalars only (what a nullable column is); structs and lists nest freely
    match rng.below(4) { 0 => json!(["opt", ["int", gen_ivs(rng)]]), 1 | 2 => json!(["pair", gen_ty(rng, depth - 1), gen_ty(rng, depth - 1)]), _ => { json!(["list", gen_ty(rng, depth - 1), gen_size(rng)]) } }
}

/// a type of the same shape with other bounds (so that subset / union / intersection are not trivially decided by the shape), sometimes with an Optional added or removed
fn perturb(rng: &mut Rng, t: &J) -> J {
    match t[0].as_str().unwrap() {
        "int" => { if rng.chance(1, 3) { t.clone() } else if rng.chance(1, 2) { // widen: a superset
                let v: Vec<J> = t[1].as_array().unwrap().iter().map(|p| json!([p[0].as_i64().unwrap() - rng.range(0, 1), p[1].as_i64().unwrap() + rng.range(0, 1)])).collect(); let out = json!(["int", v]); if rng.chance(1, 6) { json!(["opt", out]) } else { out } } else { json!(["int", gen_ivs(rng)]) } }
        "opt" => if rng.chance(1, 5) { perturb(rng, &t[1]) } else { let inner = perturb(rng, &t[1]); if inner[0] == "opt" { inner } else { json!(["opt", inner]) } },
        "pair" => json!(["pair", perturb(rng, &t[1]), perturb(rng, &t[2])]),
        _ => { let sz = match rng.below(4) {
                   0 => t[2].clone(),
                   // the hull of the sizes (fills the holes), or the sizes widened at both ends
                   1 => { let a = t[2].as_array().unwrap(); json!([[a[0][0], a[a.len() - 1][1]]]) }
                   2 => json!(t[2].as_array().unwrap().iter().map(|s| json!([(s[0].as_i64().unwrap() - rng.range(0, 1)).max(0), s[1].as_i64().unwrap() + rng.range(0, 1)])).collect::<Vec<_>>()),
                   _ => gen_size(rng) };
               // widening can make two intervals touch or overlap: re-normalise through the library-independent merge
               let mut v: Vec<(i64, i64)> = sz.as_array().unwrap().iter().map(|s| (s[0].as_i64().unwrap(), s[1].as_i64().unwrap())).collect(); v.sort();
               let mut m: Vec<(i64, i64)> = vec![]; for (a, b) in v { if let Some(l) = m.last_mut() { if a <= l.1 { l.1 = l.1.max(b); continue; } } m.push((a, b)); }
               json!(["list", perturb(rng, &t[1]), m.iter().map(|(a, b)| json!([a, b])).collect::<Vec<_>>()]) }
    }
}

fn gen_val(rng: &mut Rng, t: &J) -> Option<J> {
    match t[0].as_str().unwrap() {
        "int" => { let a = t[1].as_array().unwrap(); if a.is_empty() { None } else { let p = rng.pick(a); Some(json!(["i", rng.range(p[0].as_i64().unwrap(), p[1].as_i64().unwrap())])) } }
        "opt" => if rng.chance(1, 3) { Some(json!(["none"])) } else { gen_val(rng, &t[1]).map(|v| json!(["some", v])) },
        "pair" => Some(json!(["pair", gen_val(rng, &t[1])?, gen_val(rng, &t[2])?])),
        _ => { let s = rng.pick(t[2].as_array().unwrap()).clone(); let n = rng.range(s[0].as_i64().unwrap(), s[1].as_i64().unwrap()); let mut v = vec![]; for _ in 0..n { v.push(gen_val(rng, &t[1])?); } Some(json!(["list", v])) }
    }
}

/// a pair of types of the same shape and two values of the first
pub fn gen_pair(rng: &mut Rng) -> (J, J, J, J) {
    let depth = 1 + rng.below(3) as u32;
    let a = gen_ty(rng, depth);
    let b = perturb(rng, &a);
    let (a, b) = if rng.chance(1, 2) { (a, b) } else { (b, a) };
    let v = gen_val(rng, &a).unwrap_or(J::Null); let w = gen_val(rng, &a).unwrap_or(J::Null);
    (a, b, v, w)
}

pub fn gen(rng: &mut Rng, _k: usize, _tier: &str) -> J {
    let depth = 1 + rng.below(3) as u32;
    let a = gen_ty(rng, depth);
    let b = perturb(rng, &a);
    let (a, b) = if rng.chance(1, 2) { (a, b) } else { (b, a) };
    let v = gen_val(rng, &a); let w = gen_val(rng, &b);
    json!({"a": a, "b": b, "v": v, "w": w})
}

fn ints(j: &J) -> data_type::Integer { j.as_array().unwrap().iter().fold(data_type::Integer::empty(), |a, p| a.union_interval(p[0].as_i64().unwrap(), p[1].as_i64().unwrap())) }

pub fn ty_of(j: &J) -> DataType {
    match j[0].as_str().unwrap() {
        "int" => DataType::Integer(ints(&j[1])),
        "opt" => DataType::optional(ty_of(&j[1])),
        "pair" => DataType::structured([("l", ty_of(&j[1])), ("r", ty_of(&j[2]))]),
        _ => DataType::List(data_type::List::new(Arc::new(ty_of(&j[1])), ints(&j[2]))),
    }
}

pub fn val_of(j: &J) -> Value {
    match j[0].as_str().unwrap() {
        "i" => Value::integer(j[1].as_i64().unwrap()),
        "none" => Value::none(),
        "some" => Value::some(val_of(&j[1])),
        "pair" => Value::structured([("l", val_of(&j[1])), ("r", val_of(&j[2]))]),
        _ => Value::list(j[1].as_array().unwrap().iter().map(val_of).collect::<Vec<_>>()),
    }
}

/// back to the encoding of the fragment; anything outside it is rendered as text
pub fn to_j(t: &DataType) -> J {
    match t {
        DataType::Integer(i) => json!(["int", i.iter().map(|[a, b]| json!([a, b])).collect::<Vec<_>>()]),
        DataType::Optional(o) => json!(["opt", to_j(o.data_type())]),
        DataType::Struct(s) if s.fields().len() == 2 && s.fields()[0].0 == "l" && s.fields()[1].0 == "r" => json!(["pair", to_j(&s.fields()[0].1), to_j(&s.fields()[1].1)]),
        DataType::List(l) => json!(["list", to_j(l.data_type()), l.size().iter().map(|[a, b]| json!([a, b])).collect::<Vec<_>>()]),
        other => json!(["other", other.to_string()]),
    }
}

pub fn eval(case: &J) -> Outcome {
    let mut out = Outcome::new();
    let (a, b) = (ty_of(&case["a"]), ty_of(&case["b"]));
    let sub = guarded(|| a.is_subset_of(&b));
    let uni = guarded(|| a.super_union(&b));
    let int = guarded(|| a.super_intersection(&b));
    for (name, r) in [("is_subset_of", sub.as_ref().err()), ("super_union", uni.as_ref().err()), ("super_intersection", int.as_ref().err())] {
        if let Some((loc, msg)) = r { out.fail(&format!("C18/dtlat/{name}/panic/{}", site(loc, msg)), format!("{name}({a}, {b}) panicked at {loc}: {msg}")); } }
    let show = |r: &Result<data_type::Result<DataType>, (String, String)>| match r { Ok(Ok(t)) => to_j(t), Ok(Err(_)) => json!("err"), Err(_) => json!("panic") };
    let memv = |t: &DataType, j: &J| -> J { if j.is_null() { J::Null } else { json!(crate::s_dtype::mem(t, &val_of(j))) } };
    let contains = |t: &DataType, j: &J| -> J { if j.is_null() { J::Null } else { let v = val_of(j); match guarded(|| t.contains(&v)) { Ok(b) => json!(b), Err(_) => json!("panic") } } };
    out.tag(&format!("sub={:?}", sub.as_ref().ok()));
    // property-level oracles (C11) on the implementation itself, with the library's own `contains`
    for (who, own, j) in [("a", &a, &case["v"]), ("b", &b, &case["w"])] {
        if j.is_null() { continue; }
        let x = val_of(j);
        if !crate::s_dtype::mem(own, &x) { continue; }
        if who == "a" { if let Ok(true) = sub { if !crate::s_dtype::mem(&b, &x) { out.fail("C11/dtlat/subset", format!("{a} is_subset_of {b} but value {x} of the former is not contained in the latter")); } } }
        if let Ok(Ok(u)) = &uni { if !crate::s_dtype::mem(u, &x) { out.fail("C11/dtlat/union", format!("super_union({a}, {b}) = {u} does not contain {x}, a value of operand {who}")); } }
        if crate::s_dtype::mem(&a, &x) && crate::s_dtype::mem(&b, &x) { out.tag("in-both"); if let Ok(Ok(n)) = &int { if !crate::s_dtype::mem(n, &x) { out.fail("C11/dtlat/intersection", format!("super_intersection({a}, {b}) = {n} does not contain {x}, which is in both")); } } }
    }
    out.imp = json!({"sub": sub.clone().ok(), "union": show(&uni), "inter": show(&int)});
    let _ = contains;
    let _ = memv;
    out
}

// ad-hoc probe: DP rewriting with a chosen delta, PostgreSQL rendering (not used by any check)
use qrlew::{ast, relation::Relation, sql::{parse, relation::QueryWithRelations}, differential_privacy::DpParameters};
fn main() {
    let rels = qvh::s_rules::world();
    let args: Vec<String> = std::env::args().skip(1).collect();
    let delta: f64 = args[0].parse().unwrap();
    let q = parse(&args[1]).unwrap();
    let r = Relation::try_from(QueryWithRelations::new(&q, &rels)).unwrap();
    match r.rewrite_with_differential_privacy(&rels, None, qvh::s_rules::privacy_unit(), DpParameters::from_epsilon_delta(1.0, delta)) {
        Ok(dp) => println!("{}", ast::Query::from(dp.relation())),
        Err(e) => println!("ERR {e}"),
    }
}

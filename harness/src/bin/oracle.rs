fn main() { qvh::main(); }

// ad-hoc probe: the rendering of a query over the sqlx world (not used by any check)
use qrlew::{ast, relation::Relation, sql::{parse, relation::QueryWithRelations}};
fn main() {
    let rels = qvh::s_sqlx::world2();
    for sql in std::env::args().skip(1) {
        let q = parse(&sql).unwrap();
        match Relation::try_from(QueryWithRelations::new(&q, &rels)) { Ok(r) => println!("{}", ast::Query::from(&r)), Err(e) => println!("ERR {e}") }
    }
}

// ad-hoc probe: schemas of every node of a query over the sqlx world (not used by any check)
use qrlew::{relation::{Relation, Variant as _}, sql::{parse, relation::QueryWithRelations}};
fn main() {
    let rels = qvh::s_sqlx::world2();
    for sql in std::env::args().skip(1) {
        let q = parse(&sql).unwrap();
        let r = Relation::try_from(QueryWithRelations::new(&q, &rels)).unwrap();
        fn walk(r: &Relation, d: usize) { println!("{}{} : {} size {}", " ".repeat(d), r.name(), r.schema(), r.size()); for i in r.inputs() { walk(i, d + 2); } }
        walk(&r, 0);
    }
}

// ad-hoc probe (not used by any check)
use qrlew::{ast, relation::{Relation, Variant as _}, sql::{parse, relation::QueryWithRelations}};
fn tree(r: &Relation, d: usize) { println!("{}{} [{}]", " ".repeat(d * 2), r.name(), match r { Relation::Map(_) => "map", Relation::Reduce(_) => "reduce", Relation::Join(_) => "join", Relation::Table(_) => "table", _ => "other" }); for i in r.inputs() { tree(i, d + 1); } }
fn main() {
    let rels = qvh::s_sqlx::world2();
    let sql = std::env::args().nth(1).unwrap();
    let q = parse(&sql).unwrap(); let r1 = Relation::try_from(QueryWithRelations::new(&q, &rels)).unwrap();
    println!("-- first generation"); tree(&r1, 0);
    let t1 = ast::Query::from(&r1).to_string();
    let q2 = parse(&t1).unwrap(); let r4 = Relation::try_from(QueryWithRelations::new(&q2, &rels)).unwrap();
    println!("-- second generation"); tree(&r4, 0);
}

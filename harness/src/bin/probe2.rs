// ad-hoc probe (not used by any check)
use qrlew::{relation::Relation, sql::{parse, relation::QueryWithRelations}};
fn main() { let rels = qvh::s_sqlx::world2(); let sql = std::env::args().nth(1).unwrap(); let q = parse(&sql).unwrap(); let r = Relation::try_from(QueryWithRelations::new(&q, &rels)); println!("{:?}", r.map(|r| qvh::exec::render(&r))); }

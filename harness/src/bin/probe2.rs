// ad-hoc probe (not used by any check): world3 query + DP rewrite, to see backtraces
use qrlew::{relation::{Relation, Variant as _}, sql::{parse, relation::QueryWithRelations}, differential_privacy::DpParameters};
fn main() {
    let rels = qvh::s_total::world3();
    let a: Vec<String> = std::env::args().collect();
    let sql = &a[1]; let eps: f64 = a.get(2).map(|x| x.parse().unwrap()).unwrap_or(1.0); let delta: f64 = a.get(3).map(|x| x.parse().unwrap()).unwrap_or(1e-5);
    let q = parse(sql).unwrap();
    let r = Relation::try_from(QueryWithRelations::new(&q, &rels)).unwrap();
    println!("compiled: {}", r.schema());
    let dp = r.rewrite_with_differential_privacy(&rels, None, qvh::s_total::privacy_unit3(), DpParameters::from_epsilon_delta(eps, delta));
    println!("{:?}", dp.map(|d| d.relation().schema().to_string()));
}

// ad-hoc probe (not used by any check)
use qrlew::{relation::Relation, sql::{parse, relation::QueryWithRelations}};
fn main() {
    let rels = qvh::s_sqlx::world2();
    for sql in std::env::args().skip(1) {
        let q = parse(&sql).unwrap();
        let r = Relation::try_from(QueryWithRelations::new(&q, &rels)).unwrap();
        println!("{}\n{}", r, qvh::exec::render(&r));
    }
}

// ad-hoc probe (not used by any check)
use qrlew::data_type::{DataType, function::{self, Function as _, Optional}};
fn main() {
    let fl = DataType::float_values((0..=10).map(|x| x as f64).collect::<Vec<f64>>());
    let arg = DataType::structured_from_data_types([fl.clone(), DataType::integer_interval(0, 10)]);
    let shared = Optional::new(function::minus());
    let shared_plain = function::minus();
    for (name, f) in [("fresh-plain", 0), ("shared-plain", 1), ("fresh-optional", 2), ("shared-optional", 3)] {
        let mut seen: std::collections::BTreeMap<String, usize> = Default::default();
        for _ in 0..5000 {
            let r = match f { 0 => function::minus().super_image(&arg), 1 => shared_plain.super_image(&arg), 2 => Optional::new(function::minus()).super_image(&arg), _ => shared.super_image(&arg) };
            *seen.entry(r.map(|t| t.to_string()).unwrap_or_else(|e| e.to_string())).or_default() += 1;
        }
        for (k, v) in &seen { println!("{name}: {v} x {}", &k[..k.len().min(120)]); }
    }
}

// ad-hoc probe (not used by any check): print rendered DP SQL and sub-results
use qrlew::{relation::{Relation, Variant as _}, sql::{parse, relation::QueryWithRelations}, differential_privacy::DpParameters};
use qvh::{common::Rng, data::gen_data, exec::{render, RandomMode}};
fn walk(r: &Relation, db: &qvh::exec::Db, depth: usize) {
    let res = db.run(r);
    println!("{}{} {} -> {}", " ".repeat(depth), qvh::s_rules::kind(r), r.name(), match &res { Ok(x) => format!("{} rows {:?}", x.1.len(), x.1.first()), Err(e) => format!("ERR {e}") });
    if depth < 14 { for i in r.inputs() { walk(i, db, depth + 1); } }
}
fn main() {
    let rels = qvh::s_rules::world();
    let mut rng = Rng::new(7);
    let data = gen_data(&mut rng, 30, 3);
    let db = data.load(RandomMode::Const(0.25));
    let sql = std::env::args().nth(1).unwrap();
    let q = parse(&sql).unwrap();
    let r = Relation::try_from(QueryWithRelations::new(&q, &rels)).unwrap();
    let dp = r.rewrite_with_differential_privacy(&rels, None, qvh::s_rules::privacy_unit(), DpParameters::from_epsilon_delta(1.0, 1e-5)).unwrap();
    if std::env::args().nth(2).is_some() { println!("{}", render(dp.relation())); }
    walk(dp.relation(), &db, 0);
}

// ad-hoc probe: prints the DP rewriting of a query over the rules world (not used by any check)
use qrlew::{relation::Relation, sql::{parse, relation::QueryWithRelations}, differential_privacy::DpParameters};
fn main() {
    let rels = qvh::s_rules::world();
    for sql in std::env::args().skip(1) {
        let q = parse(&sql).unwrap();
        let r = Relation::try_from(QueryWithRelations::new(&q, &rels)).unwrap();
        match r.rewrite_with_differential_privacy(&rels, None, qvh::s_rules::privacy_unit(), DpParameters::from_epsilon_delta(1.0, 1e-5)) {
            Ok(dp) => { println!("EVENT {:?}", dp.dp_event()); println!("{}", qvh::exec::render(dp.relation()).replace("), ", "),\n  ")); }
            Err(e) => println!("DP rewrite err {e}"),
        }
    }
}

// ad-hoc probe: a grouped Reduce built directly over a table of exact size (not used by any check)
use qrlew::{builder::{Ready, With}, expr::Expr, relation::{Relation, Variant as _}, DataType};
use std::sync::Arc;
fn main() {
    let t: Relation = Relation::table().name("t").schema(vec![("k", DataType::integer_interval(0, 3)), ("x", DataType::integer_interval(0, 9))].into_iter().collect::<qrlew::relation::Schema>()).size(6).build();
    let r: Relation = Relation::reduce().with_group_by_column("k").with(("c", Expr::count(Expr::col("x")))).with(("s", Expr::sum(Expr::col("x")))).input(Arc::new(t)).build();
    println!("{} size {}", r.schema(), r.size());
}

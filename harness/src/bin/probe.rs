// ad-hoc probe (not used by any check)
use qrlew::{relation::Relation, sql::{parse, relation::QueryWithRelations}, differential_privacy::DpParameters};
fn main() {
    let rels = qvh::s_rules::world();
    for sql in std::env::args().skip(1) {
        let q = parse(&sql).unwrap();
        let r = Relation::try_from(QueryWithRelations::new(&q, &rels)).unwrap();
        let dp = r.rewrite_with_differential_privacy(&rels, None, qvh::s_rules::privacy_unit(), DpParameters::from_epsilon_delta(1.0, 1e-5)).unwrap();
        println!("{}\n{}", dp.relation(), dp.dp_event());
    }
}

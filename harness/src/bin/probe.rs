// ad-hoc probe (not used by any check)
use qrlew::{relation::Relation, sql::{parse, relation::QueryWithRelations}, differential_privacy::DpParameters};
use qvh::{common::Rng, data::gen_data, exec::{render, RandomMode}};
fn main() {
    let rels = qvh::s_rules::world();
    let mut rng = Rng::new(7);
    let data = gen_data(&mut rng, 30, 3);
    let db = data.load(RandomMode::Const(0.25));
    for sql in std::env::args().skip(1) {
        let q = parse(&sql).unwrap();
        let r = Relation::try_from(QueryWithRelations::new(&q, &rels)).unwrap();
        println!("ORIG   {:?}", db.query(&sql).map(|x| x.1));
        println!("RENDER {:?}", db.run(&r).map(|x| x.1));
        match r.rewrite_with_differential_privacy(&rels, None, qvh::s_rules::privacy_unit(), DpParameters::from_epsilon_delta(1.0, 1e-5)) {
            Ok(dp) => { let res = db.run(dp.relation()); match res { Ok(x) => println!("DP     {:?}", x.1), Err(e) => println!("DP ERR {e}\n{}", &render(dp.relation())[..600.min(render(dp.relation()).len())]) } }
            Err(e) => println!("DP rewrite err {e}"),
        }
    }
}

// ad-hoc probe (not used by any check)
use qrlew::{relation::Relation, sql::{parse, relation::QueryWithRelations}};
fn main() {
    let rels = qvh::s_rules::world();
    for sql in std::env::args().skip(1) {
        let q = parse(&sql).unwrap();
        match std::panic::catch_unwind(std::panic::AssertUnwindSafe(|| Relation::try_from(QueryWithRelations::new(&q, &rels)))) {
            Ok(Ok(r)) => println!("OK {sql}\n"),
            Ok(Err(e)) => println!("{sql}\nERR {e}\n"),
            Err(_) => println!("{sql}\nPANIC\n"),
        }
    }
}

// ad-hoc probe (not used by any check)
use qrlew::data_type::{self, DataType, Variant, value::{Value, Variant as _}};
fn main() {
    let v = Value::float(2.25);
    let f = DataType::Float(data_type::Float::from_interval(-4.0, 2.25).union_interval(23.0, 23.0));
    let u = DataType::Text(data_type::Text::empty()).super_union(&f).unwrap();
    println!("{u} {:?} contains 2.25? {}", u, u.contains(&v));
    println!("{:?}", u.maximal_superset().map(|m| format!("{:?}", m)));
    println!("{:?}", v.as_data_type(&u.maximal_superset().unwrap()).map(|x| format!("{:?} in {}", x, u.contains(&x))).map_err(|e| e.to_string()));
}

// ad-hoc probe over the scope world (not used by any check)
use qrlew::{relation::{Relation, Variant as _}, sql::{parse, relation::QueryWithRelations}};
fn main() { let rels = qvh::s_hier::world(); for sql in std::env::args().skip(1) { let q = parse(&sql).unwrap(); let r = std::panic::catch_unwind(std::panic::AssertUnwindSafe(|| Relation::try_from(QueryWithRelations::new(&q, &rels)))); match r { Ok(Ok(r)) => println!("OK {}\n   {}", r.schema(), qvh::exec::render(&r)), Ok(Err(e)) => println!("ERR {e}"), Err(_) => println!("PANIC") } } }

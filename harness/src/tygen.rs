//! Own JSON encoding of data types and values (so that cases replay exactly and the Lean driver can read
//! them), conversion to the real qrlew types, and type-directed generators.
use crate::common::*;
use chrono::{Duration, NaiveDate, NaiveDateTime, NaiveTime};
use qrlew::data_type::{self, value::Value, DataType};
use serde_json::{json, Value as J};
use std::sync::Arc;

pub fn epoch_date() -> NaiveDate { NaiveDate::from_ymd_opt(2000, 1, 1).unwrap() }
pub fn date_of(d: i64) -> NaiveDate { epoch_date() + Duration::days(d) }
pub fn time_of(s: i64) -> NaiveTime { NaiveTime::from_num_seconds_from_midnight_opt((s.rem_euclid(86400)) as u32, 0).unwrap() }
pub fn datetime_of(s: i64) -> NaiveDateTime { epoch_date().and_hms_opt(0, 0, 0).unwrap() + Duration::seconds(s) }

fn pairs_i(j: &J) -> Vec<[i64; 2]> { j.as_array().unwrap().iter().map(|p| [p[0].as_i64().unwrap(), p[1].as_i64().unwrap()]).collect() }

/// JSON -> DataType. Interval lists are folded through the public API (`union_interval`).
pub fn ty_of(j: &J) -> DataType {
    let tag = j[0].as_str().unwrap();
    match tag {
        "null" => DataType::Null,
        "unit" => DataType::unit(),
        "any" => DataType::Any,
        "bytes" => DataType::bytes(),
        "id" => DataType::id(),
        "bool" => DataType::Boolean(pairs_i(&j[1]).into_iter().fold(data_type::Boolean::empty(), |a, [l, h]| a.union_interval(l != 0, h != 0))),
        "int" => DataType::Integer(pairs_i(&j[1]).into_iter().fold(data_type::Integer::empty(), |a, [l, h]| a.union_interval(l, h))),
        "float" => DataType::Float(j[1].as_array().unwrap().iter().fold(data_type::Float::empty(), |a, p| a.union_interval(p[0].as_f64().unwrap(), p[1].as_f64().unwrap()))),
        "text" => DataType::Text(j[1].as_array().unwrap().iter().fold(data_type::Text::empty(), |a, p| a.union_interval(p[0].as_str().unwrap().to_string(), p[1].as_str().unwrap().to_string()))),
        "date" => DataType::Date(pairs_i(&j[1]).into_iter().fold(data_type::Date::empty(), |a, [l, h]| a.union_interval(date_of(l), date_of(h)))),
        "time" => DataType::Time(pairs_i(&j[1]).into_iter().fold(data_type::Time::empty(), |a, [l, h]| a.union_interval(time_of(l), time_of(h)))),
        "datetime" => DataType::DateTime(pairs_i(&j[1]).into_iter().fold(data_type::DateTime::empty(), |a, [l, h]| a.union_interval(datetime_of(l), datetime_of(h)))),
        "duration" => DataType::Duration(pairs_i(&j[1]).into_iter().fold(data_type::Duration::empty(), |a, [l, h]| a.union_interval(Duration::seconds(l), Duration::seconds(h)))),
        "enum" => DataType::enumeration(j[1].as_array().unwrap().iter().map(|s| s.as_str().unwrap().to_string()).collect::<Vec<_>>()),
        "struct" => DataType::Struct(data_type::Struct::new(j[1].as_array().unwrap().iter().map(|f| (f[0].as_str().unwrap().to_string(), Arc::new(ty_of(&f[1])))).collect())),
        "union" => DataType::Union(data_type::Union::new(j[1].as_array().unwrap().iter().map(|f| (f[0].as_str().unwrap().to_string(), Arc::new(ty_of(&f[1])))).collect())),
        "opt" => DataType::Optional(data_type::Optional::new(Arc::new(ty_of(&j[1])))),
        "list" => DataType::List(data_type::List::new(Arc::new(ty_of(&j[1])), pairs_i(&j[2]).into_iter().fold(data_type::Integer::empty(), |a, [l, h]| a.union_interval(l, h)))),
        "set" => DataType::Set(data_type::Set::new(Arc::new(ty_of(&j[1])), pairs_i(&j[2]).into_iter().fold(data_type::Integer::empty(), |a, [l, h]| a.union_interval(l, h)))),
        "array" => DataType::Array(data_type::Array::new(Arc::new(ty_of(&j[1])), j[2].as_array().unwrap().iter().map(|x| x.as_u64().unwrap() as usize).collect::<Vec<_>>().into())),
        "fn" => DataType::function(ty_of(&j[1]), ty_of(&j[2])),
        _ => panic!("bad type tag {tag}"),
    }
}

pub fn val_of(j: &J) -> Value {
    let tag = j[0].as_str().unwrap();
    match tag {
        "unit" => Value::unit(),
        "bool" => Value::boolean(j[1].as_bool().unwrap()),
        "int" => Value::integer(j[1].as_i64().unwrap()),
        "float" => Value::float(j[1].as_f64().unwrap()),
        "text" => Value::text(j[1].as_str().unwrap()),
        "bytes" => Value::bytes(j[1].as_array().unwrap().iter().map(|b| b.as_u64().unwrap() as u8).collect::<Vec<u8>>()),
        "id" => Value::id(j[1].as_str().unwrap()),
        "date" => Value::date(date_of(j[1].as_i64().unwrap())),
        // optional third element: milliseconds within the second
        "time" => Value::time(time_of(j[1].as_i64().unwrap()) + Duration::milliseconds(j[2].as_i64().unwrap_or(0))),
        "datetime" => Value::date_time(datetime_of(j[1].as_i64().unwrap()) + Duration::milliseconds(j[2].as_i64().unwrap_or(0))),
        "duration" => Value::duration(Duration::seconds(j[1].as_i64().unwrap())),
        "enum" => {
            let names: Vec<(String, i64)> = j[2].as_array().unwrap().iter().enumerate().map(|(i, s)| (s.as_str().unwrap().to_string(), i as i64)).collect();
            Value::enumeration(j[1].as_i64().unwrap(), names)
        }
        "struct" => Value::Struct(data_type::value::Struct::new(j[1].as_array().unwrap().iter().map(|f| (f[0].as_str().unwrap().to_string(), Arc::new(val_of(&f[1])))).collect())),
        "union" => Value::union(j[1].as_str().unwrap().to_string(), val_of(&j[2])),
        "some" => Value::some(val_of(&j[1])),
        "none" => Value::none(),
        "list" => Value::list(j[1].as_array().unwrap().iter().map(val_of)),
        "set" => Value::set(j[1].as_array().unwrap().iter().map(val_of)),
        "array" => Value::from((j[1].as_array().unwrap().iter().map(val_of).collect::<Vec<Value>>(), j[2].as_array().unwrap().iter().map(|x| x.as_u64().unwrap() as usize).collect::<Vec<usize>>())),
        _ => panic!("bad value tag {tag}"),
    }
}

pub fn vname(t: &DataType) -> &'static str {
    match t {
        DataType::Null => "Null", DataType::Unit(_) => "Unit", DataType::Boolean(_) => "Boolean", DataType::Integer(_) => "Integer",
        DataType::Enum(_) => "Enum", DataType::Float(_) => "Float", DataType::Text(_) => "Text", DataType::Bytes(_) => "Bytes",
        DataType::Struct(_) => "Struct", DataType::Union(_) => "Union", DataType::Optional(_) => "Optional", DataType::List(_) => "List",
        DataType::Set(_) => "Set", DataType::Array(_) => "Array", DataType::Date(_) => "Date", DataType::Time(_) => "Time",
        DataType::DateTime(_) => "DateTime", DataType::Duration(_) => "Duration", DataType::Id(_) => "Id", DataType::Function(_) => "Function",
        DataType::Any => "Any",
    }
}

pub fn jtag(j: &J) -> &str { j[0].as_str().unwrap_or("?") }

// ------------------------------------------------------------------------------------------------
// generators (produce the JSON encoding)

pub const TEXTS: [&str; 10] = ["0", "A", "B", "Z", "a", "b", "ab", "z", "é", "~"];
const FIELD_NAMES: [&str; 4] = ["a", "b", "c", "d"];

/// integer bound pool: small values (so that pairs touch / nest / coincide) and extremes
pub fn int_bound(rng: &mut Rng, extremes: bool) -> i64 {
    let r = rng.below(100);
    if extremes && r < 6 { return *rng.pick(&[i64::MIN, i64::MAX, i64::MIN + 1, i64::MAX - 1, 1 << 53, (1 << 53) + 1, -(1 << 53) - 1]); }
    if r < 70 { rng.range(-4, 8) } else if r < 90 { rng.range(-50, 50) } else { rng.range(-1000, 1000) }
}
pub fn float_bound(rng: &mut Rng, extremes: bool) -> f64 {
    let r = rng.below(100);
    if extremes && r < 6 { return *rng.pick(&[f64::MIN, f64::MAX, -1e300, 1e300, 9007199254740992.0, 9007199254740993.0, -0.0]); }
    // a float one or two ulps away from an integer (and tiny non-zero values): not integral, however close
    if r >= 96 { return *rng.pick(&[0.9999999999999999, 1.0000000000000002, 2.9999999999999996, 3.0000000000000004, -0.9999999999999999, 1e-17, -1e-17, 4.000000000000001, 0.1 + 0.2]); }
    if r < 40 { rng.range(-4, 8) as f64 } else if r < 80 { rng.range(-16, 32) as f64 * 0.25 } else { rng.range(-1000, 1000) as f64 * 0.5 }
}

fn sorted_pairs_i(rng: &mut Rng, n: u64, f: &mut dyn FnMut(&mut Rng) -> i64) -> Vec<[i64; 2]> {
    (0..n).map(|_| { let a = f(rng); let b = if rng.chance(1, 2) { a } else { f(rng) }; [a.min(b), a.max(b)] }).collect()
}

pub fn gen_int_ty(rng: &mut Rng, extremes: bool) -> J {
    let n = if rng.chance(1, 12) { 0 } else { 1 + rng.below(3) };
    if rng.chance(1, 10) { return json!(["int", [[i64::MIN, i64::MAX]]]); }
    // one interval whose number of values sits at the capacity of an interval set (128): expanding it into its values is a boundary case
    if rng.chance(1, 16) { let a = rng.range(-3, 3); return json!(["int", [[a, a + *rng.pick(&[126i64, 127, 128])]]]); }
    json!(["int", sorted_pairs_i(rng, n, &mut |r| int_bound(r, extremes))])
}
pub fn gen_float_ty(rng: &mut Rng, extremes: bool) -> J {
    let n = if rng.chance(1, 12) { 0 } else { 1 + rng.below(3) };
    if rng.chance(1, 10) { return json!(["float", [[f64::MIN, f64::MAX]]]); }
    let ps: Vec<[f64; 2]> = (0..n).map(|_| { let a = float_bound(rng, extremes); let b = if rng.chance(1, 2) { a } else { float_bound(rng, extremes) }; if a <= b { [a, b] } else { [b, a] } }).collect();
    json!(["float", ps])
}
pub fn gen_text_ty(rng: &mut Rng) -> J {
    if rng.chance(1, 6) { return json!(["text", [["\u{0}", "\u{10FFFF}"]]]); }
    let n = if rng.chance(1, 12) { 0 } else { 1 + rng.below(3) };
    let ps: Vec<[String; 2]> = (0..n).map(|_| { let a = rng.pick(&TEXTS).to_string(); let b = if rng.chance(2, 3) { a.clone() } else { rng.pick(&TEXTS).to_string() }; if a <= b { [a, b] } else { [b, a] } }).collect();
    json!(["text", ps])
}

/// scalar (primitive) type
pub fn gen_scalar_ty(rng: &mut Rng, extremes: bool) -> J {
    match rng.below(13) {
        0 | 1 | 2 => gen_int_ty(rng, extremes),
        3 | 4 => gen_float_ty(rng, extremes),
        5 => gen_text_ty(rng),
        6 => { let k = rng.below(4); json!(["bool", match k { 0 => vec![[0, 0]], 1 => vec![[1, 1]], 2 => vec![[0, 1]], _ => vec![] }]) }
        7 => { let n = 1 + rng.below(2); json!(["date", sorted_pairs_i(rng, n, &mut |r| r.range(-400, 9000))]) }
        8 => { let n = 1 + rng.below(2); json!(["datetime", sorted_pairs_i(rng, n, &mut |r| r.range(-400, 9000) * 86400 + if r.chance(1, 2) { 0 } else { r.range(0, 86399) })]) }
        9 => { let n = 1 + rng.below(2); json!(["time", sorted_pairs_i(rng, n, &mut |r| r.range(0, 86399))]) }
        10 => { let n = 1 + rng.below(2); json!(["duration", sorted_pairs_i(rng, n, &mut |r| r.range(-100000, 100000))]) }
        11 => { let n = 1 + rng.below(3) as usize; json!(["enum", FIELD_NAMES[..n].to_vec()]) }
        _ => match rng.below(4) { 0 => json!(["unit"]), 1 => json!(["bytes"]), 2 => json!(["id"]), _ => json!(["bool", [[0, 1]]]) },
    }
}

pub fn gen_fields(rng: &mut Rng, depth: u32, extremes: bool, allow_empty: bool) -> Vec<J> {
    let n = if allow_empty && rng.chance(1, 8) { 0 } else { 1 + rng.below(3) as usize };
    let mut names: Vec<&str> = FIELD_NAMES.to_vec();
    // random subset, in random order
    let mut out = vec![];
    for _ in 0..n { let i = rng.below(names.len() as u64) as usize; let name = names.remove(i); out.push(json!([name, gen_ty(rng, depth, extremes)])); }
    out
}

/// any type, depth-bounded
pub fn gen_ty(rng: &mut Rng, depth: u32, extremes: bool) -> J {
    if depth == 0 || rng.chance(3, 5) {
        return match rng.below(40) { 0 => json!(["null"]), 1 | 2 => json!(["any"]), _ => gen_scalar_ty(rng, extremes) };
    }
    match rng.below(8) {
        0 | 1 => json!(["struct", gen_fields(rng, depth - 1, extremes, true)]),
        2 => json!(["union", gen_fields(rng, depth - 1, extremes, true)]),
        3 | 4 => json!(["opt", gen_ty(rng, depth - 1, extremes)]),
        5 => { let lo = rng.range(0, 2); let hi = lo + rng.range(0, 3); json!(["list", gen_ty(rng, depth - 1, extremes), [[lo, hi]]]) }
        6 => { let lo = rng.range(0, 2); let hi = lo + rng.range(0, 3); json!(["set", gen_ty(rng, depth - 1, extremes), [[lo, hi]]]) }
        _ => { let shape: Vec<u64> = (0..1 + rng.below(2)).map(|_| 1 + rng.below(2)).collect(); json!(["array", gen_ty(rng, depth - 1, extremes), shape]) }
    }
}

/// a value of the type, if one can be produced (boundary-heavy)
pub fn gen_val_in(rng: &mut Rng, t: &J) -> Option<J> {
    let pick_pair = |rng: &mut Rng, ps: &J| -> Option<J> { let a = ps.as_array()?; if a.is_empty() { None } else { Some(a[rng.below(a.len() as u64) as usize].clone()) } };
    let int_in = |rng: &mut Rng, p: &J| -> i64 {
        let (l, h) = (p[0].as_i64().unwrap(), p[1].as_i64().unwrap());
        match rng.below(4) { 0 => l, 1 => h, 2 => l.saturating_add(1).min(h), _ => { let w = (h as i128 - l as i128).min(1000) as i64; l + rng.range(0, w) } }
    };
    match jtag(t) {
        "null" => None,
        "unit" => Some(json!(["unit"])),
        "any" => Some(match rng.below(4) { 0 => json!(["int", rng.range(-5, 5)]), 1 => json!(["text", "x"]), 2 => json!(["unit"]), _ => json!(["float", 0.5]) }),
        "bytes" => Some(json!(["bytes", [1, 2, 3]])),
        "id" => Some(json!(["id", "id1"])),
        "bool" => { let p = pick_pair(rng, &t[1])?; let b = if rng.chance(1, 2) { p[0].as_i64()? } else { p[1].as_i64()? }; Some(json!(["bool", b != 0])) }
        "int" => { let p = pick_pair(rng, &t[1])?; Some(json!(["int", int_in(rng, &p)])) }
        "float" => { let p = pick_pair(rng, &t[1])?; let (l, h) = (p[0].as_f64()?, p[1].as_f64()?);
                     let x = match rng.below(4) { 0 => l, 1 => h, 2 => { let m = l / 2.0 + h / 2.0; if m >= l && m <= h { m } else { l } }, _ => { let y = l + (h - l) * rng.unit(); if y.is_finite() && y >= l && y <= h { y } else { h } } };
                     Some(json!(["float", x])) }
        "text" => { let p = pick_pair(rng, &t[1])?; let (l, h) = (p[0].as_str()?.to_string(), p[1].as_str()?.to_string());
                    let cands: Vec<String> = TEXTS.iter().map(|s| s.to_string()).chain([l.clone(), h.clone()]).filter(|s| *s >= l && *s <= h).collect();
                    Some(json!(["text", rng.pick(&cands).clone()])) }
        "date" => { let p = pick_pair(rng, &t[1])?; Some(json!(["date", int_in(rng, &p)])) }
        // a third of the values carry a sub-second part (kept inside the interval: only when the second is not its upper end)
        "time" => { let p = pick_pair(rng, &t[1])?; let v = int_in(rng, &p); let sec = v; let hi = p[1].as_i64().unwrap_or(sec); if sec < hi && rng.chance(1, 3) { Some(json!(["time", v, *rng.pick(&[250i64, 500, 1, 999])])) } else { Some(json!(["time", v])) } }
        "datetime" => { let p = pick_pair(rng, &t[1])?; let v = int_in(rng, &p); let sec = v; let hi = p[1].as_i64().unwrap_or(sec); if sec < hi && rng.chance(1, 3) { Some(json!(["datetime", v, *rng.pick(&[250i64, 500, 1, 999])])) } else { Some(json!(["datetime", v])) } }
        "duration" => { let p = pick_pair(rng, &t[1])?; Some(json!(["duration", int_in(rng, &p)])) }
        "enum" => { let names = t[1].as_array()?; Some(json!(["enum", rng.below(names.len() as u64), names])) }
        "struct" => { let mut fs = vec![]; for f in t[1].as_array()? { fs.push(json!([f[0], gen_val_in(rng, &f[1])?])); } Some(json!(["struct", fs])) }
        "union" => { let fs = t[1].as_array()?; if fs.is_empty() { return None; } let f = &fs[rng.below(fs.len() as u64) as usize]; Some(json!(["union", f[0], gen_val_in(rng, &f[1])?])) }
        "opt" => { if rng.chance(1, 3) { Some(json!(["none"])) } else { match gen_val_in(rng, &t[1]) { Some(v) => Some(json!(["some", v])), None => Some(json!(["none"])) } } }
        "list" => { let p = pick_pair(rng, &t[2])?; let n = int_in(rng, &p).clamp(0, 6); if !(p[0].as_i64()? <= n && n <= p[1].as_i64()?) { return None; }
                    let mut vs = vec![]; for _ in 0..n { vs.push(gen_val_in(rng, &t[1])?); } Some(json!(["list", vs])) }
        "set" => { let p = pick_pair(rng, &t[2])?; let n = int_in(rng, &p).clamp(0, 6);
                   let mut vs: Vec<J> = vec![]; for _ in 0..n { let v = gen_val_in(rng, &t[1])?; if !vs.contains(&v) { vs.push(v); } }
                   let m = vs.len() as i64; if !(p[0].as_i64()? <= m && m <= p[1].as_i64()?) { return None; } Some(json!(["set", vs])) }
        "array" => { let shape: Vec<u64> = t[2].as_array()?.iter().map(|x| x.as_u64().unwrap()).collect(); let n: u64 = shape.iter().product();
                     let mut vs = vec![]; for _ in 0..n { vs.push(gen_val_in(rng, &t[1])?); } Some(json!(["array", vs, shape])) }
        _ => None,
    }
}

/// a type derived from `t` by widening / narrowing / changing variant along a conversion (so that pairs are related more often than by chance)
pub fn gen_related_ty(rng: &mut Rng, t: &J, depth: u32, extremes: bool) -> J {
    match rng.below(10) {
        0 | 1 => t.clone(),
        2 => json!(["opt", t.clone()]),
        3 => match jtag(t) {
            "int" => { let ps: Vec<[f64; 2]> = pairs_i(&t[1]).iter().map(|[l, h]| [*l as f64, *h as f64]).collect(); json!(["float", ps]) }
            "bool" => json!(["int", t[1].clone()]),
            "opt" => t[1].clone(),
            _ => gen_ty(rng, depth, extremes),
        },
        4 | 5 => match jtag(t) {
            // widen / narrow integer intervals
            "int" => { let ps: Vec<[i64; 2]> = pairs_i(&t[1]).iter().map(|[l, h]| { let d = rng.range(-2, 3); [l.saturating_sub(d).min(*h), h.saturating_add(d).max(*l)] }).filter(|[l, h]| l <= h).collect(); json!(["int", ps]) }
            "struct" => { let mut fs: Vec<J> = t[1].as_array().unwrap().clone(); if rng.chance(1, 2) && !fs.is_empty() { let i = rng.below(fs.len() as u64) as usize; fs.remove(i); } else if fs.len() < 4 { let used: Vec<String> = fs.iter().map(|f| f[0].as_str().unwrap().to_string()).collect(); if let Some(n) = FIELD_NAMES.iter().find(|n| !used.contains(&n.to_string())) { fs.push(json!([n, gen_ty(rng, 0, extremes)])); } } json!(["struct", fs]) }
            "union" => { let mut fs: Vec<J> = t[1].as_array().unwrap().clone(); if rng.chance(1, 2) && !fs.is_empty() { let i = rng.below(fs.len() as u64) as usize; fs.remove(i); } else if fs.len() < 4 { let used: Vec<String> = fs.iter().map(|f| f[0].as_str().unwrap().to_string()).collect(); if let Some(n) = FIELD_NAMES.iter().find(|n| !used.contains(&n.to_string())) { fs.push(json!([n, gen_ty(rng, 0, extremes)])); } } json!(["union", fs]) }
            "list" => json!(["list", gen_related_ty(rng, &t[1], depth.saturating_sub(1), extremes), [[0, rng.range(0, 5)]]]),
            "array" => { let shape: Vec<u64> = (0..1 + rng.below(2)).map(|_| 1 + rng.below(2)).collect(); json!(["array", t[1].clone(), shape]) }
            _ => { let tag = jtag(t).to_string(); let mut u = gen_ty(rng, depth, extremes); for _ in 0..6 { if jtag(&u) == tag { break; } u = gen_ty(rng, depth, extremes); } u }
        },
        _ => gen_ty(rng, depth, extremes),
    }
}

/// scalar or optional scalar
pub fn gen_col_ty(rng: &mut Rng, extremes: bool) -> J {
    let t = gen_scalar_ty(rng, extremes);
    if rng.chance(1, 4) { json!(["opt", t]) } else { t }
}

fn same_variant_scalar(rng: &mut Rng, t: &J, extremes: bool) -> J {
    let tag = jtag(t).to_string();
    for _ in 0..40 { let u = gen_scalar_ty(rng, extremes); if jtag(&u) == tag { return u; } }
    t.clone()
}

/// related column type: same variant with other bounds, a convertible variant, optional wrapper added/removed
pub fn gen_related_col(rng: &mut Rng, t: &J, extremes: bool) -> J {
    if jtag(t) == "opt" {
        return match rng.below(4) { 0 => t[1].clone(), 1 => t.clone(), _ => json!(["opt", gen_related_col(rng, &t[1], extremes)]) };
    }
    match rng.below(10) {
        0 => t.clone(),
        1 => json!(["opt", t.clone()]),
        2 | 3 => match jtag(t) {
            "int" => if rng.chance(1, 2) { let ps: Vec<[f64; 2]> = pairs_i(&t[1]).iter().map(|[l, h]| [*l as f64, *h as f64]).collect(); json!(["float", ps]) } else { gen_float_ty(rng, extremes) },
            "float" => gen_int_ty(rng, extremes),
            "bool" => if rng.chance(1, 2) { gen_int_ty(rng, false) } else { gen_float_ty(rng, false) },
            "date" => { let n = 1 + rng.below(2); json!(["datetime", sorted_pairs_i(rng, n, &mut |r| r.range(-400, 9000) * 86400)]) }
            "datetime" => { let n = 1 + rng.below(2); json!(["date", sorted_pairs_i(rng, n, &mut |r| r.range(-400, 9000))]) }
            _ => gen_text_ty(rng),
        },
        4 => gen_scalar_ty(rng, extremes),
        _ => same_variant_scalar(rng, t, extremes),
    }
}

pub fn gen_core_pair(rng: &mut Rng, extremes: bool) -> (J, J) {
    match rng.below(10) {
        0 | 1 | 2 | 3 | 4 => { let a = gen_col_ty(rng, extremes); let b = gen_related_col(rng, &a, extremes); if rng.chance(1, 2) { (a, b) } else { (b, a) } }
        5 | 6 | 7 => {
            // structs over the same field names (a row type)
            let n = 1 + rng.below(3) as usize;
            let fa: Vec<J> = (0..n).map(|i| json!([FIELD_NAMES[i], gen_col_ty(rng, extremes)])).collect();
            let fb: Vec<J> = fa.iter().map(|f| json!([f[0], gen_related_col(rng, &f[1], extremes)])).collect();
            (json!(["struct", fa]), json!(["struct", fb]))
        }
        8 => {
            let n = 1 + rng.below(3) as usize;
            let fa: Vec<J> = (0..n).map(|i| json!([FIELD_NAMES[i], gen_col_ty(rng, extremes)])).collect();
            let fb: Vec<J> = fa.iter().map(|f| json!([f[0], gen_related_col(rng, &f[1], extremes)])).collect();
            (json!(["union", fa]), json!(["union", fb]))
        }
        _ => {
            let a = gen_scalar_ty(rng, extremes); let b = gen_related_col(rng, &a, extremes);
            let (l1, h1, l2, h2) = (rng.range(0, 2), rng.range(2, 5), rng.range(0, 3), rng.range(3, 6));
            (json!(["list", a, [[l1, h1]]]), json!(["list", b, [[l2, h2]]]))
        }
    }
}

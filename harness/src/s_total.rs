//! C18. stream `total`: generated queries over a table whose columns have extreme types (full i64 / f64 ranges, ranges touching
//! or containing zero, single points, empty and 130-value sets, nullable columns) — every public entry point is called under
//! catch_unwind: compile, schema/size, render (two dialects), privacy-unit rewriting, DP rewriting with ordinary and degenerate budgets.
use crate::common::*;
use qrlew::{
    ast,
    builder::{Ready, With},
    data_type::{DataType, DataTyped as _},
    differential_privacy::DpParameters,
    dialect_translation::{mssql::MsSqlTranslator, RelationWithTranslator},
    hierarchy::Hierarchy,
    privacy_unit_tracking::{PrivacyUnit, Strategy},
    relation::{Relation, Variant as _},
    sql::{parse, relation::QueryWithRelations},
};
use serde_json::{json, Value as J};
use std::sync::Arc;

pub const COLS: [(&str, &str); 20] = [
    ("dt", "date"), ("ts", "datetime"), ("bo", "bool"), ("od", "opt-date"),
    ("i", "int-full"), ("j", "int-neg"), ("p", "int-pos"), ("z", "int-zero"), ("m", "int-small"), ("q", "int-min"),
    ("f", "float-full"), ("g", "float-neg"), ("h", "float-zero"), ("u", "float-unit"), ("w", "float-around-zero"),
    ("n", "opt-int"), ("o", "opt-float"), ("s", "text"), ("k", "int-130-values"), ("e", "int-two-points"),
];

fn col_type(kind: &str) -> DataType {
    match kind {
        "date" => DataType::date(), "datetime" => DataType::date_time(), "bool" => DataType::boolean(), "opt-date" => DataType::optional(DataType::date()),
        "int-full" => DataType::integer(),
        "int-neg" => DataType::integer_interval(i64::MIN, 0),
        "int-pos" => DataType::integer_interval(0, i64::MAX),
        "int-zero" => DataType::integer_value(0),
        "int-small" => DataType::integer_interval(-5, 5),
        "int-min" => DataType::integer_interval(i64::MIN, i64::MIN + 1),
        "float-full" => DataType::float(),
        "float-neg" => DataType::float_interval(f64::MIN, 0.0),
        "float-zero" => DataType::float_value(0.0),
        "float-unit" => DataType::float_interval(0.0, 1.0),
        "float-around-zero" => DataType::float_interval(-1e-300, 1e-300),
        "opt-int" => DataType::optional(DataType::integer_interval(-5, 5)),
        "opt-float" => DataType::optional(DataType::float_interval(-1.0, 1e308)),
        "text" => DataType::text_values(["a".to_string(), "b".to_string()]),
        "int-130-values" => DataType::integer_values((0..130).map(|x| x * 7 - 300).collect::<Vec<i64>>()),
        _ => DataType::integer_values([i64::MIN, i64::MAX]),
    }
}

pub fn world3() -> Hierarchy<Arc<Relation>> {
    let mut fields: Vec<(&str, DataType)> = vec![("id", DataType::integer_interval(0, 1000))];
    for (n, k) in COLS { fields.push((n, col_type(k))); }
    let x: Relation = Relation::table().name("x").schema(fields.into_iter().collect::<qrlew::relation::Schema>()).size(1000).build();
    let y: Relation = Relation::table().name("y").schema(vec![("id", DataType::integer_interval(0, 1000)), ("xid", DataType::integer_interval(0, 1000)), ("v", DataType::float()), ("c", DataType::integer_interval(0, i64::MAX))].into_iter().collect::<qrlew::relation::Schema>()).size(i64::MAX).build();
    vec![(vec!["x".to_string()], Arc::new(x)), (vec!["y".to_string()], Arc::new(y))].into_iter().collect()
}
/// the same tables with the privacy-unit column declared by the list of its values, to be used with hashing off
pub fn world3_uidvals() -> Hierarchy<Arc<Relation>> {
    world3().iter().map(|(path, r)| { let fields: Vec<(String, DataType)> = r.schema().iter().map(|f| (f.name().to_string(), if f.name() == "id" && path.last().map(|p| p == "x").unwrap_or(false) { DataType::integer_values((0..16).collect::<Vec<i64>>()) } else { f.data_type() })).collect();
        let t: Relation = Relation::table().name(path.last().unwrap().as_str()).schema(fields.iter().map(|(n, t)| (n.as_str(), t.clone())).collect::<qrlew::relation::Schema>()).size(1000).build();
        (path.to_vec(), Arc::new(t)) }).collect()
}
pub fn privacy_unit3_nohash() -> PrivacyUnit { PrivacyUnit::from((vec![("x", vec![], "id"), ("y", vec![("xid", "x", "id")], "id")], false)) }
pub fn privacy_unit3() -> PrivacyUnit { PrivacyUnit::from(vec![("x", vec![], "id"), ("y", vec![("xid", "x", "id")], "id")]) }

fn num_col(rng: &mut Rng) -> &'static str { *rng.pick(&["i", "j", "p", "z", "m", "q", "f", "g", "h", "u", "w", "n", "o", "k", "e"]) }

fn scalar(rng: &mut Rng, depth: u32) -> String {
    if depth == 0 || rng.chance(1, 3) { return if rng.chance(1, 6) { rng.pick(&["0", "1", "-1", "2", "0.5", "9223372036854775807", "1e308"]).to_string() } else { num_col(rng).to_string() }; }
    let a = scalar(rng, depth - 1);
    match rng.below(20) {
        // the remaining mathematical functions the reader accepts (their images on ranges touching 0 or spanning many periods)
        16 => { let f = *rng.pick(&["log", "log10", "log2"]); format!("{f}({a})") }
        17 => { let f = *rng.pick(&["sin", "cos", "sign", "floor", "ceil", "round"]); format!("{f}({a})") }
        18 => format!("least({a}, {})", scalar(rng, depth - 1)),
        19 if rng.chance(1, 3) => format!("CAST(s AS {})", *rng.pick(&["INTEGER", "FLOAT"])),   // a text column whose values are not numerals
        19 => format!("trunc({a})"),
        0 => format!("({a} + {})", scalar(rng, depth - 1)), 1 => format!("({a} - {})", scalar(rng, depth - 1)), 2 => format!("({a} * {})", scalar(rng, depth - 1)),
        3 | 4 => format!("({a} / {})", scalar(rng, depth - 1)), 5 => format!("abs({a})"), 6 => format!("exp({a})"), 7 => format!("ln({a})"), 8 => format!("sqrt({a})"),
        9 => format!("pow({a}, {})", scalar(rng, depth - 1)), 10 => format!("CASE WHEN {a} > 0 THEN {} ELSE {a} END", scalar(rng, depth - 1)), 11 => format!("CAST({a} AS INTEGER)"),
        12 => format!("CAST({a} AS FLOAT)"), 13 => format!("greatest({a}, {})", scalar(rng, depth - 1)), 14 => format!("coalesce({a}, {})", scalar(rng, depth - 1)), _ => format!("(- {a})"),
    }
}

pub fn gen(rng: &mut Rng, _k: usize, _tier: &str) -> J {
    let d = 1 + rng.below(2) as u32;
    let sql = match rng.below(10) {
        // columns of unrelated types (date, timestamp, boolean against numbers and text) meeting in a set operation, a COALESCE or a CASE
        9 => { let a = *rng.pick(&["dt", "ts", "bo", "od"]); let b = *rng.pick(&["i", "m", "f", "s", "dt", "bo", "n"]);
               match rng.below(5) { 0 => format!("SELECT {a} AS r FROM x UNION SELECT {b} AS r FROM x"), 1 => format!("SELECT {a} AS r FROM x UNION ALL SELECT {b} AS r FROM x"),
                                    2 => format!("SELECT coalesce({a}, {}) AS r FROM x", *rng.pick(&["0", "'x'", "1.5", b])), 3 => format!("SELECT CASE WHEN m > 0 THEN {a} ELSE {b} END AS r FROM x"),
                                    _ => format!("SELECT m AS r FROM x WHERE coalesce({a}, {b}) = {b}") } }
        8 => { let o = *rng.pick(&["0", "999", "1000", "1001", "5000", "1000000000000000000", "9223372036854775807", "18446744073709551615"]); let l = *rng.pick(&["0", "1", "1000", "1001", "9223372036854775807", "18446744073709551615"]);
               match rng.below(3) { 0 => format!("SELECT m AS r FROM x ORDER BY r LIMIT {l} OFFSET {o}"), 1 => format!("SELECT count(*) AS n FROM (SELECT m AS r FROM x ORDER BY r LIMIT {l} OFFSET {o}) AS q"), _ => format!("SELECT m AS r FROM x ORDER BY r OFFSET {o}") } }
        0 | 1 => format!("SELECT {} AS r FROM x", scalar(rng, d)),
        2 => format!("SELECT {} AS r FROM x WHERE {} > {}", scalar(rng, d), scalar(rng, 1), scalar(rng, 1)),
        3 | 4 => { let agg = *rng.pick(&["sum", "avg", "min", "max", "count", "var", "stddev"]); format!("SELECT {agg}({}) AS r FROM x", scalar(rng, d)) }
        5 => { let agg = *rng.pick(&["sum", "avg", "count"]); let a2 = *rng.pick(&["sum", "count", "max"]); format!("SELECT s AS s, {agg}({}) {} {a2}({}) AS r FROM x GROUP BY s", scalar(rng, 1), *rng.pick(&["+", "-", "*", "/"]), num_col(rng)) }
        6 => format!("SELECT {} AS r, sum(y.v) AS t, count(*) AS n FROM x JOIN y ON x.id = y.xid GROUP BY {}", "x.m", "x.m"),
        _ => format!("SELECT sum(y.c) AS a, avg(y.v) AS b, sum(x.{}) AS c FROM x JOIN y ON x.id = y.xid", num_col(rng)),
    };
    let eps = *rng.pick(&[1.0, 1.0, 0.0, 1e-300, 1e300, f64::INFINITY]);
    let delta = *rng.pick(&[1e-5, 1e-5, 0.0, 1.0, 1e-300]);
    // one case in six: the privacy-unit column is declared by the list of its values and is not hashed
    json!({"sql": sql, "eps": if eps.is_finite() { json!(eps) } else { json!("inf") }, "delta": delta, "uidvals": rng.chance(1, 6)})
}

fn shape(sql: &str) -> String {
    let mut v = vec![];
    for (kw, n) in [(" / ", "div"), ("exp(", "exp"), ("ln(", "ln"), ("log10(", "log10"), ("log2(", "log2"), ("log(", "log"), ("sqrt(", "sqrt"), ("pow(", "pow"), ("abs(", "abs"), ("CAST(", "cast"), (" * ", "mul"), ("var(", "var"), ("stddev(", "std"), ("avg(", "avg"), ("sum(", "sum"), ("JOIN", "join"), ("GROUP BY", "group"), ("OFFSET", "offset")] { if sql.contains(kw) { v.push(n); } }
    if v.is_empty() { "plain".into() } else { v[..v.len().min(3)].join("+") }
}

pub fn eval(case: &J) -> Outcome {
    let mut out = Outcome::new();
    let sql = case["sql"].as_str().unwrap().to_string();
    let sh = shape(&sql);
    out.tag(&format!("shape={sh}"));
    let uidvals = case["uidvals"] == true;
    if uidvals { out.tag("unit-declared-by-values"); }
    let rels = if uidvals { world3_uidvals() } else { world3() };
    let privacy_unit3 = || if uidvals { privacy_unit3_nohash() } else { privacy_unit3() };
    let rel = match guarded(|| { let q = parse(&sql).map_err(|e| e.to_string())?; Relation::try_from(QueryWithRelations::new(&q, &rels)).map_err(|e| e.to_string()) }) {
        Ok(Ok(r)) => r, Ok(Err(_)) => { out.tag("compile=err"); out.tag("trivial"); return out; }
        Err((loc, msg)) => { out.tag("compile=panic");
            // the cast of a text column whose declared values are not numerals: named by its cause, whatever the rest of the query looks like
            let sh = if msg.contains("ParseIntError") || msg.contains("ParseFloatError") { "text-cast".to_string() }
                     // a function of a column whose range the WHERE clause has emptied (z is the point 0 and the query asks for z > exp(h) = 1): the recorded defect, named by its cause
                     else if compile_panic_cause(&sql, &loc, &msg) == Some("function-of-empty-range") && sql.contains(" WHERE ") { "function-of-empty-range".to_string() } else { sh.clone() };
            out.fail(&format!("C18/total/compile-panic/{}/{sh}", site(&loc, &msg)), format!("{sql}: {msg} ({loc})")); return out; } };
    out.tag("compile=ok");
    if let Err((loc, msg)) = guarded(|| { let _ = rel.schema().to_string(); let _ = rel.size().to_string(); let _ = rel.data_type().to_string(); }) { out.fail(&format!("C18/total/schema-panic/{}/{sh}", site(&loc, &msg)), format!("{sql}: {msg}")); }
    if let Err((loc, msg)) = guarded(|| { let _ = ast::Query::from(&rel).to_string(); let _ = ast::Query::from(RelationWithTranslator(&rel, MsSqlTranslator)).to_string(); }) { out.fail(&format!("C18/total/render-panic/{}/{sh}", site(&loc, &msg)), format!("{sql}: {msg}")); }
    let eps = case["eps"].as_f64().unwrap_or(f64::INFINITY); let delta = case["delta"].as_f64().unwrap();
    let budget = if eps == 1.0 && delta == 1e-5 { "ordinary" } else { "degenerate" };
    out.tag(&format!("budget={budget}"));
    let params = match guarded(|| DpParameters::from_epsilon_delta(eps, delta)) { Ok(p) => p, Err((loc, msg)) => { out.fail(&format!("C18/total/params-panic/{}", site(&loc, &msg)), format!("DpParameters::from_epsilon_delta({eps}, {delta}): {msg}")); return out; } };
    for strategy in [Strategy::Soft, Strategy::Hard] {
        match guarded(|| rel.clone().rewrite_as_privacy_unit_preserving(&rels, None, privacy_unit3(), params.clone(), Some(strategy))) {
            Ok(Ok(r)) => { out.tag("pup=ok"); if let Err((loc, msg)) = guarded(|| ast::Query::from(r.relation()).to_string()) { out.fail(&format!("C18/total/pup-render-panic/{}/{sh}", site(&loc, &msg)), format!("{sql}: {msg}")); } }
            Ok(Err(_)) => out.tag("pup=err"),
            Err((loc, msg)) => { out.tag("pup=panic"); out.fail(&format!("C18/total/pup-rewrite-panic/{}/{sh}", site(&loc, &msg)), format!("{sql}: {msg} ({loc})")); }
        }
    }
    match guarded(|| rel.clone().rewrite_with_differential_privacy(&rels, None, privacy_unit3(), params.clone())) {
        Ok(Ok(r)) => { out.tag("dp=ok"); if let Err((loc, msg)) = guarded(|| { let _ = ast::Query::from(r.relation()).to_string(); let _ = r.relation().schema().to_string(); let _ = format!("{:?}", r.dp_event()); }) { out.fail(&format!("C18/total/dp-render-panic/{}/{sh}", site(&loc, &msg)), format!("{sql}: {msg}")); } }
        Ok(Err(_)) => out.tag("dp=err"),
        Err((loc, msg)) => { out.tag("dp=panic"); out.fail(&format!("C18/total/dp-rewrite-panic/{}/{budget}/{sh}", site(&loc, &msg)), format!("{sql} with epsilon={eps} delta={delta}: {msg} ({loc})")); }
    }
    out
}

//! Execution-based streams (SQLite): C09 (DP exact when noise and clipping are inactive), C01 (sensitivity of the
//! clipped sums), C05 (privacy-unit tracking non-interference), C07 (schema / size contain the results), C14, C08.
use crate::common::*;
use crate::data::{gen_data, Data};
use crate::exec::{Cell, RandomMode};
use crate::ir;
use crate::s_rules::{privacy_unit, world};
use qrlew::{differential_privacy::DpParameters, relation::{Relation, Variant as _}, sql::{parse, relation::QueryWithRelations}};
use serde_json::{json, Value as J};
use std::collections::BTreeMap;

pub fn parse_rel(sql: &str) -> Result<Relation, String> {
    let rels = world();
    match guarded(|| { let q = parse(sql).map_err(|e| e.to_string())?; Relation::try_from(QueryWithRelations::new(&q, &rels)).map_err(|e| e.to_string()) }) {
        Ok(r) => r, Err((loc, msg)) => Err(format!("panic at {loc}: {msg}")),
    }
}

pub fn data_of(case: &J) -> Data {
    let mut rng = Rng::new(case["data_seed"].as_u64().unwrap_or(1));
    gen_data(&mut rng, case["n_users"].as_u64().unwrap_or(20) as usize, case["max_orders"].as_u64().unwrap_or(3))
}

fn close(a: f64, b: f64) -> bool { (a - b).abs() <= 1e-6 * a.abs().max(b.abs()).max(1.0) }

// ------------------------------------------------------------------------------------------------
// C09

const AGG9: [&str; 9] = ["sum(income)", "avg(age)", "count(age)", "count(*)", "sum(age)", "avg(income)", "variance(income)", "stddev(age)", "count(DISTINCT city)"];
// sum(amount * 100.0051): a clipping constant (10000.51 × multiplicity) that needs more than five significant digits when it is written into the SQL text
const OAGG9: [&str; 10] = ["sum(amount)", "avg(qty)", "count(qty)", "count(*)", "avg(amount)", "sum(bal)", "avg(bal)", "sum(bal)", "sum(eps)", "sum(amount * 100.0051)"];

pub fn gen_c09(rng: &mut Rng, _k: usize, _tier: &str) -> J {
    let from_orders = rng.chance(1, 3);
    let joined = !from_orders && rng.chance(1, 4);
    let pool: &[&str] = if from_orders { &OAGG9 } else { &AGG9 };
    let n = 1 + rng.below(3) as usize;
    let mut aggs: Vec<String> = (0..n).map(|i| format!("{} AS a{i}", rng.pick(pool))).collect();
    let (keys, from): (Vec<&str>, String) = if from_orders { (vec![], "orders".into()) }
        else if joined { aggs = aggs.iter().map(|a| a.replace("income", "users.income").replace("(age", "(users.age").replace("city", "users.city")).collect();
                         (match rng.below(3) { 0 => vec![], 1 => vec!["users.city"], _ => vec!["users.city", "users.seg"] }, "users JOIN orders ON users.id = orders.user_id".into()) }
        else { (match rng.below(4) { 0 => vec![], 1 => vec!["city"], 2 => vec!["city", "seg"], _ => vec!["seg", "city"] }, "users".into()) };   // only public-valued keys (city and seg have a declared finite value set)
    let where_ = if rng.chance(1, 3) { if from_orders { " WHERE qty > 2" } else if joined { " WHERE users.age > 30" } else { " WHERE age > 30" } } else { "" };
    let mut items: Vec<String> = keys.iter().enumerate().map(|(i, c)| format!("{c} AS k{i}")).collect(); items.extend(aggs);
    let mut sql = format!("SELECT {} FROM {from}{where_}{}", items.join(", "), if keys.is_empty() { String::new() } else { format!(" GROUP BY {}", keys.join(", ")) });
    let mut nkeys = keys.len();
    // joins of two protected tables on a key that is not the privacy unit (both reach the unit through foreign keys)
    if rng.chance(1, 6) {
        sql = rng.pick(&["SELECT count(*) AS a0, sum(i.price) AS a1, avg(i.price) AS a2 FROM items AS i JOIN orders AS o ON i.order_id = o.id",
                         "SELECT sum(o.amount) AS a0, count(i.price) AS a1 FROM orders AS o JOIN items AS i ON o.id = i.order_id",
                         "SELECT sum(i.price) AS a0 FROM items AS i JOIN orders AS o ON i.order_id = o.id WHERE o.qty > 2"]).to_string();
        nkeys = 0;
    }
    let max_orders = rng.range(0, 4);
    json!({"sql": sql, "nkeys": nkeys, "data_seed": rng.next() % 100000, "n_users": rng.range(3, 40), "max_orders": max_orders,
           // rows of one unit: at most max_orders orders, each with at most 2 items
           "mult": if rng.chance(1, 2) { 1000.0 } else if sql.contains("items") { (2 * max_orders.max(1)) as f64 } else { (max_orders.max(1)) as f64 },
           "eps": *rng.pick(&[0.5, 1.0, 5.0]), "delta": *rng.pick(&[1e-3, 1e-6])})
}

fn keyed(rows: &[Vec<Cell>], nkeys: usize) -> BTreeMap<String, Vec<Cell>> {
    rows.iter().map(|r| (r[..nkeys].iter().map(|c| c.key()).collect::<Vec<_>>().join("|"), r[nkeys..].to_vec())).collect()
}

pub fn eval_c09(case: &J) -> Outcome {
    let mut out = Outcome::new();
    let sql = case["sql"].as_str().unwrap();
    let nkeys = case["nkeys"].as_u64().unwrap() as usize;
    let rels = world();
    let rel = match parse_rel(sql) { Ok(r) => r, Err(e) => { out.tag("trivial"); out.tag("parse-fail"); let _ = e; return out; } };
    // clipping inactive: multiplicity bound far above what any unit contributes
    // the allowed multiplicity of a privacy unit: large, or just what the data needs (at most `max_orders` rows per unit), so that a
    // clipping bound which is too small by a factor (a wrong absolute bound of a column) does clip
    let mult = case["mult"].as_f64().unwrap_or(1000.0);
    let p = DpParameters::new(case["eps"].as_f64().unwrap(), case["delta"].as_f64().unwrap(), 0.5, mult, 1.0, 5);
    let dp = match guarded(|| rel.rewrite_with_differential_privacy(&rels, None, privacy_unit(), p.clone())) {
        Ok(Ok(d)) => d, Ok(Err(_)) => { out.tag("trivial"); out.tag("dp-err"); return out; }
        Err((loc, msg)) => { out.tag("trivial"); out.fail(&format!("C18/c09/rewrite-panic/{}", site(&loc, &msg)), format!("{sql}: {msg}")); return out; }
    };
    let data = data_of(case);
    let db = data.load(RandomMode::Const(0.25)); // cos(2π·0.25) = 0: every Box–Muller draw is 0
    let orig = match db.run(&rel) { Ok(x) => x, Err(e) => { out.tag("trivial"); out.fail("C17/sqlite/original-not-executable", format!("{sql}: SQLite rejects the rendered original relation: {e}")); return out; } };
    let dpr = match db.run(dp.relation()) { Ok(x) => x, Err(e) => { out.tag("trivial"); out.fail("C17/sqlite/dp-not-executable", format!("{sql}: SQLite rejects the rendered DP relation: {e}")); return out; } };
    if orig.1.is_empty() { out.tag("trivial"); }
    let (o, d) = (keyed(&orig.1, nkeys), keyed(&dpr.1, nkeys));
    // aggregate kinds by output position
    let kinds: Vec<String> = sql.split(" FROM ").next().unwrap().split(", ").skip(nkeys).map(|s| { let s = s.trim_start_matches("SELECT "); let f = s.split('(').next().unwrap().to_string(); if s.contains("DISTINCT") { format!("{f}_distinct") } else { f } }).collect();
    for (k, ov) in &o {
        match d.get(k) {
            None => { out.fail("C09/exec/group-missing", format!("{sql}: group [{k}] of the original result is absent from the DP result although noise and clipping are inactive (orig {:?}, dp {:?})", orig.1, dpr.1)); break; }
            Some(dv) => {
                for (i, (a, b)) in ov.iter().zip(dv.iter()).enumerate() {
                    let kind = kinds.get(i).map(|s| s.as_str()).unwrap_or("?");
                    let ok = match (a.as_f64(), b.as_f64()) {
                        (Some(x), Some(y)) => close(x, y) || ((kind == "variance" || kind == "stddev") && ((x - y).abs() < 1e-3 || var_ok(kind, x, y, ov, dv, &orig.1, k, nkeys))),
                        (None, None) => true,
                        // SQL returns NULL for avg/sum over no row and for var/std of fewer than 2 rows; the DP expressions return 0
                        (None, Some(y)) => { out.tag("null-vs-zero"); y.abs() < 1e-3 }
                        _ => false,
                    };
                    if !ok { out.fail(&format!("C09/exec/{}-mismatch", if kind == "variance" || kind == "stddev" { "var" } else { kind }), format!("{sql}: group [{k}] column {i} ({kind}): original {a}, DP with noise and clipping inactive {b}")); return out; }
                }
            }
        }
    }
    // extra groups in the DP result must be empty public groups (count 0 / sums 0 or NULL)
    for (k, dv) in &d { if !o.contains_key(k) { if dv.iter().any(|c| c.as_f64().map_or(false, |x| x.abs() > 1e-3)) { out.fail("C09/exec/spurious-group", format!("{sql}: DP result has group [{k}] with non-zero aggregates {:?} that the original result lacks", dv)); break; } else { out.tag("empty-public-group"); } } }
    out
}

/// variance / stddev "of the data": the sample value (n-1) is what the original query returns; the DP expression computes the
/// population value (n). Accept either, given the group's count when it can be recovered from the ratio.
fn var_ok(kind: &str, orig: f64, dp: f64, _ov: &[Cell], _dv: &[Cell], _rows: &[Vec<Cell>], _k: &str, _nkeys: usize) -> bool {
    // sample = pop * n/(n-1) for some integer n >= 2  <=>  orig/dp (variance) or (orig/dp)^2 (stddev) is n/(n-1)
    if dp.abs() < 1e-9 { return orig.abs() < 1e-6; }
    let r = if kind == "variance" { orig / dp } else { (orig / dp) * (orig / dp) };
    if r < 1.0 - 1e-6 { return false; }
    if (r - 1.0).abs() < 1e-6 { return true; }
    let n = r / (r - 1.0);
    (n - n.round()).abs() < 1e-4 * n.max(1.0) && n.round() >= 2.0
}

// ------------------------------------------------------------------------------------------------
// C01: sensitivity of the noised columns (observed before noise) when one privacy unit is removed

pub fn gen_c01(rng: &mut Rng, _k: usize, _tier: &str) -> J {
    let from_orders = rng.chance(1, 2);
    let joined = !from_orders && rng.chance(1, 3);
    let pool: &[&str] = if from_orders { &OAGG9 } else { &AGG9[..8] };
    let n = 1 + rng.below(3) as usize;
    let mut aggs: Vec<String> = (0..n).map(|i| format!("{} AS a{i}", rng.pick(pool))).collect();
    // DISTINCT aggregates over values that several privacy units share (whatever DISTINCT is made to mean, one unit moves the result by at most C)
    if rng.chance(1, 5) { let d = if from_orders { *rng.pick(&["sum(DISTINCT qty)", "count(DISTINCT qty)", "avg(DISTINCT qty)"]) } else { *rng.pick(&["sum(DISTINCT age)", "count(DISTINCT age)", "count(DISTINCT city)"]) }; aggs[0] = format!("{d} AS a0"); }
    let (keys, from): (Vec<&str>, String) = if from_orders { (vec![], "orders".into()) }
        else if joined { aggs = aggs.iter().map(|a| a.replace("income", "users.income").replace("(age", "(users.age").replace("city", "users.city")).collect();
                         (match rng.below(2) { 0 => vec![], _ => vec!["users.city"] }, "users JOIN orders ON users.id = orders.user_id".into()) }
        else { (match rng.below(2) { 0 => vec![], _ => vec!["city"] }, "users".into()) };
    // one query in twelve has a WHERE clause that no row of the data satisfies (ages and quantities stay below the declared upper bound)
    let where_ = if rng.chance(1, 12) { if from_orders { " WHERE qty >= 100" } else if joined { " WHERE users.age >= 100" } else { " WHERE age >= 100" } }
                 else if rng.chance(1, 4) { if from_orders { " WHERE qty > 2" } else if joined { " WHERE users.age > 30" } else { " WHERE age > 30" } } else { "" };
    let mut items: Vec<String> = keys.iter().enumerate().map(|(i, c)| format!("{c} AS k{i}")).collect(); items.extend(aggs);
    let mut sql = format!("SELECT {} FROM {from}{where_}{}", items.join(", "), if keys.is_empty() { String::new() } else { format!(" GROUP BY {}", keys.join(", ")) });
    // joins of two protected relations on a condition that can match rows of different units
    if rng.chance(1, 5) {
        sql = rng.pick(&["SELECT sum(a.income) AS a0 FROM users AS a JOIN users AS b ON a.city = b.city",
                         "SELECT a.city AS k0, sum(a.income) AS a0, count(b.age) AS a1 FROM users AS a JOIN users AS b ON a.city = b.city GROUP BY a.city",
                         "SELECT sum(o.amount) AS a0 FROM orders AS o JOIN users AS u ON o.qty = u.age",
                         "SELECT sum(o.amount) AS a0, count(p.qty) AS a1 FROM orders AS o JOIN orders AS p ON o.qty = p.qty",
                         // outer joins of two protected tables on a condition that leaves right-hand rows unmatched: their privacy unit is NULL
                         "SELECT sum(o.amount) AS a0 FROM users AS u RIGHT JOIN orders AS o ON u.age = o.qty",
                         "SELECT sum(o.amount) AS a0, count(o.qty) AS a1 FROM users AS u FULL JOIN orders AS o ON u.id = o.qty",
                         "SELECT sum(o.bal) AS a0 FROM users AS u RIGHT JOIN orders AS o ON u.id = o.user_id AND u.age > 50",
                         "SELECT sum(price) AS a0, count(price) AS a1 FROM items",
                         "SELECT sum(i.price) AS a0 FROM items AS i JOIN orders AS o ON i.order_id = o.id"]).to_string();
    }
    // units may exceed the multiplicity assumption: many orders per user with a small max multiplicity
    json!({"sql": sql, "data_seed": rng.next() % 100000, "n_users": rng.range(2, 25), "max_orders": *rng.pick(&[1i64, 3, 12, 40]),
           "eps": 1.0, "delta": 1e-4, "mult": *rng.pick(&[1.0, 2.0, 100.0, 2.5]), "mult_share": *rng.pick(&[1.0, 0.01, 0.013]), "remove": [rng.below(25), rng.below(25)],
           // the number of rows per unit is whatever the data says: a privacy unit declared as a key of `users` may still own several rows there
           // (the declaration only sets the assumed multiplicity to 1; the clipping has to enforce the bound)
           "dup_users": rng.chance(1, 4)})
}

/// the Map nodes that add clamped Gaussian noise, with the (column, σ, C) of each noised column
fn noise_maps(rel: &Relation, out: &mut Vec<(Relation, Vec<(String, f64, Option<f64>)>)>, seen: &mut Vec<*const Relation>) {
    let p = rel as *const Relation; if seen.contains(&p) { return; } seen.push(p);
    if let Relation::Map(m) = rel {
        let f = ir::facts(rel);
        let mut cols = vec![];
        for (n, e) in m.named_exprs() { if ir::has_random(e) && ir::is_clamped(e) { if let Some(s) = ir::noise_sigma(e) {
            let c = ir::noise_value_column(rel, n).and_then(|vn| f.clips.iter().find(|(cn, _)| *cn == vn).map(|(_, c)| *c));
            cols.push((n.to_string(), s, if c.is_none() && s == 0.0 { Some(0.0) } else { c }));
        } } }
        if !cols.is_empty() { out.push((rel.clone(), cols)); }
    }
    for i in rel.inputs() { noise_maps(i, out, seen); }
}

/// every cell of a column the rewriting noises with σ > 0 is really drawn: executed with two different settings of the random source
/// (Box–Muller draws of about +1.7 and −1.1 standard deviations) the two releases of a cell differ — also for a group without rows and
/// for an aggregate whose WHERE clause keeps nothing, where a NULL-propagating noise expression would release a constant
pub fn check_noise_applied(out: &mut Outcome, sql: &str, rel: &Relation, data: &crate::data::Data) {
    // every Map with a column computed from a random draw scaled by a constant, whatever wraps the draw (clamp, coalesce, cast)
    fn find(rel: &Relation, out: &mut Vec<(Relation, Vec<(String, f64, Option<f64>)>)>, seen: &mut Vec<*const Relation>) {
        let p = rel as *const Relation; if seen.contains(&p) { return; } seen.push(p);
        if let Relation::Map(m) = rel {
            let cols: Vec<(String, f64, Option<f64>)> = m.named_exprs().into_iter().filter(|(_, e)| ir::has_random(e)).filter_map(|(n, e)| ir::noise_sigma(e).map(|s| (n.to_string(), s, None))).collect();
            if !cols.is_empty() { out.push((rel.clone(), cols)); }
        }
        for i in rel.inputs() { find(i, out, seen); }
    }
    let mut maps = vec![]; find(rel, &mut maps, &mut vec![]);
    let (da, db) = (data.load(RandomMode::Const(0.1)), data.load(RandomMode::Const(0.4)));
    for (m, cols) in &maps {
        let (ra, rb) = match (da.run(m), db.run(m)) { (Ok(a), Ok(b)) => (a, b), _ => return };
        let names = &ra.0;
        let noised: Vec<(usize, f64)> = names.iter().enumerate().filter_map(|(i, n)| cols.iter().find(|(c, s, _)| c == n && *s > 0.5).map(|(_, s, _)| (i, *s))).collect();
        let keyidx: Vec<usize> = (0..names.len()).filter(|i| !cols.iter().any(|(c, _, _)| *c == names[*i])).collect();
        let keyof = |r: &Vec<Cell>| keyidx.iter().map(|i| r[*i].key()).collect::<Vec<_>>().join("|");
        let mb: BTreeMap<String, Vec<Cell>> = rb.1.iter().map(|r| (keyof(r), r.clone())).collect();
        if ra.1.is_empty() { continue; }
        out.tag("noise-application-checked");
        for r in &ra.1 { if let Some(r2) = mb.get(&keyof(r)) { for (ci, sigma) in &noised {
            if r[*ci].key() == r2[*ci].key() {
                out.fail("C02/exec/cell-released-without-noise", format!("{sql}: the column `{}` is noised with σ = {sigma}, but for the group [{}] two executions with different random draws release the same value {}: the released cell does not depend on the noise", names[*ci], keyof(r), r[*ci]));
                return;
            } } } }
    }
}

pub fn eval_c01(case: &J) -> Outcome {
    let mut out = Outcome::new();
    let sql = case["sql"].as_str().unwrap();
    let rels = world();
    let rel = match parse_rel(sql) { Ok(r) => r, Err(_) => { out.tag("trivial"); return out; } };
    let p = DpParameters::new(case["eps"].as_f64().unwrap(), case["delta"].as_f64().unwrap(), 0.5, case["mult"].as_f64().unwrap(), case["mult_share"].as_f64().unwrap(), 5);
    let dp = match guarded(|| rel.rewrite_with_differential_privacy(&rels, None, privacy_unit(), p.clone())) {
        Ok(Ok(d)) => d, Ok(Err(_)) => { out.tag("trivial"); return out; }
        Err((loc, msg)) => { out.tag("trivial"); out.fail(&format!("C18/c01/rewrite-panic/{}", site(&loc, &msg)), format!("{sql}: {msg}")); return out; }
    };
    let mut maps = vec![]; noise_maps(dp.relation(), &mut maps, &mut vec![]);
    if maps.is_empty() { out.tag("trivial"); return out; }
    let mut data = data_of(case);
    let n_users = data.users.len() as u64;
    if case["dup_users"] == true {
        out.tag("unit-owns-several-user-rows");
        let extra: Vec<Vec<Cell>> = data.users.iter().filter(|r| matches!(r[0], Cell::Int(i) if i % 2 == 0)).flat_map(|r| {
            let mut a = r.clone(); a[1] = Cell::Int(100); a[3] = Cell::Real(1000.0);
            let mut b = r.clone(); b[1] = Cell::Int(0); b[3] = Cell::Real(999.75);
            vec![a, b] }).collect();
        data.users.extend(extra);
    }
    check_noise_applied(&mut out, sql, dp.relation(), &data);
    let mut clipped_active = false;
    for rm in case["remove"].as_array().unwrap() {
        let uid = (rm.as_u64().unwrap() % n_users.max(1)) as i64;
        let (d0, d1) = (data.load(RandomMode::Const(0.25)), data.without_user(uid).load(RandomMode::Const(0.25)));
        for (m, cols) in &maps {
            let (r0, r1) = match (d0.run(m), d1.run(m)) { (Ok(a), Ok(b)) => (a, b), (Err(e), _) | (_, Err(e)) => { out.fail("C17/sqlite/dp-not-executable", format!("{sql}: {e}")); return out; } };
            let names = &r0.0;
            let noised: Vec<usize> = names.iter().enumerate().filter(|(_, n)| cols.iter().any(|(c, _, _)| c == *n)).map(|(i, _)| i).collect();
            let keyidx: Vec<usize> = (0..names.len()).filter(|i| !noised.contains(i)).collect();
            let keyof = |r: &Vec<Cell>| keyidx.iter().map(|i| r[*i].key()).collect::<Vec<_>>().join("|");
            let m0: BTreeMap<String, Vec<Cell>> = r0.1.iter().map(|r| (keyof(r), r.clone())).collect();
            let m1: BTreeMap<String, Vec<Cell>> = r1.1.iter().map(|r| (keyof(r), r.clone())).collect();
            for (cname, sigma, c) in cols {
                // when the clipping constant cannot be read off the expressions (the shape of the clipping sub-query changed), fall back on
                // C = σ / (largest noise multiplier recorded in the returned event): the smallest C the accounting can be claiming
                let fallback = || -> Option<f64> { let ms: Vec<f64> = crate::s_dp::gaussians(dp.dp_event()); let m = ms.iter().cloned().fold(0.0, f64::max); if m > 0.0 && *sigma > 0.0 { Some(*sigma / m) } else { None } };
                let c = match c { Some(c) => *c, None => match fallback() { Some(c) => { out.tag("clip-constant-from-event"); c } None => { out.fail("C01/exec/clip-constant-not-found", format!("{sql}: the noised column `{cname}` (σ = {sigma}) has no recognisable clipping constant and the event records no multiplier for it")); continue } } };
                // the bound the property speaks of is the one σ was scaled by: when every mechanism of the event has the same multiplier m
                // (one aggregation, budget split evenly) that bound is σ / m, and the constant in the clipping expression must not exceed it
                let ms: Vec<f64> = crate::s_dp::gaussians(dp.dp_event());
                let c = if let (Some(m0_), true) = (ms.first().cloned(), !ms.is_empty() && ms.iter().all(|m| (m - ms[0]).abs() <= 1e-9 * ms[0].abs()) && *sigma > 0.0) {
                    let cal = *sigma / m0_;
                    if c > cal * (1.0 + 1e-6) + 1e-9 { out.tag("clip-constant-above-calibrated-bound"); cal } else { c }
                } else { c };
                let c = &c;
                let ci = names.iter().position(|n| n == cname).unwrap();
                let mut d2 = 0.0;
                let allkeys: std::collections::BTreeSet<&String> = m0.keys().chain(m1.keys()).collect();
                for k in allkeys {
                    let a = m0.get(k).and_then(|r| r[ci].as_f64()).unwrap_or(0.0);
                    let b = m1.get(k).and_then(|r| r[ci].as_f64()).unwrap_or(0.0);
                    d2 += (a - b) * (a - b);
                }
                let dist = d2.sqrt();
                if dist > 0.0 { out.tag("unit-contributes"); }
                if dist > c * 0.999 && *c > 0.0 { clipped_active = true; }
                // tolerance: relative to the bound and to the magnitude of the released cells (a column declared in [0, 1e-18] has C ≈ 1e-18)
                let mag = m0.values().chain(m1.values()).filter_map(|r| r[ci].as_f64()).fold(0.0f64, |a, x| a.max(x.abs()));
                if dist > c * (1.0 + 1e-6) + 1e-9 * mag {
                    out.fail("C01/exec/sensitivity-exceeds-clip", format!("{sql} with {:?}: removing privacy unit {uid} changes the noised column `{cname}` by {dist} in L2 norm over the released groups, more than the clipping bound C = {c} the noise was scaled by (D: {:?}, D': {:?})", p, r0.1.iter().take(4).collect::<Vec<_>>(), r1.1.iter().take(4).collect::<Vec<_>>()));
                    // the same run read as C03: the event records a multiplier m for this sum, the noise actually applied relative to what one
                    // unit can move is σ / dist — a larger recorded multiplier under-reports the privacy loss
                    if let Some(m) = ms.iter().cloned().fold(None, |a: Option<f64>, x| Some(a.map_or(x, |y| y.min(x)))) { if *sigma > 0.0 && m > sigma / dist * (1.0 + 1e-6) {
                        out.fail("C03/exec/multiplier-over-reported", format!("{sql} with {:?}: the event records noise multiplier {m} but removing privacy unit {uid} moves the noised column `{cname}` by {dist} for σ = {sigma}: the multiplier actually applied is {}", p, sigma / dist)); } }
                    return out;
                }
            }
        }
    }
    if clipped_active { out.tag("clipping-active"); }
    out
}

// ------------------------------------------------------------------------------------------------
// clip: the real `l2_clipped_sums` relation executed on SQLite vs the Lean clipping model (Float instance)

pub fn gen_clip(rng: &mut Rng, _k: usize, _tier: &str) -> J {
    let n_units = 1 + rng.below(6); let n_groups = 1 + rng.below(4);
    let n_rows = rng.below(30);
    let rows: Vec<J> = (0..n_rows).map(|_| json!([rng.below(n_units), rng.below(n_groups), if rng.chance(1, 10) { J::Null } else { json!(rng.range(-40, 40) as f64 * 0.5) }])).collect();
    json!({"n_units": n_units, "n_groups": n_groups, "rows": rows, "c": *rng.pick(&[0.0, 1.0, 2.5, 10.0, 1000.0])})
}

pub fn eval_clip(case: &J) -> Outcome {
    use qrlew::{builder::Ready, DataType};
    let mut out = Outcome::new();
    let c = case["c"].as_f64().unwrap();
    let table: Relation = Relation::table().name("t").schema(vec![("pu", DataType::integer_interval(0, 10)), ("g", DataType::integer_interval(0, 10)), ("x", DataType::optional(DataType::float_interval(-20., 20.)))].into_iter().collect::<qrlew::relation::Schema>()).size(100).build();
    let rel = match guarded(|| table.clone().l2_clipped_sums("pu", &["g"], &[("s", "x", c)])) { Ok(r) => r, Err((loc, msg)) => { out.tag("trivial"); out.fail(&format!("C18/clip/panic/{}", site(&loc, &msg)), msg); return out; } };
    let db = crate::exec::Db::new(RandomMode::Const(0.25));
    let rows: Vec<Vec<Cell>> = case["rows"].as_array().unwrap().iter().map(|r| vec![Cell::Int(r[0].as_i64().unwrap()), Cell::Int(r[1].as_i64().unwrap()), r[2].as_f64().map_or(Cell::Null, Cell::Real)]).collect();
    db.create_table("t", &["pu", "g", "x"], &rows);
    match db.run(&rel) {
        Ok((names, res)) => {
            let gi = names.iter().position(|n| n == "g").unwrap_or(0); let si = names.iter().position(|n| n == "s").unwrap_or(1);
            let mut sums: Vec<J> = res.iter().map(|r| json!([r[gi].as_f64().unwrap_or(-1.0) as i64, r[si].as_f64()])).collect();
            sums.sort_by(|a, b| a[0].as_i64().cmp(&b[0].as_i64()));
            out.aux = json!({"sums": sums});
            out.imp = json!({"clip_ok": true});
            if rows.len() < 2 { out.tag("trivial"); }
            // oracle (C01 on the primitive itself): every unit's contribution is bounded by C — remove each unit and compare
            let n_units = case["n_units"].as_u64().unwrap() as i64;
            for u in 0..n_units {
                let db2 = crate::exec::Db::new(RandomMode::Const(0.25));
                let rows2: Vec<Vec<Cell>> = rows.iter().filter(|r| r[0] != Cell::Int(u)).cloned().collect();
                db2.create_table("t", &["pu", "g", "x"], &rows2);
                if let Ok((_, res2)) = db2.run(&rel) {
                    let get = |rs: &Vec<Vec<Cell>>, g: i64| rs.iter().find(|r| r[gi].as_f64().map(|x| x as i64) == Some(g)).and_then(|r| r[si].as_f64()).unwrap_or(0.0);
                    let d2: f64 = (0..case["n_groups"].as_i64().unwrap()).map(|g| { let d = get(&res, g) - get(&res2, g); d * d }).sum();
                    if d2.sqrt() > c * (1.0 + 1e-9) + 1e-9 { out.fail("C01/clip/contribution-exceeds-clip", format!("l2_clipped_sums with C = {c}: removing unit {u} changes the sums by {} (rows {:?})", d2.sqrt(), case["rows"])); break; }
                }
            }
        }
        Err(e) => { out.imp = json!("exec-error"); out.fail("C17/sqlite/clip-not-executable", e); }
    }
    out
}

// ------------------------------------------------------------------------------------------------
// C05: privacy-unit tracking — rows of unit u on D  ==  rows on D restricted to u; no NULL unit / weight

pub fn gen_c05(rng: &mut Rng, _k: usize, _tier: &str) -> J {
    let w_u = if rng.chance(1, 3) { " WHERE age > 30" } else { "" };
    let w_o = if rng.chance(1, 3) { " WHERE qty > 2" } else { "" };
    let jt = *rng.pick(&["JOIN", "JOIN", "LEFT JOIN", "RIGHT JOIN", "FULL JOIN"]);
    let sql = match rng.below(15) {
        0 => format!("SELECT id AS a, age AS b, income + 1 AS c FROM users{w_u}"),
        1 => format!("SELECT user_id AS a, amount * 2 AS b FROM orders{w_o}"),
        2 => format!("SELECT o.amount AS a, u.city AS b FROM orders AS o {jt} users AS u ON o.user_id = u.id"),
        3 => format!("SELECT u.age AS a, o.qty AS b FROM users AS u {jt} orders AS o ON u.id = o.user_id{}", if rng.chance(1, 3) { " WHERE o.qty > 1" } else { "" }),
        4 => format!("SELECT o.amount AS a, p.price AS b FROM orders AS o {jt} products AS p ON o.qty = p.pid"),
        5 => format!("SELECT p.price AS a, u.age AS b FROM products AS p {jt} users AS u ON p.pid = u.age"),
        6 => format!("SELECT user_id AS a, sum(amount) AS b, count(qty) AS c FROM orders{w_o} GROUP BY user_id"),
        7 => format!("SELECT city AS a, count(id) AS b FROM users{w_u} GROUP BY city"),
        8 => format!("SELECT id AS a, income AS b FROM users{w_u} UNION SELECT user_id AS a, amount AS b FROM orders{w_o}"),
        9 => format!("SELECT id AS a, age AS b FROM users{w_u} ORDER BY age LIMIT {}", rng.range(1, 6)),
        10 => format!("WITH t AS (SELECT user_id AS k, sum(amount) AS s FROM orders GROUP BY user_id) SELECT u.age AS a, t.s AS b FROM users AS u {jt} t ON u.id = t.k"),
        11 => format!("SELECT a.id AS a, b.age AS b FROM users AS a {jt} users AS b ON a.age = b.age"),
        12 => "SELECT order_id AS a, price * 2 AS b FROM items".to_string(),
        13 => format!("SELECT i.price AS a, o.amount AS b FROM items AS i {jt} orders AS o ON i.order_id = o.id"),
        _ => "SELECT order_id AS a, sum(price) AS b FROM items GROUP BY order_id".to_string(),
    };
    json!({"sql": sql, "strategy": if rng.chance(2, 3) { "hard" } else { "soft" }, "data_seed": rng.next() % 100000, "n_users": rng.range(2, 12), "max_orders": rng.range(0, 4), "units": [rng.below(12), rng.below(12)]})
}

fn multiset(rows: &[Vec<Cell>]) -> Vec<String> { let mut v: Vec<String> = rows.iter().map(|r| r.iter().map(|c| c.key()).collect::<Vec<_>>().join("|")).collect(); v.sort(); v }

/// which operator class does the query exercise (part of the finding key)
fn c05_class(sql: &str) -> &'static str {
    if sql.contains("LIMIT") { "limit" } else if sql.contains("FULL JOIN") { "full-join" } else if sql.contains("RIGHT JOIN") { "right-join" } else if sql.contains("LEFT JOIN") { "left-join" }
    else if sql.contains("UNION") { "union" } else if sql.contains("JOIN") { "inner-join" } else if sql.contains("GROUP BY") { "reduce" } else { "map" }
}

pub fn eval_c05(case: &J) -> Outcome {
    use qrlew::privacy_unit_tracking::Strategy;
    let mut out = Outcome::new();
    let sql = case["sql"].as_str().unwrap();
    let cls = c05_class(sql);
    out.tag(&format!("class={cls}"));
    let rels = world();
    let rel = match parse_rel(sql) { Ok(r) => r, Err(_) => { out.tag("trivial"); out.tag("parse-fail"); return out; } };
    let strategy = if case["strategy"] == "soft" { Strategy::Soft } else { Strategy::Hard };
    let pup = match guarded(|| rel.rewrite_as_privacy_unit_preserving(&rels, None, privacy_unit(), DpParameters::from_epsilon_delta(1.0, 1e-4), Some(strategy))) {
        Ok(Ok(d)) => d, Ok(Err(_)) => { out.tag("trivial"); out.tag("pup-refused"); return out; }
        Err((loc, msg)) => { out.tag("trivial"); out.fail(&format!("C18/c05/rewrite-panic/{}", site(&loc, &msg)), format!("{sql}: {msg}")); return out; }
    };
    let has_pu = pup.relation().schema().iter().any(|f| f.name() == "_PRIVACY_UNIT_");
    if !has_pu { out.tag("trivial"); out.tag("public-result"); return out; }
    let data = data_of(case);
    let db = data.load(RandomMode::Const(0.25));
    let full = match db.run(pup.relation()) { Ok(x) => x, Err(e) => { out.tag("trivial"); out.fail("C17/sqlite/pup-not-executable", format!("{sql}: {e}")); return out; } };
    let pi = full.0.iter().position(|n| n == "_PRIVACY_UNIT_").unwrap();
    let wi = full.0.iter().position(|n| n == "_PRIVACY_UNIT_WEIGHT_");
    if full.1.is_empty() { out.tag("trivial"); }
    // every row carries a non-null unit and weight
    if let Some(r) = full.1.iter().find(|r| r[pi] == Cell::Null || wi.map_or(false, |w| r[w] == Cell::Null)) {
        out.fail(&format!("C05/exec/null-unit/{cls}"), format!("{sql} ({:?}): the privacy-unit-preserving result contains a row without privacy unit or weight: {:?}", strategy, r));
    }
    let n_users = data.users.len() as u64;
    for u in case["units"].as_array().unwrap() {
        let uid = (u.as_u64().unwrap() % n_users.max(1)) as i64;
        let tag = Cell::Text(format!("md5_{uid}"));
        let mine: Vec<Vec<Cell>> = full.1.iter().filter(|r| r[pi] == tag).cloned().collect();
        let dbu = data.only_user(uid).load(RandomMode::Const(0.25));
        let alone = match dbu.run(pup.relation()) { Ok(x) => x.1, Err(_) => continue };
        let alone_mine: Vec<Vec<Cell>> = alone.iter().filter(|r| r[pi] == tag).cloned().collect();
        if !mine.is_empty() { out.tag("unit-has-rows"); }
        if multiset(&mine) != multiset(&alone_mine) {
            out.fail(&format!("C05/exec/interference/{cls}"), format!("{sql} ({:?}): rows attributed to unit {uid} on the full database {:?} differ from those obtained after deleting every other unit's protected rows {:?}", strategy, mine.iter().take(5).collect::<Vec<_>>(), alone_mine.iter().take(5).collect::<Vec<_>>()));
            break;
        }
    }
    out
}

// ------------------------------------------------------------------------------------------------
// C04: key release — contribution limiting and tau-thresholding

/// Acklam's rational approximation of the standard normal quantile (independent of statrs / the library)
pub fn inv_phi(p: f64) -> f64 {
    let a = [-3.969683028665376e+01, 2.209460984245205e+02, -2.759285104469687e+02, 1.383577518672690e+02, -3.066479806614716e+01, 2.506628277459239e+00];
    let b = [-5.447609879822406e+01, 1.615858368580409e+02, -1.556989798598866e+02, 6.680131188771972e+01, -1.328068155288572e+01];
    let c = [-7.784894002430293e-03, -3.223964580411365e-01, -2.400758277161838e+00, -2.549732539343734e+00, 4.374664141464968e+00, 2.938163982698783e+00];
    let d = [7.784695709041462e-03, 3.224671290700398e-01, 2.445134137142996e+00, 3.754408661907416e+00];
    let pl = 0.02425;
    if p < pl { let q = (-2.0 * p.ln()).sqrt(); (((((c[0] * q + c[1]) * q + c[2]) * q + c[3]) * q + c[4]) * q + c[5]) / ((((d[0] * q + d[1]) * q + d[2]) * q + d[3]) * q + 1.0) }
    else if p <= 1.0 - pl { let q = p - 0.5; let r = q * q; (((((a[0] * r + a[1]) * r + a[2]) * r + a[3]) * r + a[4]) * r + a[5]) * q / (((((b[0] * r + b[1]) * r + b[2]) * r + b[3]) * r + b[4]) * r + 1.0) }
    else { let q = (-2.0 * (1.0 - p).ln()).sqrt(); -(((((c[0] * q + c[1]) * q + c[2]) * q + c[3]) * q + c[4]) * q + c[5]) / ((((d[0] * q + d[1]) * q + d[2]) * q + d[3]) * q + 1.0) }
}

pub fn gen_limit(rng: &mut Rng, _k: usize, _tier: &str) -> J {
    let n_units = 1 + rng.below(5); let n_keys = 1 + rng.below(8);
    // distinct (unit, key) pairs, as after `unique`
    let mut rows: Vec<[u64; 2]> = vec![];
    for u in 0..n_units { for k in 0..n_keys { if rng.chance(2, 3) { rows.push([u, k]); } } }
    json!({"rows": rows, "k": 1 + rng.below(4), "seed": rng.next() % 1000000, "n_units": n_units})
}

pub fn eval_limit(case: &J) -> Outcome {
    use qrlew::{builder::Ready, DataType};
    let mut out = Outcome::new();
    let k = case["k"].as_u64().unwrap();
    let table: Relation = Relation::table().name("t").schema(vec![("pu", DataType::integer_interval(0, 10)), ("key", DataType::integer_interval(0, 10))].into_iter().collect::<qrlew::relation::Schema>()).size(100).build();
    let rel = match guarded(|| table.clone().limit_col_contributions("pu", k)) { Ok(r) => r, Err((loc, msg)) => { out.tag("trivial"); out.fail(&format!("C18/limit/panic/{}", site(&loc, &msg)), msg); return out; } };
    let rows: Vec<Vec<Cell>> = case["rows"].as_array().unwrap().iter().map(|r| vec![Cell::Int(r[0].as_i64().unwrap()), Cell::Int(r[1].as_i64().unwrap())]).collect();
    for mode in [RandomMode::Seeded(case["seed"].as_u64().unwrap()), RandomMode::Const(0.25)] {
        let mode_copy = mode.clone();
        let db = crate::exec::Db::new(mode);
        db.create_table("t", &["pu", "key"], &rows);
        match db.run(&rel) {
            Ok((names, res)) => {
                let pi = names.iter().position(|n| n == "pu").unwrap_or(0);
                let mut per: BTreeMap<i64, usize> = BTreeMap::new();
                for r in &res { if let Cell::Int(u) = r[pi] { *per.entry(u).or_default() += 1; } }
                let mut had_more = false;
                for u in 0..case["n_units"].as_i64().unwrap() {
                    let before = rows.iter().filter(|r| r[0] == Cell::Int(u)).count();
                    let after = *per.get(&u).unwrap_or(&0);
                    if before as u64 > k { had_more = true; }
                    if after as u64 > k { out.fail("C04/limit/unit-exceeds-max-groups", format!("limit_col_contributions(pu, {k}) executed on SQLite leaves unit {u} in {after} groups (rows {:?})", case["rows"])); return out; }
                    if after > before { out.fail("C04/limit/rows-invented", format!("unit {u} has {after} rows after limiting but {before} before")); return out; }
                }
                if had_more { out.tag("limit-active"); } else { out.tag("trivial"); }
                // under constant draws all ranks tie: the per-unit counts are compared with the Lean model of the rank filter
                if let RandomMode::Const(_) = mode_copy { out.imp = json!({"const_counts": (0..case["n_units"].as_i64().unwrap()).map(|u| *per.get(&u).unwrap_or(&0)).collect::<Vec<_>>()}); }
            }
            Err(e) => { out.fail("C17/sqlite/limit-not-executable", e); return out; }
        }
    }
    out
}

/// a table whose privacy unit carries a weight column: v(uid, w, key, amt), privacy unit (uid, weight w)
fn gen_c04_weighted(rng: &mut Rng) -> J {
    let n_units = rng.range(2, 12);
    // most units sit in the common keys 0..2; a few own a rare key alone, with several rows of different weights
    let mut rows: Vec<J> = vec![];
    for u in 0..n_units { for _ in 0..rng.range(1, 3) { rows.push(json!([u, rng.range(1, 5), rng.range(0, 2), rng.range(0, 40) as f64 * 0.5])); } }
    for r in 0..rng.range(1, 3) { let u = rng.below(n_units as u64) as i64; let key = 10 + r; for w in 1..=rng.range(2, 5) { rows.push(json!([u, w, key, rng.range(0, 40) as f64 * 0.5])); } }
    json!({"weighted": true, "rows": rows, "sql": *rng.pick(&["SELECT key AS k0, sum(amt) AS c FROM v GROUP BY key", "SELECT key AS k0, count(amt) AS c FROM v GROUP BY key", "SELECT key AS k0 FROM v GROUP BY key"]),
           "eps": *rng.pick(&[1.0, 50.0, 200.0]), "delta": *rng.pick(&[1e-2, 0.3, 0.45]), "share": *rng.pick(&[0.5, 0.9]), "groups": *rng.pick(&[2u64, 5, 8]), "hash": rng.chance(1, 2)})
}

fn eval_c04_weighted(case: &J) -> Outcome {
    use qrlew::{builder::Ready, DataType, hierarchy::Hierarchy, privacy_unit_tracking::PrivacyUnit};
    let mut out = Outcome::new();
    out.tag("weighted-unit");
    let sql = case["sql"].as_str().unwrap();
    let table: Relation = Relation::table().name("v").schema(vec![("uid", DataType::integer_interval(0, 100)), ("w", DataType::integer_interval(1, 5)), ("key", DataType::integer_interval(0, 20)), ("amt", DataType::float_interval(0., 20.))].into_iter().collect::<qrlew::relation::Schema>()).size(1000).build();
    let rels: Hierarchy<std::sync::Arc<Relation>> = vec![(vec!["v".to_string()], std::sync::Arc::new(table))].into_iter().collect();
    let rel = match guarded(|| { let q = parse(sql).map_err(|e| e.to_string())?; Relation::try_from(QueryWithRelations::new(&q, &rels)).map_err(|e| e.to_string()) }) { Ok(Ok(r)) => r, _ => { out.tag("trivial"); return out; } };
    let pu = PrivacyUnit::from((vec![("v", vec![], "uid", "w")], case["hash"].as_bool().unwrap_or(true)));
    let (eps, delta, share, kk) = (case["eps"].as_f64().unwrap(), case["delta"].as_f64().unwrap(), case["share"].as_f64().unwrap(), case["groups"].as_u64().unwrap());
    let p = DpParameters::new(eps, delta, share, 100.0, 1.0, kk);
    let dp = match guarded(|| rel.rewrite_with_differential_privacy(&rels, None, pu.clone(), p.clone())) {
        Ok(Ok(d)) => d, Ok(Err(_)) => { out.tag("trivial"); out.tag("dp-err"); return out; }
        Err((loc, msg)) => { out.tag("trivial"); out.fail(&format!("C18/c04/rewrite-panic/{}", site(&loc, &msg)), format!("{sql}: {msg}")); return out; } };
    let facts = ir::facts(dp.relation());
    let rows: Vec<Vec<Cell>> = case["rows"].as_array().unwrap().iter().map(|r| vec![Cell::Int(r[0].as_i64().unwrap()), Cell::Int(r[1].as_i64().unwrap()), Cell::Int(r[2].as_i64().unwrap()), Cell::Real(r[3].as_f64().unwrap())]).collect();
    let db = crate::exec::Db::new(RandomMode::Const(0.25));
    db.create_table("v", &["uid", "w", "key", "amt"], &rows);
    let res = match db.run(dp.relation()) { Ok(x) => x, Err(e) => { out.fail("C17/sqlite/dp-not-executable", format!("{sql}: {e}")); return out; } };
    let mut units: BTreeMap<i64, std::collections::BTreeSet<i64>> = BTreeMap::new();
    for r in &rows { if let (Cell::Int(u), Cell::Int(k)) = (&r[0], &r[2]) { units.entry(*k).or_default().insert(*u); } }
    let Some((_, tau, _)) = facts.taus.first().cloned() else {
        for r in &res.1 { if let Some(k) = r[0].as_f64() { if units.get(&(k as i64)).map_or(0, |s| s.len()) == 1 { out.fail("C02/exec/private-key-released-without-threshold", format!("{sql} (weighted privacy unit): no threshold, key {k} held by one unit is released")); out.fail("C04/exec/private-key-released-without-threshold", format!("{sql} (weighted privacy unit): no threshold, key {k} held by one unit is released")); break; } } }
        return out; };
    if !res.1.is_empty() { out.tag("keys-released"); }
    for r in &res.1 {
        let Some(k) = r[0].as_f64() else { continue };
        let n = units.get(&(k as i64)).map_or(0, |s| s.len());
        if !(n as f64 > tau) {
            out.fail("C04/exec/rare-key-released", format!("{sql} with a weighted privacy unit (uid, w) and {:?}: with noise neutralised the key {k} is released although only {n} privacy unit(s) hold it and τ = {tau} (rows {})", p, case["rows"])); break;
        }
    }
    out
}

pub fn gen_c04(rng: &mut Rng, _k: usize, _tier: &str) -> J {
    if rng.chance(1, 5) { return gen_c04_weighted(rng); }
    // grouped by a private-valued key (thresholded), optionally with a public-valued one
    let (sql, keycols) = match rng.below(11) {
        // reduces whose outputs are all computed from the grouping column: nothing to noise, but the keys are private and have to be thresholded all the same
        7 => ("SELECT age AS k0 FROM users GROUP BY age".to_string(), vec!["age"]),
        8 => ("SELECT DISTINCT age AS k0 FROM users".to_string(), vec!["age"]),
        9 => ("SELECT age AS k0, count(age) AS c FROM users GROUP BY age".to_string(), vec!["age"]),
        10 => ("SELECT qty AS k0, sum(qty) AS c FROM orders GROUP BY qty".to_string(), vec!["qty"]),
        // keys whose values are public (listed by the column type): every listed value is released, whatever the data
        5 => ("SELECT city AS k0, count(id) AS c, sum(income) AS s FROM users GROUP BY city".to_string(), vec!["city"]),
        6 => ("SELECT city AS k0, avg(age) AS c FROM users WHERE city IN ('A', 'B') GROUP BY city".to_string(), vec!["city"]),
        0 => ("SELECT age AS k0, count(id) AS c FROM users GROUP BY age".to_string(), vec!["age"]),
        1 => ("SELECT qty AS k0, sum(amount) AS c FROM orders GROUP BY qty".to_string(), vec!["qty"]),
        2 => ("SELECT city AS k0, age AS k1, count(id) AS c FROM users GROUP BY city, age".to_string(), vec!["city", "age"]),
        3 => ("SELECT age AS k0, avg(income) AS c FROM users WHERE income > 100 GROUP BY age".to_string(), vec!["age"]),
        _ => ("SELECT users.age AS k0, sum(orders.amount) AS c FROM users JOIN orders ON users.id = orders.user_id GROUP BY users.age".to_string(), vec!["age"]),
    };
    json!({"sql": sql, "keys": keycols, "data_seed": rng.next() % 100000, "n_users": *rng.pick(&[5i64, 30, 200, 600]), "max_orders": rng.range(1, 4),
           "eps": *rng.pick(&[0.5, 1.0, 4.0, 50.0]), "delta": *rng.pick(&[1e-2, 1e-4, 1e-7, 0.3, 1e-17, 1e-300]), "share": *rng.pick(&[0.5, 0.2, 0.9]), "groups": *rng.pick(&[1u64, 2, 5])})
}

pub fn eval_c04(case: &J) -> Outcome {
    if case["weighted"] == true { return eval_c04_weighted(case); }
    let mut out = Outcome::new();
    let sql = case["sql"].as_str().unwrap();
    let rels = world();
    let rel = match parse_rel(sql) { Ok(r) => r, Err(_) => { out.tag("trivial"); return out; } };
    let (eps, delta, share, kk) = (case["eps"].as_f64().unwrap(), case["delta"].as_f64().unwrap(), case["share"].as_f64().unwrap(), case["groups"].as_u64().unwrap());
    let p = DpParameters::new(eps, delta, share, 100.0, 1.0, kk);
    let dp = match guarded(|| rel.rewrite_with_differential_privacy(&rels, None, privacy_unit(), p.clone())) {
        Ok(Ok(d)) => d, Ok(Err(_)) => { out.tag("trivial"); return out; }
        Err((loc, msg)) => { out.tag("trivial"); out.fail(&format!("C18/c04/rewrite-panic/{}", site(&loc, &msg)), format!("{sql}: {msg}")); return out; }
    };
    let facts = ir::facts(dp.relation());
    if facts.taus.is_empty() && case["keys"][0] == "city" && case["keys"].as_array().unwrap().len() == 1 {
        // public keys: the released key column must not be computed from the protected rows — on any database, in particular on one
        // where a listed value has no row (small n_users) or a single one, the output holds exactly the listed values
        out.tag("public-keys");
        let data = data_of(case);
        let db = data.load(RandomMode::Const(0.25));
        let res = match db.run(dp.relation()) { Ok(x) => x, Err(e) => { out.fail("C17/sqlite/dp-not-executable", format!("{sql}: {e}")); return out; } };
        let mut got: Vec<String> = res.1.iter().map(|r| r[0].key()).collect(); got.sort(); got.dedup();
        let want: Vec<String> = if sql.contains("IN ('A', 'B')") { vec!["'A'".into(), "'B'".into()] } else { vec!["'A'".into(), "'B'".into(), "'C'".into()] };
        let present: std::collections::BTreeSet<String> = data.users.iter().map(|u| u[2].key()).collect();
        if present.len() < 3 { out.tag("some-public-value-absent-from-data"); }
        check_noise_applied(&mut out, sql, dp.relation(), &data);
        if got != want { out.fail("C02/exec/public-keys-depend-on-data", format!("{sql}: the grouping column lists the public values {:?}, the data holds {:?}, the DP result releases {:?}: which keys are released depends on the protected rows without any noise", want, present, got)); }
        return out;
    }
    if facts.taus.is_empty() {
        // a private-valued key and no threshold anywhere: whatever is released is released on the strength of the data alone
        out.tag("no-threshold");
        let data = data_of(case);
        let db = data.load(RandomMode::Const(0.25));
        let res = match db.run(dp.relation()) { Ok(x) => x, Err(e) => { out.fail("C17/sqlite/dp-not-executable", format!("{sql}: {e}")); return out; } };
        let keyname = case["keys"].as_array().unwrap().last().unwrap().as_str().unwrap();
        let nkeys = case["keys"].as_array().unwrap().len();
        let mut units: BTreeMap<String, std::collections::BTreeSet<i64>> = BTreeMap::new();
        if keyname == "age" { for u in &data.users { if let (Cell::Int(id), Cell::Int(age)) = (&u[0], &u[1]) { units.entry(Cell::Int(*age).key()).or_default().insert(*id); } } }
        else if keyname == "qty" { for o in &data.orders { if let (Cell::Int(uid), Cell::Int(q)) = (&o[1], &o[3]) { units.entry(Cell::Int(*q).key()).or_default().insert(*uid); } } }
        else { out.tag("trivial"); return out; }
        if res.1.is_empty() { out.tag("trivial"); }
        for r in &res.1 {
            let kv = r[nkeys - 1].key();
            if units.get(&kv).map_or(0, |s| s.len()) == 1 {
                out.fail("C02/exec/private-key-released-without-threshold", format!("{sql} with {:?}: the rewritten query has no threshold on the number of privacy units per key, and releases the key {kv} which a single privacy unit holds (released keys depend on the protected rows without any noise)", p)); out.fail("C04/exec/private-key-released-without-threshold", format!("{sql} with {:?}: the rewritten query has no threshold on the number of privacy units per key, and releases the key {kv} which a single privacy unit holds (released keys depend on the protected rows without any noise)", p)); break;
            }
        }
        return out;
    }
    // the threshold and the count noise must be at least what the (ε, δ) share reserved for key release requires
    let (e_t, d_t, kf) = (eps * share, delta * share, kk as f64);
    let sigma_req = (2.0 * (1.25 / d_t).ln()).sqrt() / e_t * kf.sqrt();
    let tau_req = 1.0 + sigma_req * inv_phi((1.0 - d_t).powf(1.0 / kf));
    let (_, tau, strict) = facts.taus[0].clone();
    let tau_sigma = facts.noises.iter().find(|(n, _, clamped)| n.contains("COUNT_DISTINCT") && !clamped).map(|(_, s, _)| *s);
    if tau < tau_req * (1.0 - 1e-6) - 1e-9 { out.fail("C04/tau/threshold-too-low", format!("{sql} with {:?}: threshold τ = {tau} in the rewritten query is below the τ = {tau_req} required by (ε·share, δ·share, max groups) = ({e_t}, {d_t}, {kk})", p)); }
    if let Some(s) = tau_sigma { if s < sigma_req * (1.0 - 1e-9) { out.fail("C04/tau/noise-too-small", format!("{sql} with {:?}: thresholding noise σ = {s} is below the required {sigma_req}", p)); } }
    else { out.fail("C04/tau/no-noise-on-count", format!("{sql}: no noise is added to the distinct-unit count before thresholding")); }
    if tau < 1.0 { out.fail("C04/tau/below-one", format!("{sql} with {:?}: τ = {tau} < 1: a key held by a single unit can be released with non-positive noise", p)); }
    let _ = strict;
    // execution with noise neutralised: a released private key must be held by more than τ units (after limiting, so at least that many before)
    let data = data_of(case);
    let db = data.load(RandomMode::Const(0.25));
    let res = match db.run(dp.relation()) { Ok(x) => x, Err(e) => { out.fail("C17/sqlite/dp-not-executable", format!("{sql}: {e}")); return out; } };
    // distinct units per key value in the data (key = age or qty: the last key column is the private one)
    let keyname = case["keys"].as_array().unwrap().last().unwrap().as_str().unwrap();
    let nkeys = case["keys"].as_array().unwrap().len();
    let mut units: BTreeMap<String, std::collections::BTreeSet<i64>> = BTreeMap::new();
    if keyname == "age" { for u in &data.users { if let (Cell::Int(id), Cell::Int(age)) = (&u[0], &u[1]) { units.entry(Cell::Int(*age).key()).or_default().insert(*id); } } }
    else { for o in &data.orders { if let (Cell::Int(uid), Cell::Int(q)) = (&o[1], &o[3]) { units.entry(Cell::Int(*q).key()).or_default().insert(*uid); } } }
    if !res.1.is_empty() { out.tag("keys-released"); }
    for r in &res.1 {
        let kv = r[nkeys - 1].key();
        let n = units.get(&kv).map_or(0, |s| s.len());
        if (n as f64) <= tau.floor() && !(n as f64 > tau) {
            out.fail("C04/exec/rare-key-released", format!("{sql} with {:?}: with noise neutralised the key {kv} is released although only {n} privacy unit(s) hold it and τ = {tau}", p)); break;
        }
    }
    // a key held by a single unit must never be released when noise is non-positive
    out
}

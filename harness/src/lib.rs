//! Verification harness for Qrlew: case generators, in-process calls into the real crate,
//! property-level oracles. One JSON line per case on stdout:
//! {"stream":..,"case":..,"impl":..,"oracle":[{"key":..,"what":..}],"tags":[..]}
pub mod common;
pub mod s_intervals;

use common::*;
use std::io::{BufRead, Write};

type EvalFn = fn(&serde_json::Value) -> Outcome;
type GenFn = fn(&mut Rng, usize, &str) -> serde_json::Value;

fn streams() -> Vec<(&'static str, GenFn, EvalFn)> {
    vec![
        ("intervals", s_intervals::gen, s_intervals::eval),
    ]
}

pub fn main() {
    let args: Vec<String> = std::env::args().collect();
    if args.len() < 3 {
        eprintln!("usage: oracle gen <stream> --seed S --n N [--tier T] | oracle eval <stream> < cases.jsonl");
        std::process::exit(2);
    }
    let mode = args[1].as_str();
    let stream = args[2].as_str();
    let mut seed: u64 = 1;
    let mut n: usize = 100;
    let mut tier = "quick".to_string();
    let mut i = 3;
    while i < args.len() {
        match args[i].as_str() {
            "--seed" => { seed = args[i + 1].parse().unwrap(); i += 2; }
            "--n" => { n = args[i + 1].parse().unwrap(); i += 2; }
            "--tier" => { tier = args[i + 1].clone(); i += 2; }
            _ => { i += 1; }
        }
    }
    // silence panic messages of the library under catch_unwind (they are recorded in the outcome instead)
    std::panic::set_hook(Box::new(|info| {
        let loc = info.location().map(|l| format!("{}:{}", l.file(), l.line())).unwrap_or_default();
        let msg = if let Some(s) = info.payload().downcast_ref::<&str>() { s.to_string() }
                  else if let Some(s) = info.payload().downcast_ref::<String>() { s.clone() } else { String::new() };
        LAST_PANIC.with(|p| *p.borrow_mut() = Some((loc, msg)));
    }));
    let (_, g, e) = streams().into_iter().find(|(name, _, _)| *name == stream)
        .unwrap_or_else(|| { eprintln!("unknown stream {stream}"); std::process::exit(2) });
    let out = std::io::stdout();
    let mut out = std::io::BufWriter::new(out.lock());
    let mut emit = |case: serde_json::Value| {
        let o = e(&case);
        let line = serde_json::json!({"stream": stream, "case": case, "impl": o.imp, "oracle": o.oracle, "tags": o.tags});
        writeln!(out, "{}", line).unwrap();
    };
    match mode {
        "gen" => {
            let mut rng = Rng::new(seed ^ fnv(stream));
            for k in 0..n {
                let case = g(&mut rng, k, &tier);
                emit(case);
            }
        }
        "eval" => {
            for line in std::io::stdin().lock().lines() {
                let line = line.unwrap();
                if line.trim().is_empty() { continue; }
                let v: serde_json::Value = serde_json::from_str(&line).unwrap();
                let case = v.get("case").cloned().unwrap_or(v);
                emit(case);
            }
        }
        _ => { eprintln!("unknown mode"); std::process::exit(2); }
    }
}

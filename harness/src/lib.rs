//! Verification harness for Qrlew: case generators, in-process calls into the real crate,
//! property-level oracles. One JSON line per case on stdout:
//! {"stream":..,"case":..,"impl":..,"oracle":[{"key":..,"what":..}],"tags":[..]}
pub mod common;
pub mod s_intervals;
pub mod tygen;
pub mod s_dtype;
pub mod s_hier;
pub mod s_print;
pub mod s_rules;
pub mod ir;
pub mod exec;
pub mod data;
pub mod s_dp;
pub mod s_dpagg;
pub mod s_pup;
pub mod s_reltree;
pub mod s_tau;
pub mod s_exprimg;
pub mod s_dtlat;
pub mod s_injlat;
pub mod s_fn;
pub mod s_inj;
pub mod s_filter;
pub mod s_exec;
pub mod s_sqlx;
pub mod s_quote;
pub mod s_determ;
pub mod s_dialect;
pub mod s_total;
pub mod s_arith;
pub mod s_split;

use common::*;
use std::io::{BufRead, Write};

type EvalFn = fn(&serde_json::Value) -> Outcome;
type GenFn = fn(&mut Rng, usize, &str) -> serde_json::Value;

fn streams() -> Vec<(&'static str, GenFn, EvalFn)> {
    vec![
        ("intervals", s_intervals::gen, s_intervals::eval),
        ("dtype", s_dtype::gen, s_dtype::eval),
        ("hier", s_hier::gen_hier, s_hier::eval_hier),
        ("hierops", s_hier::gen_hierops, s_hier::eval_hierops),
        ("exprprint", s_print::gen, s_print::eval),
        ("scope", s_hier::gen_scope, s_hier::eval_scope),
        ("rules", s_rules::gen, s_rules::eval),
        ("sdpartial", s_rules::gen_sdpartial, s_rules::eval_sdpartial),
        ("inj", s_inj::gen, s_inj::eval),
        ("ofint", s_inj::gen_ofint, s_inj::eval_ofint),
        ("injbase", s_inj::gen_base, s_inj::eval_base),
        ("injtime", s_inj::gen_time, s_inj::eval_time),
        ("filter", s_filter::gen, s_filter::eval),
        ("filterx", s_filter::genx, s_filter::evalx),
        ("joinnarrow", s_filter::gen_join, s_filter::eval_join),
        ("sqlx", s_sqlx::gen, s_sqlx::eval),
        ("sizes", s_sqlx::gen_sizes, s_sqlx::eval_sizes),
        ("c08x", s_sqlx::gen_c08x, s_sqlx::eval),
        ("quote", s_quote::gen, s_quote::eval),
        ("values", s_sqlx::gen_values, s_sqlx::eval_values),
        ("determ", s_determ::gen, s_determ::eval),
        ("namer", s_determ::gen_namer, s_determ::eval_namer),
        ("dialect", s_dialect::gen, s_dialect::eval),
        ("dialectdp", s_dialect::gen_dp, s_dialect::eval_dp),
        ("total", s_total::gen, s_total::eval),
        ("arith", s_arith::gen, s_arith::eval),
        ("split", s_split::gen, s_split::eval),
        ("splitlist", s_split::gen_list, s_split::eval_list),
        ("c09", s_exec::gen_c09, s_exec::eval_c09),
        ("c01", s_exec::gen_c01, s_exec::eval_c01),
        ("clip", s_exec::gen_clip, s_exec::eval_clip),
        ("c05", s_exec::gen_c05, s_exec::eval_c05),
        ("limit", s_exec::gen_limit, s_exec::eval_limit),
        ("c04", s_exec::gen_c04, s_exec::eval_c04),
        ("fn", s_fn::gen, s_fn::eval),
        ("fnimg", s_fn::gen_img, s_fn::eval_img),
        ("dpevent", s_dp::gen_event_case, s_dp::eval_event_case),
        ("dpquery", s_dp::gen_query, s_dp::eval_query),
        ("dpagg", s_dpagg::gen, s_dpagg::eval),
        ("pup", s_pup::gen, s_pup::eval),
        ("reltree", s_reltree::gen, s_reltree::eval),
        ("taukeys", s_tau::gen, s_tau::eval),
        ("exprimg", s_exprimg::gen, s_exprimg::eval),
        ("dtlat", s_dtlat::gen, s_dtlat::eval),
        ("dialectfns", s_dialect::gen_fns, s_dialect::eval_fns),
        ("injlat", s_injlat::gen, s_injlat::eval),
    ]
}

pub fn main() {
    let args: Vec<String> = std::env::args().collect();
    if args.len() < 3 {
        eprintln!("usage: oracle gen <stream> --seed S --n N [--tier T] | oracle eval <stream> < cases.jsonl");
        std::process::exit(2);
    }
    let mode = args[1].as_str();
    let stream = args[2].as_str();
    // silence panic messages of the library under catch_unwind (they are recorded in the outcome instead)
    std::panic::set_hook(Box::new(|info| {
        let loc = info.location().map(|l| format!("{}:{}", l.file(), l.line())).unwrap_or_default();
        let msg = if let Some(s) = info.payload().downcast_ref::<&str>() { s.to_string() }
                  else if let Some(s) = info.payload().downcast_ref::<String>() { s.clone() } else { String::new() };
        LAST_PANIC.with(|p| *p.borrow_mut() = Some((loc, msg)));
    }));
    if mode == "dump" {
        let v = match stream { "rules" => s_rules::dump_rules(), "dialects" => s_dialect::dump_dialects(), "dialectfns" => s_dialect::dump_dialect_fns(), _ => { eprintln!("unknown dump {stream}"); std::process::exit(2) } };
        println!("{}", v);
        return;
    }
    let mut seed: u64 = 1;
    let mut n: usize = 100;
    let mut tier = "quick".to_string();
    let mut skip: usize = 0;
    let mut print_case: Option<usize> = None;
    let mut case_timeout: u64 = 30;
    let mut i = 3;
    while i < args.len() {
        match args[i].as_str() {
            "--seed" => { seed = args[i + 1].parse().unwrap(); i += 2; }
            "--n" => { n = args[i + 1].parse().unwrap(); i += 2; }
            "--tier" => { tier = args[i + 1].clone(); i += 2; }
            "--skip" => { skip = args[i + 1].parse().unwrap(); i += 2; }
            "--print-case" => { print_case = Some(args[i + 1].parse().unwrap()); i += 2; }
            "--case-timeout" => { case_timeout = args[i + 1].parse().unwrap(); i += 2; }
            _ => { i += 1; }
        }
    }
    let (_, g, e) = streams().into_iter().find(|(name, _, _)| *name == stream)
        .unwrap_or_else(|| { eprintln!("unknown stream {stream}"); std::process::exit(2) });
    let out = std::io::stdout();
    let mut out = std::io::BufWriter::new(out.lock());
    // watchdog: a case that runs longer than `case_timeout` seconds ends the process with exit code 97
    // (the runner records the case as a hang and restarts after it)
    let started = std::sync::Arc::new(std::sync::atomic::AtomicU64::new(0));
    {
        let started = started.clone();
        std::thread::spawn(move || loop {
            std::thread::sleep(std::time::Duration::from_millis(500));
            let s = started.load(std::sync::atomic::Ordering::Relaxed);
            if s != 0 {
                let now = std::time::SystemTime::now().duration_since(std::time::UNIX_EPOCH).unwrap().as_secs();
                if now > s + case_timeout { eprintln!("WATCHDOG: case exceeded {case_timeout}s"); std::process::exit(97); }
            }
        });
    }
    let mut emit = |case: serde_json::Value| {
        started.store(std::time::SystemTime::now().duration_since(std::time::UNIX_EPOCH).unwrap().as_secs(), std::sync::atomic::Ordering::Relaxed);
        let o = e(&case);
        started.store(0, std::sync::atomic::Ordering::Relaxed);
        let line = serde_json::json!({"stream": stream, "case": case, "impl": o.imp, "aux": o.aux, "oracle": o.oracle, "tags": o.tags});
        writeln!(out, "{}", line).unwrap();
        out.flush().unwrap();
    };
    match mode {
        "gen" => {
            let mut rng = Rng::new(seed ^ fnv(stream));
            for k in 0..n {
                let case = g(&mut rng, k, &tier);
                if let Some(pc) = print_case { if pc == k { println!("{}", serde_json::json!({"stream": stream, "case": case})); return; } else { continue; } }
                if k < skip { continue; }
                emit(case);
            }
        }
        "eval" => {
            for line in std::io::stdin().lock().lines() {
                let line = line.unwrap();
                if line.trim().is_empty() { continue; }
                let v: serde_json::Value = serde_json::from_str(&line).unwrap();
                let case = v.get("case").cloned().unwrap_or(v);
                emit(case);
            }
        }
        _ => { eprintln!("unknown mode"); std::process::exit(2); }
    }
}

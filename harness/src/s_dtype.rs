//! Stream `dtype`: lattice laws of `DataType` (C11) checked on the implementation with the library's own
//! predicates: subset-soundness, union/intersection over-approximation, value in its own type.
use crate::common::*;
use crate::tygen::*;
use qrlew::data_type::{value::Value, DataType, DataTyped, Variant};
use serde_json::{json, Value as J};

pub fn gen(rng: &mut Rng, k: usize, _tier: &str) -> J {
    let extremes = k % 3 == 0;
    let exotic = k % 5 == 4;
    let depth = (k % 3) as u32;
    // core = the fragment the SQL path produces (scalars, optional scalars, structs/unions over the same field names, lists of scalars);
    // exotic = arbitrary nesting and cross-variant composite pairs
    let (a, b) = if exotic { let a = gen_ty(rng, depth, extremes); let b = gen_related_ty(rng, &a, depth, extremes); (a, b) } else { gen_core_pair(rng, extremes) };
    // one case in forty: an integer interval with 127-129 values (the capacity of an interval set, up to which a type is expanded into its
    // values) against a type of another variant it converts into (text, float)
    let (a, b) = if k % 40 == 7 { let lo = rng.range(-3, 3); let a = json!(["int", [[lo, lo + *rng.pick(&[126i64, 127, 128])]]]);
        let b = if rng.chance(2, 3) { gen_text_ty(rng) } else { gen_float_ty(rng, false) }; (if rng.chance(1, 4) { json!(["opt", a]) } else { a }, b) } else { (a, b) };
    let (a, b) = if rng.chance(1, 2) { (a, b) } else { (b, a) };
    let v = gen_val_in(rng, &a);
    let w = gen_val_in(rng, &b);
    json!({"a": a, "b": b, "v": v, "w": w, "profile": if exotic { "exotic" } else { "core" }})
}

/// classify a struct/union pair: which structural situation the failing case is in (part of the finding key)
fn shape_class(a: &J, b: &J) -> String {
    let names = |t: &J| -> Vec<String> { t[1].as_array().map(|fs| fs.iter().map(|f| f[0].as_str().unwrap_or("").to_string()).collect()).unwrap_or_default() };
    match (jtag(a), jtag(b)) {
        ("struct", "struct") | ("union", "union") => {
            let (na, nb) = (names(a), names(b));
            let mut sa = na.clone(); sa.sort(); let mut sb = nb.clone(); sb.sort();
            if sa == sb { "same-fields".into() } else { "different-fields".into() }
        }
        ("array", "array") => if a[2] == b[2] { "same-shape".into() } else { "different-shape".into() },
        _ => "-".into(),
    }
}

/// Set-theoretic membership modulo the library's value embeddings (the notion `DataType::is_subset_of` itself
/// uses across variants: bool ⊂ int ⊂ float, scalar ⊂ text by printing, date ⊂ datetime, x ~ some(x), () ~ none,
/// a value of a union's field type belongs to the union).  Within one variant it is the library's own `contains`.
pub fn mem(t: &DataType, v: &Value) -> bool {
    use qrlew::data_type::value::Variant as _;
    let lib = |t: &DataType, v: &Value| guarded(|| t.contains(v)).unwrap_or(false);
    // the library's own embedding of the value into the variant of `t` (e.g. anything -> bytes, scalar -> one-element list)
    let emb = |t: &DataType, v: &Value| guarded(|| t.maximal_superset().ok().and_then(|m| v.as_data_type(&m).ok()).map_or(false, |y| t.contains(&y))).unwrap_or(false);
    // a none at any optional depth is a none; some(x) is x
    if let Value::Optional(x) = v {
        return match x.as_ref() { None => matches!(t, DataType::Optional(_) | DataType::Unit(_) | DataType::Any), Some(x) => mem(t, x) };
    }
    match (t, v) {
        (DataType::Any, _) => true,
        (DataType::Null, _) => false,
        (DataType::Optional(_), Value::Unit(_)) => true,
        (DataType::Optional(o), x) => mem(o.data_type(), x),
        (DataType::Union(u), Value::Union(x)) => u.fields().iter().any(|(n, ft)| n == &x.0 && mem(ft, &x.1)),
        (DataType::Union(u), x) => u.fields().iter().any(|(_, ft)| mem(ft, x)),
        (DataType::Struct(s), Value::Struct(x)) => s.fields().iter().all(|(n, ft)| x.iter().find(|(m, _)| m == n).map_or(false, |(_, fv)| mem(ft, fv))),
        (DataType::List(l), Value::List(xs)) => l.size().contains(&(xs.len() as i64)) && xs.iter().all(|x| mem(l.data_type(), x)),
        (DataType::Set(l), Value::Set(xs)) => l.size().contains(&(xs.len() as i64)) && xs.iter().all(|x| mem(l.data_type(), x)),
        (DataType::Array(a), Value::Array(x)) => a.shape() == x.1.as_slice() && x.0.iter().all(|e| mem(a.data_type(), e)),
        (DataType::Integer(i), Value::Float(f)) => { let f: f64 = **f; f.fract() == 0.0 && f >= -9223372036854775808.0 && f < 9223372036854775808.0 && i.contains(&(f as i64)) }
        (DataType::Integer(i), Value::Boolean(b)) => i.contains(&(**b as i64)),
        (DataType::Float(fl), Value::Integer(i)) => ((**i as f64) as i128 == **i as i128) && fl.contains(&(**i as f64)),
        (DataType::Float(fl), Value::Boolean(b)) => fl.contains(&(if **b { 1.0 } else { 0.0 })),
        (DataType::Boolean(bo), Value::Integer(i)) => (**i == 0 || **i == 1) && bo.contains(&(**i == 1)),
        (DataType::Boolean(bo), Value::Float(f)) => (**f == 0.0 || **f == 1.0) && bo.contains(&(**f == 1.0)),
        (DataType::DateTime(dt), Value::Date(d)) => dt.contains(&d.and_hms_opt(0, 0, 0).unwrap()),
        (DataType::Date(da), Value::DateTime(d)) => d.time() == chrono::NaiveTime::from_hms_opt(0, 0, 0).unwrap() && da.contains(&d.date()),
        (DataType::Text(_), Value::Text(_)) => lib(t, v),
        _ => lib(t, v) || emb(t, v),
    }
}

fn is_scalar(t: &J) -> bool { !matches!(jtag(t), "struct" | "union" | "opt" | "list" | "set" | "array" | "fn" | "any" | "null") }
fn is_col(t: &J) -> bool { is_scalar(t) || (jtag(t) == "opt" && is_scalar(&t[1])) }
fn is_core_pair(a: &J, b: &J) -> bool {
    let names = |t: &J| -> Vec<String> { let mut v: Vec<String> = t[1].as_array().map(|fs| fs.iter().map(|f| f[0].as_str().unwrap_or("").to_string()).collect()).unwrap_or_default(); v.sort(); v };
    match (jtag(a), jtag(b)) {
        ("struct", "struct") | ("union", "union") => names(a) == names(b) && a[1].as_array().unwrap().iter().chain(b[1].as_array().unwrap().iter()).all(|f| is_col(&f[1])),
        ("list", "list") => is_scalar(&a[1]) && is_scalar(&b[1]),
        _ => is_col(a) && is_col(b),
    }
}
fn coarse_class(a: &J, b: &J) -> &'static str {
    let has = |tag: &str| jtag(a) == tag || jtag(b) == tag;
    if has("struct") { "Struct" } else if has("array") { "Array" } else if has("list") || has("set") { "ListSet" } else if has("union") { "Union" } else if has("opt") { "Optional" } else { "Other" }
}

/// magnitude class of the failing value (part of the finding key): values at or beyond 2^53 hit the i64/f64 representation limits
pub fn vclass(v: &Value) -> &'static str {
    match v {
        Value::Integer(i) => if (**i as i128).abs() >= (1i128 << 53) { "huge" } else { "-" },
        Value::Float(f) => if f.abs() >= 9007199254740992.0 { "huge" } else if **f == 0.0 { "signed-zero" } else { "-" },
        Value::List(xs) => if xs.iter().any(|x| vclass(x) == "huge") { "huge" } else if xs.iter().any(|x| vclass(x) == "signed-zero") { "signed-zero" } else { "-" },
        Value::Struct(xs) => if xs.iter().any(|(_, x)| vclass(x) == "huge") { "huge" } else if xs.iter().any(|(_, x)| vclass(x) == "signed-zero") { "signed-zero" } else { "-" },
        Value::Optional(x) => x.as_ref().map_or("-", |x| vclass(x)),
        Value::Union(x) => vclass(&x.1),
        Value::Set(xs) => if xs.iter().any(|x| vclass(x) == "huge") { "huge" } else if xs.iter().any(|x| vclass(x) == "signed-zero") { "signed-zero" } else { "-" },
        Value::Array(x) => if x.0.iter().any(|x| vclass(x) == "huge") { "huge" } else if x.0.iter().any(|x| vclass(x) == "signed-zero") { "signed-zero" } else { "-" },
        _ => "-",
    }
}

pub fn eval(case: &J) -> Outcome {
    let mut out = Outcome::new();
    let r = guarded(|| {
        let mut o = Outcome::new();
        let a: DataType = ty_of(&case["a"]);
        let b: DataType = ty_of(&case["b"]);
        let pair = format!("{}x{}", vname(&a), vname(&b));
        let cls = shape_class(&case["a"], &case["b"]);
        o.tag(&format!("pair={pair}"));
        // core = the fragment the SQL path produces; everything else is "exotic" and keyed coarsely
        let core = is_core_pair(&case["a"], &case["b"]);
        let prof = if core { "core" } else { "exotic" };
        o.tag(&format!("profile={prof}"));
        let pair = if core { pair } else { coarse_class(&case["a"], &case["b"]).to_string() };
        let cls = if core { format!("core/{cls}") } else { "exotic".to_string() };
        let v: Option<Value> = if case["v"].is_null() { None } else { Some(val_of(&case["v"])) };
        let w: Option<Value> = if case["w"].is_null() { None } else { Some(val_of(&case["w"])) };
        let sub = guarded(|| a.is_subset_of(&b));
        let uni = guarded(|| a.super_union(&b));
        let int = guarded(|| a.super_intersection(&b));
        for (name, r) in [("is_subset_of", sub.as_ref().err()), ("super_union", uni.as_ref().err()), ("super_intersection", int.as_ref().err())] {
            if let Some((loc, msg)) = r { o.fail(&format!("C18/dtype/{name}/panic/{}", site(loc, msg)), format!("{name}({a}, {b}) panicked at {loc}: {msg}")); }
        }
        let mut nontrivial = false;
        for (who, x) in [("a", &v), ("b", &w)] {
            let Some(x) = x else { continue };
            let (own, _other) = if who == "a" { (&a, &b) } else { (&b, &a) };
            // value in its own inferred type
            match guarded(|| mem(&x.data_type(), x)) {
                Ok(true) => {}
                Ok(false) => o.fail(&format!("C11/dtype/own-type/{}", vname(&x.data_type())), format!("value {x} is not contained in its own inferred type {}", x.data_type())),
                Err((loc, msg)) => o.fail(&format!("C18/dtype/own-type/panic/{}", site(&loc, &msg)), format!("data_type().contains({x}) panicked at {loc}: {msg}")),
            }
            let in_own = mem(own, x);
            if !in_own { o.tag("gen-miss"); continue; }
            if who == "a" {
                if let Ok(true) = sub {
                    nontrivial = true;
                    o.tag("subset=true");
                    if !mem(&b, x) {
                        o.fail(&format!("C11/dtype/subset/{pair}/{cls}/{}", vclass(x)), format!("{a} is_subset_of {b} but value {x} of the former is not contained in the latter"));
                    }
                }
            }
            if let Ok(Ok(u)) = &uni {
                nontrivial = true;
                if !mem(u, x) {
                    o.fail(&format!("C11/dtype/union/{pair}/{cls}/{}", vclass(x)), format!("super_union({a}, {b}) = {u} does not contain {x}, a value of operand {who}"));
                }
            }
            let (in_a, in_b) = (mem(&a, x), mem(&b, x));
            if in_a && in_b {
                o.tag("in-both");
                if let Ok(Ok(n)) = &int {
                    nontrivial = true;
                    if !mem(n, x) {
                        o.fail(&format!("C11/dtype/intersection/{pair}/{cls}/{}", vclass(x)), format!("super_intersection({a}, {b}) = {n} does not contain {x}, which is in both"));
                    }
                }
            }
        }
        if !nontrivial { o.tag("trivial"); }
        let show = |r: &Result<qrlew::data_type::Result<DataType>, (String, String)>| match r { Ok(Ok(t)) => format!("{t}"), Ok(Err(e)) => format!("Err({e})"), Err(_) => "panic".into() };
        (json!({"sub": sub.clone().ok(), "union": show(&uni), "inter": show(&int)}), o)
    });
    match r {
        Ok((info, o)) => { out.oracle = o.oracle; out.tags = o.tags; out.imp = J::Null; let _ = info; }
        Err((loc, msg)) => { out.fail(&format!("C18/dtype/build/panic/{}", site(&loc, &msg)), format!("panic at {loc}: {msg}")); out.tag("trivial"); }
    }
    out
}

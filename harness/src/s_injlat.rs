//! stream `injlat`: conversions between composite types of the fragment of `dtlat` (integer interval sets, nullable integers,
//! two-field structs, sized lists): `inject_into`, the converted type (`into_data_type`) and the converted values of the real
//! code against the Lean model `Qrlew.InjLat` (the functions `Props/C12Lat.lean` is about).
use crate::common::*;
use crate::s_dtlat::{gen_pair, to_j, ty_of, val_of};
use qrlew::data_type::{injection::{InjectInto as _, Injection as _}, value::Value, DataType, Variant as _};
use serde_json::{json, Value as J};

pub fn gen(rng: &mut Rng, _k: usize, _tier: &str) -> J {
    let (a, b, v, w) = gen_pair(rng);
    // two values of the source type
    json!({"a": a, "b": b, "v1": v, "v2": w})
}

pub fn val_to_j(v: &Value) -> J {
    match v {
        Value::Integer(i) => json!(["i", **i]),
        Value::Optional(o) => match o.as_ref() { None => json!(["none"]), Some(x) => json!(["some", val_to_j(x)]) },
        Value::Struct(s) if s.fields().len() == 2 => json!(["pair", val_to_j(&s.fields()[0].1), val_to_j(&s.fields()[1].1)]),
        Value::List(l) => json!(["list", l.iter().map(val_to_j).collect::<Vec<_>>()]),
        other => json!(["other", other.to_string()]),
    }
}

pub fn eval(case: &J) -> Outcome {
    let mut out = Outcome::new();
    let (a, b) = (ty_of(&case["a"]), ty_of(&case["b"]));
    let inj = match guarded(|| a.inject_into(&b)) {
        Ok(Ok(i)) => i,
        Ok(Err(_)) => { out.imp = json!({"accepted": false}); out.tag("no-injection"); return out; }
        Err((loc, msg)) => { out.tag("trivial"); out.fail(&format!("C18/injlat/inject_into-panic/{}", site(&loc, &msg)), format!("inject_into({a}, {b}) panicked: {msg}")); return out; } };
    // the conversion exists when the type converts (`inject_into` itself is lazy)
    let img = guarded(|| a.into_data_type(&b));
    let imgj = match &img { Ok(Ok(t)) => to_j(t), Ok(Err(_)) => { out.imp = json!({"accepted": false}); out.tag("no-injection"); return out; }
        Err((loc, msg)) => { out.tag("trivial"); out.fail(&format!("C18/injlat/into_data_type-panic/{}", site(loc, msg)), format!("into_data_type({a}, {b}) panicked: {msg}")); return out; } };
    let mut conv = vec![];
    let mut images: Vec<(Value, Value)> = vec![];
    for k in ["v1", "v2"] {
        if case[k].is_null() { conv.push(J::Null); continue; }
        let v = val_of(&case[k]);
        if !crate::s_dtype::mem(&a, &v) { conv.push(J::Null); continue; }
        match guarded(|| inj.value(&v)) {
            Ok(Ok(w)) => { conv.push(val_to_j(&w));
                // property-level oracles (C12): the image lies in the converted type; two values do not collide
                if let Ok(Ok(t)) = &img { if !crate::s_dtype::mem(t, &w) { out.fail("C12/injlat/image-not-in-converted-type", format!("{v} of {a} converts to {w}, outside the converted type {t}")); } }
                // round trip (C12): where the reverse conversion exists and accepts the converted value, it returns the original
                if let Ok(Ok(back)) = guarded(|| b.inject_into(&a)) { if let Ok(Ok(true)) = guarded(|| b.into_data_type(&a).map(|_| true)) {
                    if let Ok(Ok(v2)) = guarded(|| back.value(&w)) { out.tag("round-trip"); if v2 != v { out.fail("C12/injlat/round-trip", format!("{v} of {a} converts to {w} in {b}, and converting back gives {v2}")); } } } }
                images.push((v, w)); }
            Ok(Err(e)) => { conv.push(json!("refused")); out.fail("C12/injlat/not-total", format!("{a} converts into the variant of {b}, but its member {v} is refused: {e}")); }
            Err((loc, msg)) => { conv.push(json!("panic")); out.fail(&format!("C18/injlat/value-panic/{}", site(&loc, &msg)), format!("converting {v} from {a} into {b} panicked: {msg}")); }
        }
    }
    if images.len() == 2 && images[0].0 != images[1].0 && images[0].1 == images[1].1 { out.fail("C12/injlat/not-injective", format!("two different values {} and {} of {a} both convert to {}", images[0].0, images[1].0, images[0].1)); }
    out.imp = json!({"accepted": true, "image": imgj, "conv": conv});
    out
}

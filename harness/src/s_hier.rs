//! Streams for C15: `hier` (Hierarchy lookups vs Lean model + naive characterisation oracle) and
//! `scope` (SQL-level: ambiguous unqualified column references must be refused).
use crate::common::*;
use qrlew::{builder::Ready, data_type::DataTyped, hierarchy::Hierarchy, relation::{Relation, Variant as _}, sql::{parse, relation::QueryWithRelations}, DataType, data_type::Variant as _};
use serde_json::{json, Value as J};
use std::sync::Arc;

const COMP: [&str; 5] = ["a", "b", "c", "t", "s"];

fn gen_path(rng: &mut Rng, maxlen: u64) -> Vec<String> {
    let n = rng.below(maxlen + 1);
    (0..n).map(|_| rng.pick(&COMP).to_string()).collect()
}

pub fn gen_hier(rng: &mut Rng, _k: usize, _tier: &str) -> J {
    let n = rng.below(9);
    let mut keys: Vec<Vec<String>> = vec![];
    for _ in 0..n {
        // derive some keys from existing ones so that suffixes are shared / nested
        let p = if !keys.is_empty() && rng.chance(1, 2) {
            let base = rng.pick(&keys).clone();
            match rng.below(3) { 0 => { let mut q = vec![rng.pick(&COMP).to_string()]; q.extend(base); q } 1 => base[base.len().min(1)..].to_vec(), _ => { let mut q = base.clone(); if !q.is_empty() { q[0] = rng.pick(&COMP).to_string(); } q } }
        } else { gen_path(rng, 3) };
        if !keys.contains(&p) { keys.push(p); }
    }
    let entries: Vec<J> = keys.iter().enumerate().map(|(i, k)| json!([k, i])).collect();
    let mut lookups: Vec<Vec<String>> = vec![];
    for _ in 0..6 {
        let p = if !keys.is_empty() && rng.chance(2, 3) {
            let base = rng.pick(&keys).clone();
            match rng.below(4) { 0 => base, 1 => base[base.len().saturating_sub(1)..].to_vec(), 2 => base[base.len().min(1)..].to_vec(), _ => { let mut q = vec![rng.pick(&COMP).to_string()]; q.extend(base); q } }
        } else { gen_path(rng, 3) };
        lookups.push(p);
    }
    json!({"entries": entries, "lookups": lookups})
}

/// stream `hierops`: a map built from bindings, then a sequence of `extend` / `with` / `prepend` / `filter`, then lookups
pub fn gen_hierops(rng: &mut Rng, k: usize, tier: &str) -> J {
    let mut case = gen_hier(rng, k, tier);
    let keys: Vec<Vec<String>> = case["entries"].as_array().unwrap().iter().map(|e| spath(&e[0])).collect();
    let mut ops: Vec<J> = vec![];
    for oi in 0..rng.below(4) {
        match rng.below(6) {
            0 => ops.push(json!(["prepend", gen_path(rng, 2)])),
            1 => ops.push(json!(["filter", if !keys.is_empty() && rng.chance(1, 2) { let b = rng.pick(&keys).clone(); b[..b.len().min(1)].to_vec() } else { gen_path(rng, 2) }])),
            _ => {
                // new bindings: same path as an existing key (shadowing), a suffix of one, a longer path ending in one, or a fresh path; repeated names allowed
                let n = 1 + rng.below(3);
                let bs: Vec<J> = (0..n).map(|i| { let p = if !keys.is_empty() && rng.chance(3, 4) { let b = rng.pick(&keys).clone(); match rng.below(4) { 0 | 1 => b, 2 => b[b.len().min(1)..].to_vec(), _ => { let mut q = vec![rng.pick(&COMP).to_string()]; q.extend(b); q } } } else { gen_path(rng, 3) };
                    json!([p, 100 + 10 * oi + i]) }).collect();
                ops.push(json!([if rng.chance(1, 2) { "extend" } else { "with" }, bs]));
            }
        }
    }
    case["ops"] = J::Array(ops);
    case
}

pub fn eval_hierops(case: &J) -> Outcome {
    use qrlew::builder::With;
    let mut out = Outcome::new();
    let bind = |j: &J| -> Vec<(Vec<String>, i64)> { j.as_array().unwrap().iter().map(|e| (spath(&e[0]), e[1].as_i64().unwrap())).collect() };
    let mut h: Hierarchy<i64> = bind(&case["entries"]).into_iter().collect();
    let mut shadow: Vec<(Vec<String>, i64)> = vec![];   // what the last extension bound, later bindings of the same name winning
    for op in case["ops"].as_array().unwrap() {
        match op[0].as_str().unwrap() {
            "extend" => { let b = bind(&op[1]); h.extend(b.clone()); shadow = b; out.tag("extend"); }
            "with" => { let b = bind(&op[1]); h = h.with(b.clone()); shadow = b; out.tag("with"); }
            "prepend" => { h = h.prepend(&spath(&op[1])); shadow.clear(); out.tag("prepend"); }
            _ => { h = h.filter(&spath(&op[1])); shadow.clear(); out.tag("filter"); }
        }
    }
    // property-level oracle: a name bound by the last extension denotes that binding, whatever else the map holds
    for (i, (p, v)) in shadow.iter().enumerate() {
        if shadow[i + 1..].iter().any(|(q, _)| q == p) { continue; }
        let got = h.get_key_value(p).map(|(k, v)| (k.to_vec(), *v));
        if got != Some((p.clone(), *v)) { out.fail("C15/hierops/shadowed-binding-lost", format!("after extending with {:?} the name {:?} denotes {:?}", shadow, p, got)); }
    }
    let mut res = vec![];
    for l in case["lookups"].as_array().unwrap() {
        let p = spath(l);
        res.push(match h.get_key_value(&p).map(|(k, v)| (k.to_vec(), *v)) { Some((k, v)) => json!([k, v]), None => J::Null });
    }
    if case["ops"].as_array().unwrap().is_empty() { out.tag("trivial"); }
    out.imp = json!({"size": h.len(), "res": res});
    out
}

fn spath(j: &J) -> Vec<String> { j.as_array().unwrap().iter().map(|s| s.as_str().unwrap().to_string()).collect() }

pub fn eval_hier(case: &J) -> Outcome {
    let mut out = Outcome::new();
    let entries: Vec<(Vec<String>, i64)> = case["entries"].as_array().unwrap().iter().map(|e| (spath(&e[0]), e[1].as_i64().unwrap())).collect();
    let h: Hierarchy<i64> = entries.iter().cloned().collect();
    let mut res = vec![];
    let mut kinds = (0, 0, 0);
    for l in case["lookups"].as_array().unwrap() {
        let p = spath(l);
        let got = h.get_key_value(&p).map(|(k, v)| (k.to_vec(), *v));
        // naive characterisation (independent of the Lean model)
        let compat = |k: &Vec<String>| { let n = p.len().min(k.len()); p[p.len() - n..] == k[k.len() - n..] };
        let exact: Vec<&(Vec<String>, i64)> = entries.iter().filter(|(k, _)| *k == p).collect();
        let cands: Vec<&(Vec<String>, i64)> = entries.iter().filter(|(k, _)| compat(k)).collect();
        let want = if let Some(e) = exact.first() { kinds.0 += 1; Some((*e).clone()) } else if cands.len() == 1 { kinds.1 += 1; Some(cands[0].clone()) } else { if cands.len() > 1 { kinds.2 += 1; } None };
        if got != want {
            out.fail("C15/hier/lookup", format!("lookup of {:?} in {:?} returned {:?}, expected {:?} (exact match, else the unique entry agreeing on all shared trailing components, else nothing)", p, entries, got, want));
        }
        res.push(match got { Some((k, v)) => json!([k, v]), None => J::Null });
    }
    if kinds.0 > 0 { out.tag("exact"); } if kinds.1 > 0 { out.tag("unique-suffix"); } if kinds.2 > 0 { out.tag("ambiguous"); }
    if entries.len() < 2 { out.tag("trivial"); }
    out.imp = json!(res);
    out
}

// ------------------------------------------------------------------------------------------------
// scope

/// world: table i has columns with distinct value ranges so that the bound column can be read off the output type
/// the last two are registered under two-component paths that end in the same table name
const TABLES: [(&str, [&str; 3]); 5] = [("t1", ["a", "b", "c"]), ("t2", ["a", "b", "d"]), ("t3", ["a", "e", "c"]), ("sa.tt", ["a", "b", "f"]), ("sb.tt", ["a", "g", "c"])];

fn col_range(ti: usize, ci: usize) -> (i64, i64) { let lo = 1000 * (ti as i64 + 1) + 100 * ci as i64; (lo, lo + 50) }

pub fn world() -> Hierarchy<Arc<Relation>> {
    let mut h: Vec<(Vec<String>, Arc<Relation>)> = vec![];
    for (ti, (name, cols)) in TABLES.iter().enumerate() {
        let schema: qrlew::relation::Schema = cols.iter().enumerate().map(|(ci, c)| { let (lo, hi) = col_range(ti, ci); (*c, DataType::integer_interval(lo, hi)) }).collect();
        let path: Vec<String> = name.split('.').map(|x| x.to_string()).collect();
        let t: Relation = Relation::table().name(name.replace('.', "_")).path(path.clone()).schema(schema).size(100).build();
        h.push((path, Arc::new(t)));
    }
    h.into_iter().collect()
}

/// a CTE named like the last component of a schema-qualified table: `FROM sa.tt` designates the table (exact path),
/// `FROM tt` the CTE
/// a CTE named exactly like a registered table shadows it: the reference denotes the CTE's column, never the table's
fn gen_scope_cte_shadow(rng: &mut Rng) -> J {
    let tj = rng.below(3) as usize;                         // the table whose name the CTE takes
    // the CTE reads another table — or, one time in five, the very table whose name it takes (in a non-recursive WITH the body still sees the table)
    let ti = if rng.chance(1, 5) { tj } else { (tj + 1 + rng.below(2) as usize) % 3 };
    let ci2 = rng.below(3) as usize; let c2 = TABLES[ti].1[ci2];
    let ci = rng.below(3) as usize; let col = TABLES[tj].1[ci];   // the CTE's column carries the name of a column of the shadowed table
    let name = TABLES[tj].0;
    let sql = match rng.below(3) {
        0 => format!("WITH {name} AS (SELECT {c2} AS {col} FROM {}) SELECT {col} AS r FROM {name}", TABLES[ti].0),
        1 => format!("WITH {name} AS (SELECT {c2} AS {col} FROM {}) SELECT {name}.{col} AS r FROM {name}", TABLES[ti].0),
        _ => format!("WITH {name} AS (SELECT {c2} AS {col} FROM {}) SELECT r FROM (SELECT {col} AS r FROM {name}) AS q", TABLES[ti].0),
    };
    let (lo, hi) = col_range(ti, ci2);
    json!({"sql": sql, "expect": "ok", "place": "select", "range": [lo, hi], "ref": col})
}

fn gen_scope_cte(rng: &mut Rng) -> J {
    if rng.chance(1, 3) { return gen_scope_cte_shadow(rng); }
    let qi = 3 + rng.below(2) as usize;                     // sa.tt or sb.tt
    let ci = rng.below(3) as usize; let col = TABLES[qi].1[ci];
    let ti = rng.below(3) as usize; let ci2 = rng.below(3) as usize; let c2 = TABLES[ti].1[ci2];
    let qualified = rng.chance(2, 3);
    let from = if qualified { TABLES[qi].0.to_string() } else { "tt".to_string() };
    let sql = format!("WITH tt AS (SELECT {c2} AS {col} FROM {}) SELECT {col} AS r FROM {from}", TABLES[ti].0);
    let (lo, hi) = if qualified { col_range(qi, ci) } else { col_range(ti, ci2) };
    json!({"sql": sql, "expect": "ok", "place": "select", "range": [lo, hi], "ref": col})
}

pub fn gen_scope(rng: &mut Rng, _k: usize, _tier: &str) -> J {
    if rng.chance(1, 12) { return gen_scope_cte(rng); }
    // FROM: 2 or 3 tables (possibly the same table twice under aliases)
    let n = 2 + rng.below(2) as usize;
    let mut items: Vec<(usize, String)> = vec![]; // (table index, alias)
    let qualified_world = rng.chance(1, 4);   // schema-qualified tables take part in a quarter of the cases
    for i in 0..n { let ti = if qualified_world { rng.below(5) as usize } else { rng.below(3) as usize }; let alias = if rng.chance(1, 2) { format!("x{i}") } else { TABLES[ti].0.to_string() }; if items.iter().any(|(_, a)| *a == alias) { items.push((ti, format!("y{i}"))); } else { items.push((ti, alias)); } }
    let mut from = format!("{}{}", TABLES[items[0].0].0, if items[0].1 != TABLES[items[0].0].0 { format!(" AS {}", items[0].1) } else { String::new() });
    // visible columns so far: name -> list of (alias, table, col) still distinguishable; merged = names merged by USING/NATURAL
    let mut merged: Vec<String> = vec![];
    for i in 1..n {
        let (ti, alias) = (items[i].0, items[i].1.clone());
        let tname = TABLES[ti].0;
        let aliased = if alias != tname { format!("{tname} AS {alias}") } else { tname.to_string() };
        let jt = *rng.pick(&["JOIN", "INNER JOIN", "LEFT JOIN", "RIGHT JOIN", "FULL JOIN"]);
        // common columns between previous item and this one
        let (pti, palias) = (items[i - 1].0, items[i - 1].1.clone());
        let common: Vec<&str> = TABLES[pti].1.iter().filter(|c| TABLES[ti].1.contains(c)).cloned().collect();
        let mode = if i == 1 { rng.below(3) } else { 0 }; // USING / NATURAL only on the first join (keeps the expected-answer logic simple)
        match mode {
            1 if !common.is_empty() => { let c = *rng.pick(&common); from = format!("{from} {jt} {aliased} USING ({c})"); merged.push(c.to_string()); }
            2 if !common.is_empty() => { from = format!("{from} NATURAL {jt} {aliased}"); for c in &common { merged.push(c.to_string()); } }
            _ => { let c = if common.is_empty() { "a" } else { *rng.pick(&common) }; from = format!("{from} {jt} {aliased} ON {palias}.{c} = {alias}.{c}"); }
        }
    }
    // the reference under test
    let (ri, _) = (rng.below(n as u64) as usize, ());
    let (rti, ralias) = (items[ri].0, items[ri].1.clone());
    let rci = rng.below(3) as usize;
    let rcol = TABLES[rti].1[rci];
    let qualified = rng.chance(1, 3);
    // `partial`: a schema-qualified, unaliased table referred to by its last component only (`tt.a` for `sa.tt`)
    let partial = qualified && ralias.contains('.') && rng.chance(1, 2);
    // an unquoted name is case-insensitive: `A` is `a` (one unqualified reference in four is written in upper case, with the same expected outcome)
    let reference = if partial { format!("{}.{rcol}", ralias.rsplit('.').next().unwrap()) } else if qualified { format!("{ralias}.{rcol}") } else if rng.chance(1, 4) { rcol.to_uppercase() } else { rcol.to_string() };
    let same_last = items.iter().filter(|(_, a)| a.rsplit('.').next() == ralias.rsplit('.').next()).count();
    let holders: Vec<usize> = (0..n).filter(|i| TABLES[items[*i].0].1.contains(&rcol)).collect();
    // `wildcard`: the reference is made from outside, through `SELECT *` over the join (always unqualified)
    let place = *rng.pick(&["select", "where", "group", "order", "wildcard", "wildcard"]);
    let (qualified, reference) = if place == "wildcard" { (false, rcol.to_string()) } else { (qualified, reference) };
    let sql = match place {
        "wildcard" => format!("SELECT {reference} AS r FROM (SELECT * FROM {from}) AS s"),
        "select" => format!("SELECT {reference} AS r FROM {from}"),
        "where" => format!("SELECT count(*) AS r FROM {from} WHERE {reference} > 0"),
        "group" => format!("SELECT count(*) AS r FROM {from} GROUP BY {reference}"),
        _ => format!("SELECT {}.{} AS r FROM {from} ORDER BY {reference}", items[0].1, TABLES[items[0].0].1[0]),
    };
    let is_merged = merged.contains(&rcol.to_string());
    // expected: ambiguous iff unqualified, held by >1 FROM items, and not a USING/NATURAL column of *all* holders
    let expect = if qualified && partial && same_last > 1 && is_merged { "any" } else if qualified && partial && same_last > 1 && place != "wildcard" { if holders.iter().filter(|h| items[**h].1.rsplit('.').next() == ralias.rsplit('.').next()).count() > 1 { "err" } else { "ok" } }
        else if qualified { if is_merged { "any" } else { "ok" } } else if holders.len() <= 1 { "ok" } else if is_merged && holders.iter().all(|h| *h <= 1) { "ok-merged" } else { "err" };
    let (lo, hi) = col_range(rti, rci);
    json!({"sql": sql, "expect": expect, "place": place, "range": [lo, hi], "ref": reference})
}

pub fn eval_scope(case: &J) -> Outcome {
    let mut out = Outcome::new();
    let sql = case["sql"].as_str().unwrap();
    let expect = case["expect"].as_str().unwrap();
    out.tag(&format!("expect={expect}")); out.tag(&format!("place={}", case["place"].as_str().unwrap()));
    let rels = world();
    let r = guarded(|| { let q = parse(sql).map_err(|e| e.to_string())?; Relation::try_from(QueryWithRelations::new(&q, &rels)).map_err(|e| e.to_string()) });
    match r {
        Err((loc, msg)) => { out.tag("panic"); out.imp = json!("panic"); out.fail(&format!("C18/scope/panic/{}", site(&loc, &msg)), format!("{sql}: panic at {loc}: {msg}")); }
        Ok(Err(e)) => { out.imp = json!("err"); if expect == "ok" || expect == "ok-merged" { out.tag("refused-unambiguous"); let _ = e; } }
        Ok(Ok(rel)) => {
            out.imp = json!("ok");
            if expect == "err" && case["place"] == "order" { out.tag("order-by-unresolved-accepted"); }
            else if expect == "err" {
                let t = rel.schema().field("r").map(|f| f.data_type().to_string()).unwrap_or_default();
                out.fail(&format!("C15/scope/ambiguous-bound/{}", case["place"].as_str().unwrap()), format!("`{sql}`: the unqualified reference `{}` is present in several FROM items and is not a USING/NATURAL column, yet the query was accepted (output r: {t})", case["ref"].as_str().unwrap()));
            } else if expect == "ok" && case["place"] == "select" {
                let (lo, hi) = (case["range"][0].as_i64().unwrap(), case["range"][1].as_i64().unwrap());
                if let Ok(f) = rel.schema().field("r") {
                    let mut t = f.data_type();
                    if let DataType::Optional(o) = &t { t = o.data_type().clone(); }
                    if !t.is_subset_of(&DataType::integer_interval(lo, hi)) {
                        out.fail("C15/scope/wrong-binding", format!("`{sql}`: reference `{}` must bind to the column with range [{lo},{hi}] but the output type is {t}", case["ref"].as_str().unwrap()));
                    }
                }
            }
        }
    }
    out
}

//! Streams for C03 (and reused by C01/C04/C09): `dpevent` (DpEvent::compose / is_no_op vs the Lean model)
//! and `dpquery` (DP rewriting of generated aggregation queries: σ, C, τ literals and the returned event).
use crate::common::*;
use crate::ir;
use crate::s_rules::{privacy_unit, world};
use qrlew::{
    differential_privacy::{dp_event::{self, DpEvent}, DpParameters},
    relation::Relation,
    sql::{parse, relation::QueryWithRelations},
};
use serde_json::{json, Value as J};

// ------------------------------------------------------------------------------------------------
// dpevent

fn gen_event(rng: &mut Rng, depth: u32) -> J {
    match rng.below(if depth == 0 { 6 } else { 8 }) {
        0 => json!(["noop"]),
        1 | 2 => json!(["gauss", rng.range(0, 3)]),
        3 | 4 => json!(["ed", rng.range(0, 2), rng.range(0, 2)]),
        5 => json!(["gauss", 0]),
        _ => { let n = rng.below(4); json!(["comp", (0..n).map(|_| gen_event(rng, depth - 1)).collect::<Vec<_>>()]) }
    }
}

pub fn gen_event_case(rng: &mut Rng, _k: usize, _tier: &str) -> J {
    let n = 1 + rng.below(6);
    json!({"events": (0..n).map(|_| gen_event(rng, 2)).collect::<Vec<_>>()})
}

fn ev_of(j: &J) -> DpEvent {
    match j[0].as_str().unwrap() {
        "noop" => DpEvent::no_op(),
        "gauss" => DpEvent::gaussian(j[1].as_i64().unwrap() as f64),
        "ed" => DpEvent::epsilon_delta(j[1].as_i64().unwrap() as f64, j[2].as_i64().unwrap() as f64),
        _ => DpEvent::Composed { events: j[1].as_array().unwrap().iter().map(ev_of).collect() },
    }
}
fn ev_json(e: &DpEvent) -> J {
    match e {
        DpEvent::NoOp => json!(["noop"]),
        DpEvent::Gaussian { noise_multiplier } => json!(["gauss", *noise_multiplier as i64]),
        DpEvent::EpsilonDelta { epsilon, delta } => json!(["ed", *epsilon as i64, *delta as i64]),
        DpEvent::Composed { events } => json!(["comp", events.iter().map(ev_json).collect::<Vec<_>>()]),
        _ => json!(["other"]),
    }
}
/// elementary non-no-op mechanisms, in order
pub fn leaves(e: &DpEvent, out: &mut Vec<DpEvent>) {
    match e {
        DpEvent::Composed { events } => for x in events { leaves(x, out) },
        DpEvent::NoOp => {}
        other => out.push(other.clone()),
    }
}

pub fn eval_event_case(case: &J) -> Outcome {
    let mut out = Outcome::new();
    let evs: Vec<DpEvent> = case["events"].as_array().unwrap().iter().map(ev_of).collect();
    let r = guarded(|| {
        let collected: DpEvent = evs.clone().into_iter().collect();
        let noop: Vec<bool> = evs.iter().map(|e| e.is_no_op()).collect();
        let pair = if evs.len() >= 2 { Some(evs[0].clone().compose(evs[1].clone())) } else { None };
        (collected, noop, pair)
    });
    match r {
        Ok((collected, noop, pair)) => {
            // oracle: composition never drops a mechanism that is not a no-op (no-op = zero multiplier / zero budget)
            let mut want = vec![];
            for e in &evs { let mut l = vec![]; leaves(e, &mut l); want.extend(l.into_iter().filter(|x| !x.is_no_op())); }
            let mut got = vec![]; leaves(&collected, &mut got); let got: Vec<DpEvent> = got.into_iter().filter(|x| !x.is_no_op()).collect();
            if want != got { out.fail("C03/dpevent/compose-drops-mechanism", format!("composing {:?} gives {:?}: recorded mechanisms {:?} differ from the applied ones {:?}", evs, collected, got, want)); }
            if want.len() >= 2 { out.tag("multi"); } else { out.tag("trivial"); }
            out.imp = json!({"collected": ev_json(&collected), "noop": noop, "pair": pair.as_ref().map(ev_json)});
        }
        Err((loc, msg)) => { out.imp = json!("panic"); out.fail(&format!("C18/dpevent/panic/{}", site(&loc, &msg)), msg); }
    }
    out
}

// ------------------------------------------------------------------------------------------------
// dpquery

pub const AGGS: [&str; 10] = ["sum(income)", "avg(age)", "count(age)", "count(*)", "variance(income)", "stddev(age)", "sum(DISTINCT age)", "count(DISTINCT city)", "avg(DISTINCT income)", "sum(age)"];
pub const OAGGS: [&str; 6] = ["sum(amount)", "avg(qty)", "count(qty)", "count(*)", "sum(DISTINCT qty)", "avg(amount)"];

pub fn gen_query(rng: &mut Rng, k: usize, _tier: &str) -> J {
    let from_orders = rng.chance(1, 3);
    let joined = !from_orders && rng.chance(1, 5);
    let pool: &[&str] = if from_orders { &OAGGS } else { &AGGS };
    let n = 1 + rng.below(4) as usize;
    let mut aggs: Vec<String> = vec![];
    let mut raw_aggs: Vec<String> = vec![];
    for i in 0..n { let a = rng.pick(pool).to_string(); raw_aggs.push(a.clone()); aggs.push(format!("{a} AS a{i}")); }
    // grouping: none / public-valued key / private-valued key (tau-thresholding) / both
    let (keys, from): (Vec<&str>, String) = if from_orders {
        (match rng.below(4) { 0 => vec![], 1 => vec!["qty"], 2 => vec!["amount"], _ => vec!["qty", "amount"] }, "orders".to_string())
    } else if joined {
        aggs = aggs.iter().map(|a| a.replace("income", "users.income").replace("(age", "(users.age").replace("DISTINCT age", "DISTINCT users.age").replace("city", "users.city")).collect();
        (match rng.below(3) { 0 => vec![], 1 => vec!["users.city"], _ => vec!["orders.amount"] }, "users JOIN orders ON users.id = orders.user_id".to_string())
    } else {
        (match rng.below(6) { 0 => vec![], 1 => vec!["city"], 2 => vec!["income"], 3 => vec!["age"], 4 => vec!["city", "seg"], _ => vec!["city", "income"] }, "users".to_string())
    };
    let where_ = if rng.chance(1, 4) { if from_orders { " WHERE qty > 2" } else if joined { " WHERE users.age > 30" } else { " WHERE age > 30" } } else { "" };
    let sel_keys: Vec<String> = keys.iter().enumerate().map(|(i, c)| format!("{c} AS k{i}")).collect();
    let mut items = sel_keys.clone(); items.extend(aggs);
    let mut sql = format!("SELECT {} FROM {from}{where_}{}", items.join(", "), if keys.is_empty() { String::new() } else { format!(" GROUP BY {}", keys.join(", ")) });
    // every sixth case: a DP sub-query joined back to a protected table and aggregated again (two aggregations, one event)
    if k % 6 == 5 {
        sql = match rng.below(4) {
            0 => "WITH stats AS (SELECT avg(income) AS m FROM users) SELECT sum(income - m) AS a0 FROM users CROSS JOIN stats".to_string(),
            1 => "WITH s AS (SELECT city AS c, avg(income) AS m FROM users GROUP BY city) SELECT sum(users.income - s.m) AS a0, count(users.id) AS a1 FROM users JOIN s ON users.city = s.c".to_string(),
            2 => "WITH s AS (SELECT count(id) AS n FROM users) SELECT sum(amount) AS a0, count(orders.id) AS a1 FROM orders CROSS JOIN s".to_string(),
            _ => "SELECT sum(x) AS a0 FROM (SELECT users.income - t.m AS x FROM users CROSS JOIN (SELECT avg(age) AS m FROM users) AS t) AS q".to_string(),
        };
        raw_aggs = vec![];
    }
    let eps = *rng.pick(&[0.1, 0.5, 1.0, 2.0, 10.0]);
    let delta = *rng.pick(&[1e-3, 1e-5, 1e-8, 0.05]);
    let share = *rng.pick(&[0.5, 0.25, 0.75, 0.5, 0.1]);
    // the assumed multiplicity min(max, size × share) is not always a whole number
    let mult = *rng.pick(&[100.0, 1.0, 5.0, 1000.0, 2.5]);
    let mshare = *rng.pick(&[0.1, 0.01, 1.0, 0.013]);
    let groups = *rng.pick(&[5u64, 1, 2, 20]);
    let _ = k;
    json!({"sql": sql, "aggs": raw_aggs, "eps": eps, "delta": delta, "share": share, "mult": mult, "mult_share": mshare, "groups": groups})
}

pub fn params_of(case: &J) -> DpParameters {
    DpParameters::new(case["eps"].as_f64().unwrap(), case["delta"].as_f64().unwrap(), case["share"].as_f64().unwrap(),
                      case["mult"].as_f64().unwrap(), case["mult_share"].as_f64().unwrap(), case["groups"].as_u64().unwrap())
}

pub fn eval_query(case: &J) -> Outcome {
    let mut out = Outcome::new();
    let sql = case["sql"].as_str().unwrap();
    let rels = world();
    let p = params_of(case);
    let (eps, delta, share, k) = (p.epsilon, p.delta, p.tau_thresholding_share, p.max_privacy_unit_groups as f64);
    let relation = match guarded(|| { let q = parse(sql).map_err(|e| e.to_string())?; Relation::try_from(QueryWithRelations::new(&q, &rels)).map_err(|e| e.to_string()) }) {
        Ok(Ok(r)) => r,
        Ok(Err(_)) => { out.tag("trivial"); out.tag("parse-err"); return out; }
        Err((loc, msg)) => { out.tag("trivial"); out.fail(&format!("C18/dpquery/parse-panic/{}", site(&loc, &msg)), format!("{sql}: {msg}")); return out; }
    };
    let res = guarded(|| relation.rewrite_with_differential_privacy(&rels, None, privacy_unit(), p.clone()));
    let rw = match res {
        Ok(Ok(r)) => r,
        Ok(Err(e)) => { out.tag("trivial"); out.tag("dp-err"); out.imp = json!({"err": e.to_string().len() > 0}); return out; }
        Err((loc, msg)) => { out.tag("trivial"); out.fail(&format!("C18/dpquery/rewrite-panic/{}", site(&loc, &msg)), format!("{sql} with {:?}: {msg}", p)); return out; }
    };
    let facts = ir::facts(rw.relation());
    let pairs = ir::sigma_clip_pairs(rw.relation());
    let mut lv = vec![]; leaves(rw.dp_event(), &mut lv);
    let gauss: Vec<f64> = lv.iter().filter_map(|e| if let DpEvent::Gaussian { noise_multiplier } = e { Some(*noise_multiplier) } else { None }).collect();
    let eds: Vec<(f64, f64)> = lv.iter().filter_map(|e| if let DpEvent::EpsilonDelta { epsilon, delta } = e { Some((*epsilon, *delta)) } else { None }).collect();
    out.tag(&format!("sites={}", pairs.len().min(6))); out.tag(&format!("tau-sites={}", facts.taus.len().min(3)));
    if pairs.len() < 2 && facts.taus.is_empty() { out.tag("trivial"); }
    // ---- oracle 1: every noised aggregate column is matched by a recorded Gaussian whose multiplier is <= σ/C
    let mut ratios: Vec<f64> = vec![];
    let mut unmatched = 0;
    for (name, s, c) in &pairs {
        match c { Some(c) if *c > 0.0 && *s > 0.0 => ratios.push(s / c), Some(_) => {}, None => { unmatched += 1; let _ = name; } }
    }
    if unmatched > 0 { out.tag("unmatched-site"); }
    let mut g = gauss.clone(); g.sort_by(|a, b| a.partial_cmp(b).unwrap()); ratios.sort_by(|a, b| a.partial_cmp(b).unwrap());
    if unmatched == 0 {
        if g.len() < ratios.len() {
            out.fail("C03/dpquery/mechanism-not-recorded", format!("{sql} with {:?}: {} noised columns with σ>0 but only {} Gaussian entries in the returned event", p, ratios.len(), g.len()));
        } else {
            // pair the smallest ratios with the smallest recorded multipliers
            for (i, r) in ratios.iter().enumerate() {
                if g[i] > r * (1.0 + 1e-9) { out.fail("C03/dpquery/multiplier-under-reported", format!("{sql} with {:?}: a noised column has σ/C = {r} but the event records noise multiplier {} (> σ/C: the loss is under-reported)", p, g[i])); break; }
            }
        }
    }
    // ---- oracle 2: threshold releases are recorded with at least the (ε, δ) they used
    let tau_used = !facts.taus.is_empty();
    if facts.taus.len() > eds.len() { out.fail("C03/dpquery/threshold-not-recorded", format!("{sql} with {:?}: {} threshold filters but {} EpsilonDelta entries in the event", p, facts.taus.len(), eds.len())); }
    let tau_noises: Vec<f64> = facts.noises.iter().filter(|(n, _, clamped)| n.contains("COUNT_DISTINCT") && !clamped).map(|(_, s, _)| *s).collect();
    for (i, (_, tau, _strict)) in facts.taus.iter().enumerate() {
        if let Some((e, d)) = eds.get(i) {
            // what a (e, d) threshold release requires at least
            let need_sigma = dp_event::gaussian_noise(*e, *d, k.sqrt());
            let need_tau = dp_event::gaussian_tau(*e, *d, k);
            if let Some(s) = tau_noises.get(i) { if *s < need_sigma * (1.0 - 1e-9) { out.fail("C03/dpquery/threshold-under-reported", format!("{sql} with {:?}: thresholding noise σ = {s} is smaller than what the recorded ({e}, {d}) requires ({need_sigma})", p)); } }
            if *tau < need_tau * (1.0 - 1e-9) { out.fail("C03/dpquery/threshold-under-reported", format!("{sql} with {:?}: threshold τ = {tau} is below the τ = {need_tau} required by the recorded ({e}, {d})", p)); }
        }
    }
    // ---- data for the model / oracle 3: per noise map, the (σ, C) of its sums
    let mut maps: Vec<Vec<(f64, f64)>> = vec![];
    // nearest noise map above each noise map (None: outermost aggregation); a DP sub-query nested under another one is a separate
    // aggregation with its own (ε, δ)
    let mut parents: Vec<Option<usize>> = vec![];
    {
        fn per_map(rel: &Relation, out: &mut Vec<Vec<(f64, f64)>>, parents: &mut Vec<Option<usize>>, anc: Option<usize>, seen: &mut Vec<*const Relation>) {
            let ptr = rel as *const Relation; if seen.contains(&ptr) { return; } seen.push(ptr);
            let mut anc = anc;
            if let Relation::Map(m) = rel {
                let mut v = vec![];
                for (n, e) in m.named_exprs() { if ir::has_random(e) && ir::is_clamped(e) { if let Some(s) = ir::noise_sigma(e) {
                    let f = ir::facts(rel);
                    let c = ir::noise_value_column(rel, n).and_then(|vn| f.clips.iter().find(|(cn, _)| *cn == vn).map(|(_, c)| *c));
                    v.push((s, c.unwrap_or(if s == 0.0 { 0.0 } else { -1.0 })));
                } } }
                if !v.is_empty() { out.push(v); parents.push(anc); anc = Some(out.len() - 1); }
            }
            for i in rel.inputs() { per_map(i, out, parents, anc, seen); }
        }
        per_map(rw.relation(), &mut maps, &mut parents, None, &mut vec![]);
    }
    let nested = parents.iter().any(|p| p.is_some());
    if nested { out.tag("nested-dp"); }
    // ---- oracle 3: basic composition within the (ε, δ) handed to the compiler: there must be a split of the aggregates' δ
    // over the noised sums such that the ε implied by each σ/C (classical calibration) sums to at most the aggregates' ε
    let (eps_t, delta_t) = if tau_used { eds.first().cloned().unwrap_or((eps * share, delta * share)) } else { (0.0, 0.0) };
    if !ratios.is_empty() && unmatched == 0 {
        // one budget per aggregation: the noise maps that share their nearest enclosing noise map
        let mut levels: Vec<Option<usize>> = parents.clone(); levels.sort(); levels.dedup();
        for level in levels {
            let live: Vec<Vec<f64>> = maps.iter().zip(parents.iter()).filter(|(_, p)| **p == level).map(|(m, _)| m.iter().filter(|(s, c)| *s > 0.0 && *c > 0.0).map(|(s, c)| s / c).collect::<Vec<f64>>()).filter(|m: &Vec<f64>| !m.is_empty()).collect();
            if live.is_empty() { continue; }
            // thresholding is charged to the outermost aggregation only when the query is not nested (which aggregation a threshold belongs to is not tracked)
            let (eps_t, delta_t) = if nested { (0.0, 0.0) } else { (eps_t, delta_t) };
            let d_agg = delta - delta_t;
            let implied = |alloc: &Vec<Vec<f64>>| -> f64 { live.iter().zip(alloc.iter()).map(|(m, a)| m.iter().zip(a.iter()).map(|(r, d)| (2.0 * (1.25 / d).ln()).sqrt() / r).sum::<f64>()).sum() };
            let n_all: usize = live.iter().map(|m| m.len()).sum();
            let even_sites: Vec<Vec<f64>> = live.iter().map(|m| m.iter().map(|_| d_agg / n_all as f64).collect()).collect();
            let even_maps: Vec<Vec<f64>> = live.iter().map(|m| m.iter().map(|_| d_agg / (live.len() * m.len()) as f64).collect()).collect();
            let best = implied(&even_sites).min(implied(&even_maps));
            if best + eps_t > eps * (1.0 + 1e-9) {
                out.fail("C03/dpquery/over-budget", format!("{sql} with {:?}: the noise applied by one aggregation implies at least ε = {best} (δ split evenly over sums, or over distinct-groups then sums) plus {eps_t} for thresholding, more than the ε = {eps} handed to the compiler", p));
            }
        }
    }
    let groups: Vec<J> = maps.iter().map(|m| json!(m.iter().map(|(s, c)| json!([s, c])).collect::<Vec<_>>())).collect();
    out.aux = json!({"eps": eps, "delta": delta, "share": share, "tau_used": tau_used, "groups": groups, "k": k,
                     "gauss": gauss, "eds": eds.iter().map(|(e, d)| json!([e, d])).collect::<Vec<_>>(),
                     "tau": facts.taus.iter().map(|t| t.1).collect::<Vec<_>>(), "tau_sigma": tau_noises});
    // the model's budget split counts the sums of each DP reduce; two aggregates sharing a sum (avg(x) and count(x) share _COUNT_x)
    // are noised once but budgeted twice by the code (conservative). Only queries without shared sums are compared with the model.
    let mut sums: Vec<String> = vec![];
    for a in case["aggs"].as_array().map(|v| v.clone()).unwrap_or_default() {
        let a = a.as_str().unwrap_or("").to_string();
        let distinct = a.contains("DISTINCT");
        let col = a.split('(').nth(1).unwrap_or("").trim_end_matches(')').replace("DISTINCT ", "");
        let kinds: &[&str] = if a.starts_with("avg") { &["C", "S"] } else if a.starts_with("variance") || a.starts_with("stddev") { &["C", "S", "Q"] } else if a.starts_with("count") { &["C"] } else { &["S"] };
        for k in kinds { sums.push(format!("{k}:{col}:{distinct}")); }
    }
    let mut dedup = sums.clone(); dedup.sort(); dedup.dedup();
    // the Lean budget model describes one aggregation: nested DP sub-queries are judged by the oracles above only
    if nested { out.imp = J::Null; }
    else if dedup.len() != sums.len() { out.tag("shared-sums"); out.imp = J::Null; }
    else { out.imp = json!({"sigma_ok": unmatched == 0, "event_ok": true, "tau_ok": true}); }
    out
}

/// the noise multipliers of the Gaussian leaves of an event
pub fn gaussians(ev: &DpEvent) -> Vec<f64> {
    let mut lv = vec![]; leaves(ev, &mut lv);
    lv.iter().filter_map(|e| if let DpEvent::Gaussian { noise_multiplier } = e { Some(*noise_multiplier) } else { None }).collect()
}

//! Reading facts off a (rewritten) relation IR: noise sites (σ literal of a Box–Muller term), clipping constants,
//! threshold filters, base tables.  Used by the C01/C03/C04 oracles; works on the Expr tree, not on its text.
use qrlew::{
    expr::{function::Function as F, Expr},
    relation::{Relation, Variant as _},
    data_type::value::Value,
};

pub fn val_f64(e: &Expr) -> Option<f64> {
    match e {
        Expr::Value(Value::Float(f)) => Some(**f),
        Expr::Value(Value::Integer(i)) => Some(**i as f64),
        _ => None,
    }
}

pub fn fun<'a>(e: &'a Expr) -> Option<(F, Vec<Expr>)> {
    match e { Expr::Function(f) => Some((f.function(), f.arguments())), _ => None }
}

pub fn has_random(e: &Expr) -> bool {
    match e {
        Expr::Function(f) => matches!(f.function(), F::Random(_)) || f.arguments().iter().any(has_random),
        Expr::Aggregate(_) => false,
        _ => false,
    }
}

/// σ of `x + σ * gaussian_noise()` anywhere inside `e`
pub fn noise_sigma(e: &Expr) -> Option<f64> {
    if let Some((f, args)) = fun(e) {
        if f == F::Multiply && args.len() == 2 {
            if let Some(s) = val_f64(&args[0]) { if has_random(&args[1]) { return Some(s); } }
        }
        for a in &args { if let Some(s) = noise_sigma(a) { return Some(s); } }
    }
    None
}

/// is the noisy value clamped by `least(max, greatest(min, ..))` (the clipped-noise form used for aggregates)?
pub fn is_clamped(e: &Expr) -> bool { matches!(fun(e), Some((F::Least, _))) }

/// C of `sqrt(col) / C` anywhere inside `e` (the L2-norm scaling factor `1 / greatest(1, norm / C)`)
pub fn clip_constant(e: &Expr) -> Option<f64> {
    if let Some((f, args)) = fun(e) {
        if f == F::Divide && args.len() == 2 {
            if let (Some((F::Sqrt, _)), Some(c)) = (fun(&args[0]), val_f64(&args[1])) { return Some(c); }
        }
        for a in &args { if let Some(c) = clip_constant(a) { return Some(c); } }
    }
    None
}

/// `col > τ` / `col >= τ` comparisons in a filter: (column, τ, strict)
pub fn thresholds(e: &Expr, out: &mut Vec<(String, f64, bool)>) {
    if let Some((f, args)) = fun(e) {
        if (f == F::Gt || f == F::GtEq) && args.len() == 2 {
            if let (Expr::Column(c), Some(t)) = (&args[0], val_f64(&args[1])) { out.push((c.last().map(|s| s.to_string()).unwrap_or_default(), t, f == F::Gt)); }
        }
        if (f == F::Lt || f == F::LtEq) && args.len() == 2 {
            if let (Some(t), Expr::Column(c)) = (val_f64(&args[0]), &args[1]) { out.push((c.last().map(|s| s.to_string()).unwrap_or_default(), t, f == F::Lt)); }
        }
        for a in &args { thresholds(a, out); }
    }
}

#[derive(Debug, Clone, Default)]
pub struct Facts {
    /// (output column, σ, clamped?) for every noised column
    pub noises: Vec<(String, f64, bool)>,
    /// (value column, C) for every L2 scaling factor
    pub clips: Vec<(String, f64)>,
    /// value columns whose scaling factor is the literal 0 (C = 0)
    pub zero_clips: Vec<String>,
    /// (column, τ, strict) of filters on the distinct-unit count
    pub taus: Vec<(String, f64, bool)>,
    /// names of base tables reached
    pub tables: Vec<String>,
    pub n_nodes: usize,
}

/// follow plain column renames downwards: which column of which sub-relation does `name` of `rel` come from
pub fn origin<'a>(rel: &'a Relation, name: &str) -> (&'a Relation, String) {
    match rel {
        Relation::Map(m) => {
            for (n, e) in m.named_exprs() {
                if n == name { if let Expr::Column(c) = e { if c.len() == 1 { return origin(m.input(), &c[0]); } } }
            }
            (rel, name.to_string())
        }
        _ => (rel, name.to_string()),
    }
}

pub fn collect(rel: &Relation, facts: &mut Facts, seen: &mut Vec<*const Relation>) {
    let p = rel as *const Relation;
    if seen.contains(&p) { return; }
    seen.push(p);
    facts.n_nodes += 1;
    match rel {
        Relation::Table(t) => facts.tables.push(t.name().to_string()),
        Relation::Map(m) => {
            for (n, e) in m.named_exprs() {
                if has_random(e) { if let Some(s) = noise_sigma(e) { facts.noises.push((n.to_string(), s, is_clamped(e))); } }
                else if let Some(c) = clip_constant(e) { facts.clips.push((n.to_string(), c)); }
            }
            if let Some(f) = m.filter() { let mut v = vec![]; thresholds(f, &mut v); for t in v { if t.0.contains("COUNT_DISTINCT") { facts.taus.push(t); } } }
        }
        _ => {}
    }
    for i in rel.inputs() { collect(i, facts, seen); }
}

pub fn facts(rel: &Relation) -> Facts {
    let mut f = Facts::default();
    collect(rel, &mut f, &mut vec![]);
    f
}

/// For a clamped noise column `name` of Map `m`: the value column whose clipped sum it is
/// (noise map -> reduce `name = sum(alias)` -> rename map `alias = _CLIPPED_<v>`), if the shape is the expected one.
pub fn noise_value_column(noise_map: &Relation, name: &str) -> Option<String> {
    let Relation::Map(m) = noise_map else { return None };
    let Relation::Reduce(r) = m.input() else { return None };
    for (n, agg) in r.named_aggregates() {
        if n == name {
            let col = agg.column().last().ok()?.to_string();
            let (_, o) = origin(r.input(), &col);
            return o.strip_prefix("_CLIPPED_").map(|s| s.to_string());
        }
    }
    None
}

/// all (noise column, σ, C) triples of clamped noise sites, matched through the IR structure
pub fn sigma_clip_pairs(rel: &Relation) -> Vec<(String, f64, Option<f64>)> {
    let f = facts(rel);
    let mut out = vec![];
    fn walk(rel: &Relation, f: &Facts, out: &mut Vec<(String, f64, Option<f64>)>, seen: &mut Vec<*const Relation>) {
        let p = rel as *const Relation;
        if seen.contains(&p) { return; }
        seen.push(p);
        if let Relation::Map(m) = rel {
            for (n, e) in m.named_exprs() {
                if has_random(e) && is_clamped(e) {
                    if let Some(s) = noise_sigma(e) {
                        let v = noise_value_column(rel, n);
                        let c = v.as_ref().and_then(|v| f.clips.iter().find(|(cn, _)| cn == v).map(|(_, c)| *c));
                        let c = if c.is_none() && s == 0.0 { Some(0.0) } else { c };
                        out.push((n.to_string(), s, c));
                    }
                }
            }
        }
        for i in rel.inputs() { walk(i, f, out, seen); }
    }
    walk(rel, &f, &mut out, &mut vec![]);
    out
}

//! C17. stream `dialect`: a relation (compiled from generated SQL over `world2`, optionally with awkward output names)
//! is rendered by each of the eight translators; the text must be accepted by sqlparser's parser for that dialect,
//! read back by the library with the same dialect into a relation with the same output names, order and types, and
//! (SQLite) run on a plain SQLite connection with the results of the reference rendering.
//! `dump dialects`: what each translator writes as identifier quote and what each reading dialect accepts.
use crate::common::*;
use crate::exec::{Cell, Db, RandomMode};
use crate::s_sqlx::{gen_data2, gen_sql, world2};
use qrlew::{
    ast,
    builder::{Ready, With},
    data_type::DataTyped as _,
    dialect_translation::{bigquery::BigQueryTranslator, databricks::DatabricksTranslator, hive::HiveTranslator, mssql::MsSqlTranslator, mysql::MySqlTranslator,
        postgresql::PostgreSqlTranslator, redshiftsql::RedshiftSqlTranslator, sqlite::SQLiteTranslator, QueryToRelationTranslator, RelationToQueryTranslator, RelationWithTranslator},
    expr::{Expr, Identifier},
    relation::{Relation, Variant as _},
    sql::{parse, relation::{parse_with_dialect, QueryWithRelations}},
};
use serde_json::{json, Value as J};
use sqlparser::dialect::{BigQueryDialect, DatabricksDialect, Dialect, HiveDialect, MsSqlDialect, MySqlDialect, PostgreSqlDialect, RedshiftSqlDialect, SQLiteDialect};

pub const DIALECTS: [&str; 8] = ["postgresql", "sqlite", "mysql", "mssql", "bigquery", "hive", "databricks", "redshift"];
const NAMES: [&str; 14] = ["select", "order", "my col", "Mixed", "a.b", "x-y", "1st", "it's", "we`ird", "dq\"x", "[br]", "é", "group", "c0"];

pub fn gen(rng: &mut Rng, k: usize, _tier: &str) -> J {
    let (sql, ordered) = gen_sql(rng);
    // every third case: rename the output columns to awkward names (through a Map on top)
    let rename: Vec<String> = if k % 3 == 0 { let mut v: Vec<String> = vec![]; for _ in 0..4 { let n = rng.pick(&NAMES).to_string(); if !v.contains(&n) { v.push(n); } } v } else { vec![] };
    // one case in four over the catalogue whose tables live at a schema-qualified path under another relation name
    json!({"sql": sql, "ordered": ordered, "rename": rename, "data_seed": rng.next() % 1000000, "qualified": rng.chance(1, 4)})
}

fn schema_sig(rel: &Relation) -> Vec<(String, String)> { rel.schema().iter().map(|f| (f.name().to_string(), f.data_type().to_string())).collect() }
fn rows_key(rows: &[Vec<Cell>], ordered: bool) -> Vec<String> { let mut v: Vec<String> = rows.iter().map(|r| r.iter().map(|c| match c { Cell::Real(f) => format!("{:.6}", f), Cell::Int(i) => format!("{:.6}", *i as f64), o => o.key() }).collect::<Vec<_>>().join("|")).collect(); if !ordered { v.sort(); } v }

/// constructs in the rendered text that plain SQLite does not have (used to classify failures)
fn sqlite_feature(text: &str) -> &'static str {
    let up = text.to_uppercase();
    if up.contains("(VALUES") && up.contains(") AS ") && up.contains("\" (\"") { "values-column-list" }
    else if up.contains("CHAR_LENGTH(") { "char-length" } else if up.contains("SUBSTRING(") { "substring" } else if up.contains("TRUNC(") { "trunc" } else if up.contains("CONCAT(") { "concat" } else if up.contains("MD5(") { "md5" } else if up.contains("MEAN(") { "mean" } else if up.contains("VAR(") { "var" } else if up.contains("STD(") { "std" }
    else if up.contains("FIRST(") { "first" } else if up.contains("LAST(") { "last" } else if up.contains("GREATEST(") { "greatest" } else if up.contains("LEAST(") { "least" }
    else if up.contains("FULL JOIN") || up.contains("RIGHT JOIN") { "outer-join" } else { "other" }
}

/// the first dialect-specific construct present in a rendered text (classifies read-back failures)
fn feature(text: &str) -> &'static str {
    let up = text.to_uppercase();
    // an infinite float written as the bare word `inf` (Rust's Display of f64::INFINITY): an identifier to every SQL reader
    if up.contains("(INF)") || up.contains("(-INF)") { return "infinite-literal"; }
    for (kw, name) in [("CHECKSUM(", "checksum"), ("LEN(", "len"), ("TOP (", "top"), ("SUBSTRING(", "substring"), ("TRUNC(", "trunc"), ("CONVERT(", "convert"), ("FLOAT(", "float-call"), ("STRING(", "string-call"), ("MEAN(", "mean"), ("VAR(", "var"), ("STD(", "std"), ("STDDEV", "stddev"), ("VARIANCE", "variance"), ("FIRST(", "first"), ("LAST(", "last"), ("MD5(", "md5"), ("HASHBYTES", "hashbytes"),
                       ("GREATEST(", "greatest"), ("LEAST(", "least"), ("(VALUES", "values"), ("CAST(", "cast"), ("SAFE_CAST", "safe-cast"), ("UNNEST", "unnest"), ("FULL JOIN", "full-join"), ("CASE ", "case"), ("COALESCE(", "coalesce"), ("OFFSET", "offset"), ("LIMIT", "limit")] {
        if up.contains(kw) { return name; }
    }
    "other"
}

/// a WITH clause that declares one name twice: with two different bodies (two nodes whose 4-character content-derived names collide)
/// or with the same body (one node emitted twice)
pub fn duplicate_cte_class(text: &str) -> &'static str {
    // CTE heads look like `"name" ("c1", ...) AS (` right after `WITH ` or `), `
    let mut heads: Vec<(String, usize)> = vec![];
    let bytes = text.as_bytes();
    let mut i = 0;
    while let Some(p) = text[i..].find(" AS (") {
        let at = i + p;
        // walk back over `("cols")` and the quoted name
        // (BigQuery and Hive write no column list: the name stands right before ` AS (`)
        if !text[..at].ends_with(')') { let name = text[..at].rsplit(|c| c == ' ').next().unwrap_or("").to_string(); if name.starts_with('"') || name.starts_with('`') { heads.push((name, at + 5)); } }
        else if let Some(open) = text[..at].rfind(" (") { let name = text[..open].rsplit(|c| c == ' ').next().unwrap_or("").to_string(); if name.starts_with('"') || name.starts_with('`') { heads.push((name, at + 5)); } }
        i = at + 5;
    }
    let _ = bytes;
    for a in 0..heads.len() { for b in a + 1..heads.len() { if heads[a].0 == heads[b].0 {
        let body = |k: usize| -> &str { let start = heads[k].1; let end = if k + 1 < heads.len() { text[..heads[k + 1].1].rfind("), ").unwrap_or(text.len()) } else { text.len() }; &text[start..end.max(start)] };
        return if body(a) == body(b) { "cte-emitted-twice" } else { "cte-name-collision" };
    } } }
    "duplicate-cte-unclassified"
}

struct Rendered { text: Result<String, (String, String)>, accepted: Result<(), String>, readback: Option<Result<Result<Relation, String>, (String, String)>> }

fn per_dialect(rel: &Relation, d: &str) -> Rendered { per_dialect_in(rel, d, &world2()) }

fn per_dialect_in(rel: &Relation, d: &str, rels: &qrlew::hierarchy::Hierarchy<std::sync::Arc<Relation>>) -> Rendered {
    macro_rules! go {
        ($tr:expr, $dial:expr, $read:expr) => {{
            let text = guarded(|| ast::Query::from(RelationWithTranslator(rel, $tr)).to_string());
            match text {
                Err(e) => Rendered { text: Err(e), accepted: Ok(()), readback: None },
                Ok(t) => {
                    let accepted = sqlparser::parser::Parser::parse_sql(&$dial, &t).map(|_| ()).map_err(|e| e.to_string());
                    let readback = if $read { Some(guarded(|| { let q = parse_with_dialect(&t, $dial).map_err(|e| e.to_string())?; Relation::try_from((QueryWithRelations::new(&q, rels), $tr)).map_err(|e| e.to_string()) })) } else { None };
                    Rendered { text: Ok(t), accepted, readback }
                }
            }
        }};
    }
    match d {
        "postgresql" => go!(PostgreSqlTranslator, PostgreSqlDialect {}, true),
        "mysql" => go!(MySqlTranslator, MySqlDialect {}, true),
        "mssql" => go!(MsSqlTranslator, MsSqlDialect {}, true),
        "bigquery" => go!(BigQueryTranslator, BigQueryDialect {}, true),
        "hive" => go!(HiveTranslator, HiveDialect {}, true),
        "databricks" => go!(DatabricksTranslator, DatabricksDialect {}, true),
        "redshift" => go!(RedshiftSqlTranslator, RedshiftSqlDialect {}, true),
        _ => {
            let text = guarded(|| ast::Query::from(RelationWithTranslator(rel, SQLiteTranslator)).to_string());
            match text { Err(e) => Rendered { text: Err(e), accepted: Ok(()), readback: None },
                Ok(t) => { let accepted = sqlparser::parser::Parser::parse_sql(&SQLiteDialect {}, &t).map(|_| ()).map_err(|e| e.to_string()); Rendered { text: Ok(t), accepted, readback: None } } }
        }
    }
}

pub fn eval(case: &J) -> Outcome {
    let mut out = Outcome::new();
    let sql = case["sql"].as_str().unwrap().to_string();
    let qualified = case["qualified"] == true;
    let rels = if qualified { out.tag("qualified-catalogue"); crate::s_sqlx::world2q() } else { world2() };
    let base = match guarded(|| { let q = parse(&sql).map_err(|e| e.to_string())?; Relation::try_from(QueryWithRelations::new(&q, &rels)).map_err(|e| e.to_string()) }) {
        Ok(Ok(r)) => r, Ok(Err(_)) => { out.tag("trivial"); out.tag("compile-err"); return out; }
        Err((loc, msg)) => { out.tag("trivial"); out.fail(&format!("C18/dialect/compile-panic/{}{}", site(&loc, &msg), compile_panic_cause(&sql, &loc, &msg).map(|c| format!("/{c}")).unwrap_or_default()), format!("{sql}: {msg}")); return out; } };
    let rename: Vec<String> = case["rename"].as_array().unwrap().iter().map(|x| x.as_str().unwrap().to_string()).collect();
    let rel = if rename.is_empty() { base } else {
        let fields: Vec<String> = base.schema().iter().map(|f| f.name().to_string()).collect();
        let r = guarded(|| -> Result<Relation, String> { let mut b = Relation::map(); for (i, f) in fields.iter().enumerate() { let n = rename.get(i).cloned().unwrap_or_else(|| f.clone()); b = b.with((n.as_str(), Expr::col(f.as_str()))); }
            // expressions that only the builders can produce (the reader never yields a negative literal under a unary minus)
            let extras: [(&str, Expr); 6] = [("neg_const", Expr::opposite(Expr::val(-3))), ("neg_float", Expr::multiply(Expr::opposite(Expr::val(-2.5)), Expr::val(2))), ("sub_neg", Expr::minus(Expr::val(1), Expr::val(-1))),
                ("not_neg", Expr::not(Expr::gt(Expr::val(-1), Expr::val(-2)))), ("abs_neg", Expr::abs(Expr::val(-7))), ("neg_neg", Expr::opposite(Expr::opposite(Expr::val(-4))))];
            let pickx = case["data_seed"].as_u64().unwrap_or(0) as usize;
            for j in 0..2 { let (n, e) = &extras[(pickx + 3 * j) % extras.len()]; if !rename.iter().any(|r| r == n) { b = b.with((*n, e.clone())); } }
            b.input(base.clone()).try_build().map_err(|e: qrlew::relation::Error| e.to_string()) });
        match r { Ok(Ok(r)) => { out.tag("renamed"); r } _ => { out.tag("trivial"); return out; } }
    };
    let shape = if rename.is_empty() { "plain" } else if rename.iter().any(|n| !n.chars().next().map(|c| c.is_alphabetic() || c == '_').unwrap_or(false)) { "awkward-names-leading-symbol" } else { "awkward-names" };
    let sig = schema_sig(&rel);
    let mut rng = Rng::new(case["data_seed"].as_u64().unwrap());
    let data = gen_data2(&mut rng);
    for d in DIALECTS {
        let r = per_dialect_in(&rel, d, &rels);
        let text = match r.text { Ok(t) => t, Err((loc, msg)) => { out.fail(&format!("C18/dialect/{d}/render-panic/{}", site(&loc, &msg)), format!("{sql}: {msg}")); continue; } };
        // a WITH clause that declares one name twice with two bodies is the recorded collision of 4-character content-derived names: whatever
        // reads the text (an engine, a parser that tolerates it, the library's reader taking the first) then sees another query
        let shape = if duplicate_cte_class(&text) == "cte-name-collision" { "cte-name-collision" } else { shape };
        if let Err(e) = r.accepted { out.fail(&format!("C17/dialect/{d}/not-accepted/{shape}"), format!("{sql} (columns {:?}) rendered for {d} as {text} is rejected by the {d} parser: {e}", sig.iter().map(|x| &x.0).collect::<Vec<_>>())); continue; }
        match r.readback {
            None => {}
            Some(Err((loc, msg))) => out.fail(&format!("C18/dialect/{d}/readback-panic/{}/{}", site(&loc, &msg), feature(&text)), format!("{text}: {msg}")),
            Some(Ok(Err(e))) => out.fail(&format!("C17/dialect/{d}/readback-error/{}/{shape}", feature(&text)), format!("{sql} rendered for {d} as {text} cannot be read back: {e}")),
            Some(Ok(Ok(r2))) => {
                let sig2 = schema_sig(&r2);
                if sig.iter().map(|x| &x.0).collect::<Vec<_>>() != sig2.iter().map(|x| &x.0).collect::<Vec<_>>() { out.fail(&format!("C17/dialect/{d}/readback-names/{shape}"), format!("{sql}: columns {:?} come back from {d} as {:?} ({text})", sig.iter().map(|x| &x.0).collect::<Vec<_>>(), sig2.iter().map(|x| &x.0).collect::<Vec<_>>())); }
                else if sig != sig2 { let dd = sig.iter().zip(sig2.iter()).find(|(a, b)| a != b).unwrap();
                    let boolnum = dd.0 .1.contains("bool") && !dd.1 .1.contains("bool");
                    let shape = if sql.contains("log2(") || sql.contains("log10(") { "log-base-inverted" } else if d == "mssql" && sql.contains("ln(") { "ln-written-as-log" } else if sql.contains(" IS TRUE") || sql.contains(" IS FALSE") { "is-bool-cast" } else { shape };
                    out.fail(&format!("C17/dialect/{d}/readback-types/{}", if crate::s_determ::same_types_modulo_structure(&rel, &r2) { "type-structure" } else if boolnum { "boolean-as-number" } else { shape }), format!("{sql}: column `{}` has type {} but {} after {d} render + read", dd.0 .0, dd.0 .1, dd.1 .1)); }
                else { out.tag(&format!("ok={d}")); }
            }
        }
        if d == "sqlite" {
            // plain SQLite (no user functions, no textual shims) against the shimmed reference execution
            let plain = rusqlite::Connection::open_in_memory().unwrap();
            let pdb = Db::from_conn(plain); data.load_into(&pdb);
            // reference rows: the ORIGINAL text run directly (independent of every translator); the reference rendering only when SQLite cannot run the original
            let rdb = data.load();
            let reference = match rdb.query(&sql) { Ok(r) => { out.tag("reference=original-text"); Ok(r) } Err(_) => rdb.run(&rel) };
            match (pdb.query(&text), reference) {
                (Ok(_), Ok(_)) if sql.contains("random()") => { out.tag("sqlite-executed"); out.tag("uses-random"); }   // two executions differ by construction
                (Ok(a), Ok(b)) => { let ord = case["ordered"].as_bool().unwrap_or(false);
                    // builder-made extra columns come after the query's own: compare those the reference has
                    let width = b.1.first().map(|r| r.len()).unwrap_or(usize::MAX);
                    let a = (a.0, a.1.into_iter().map(|r| r.into_iter().take(width).collect::<Vec<_>>()).collect::<Vec<_>>());
                    if rows_key(&a.1, ord) != rows_key(&b.1, ord) { out.fail(&format!("C17/dialect/sqlite/different-rows/{}", if sql.contains("log2(") || sql.contains("log10(") { "log-base-inverted" } else if sql.contains("tan(") { "division-by-null-is-zero" }
                        // stock SQLite folds ASCII letters only: UPPER / LOWER of a text with other letters differs from the reference
                        else if (sql.contains("upper(") || sql.contains("lower(")) && a.1.iter().chain(b.1.iter()).any(|r| r.iter().any(|c| matches!(c, Cell::Text(t) if !t.is_ascii()))) { "upper-lower-of-non-ascii" } else { shape }), format!("{sql}: {text} returns {:?}, reference {:?}", a.1.iter().take(4).collect::<Vec<_>>(), b.1.iter().take(4).collect::<Vec<_>>())); } else { out.tag("sqlite-executed"); } }
                (Err(e), _) => out.fail(&format!("C17/dialect/sqlite/not-executable/{}", if e.contains("duplicate WITH table name") { duplicate_cte_class(&text) } else { sqlite_feature(&text) }), format!("{sql}: rendered for SQLite as {text}: {e}")),
                _ => {}
            }
        }
    }
    let _ = RandomMode::Const(0.0);
    out
}

/// `oracle dump dialects`: identifier quote written by each translator, delimiters accepted by each reading dialect,
/// and whether the reading dialect treats backslash as an escape inside string literals
pub fn dump_dialects() -> J {
    let id = Identifier::from_name("x");
    let q = |v: Vec<ast::Ident>| v[0].quote_style.map(|c| c.to_string()).unwrap_or_default();
    fn delims<D: Dialect>(d: &D) -> Vec<String> { ['"', '`', '['].iter().filter(|c| d.is_delimited_identifier_start(**c)).map(|c| c.to_string()).collect() }
    json!({"dialects": [
        {"name": "postgresql", "write": q(PostgreSqlTranslator.identifier(&id)), "reads": true, "delims": delims(&QueryToRelationTranslator::dialect(&PostgreSqlTranslator)), "backslash": QueryToRelationTranslator::dialect(&PostgreSqlTranslator).supports_string_literal_backslash_escape()},
        {"name": "sqlite", "write": q(SQLiteTranslator.identifier(&id)), "reads": false, "delims": delims(&SQLiteDialect {}), "backslash": SQLiteDialect {}.supports_string_literal_backslash_escape()},
        {"name": "mysql", "write": q(MySqlTranslator.identifier(&id)), "reads": true, "delims": delims(&QueryToRelationTranslator::dialect(&MySqlTranslator)), "backslash": QueryToRelationTranslator::dialect(&MySqlTranslator).supports_string_literal_backslash_escape()},
        {"name": "mssql", "write": q(MsSqlTranslator.identifier(&id)), "reads": true, "delims": delims(&QueryToRelationTranslator::dialect(&MsSqlTranslator)), "backslash": QueryToRelationTranslator::dialect(&MsSqlTranslator).supports_string_literal_backslash_escape()},
        {"name": "bigquery", "write": q(BigQueryTranslator.identifier(&id)), "reads": true, "delims": delims(&QueryToRelationTranslator::dialect(&BigQueryTranslator)), "backslash": QueryToRelationTranslator::dialect(&BigQueryTranslator).supports_string_literal_backslash_escape()},
        {"name": "hive", "write": q(HiveTranslator.identifier(&id)), "reads": true, "delims": delims(&QueryToRelationTranslator::dialect(&HiveTranslator)), "backslash": QueryToRelationTranslator::dialect(&HiveTranslator).supports_string_literal_backslash_escape()},
        {"name": "databricks", "write": q(DatabricksTranslator.identifier(&id)), "reads": true, "delims": delims(&QueryToRelationTranslator::dialect(&DatabricksTranslator)), "backslash": QueryToRelationTranslator::dialect(&DatabricksTranslator).supports_string_literal_backslash_escape()},
        {"name": "redshift", "write": q(RedshiftSqlTranslator.identifier(&id)), "reads": true, "delims": delims(&QueryToRelationTranslator::dialect(&RedshiftSqlTranslator)), "backslash": QueryToRelationTranslator::dialect(&RedshiftSqlTranslator).supports_string_literal_backslash_escape()},
    ]})
}

// ------------------------------------------------------------------------------------------------
// stream `dialectdp`: relations produced by the DP rewriting (noise, clipping, thresholds, MD5 of the privacy unit, public-value
// VALUES lists) rendered by the eight translators: accepted by the dialect's parser; read back with the same names, order and types

pub fn gen_dp(rng: &mut Rng, k: usize, tier: &str) -> J {
    let mut c = crate::s_exec::gen_c09(rng, k, tier);
    // one case in eight with a δ so small that the threshold of the key release is +∞: what literal do the translators write for it?
    c["dp_delta"] = json!(if rng.chance(1, 8) { 1e-300 } else { 1e-4 });
    if rng.chance(1, 16) { c["sql"] = json!("SELECT age AS k0, count(age) AS c FROM users GROUP BY age"); c["dp_delta"] = json!(1e-300); }
    c
}

pub fn eval_dp(case: &J) -> Outcome {
    use qrlew::differential_privacy::DpParameters;
    let mut out = Outcome::new();
    let sql = case["sql"].as_str().unwrap().to_string();
    let rels = crate::s_rules::world();
    let rel = match guarded(|| { let q = parse(&sql).map_err(|e| e.to_string())?; Relation::try_from(QueryWithRelations::new(&q, &rels)).map_err(|e| e.to_string()) }) { Ok(Ok(r)) => r, _ => { out.tag("trivial"); return out; } };
    let dp = match guarded(|| rel.rewrite_with_differential_privacy(&rels, None, crate::s_rules::privacy_unit(), DpParameters::from_epsilon_delta(1.0, case["dp_delta"].as_f64().unwrap_or(1e-4)))) {
        Ok(Ok(d)) => d, Ok(Err(_)) => { out.tag("trivial"); out.tag("dp-err"); return out; }
        Err((loc, msg)) => { out.tag("trivial"); out.fail(&format!("C18/dialectdp/rewrite-panic/{}", site(&loc, &msg)), format!("{sql}: {msg}")); return out; } };
    let rel = dp.relation().clone();
    let sig = schema_sig(&rel);
    for d in DIALECTS {
        let r = per_dialect_in(&rel, d, &rels);
        let text = match r.text { Ok(t) => t, Err((loc, msg)) => { out.fail(&format!("C18/dialectdp/{d}/render-panic/{}", site(&loc, &msg)), format!("{sql}: {msg}")); continue; } };
        if let Err(e) = r.accepted { out.fail(&format!("C17/dialectdp/{d}/not-accepted/{}", feature(&text)), format!("DP rewriting of {sql} rendered for {d} is rejected by the {d} parser: {e} ({})", &text[..text.len().min(400)])); continue; }
        match r.readback {
            None => {}
            Some(Err((loc, msg))) => out.fail(&format!("C18/dialectdp/{d}/readback-panic/{}/{}", site(&loc, &msg), feature(&text)), format!("DP rewriting of {sql} for {d}: {msg}")),
            Some(Ok(Err(e))) => out.fail(&format!("C17/dialectdp/{d}/readback-error/{}", feature(&text)), format!("DP rewriting of {sql} rendered for {d} cannot be read back: {e}")),
            Some(Ok(Ok(r2))) => {
                let sig2 = schema_sig(&r2);
                if sig.iter().map(|x| &x.0).collect::<Vec<_>>() != sig2.iter().map(|x| &x.0).collect::<Vec<_>>() { out.fail(&format!("C17/dialectdp/{d}/readback-names"), format!("DP rewriting of {sql}: columns {:?} come back from {d} as {:?}", sig.iter().map(|x| &x.0).collect::<Vec<_>>(), sig2.iter().map(|x| &x.0).collect::<Vec<_>>())); }
                else if sig != sig2 { let dd = sig.iter().zip(sig2.iter()).find(|(a, b)| a != b).unwrap(); out.fail(&format!("C17/dialectdp/{d}/readback-types/{}", if crate::s_determ::same_types_modulo_structure(&rel, &r2) { "type-structure" } else { "other" }), format!("DP rewriting of {sql}: column `{}` has type {} but {} after {d} render + read", dd.0 .0, dd.0 .1, dd.1 .1)); }
                else { out.tag(&format!("ok={d}")); }
            }
        }
    }
    out
}

/// `oracle dump dialectfns`: every scalar function the library knows × every translator: is `SELECT f(args) FROM tf` rendered
/// without panic, accepted by the dialect's parser, read back without error and with the same output type?  Exhaustive (no
/// sampling): the translator `tools/tr_dialectfns.py` turns the non-ok entries into a Lean table and the theorem
/// `C17.generated_functions_readable` compares it with the list of recorded exceptions.
fn fn_relation(name: &str) -> Option<(Relation, qrlew::hierarchy::Hierarchy<std::sync::Arc<Relation>>)> {
    use qrlew::{builder::{Ready, With}, DataType};
    use std::sync::Arc;
    let tf: Relation = Relation::table().name("tf").schema(vec![("i", DataType::integer_interval(1, 10)), ("f", DataType::float_interval(1., 10.)), ("t", DataType::text()), ("b", DataType::boolean()),
        ("d", DataType::date_time())].into_iter().collect::<qrlew::relation::Schema>()).size(100).build();
    let rels: qrlew::hierarchy::Hierarchy<Arc<Relation>> = vec![(vec!["tf".to_string()], Arc::new(tf.clone()))].into_iter().collect();
    let (_, f, cat) = crate::s_fn::function_table().into_iter().find(|(n, _, _)| *n == name)?;
    let args: Vec<Arc<Expr>> = cat.chars().map(|c| Arc::new(Expr::col(match c { 'n' => "f", 'i' | 'c' | 'x' => "i", 'b' => "b", 't' => "t", 'd' => "d", _ => "i" }))).collect();
    // `x IN l`: in SQL the list is always a literal tuple (a list-typed column can only come from the builders)
    let e = if name == "InList" { Expr::in_list(Expr::col("i"), Expr::list([1i64, 2, 5])) } else { Expr::Function(qrlew::expr::Function::new(f, args)) };
    match guarded(|| -> Result<Relation, String> { Relation::map().with(("r", e.clone())).input(tf.clone()).try_build().map_err(|e: qrlew::relation::Error| e.to_string()) }) { Ok(Ok(r)) => Some((r, rels)), _ => None }
}

fn fn_status(rel: &Relation, rels: &qrlew::hierarchy::Hierarchy<std::sync::Arc<Relation>>, d: &str) -> (String, String) {
    let want = rel.schema()[0].data_type().to_string();
    let r = per_dialect_in(rel, d, rels);
    let text = r.text.clone().unwrap_or_default();
    let status = match (&r.text, &r.accepted, &r.readback) {
        (Err(_), _, _) => "render-panic".to_string(),
        (Ok(_), Err(_), _) => "not-accepted".to_string(),
        (Ok(_), Ok(()), None) => "ok".to_string(),
        (Ok(_), Ok(()), Some(Err(_))) => "readback-panic".to_string(),
        (Ok(_), Ok(()), Some(Ok(Err(_)))) => "readback-error".to_string(),
        (Ok(_), Ok(()), Some(Ok(Ok(r2)))) => { let got = r2.schema().iter().next().map(|f| f.data_type().to_string()).unwrap_or_default(); if got == want || crate::s_determ::same_modulo_type_structure(rel, r2) { "ok".to_string() } else { "readback-type".to_string() } }
    };
    (status, text)
}

/// stream `dialectfns`: case k is the k-th function of the table: the run is exhaustive over functions × translators
pub fn gen_fns(_rng: &mut Rng, k: usize, _tier: &str) -> J {
    let t = crate::s_fn::function_table();
    json!({"function": t[k % t.len()].0})
}

pub fn eval_fns(case: &J) -> Outcome {
    let mut out = Outcome::new();
    let name = case["function"].as_str().unwrap();
    let Some((rel, rels)) = fn_relation(name) else { out.tag("trivial"); out.tag("not-buildable"); return out; };
    for d in DIALECTS {
        let (status, text) = fn_status(&rel, &rels, d);
        if status == "ok" { out.tag(&format!("ok={d}")); continue; }
        let prop = if status.ends_with("panic") { "C18" } else { "C17" };
        out.fail(&format!("{prop}/dialectfns/{d}/{status}/{name}"), format!("SELECT {name}(…) AS r FROM tf rendered for {d} as `{text}`: {status}"));
    }
    out
}

pub fn dump_dialect_fns() -> J {
    let mut rows = vec![];
    for (name, _, _) in crate::s_fn::function_table() {
        match fn_relation(name) {
            None => { for d in DIALECTS { rows.push(json!([d, name, "not-buildable"])); } }
            Some((rel, rels)) => { for d in DIALECTS { rows.push(json!([d, name, fn_status(&rel, &rels, d).0])); } }
        }
    }
    json!({"functions": rows})
}

//! stream `pup`: random trees of relational operators over two protected tables and a public one; the real
//! privacy-unit-preserving rewriting (`rewrite_as_privacy_unit_preserving`, strategy Hard) executed on SQLite against the Lean
//! model `Qrlew.PupTree.eval` (bags of (unit, weight, row)).  The model is the one the C05 non-interference theorem
//! (`restrict_eval`) is proved about; this stream is what ties it to the code.
use crate::common::*;
use crate::exec::{Cell, RandomMode};
use crate::ir;
use qrlew::{builder::{Ready, With}, differential_privacy::DpParameters, hierarchy::Hierarchy, privacy_unit_tracking::{PrivacyUnit, Strategy},
            relation::{Relation, Variant as _}, sql::{parse, relation::QueryWithRelations}, DataType};
use serde_json::{json, Value as J};
use std::sync::Arc;

/// ta(pu, k, x), tb(pu, k, y): protected, the privacy unit is the column pu; pp(k, w): public
fn world() -> Hierarchy<Arc<Relation>> {
    let t = |name: &str, c: &str| -> Relation { Relation::table().name(name).schema(vec![("pu", DataType::integer_interval(0, 5)), ("k", DataType::integer_interval(0, 3)), (c, DataType::optional(DataType::integer_interval(-3, 3)))].into_iter().collect::<qrlew::relation::Schema>()).size(100).build() };
    let pp: Relation = Relation::table().name("pp").schema(vec![("k", DataType::integer_interval(0, 3)), ("w", DataType::integer_interval(0, 9))].into_iter().collect::<qrlew::relation::Schema>()).size(100).build();
    vec![(vec!["ta".to_string()], Arc::new(t("ta", "x"))), (vec!["tb".to_string()], Arc::new(t("tb", "y"))), (vec!["pp".to_string()], Arc::new(pp))].into_iter().collect()
}

/// a tree as nested arrays (the driver reads the same encoding); every node exposes two integer columns c0, c1
fn gen_tree(rng: &mut Rng, depth: u32) -> J {
    if depth == 0 || rng.chance(1, 4) { return json!(["table", rng.below(2)]); }
    match rng.below(8) {
        0 | 1 => json!(["map", rng.below(2), rng.range(-2, 2), rng.below(2), rng.range(-2, 2), gen_tree(rng, depth - 1)]),
        2 => json!(["filter", rng.below(2), rng.range(-2, 2), gen_tree(rng, depth - 1)]),
        3 => json!(["join", rng.below(2), rng.below(2), rng.below(2), rng.below(2), gen_tree(rng, depth - 1), gen_tree(rng, depth - 1)]),
        4 => json!(["joinpub", rng.below(2), rng.below(2), rng.chance(1, 2), gen_tree(rng, depth - 1)]),
        5 => json!(["union", rng.chance(1, 2), gen_tree(rng, depth - 1), gen_tree(rng, depth - 1)]),
        _ => json!(["reduce", rng.below(2), rng.below(2), rng.chance(1, 3), gen_tree(rng, depth - 1)]),
    }
}

/// emits the CTEs of the tree in dependency order and returns the name of the node's CTE
fn emit(t: &J, ctes: &mut Vec<String>) -> String {
    let a = t.as_array().unwrap();
    let body = match a[0].as_str().unwrap() {
        "table" => if a[1] == 0 { "SELECT k AS c0, x AS c1 FROM ta".to_string() } else { "SELECT k AS c0, y AS c1 FROM tb".to_string() },
        "map" => { let i = emit(&a[5], ctes); format!("SELECT c{} + {} AS c0, c{} + {} AS c1 FROM {i}", a[1], a[2], a[3], a[4]) }
        "filter" => { let i = emit(&a[3], ctes); format!("SELECT c0 AS c0, c1 AS c1 FROM {i} WHERE c{} > {}", a[1], a[2]) }
        "join" => { let l = emit(&a[5], ctes); let r = emit(&a[6], ctes); format!("SELECT l.c{} AS c0, r.c{} AS c1 FROM {l} AS l JOIN {r} AS r ON l.c{} = r.c{}", a[3], a[4], a[1], a[2]) }
        "joinpub" => { let l = emit(&a[4], ctes); format!("SELECT l.c{} AS c0, p.w AS c1 FROM {l} AS l {} pp AS p ON l.c{} = p.k", a[2], if a[3] == true { "LEFT JOIN" } else { "JOIN" }, a[1]) }
        "union" => { let l = emit(&a[2], ctes); let r = emit(&a[3], ctes); format!("SELECT c0 AS c0, c1 AS c1 FROM {l} UNION{} SELECT c0 AS c0, c1 AS c1 FROM {r}", if a[1] == true { " ALL" } else { "" }) }
        _ => { let i = emit(&a[4], ctes); format!("SELECT c{} AS c0, {} AS c1 FROM {i} GROUP BY c{}", a[1], if a[3] == true { "count(*)".to_string() } else { format!("sum(c{})", a[2]) }, a[1]) }
    };
    let name = format!("n{}", ctes.len());
    ctes.push(format!("{name} AS ({body})"));
    name
}

pub fn gen(rng: &mut Rng, _k: usize, _tier: &str) -> J {
    let depth = 1 + rng.below(3) as u32;
    let tree = gen_tree(rng, depth);
    let table = |rng: &mut Rng| -> Vec<J> { (0..rng.below(9)).map(|_| json!([rng.below(4), rng.below(4), if rng.chance(1, 8) { J::Null } else { json!(rng.range(-3, 3)) }])).collect() };
    let (ta, tb) = (table(rng), table(rng));
    let mut pp: Vec<J> = vec![];
    for k in 0..4 { if rng.chance(2, 3) { let n = if rng.chance(1, 5) { 2 } else { 1 }; for _ in 0..n { pp.push(json!([k, rng.below(10)])); } } }
    json!({"tree": tree, "ta": ta, "tb": tb, "pp": pp})
}

fn cells(rows: &J, nullable_last: bool) -> Vec<Vec<Cell>> {
    rows.as_array().unwrap().iter().map(|r| r.as_array().unwrap().iter().map(|c| match c.as_i64() { Some(v) => Cell::Int(v), None => { let _ = nullable_last; Cell::Null } }).collect()).collect()
}

pub fn eval(case: &J) -> Outcome {
    let mut out = Outcome::new();
    let mut ctes = vec![];
    let top = emit(&case["tree"], &mut ctes);
    let sql = format!("WITH {} SELECT c0 AS c0, c1 AS c1 FROM {top}", ctes.join(", "));
    let kind = |t: &J| -> Vec<String> { fn walk(t: &J, acc: &mut Vec<String>) { if let Some(a) = t.as_array() { if let Some(s) = a[0].as_str() { acc.push(s.to_string()); for x in &a[1..] { if x.is_array() { walk(x, acc); } } } } } let mut v = vec![]; walk(t, &mut v); v };
    for k in kind(&case["tree"]) { out.tag(&format!("op={k}")); }
    let rels = world();
    let rel = match guarded(|| { let q = parse(&sql).map_err(|e| e.to_string())?; Relation::try_from(QueryWithRelations::new(&q, &rels)).map_err(|e| e.to_string()) }) {
        Ok(Ok(r)) => r, Ok(Err(e)) => { out.tag("trivial"); out.tag("compile-err"); out.aux = json!({"sql": sql, "err": e}); return out; }
        Err((loc, msg)) => { out.tag("trivial"); out.fail(&format!("C18/pup/compile-panic/{}", site(&loc, &msg)), format!("{sql}: {msg}")); return out; } };
    let pu = PrivacyUnit::from(vec![("ta", vec![], "pu"), ("tb", vec![], "pu")]);
    let pup = match guarded(|| rel.rewrite_as_privacy_unit_preserving(&rels, None, pu.clone(), DpParameters::from_epsilon_delta(1.0, 1e-4), Some(Strategy::Hard))) {
        Ok(Ok(d)) => d, Ok(Err(e)) => { out.tag("trivial"); out.tag("pup-refused"); out.aux = json!({"sql": sql, "err": e.to_string()}); return out; }
        Err((loc, msg)) => { out.tag("trivial"); out.fail(&format!("C18/pup/rewrite-panic/{}", site(&loc, &msg)), format!("{sql}: {msg}")); return out; } };
    let facts = ir::facts(pup.relation());
    if !facts.noises.is_empty() || !facts.taus.is_empty() { out.tag("trivial"); out.tag("inner-dp"); out.aux = json!({"sql": sql}); return out; }
    let db = crate::exec::Db::new(RandomMode::Const(0.25));
    db.create_table("ta", &["pu", "k", "x"], &cells(&case["ta"], true));
    db.create_table("tb", &["pu", "k", "y"], &cells(&case["tb"], true));
    db.create_table("pp", &["k", "w"], &cells(&case["pp"], false));
    match db.run(pup.relation()) {
        Ok((names, res)) => {
            let idx = |n: &str| names.iter().position(|x| x == n);
            let (Some(pi), Some(wi), Some(i0), Some(i1)) = (idx("_PRIVACY_UNIT_"), idx("_PRIVACY_UNIT_WEIGHT_"), idx("c0"), idx("c1")) else { out.tag("trivial"); out.tag("public-result"); out.aux = json!({"sql": sql, "names": names}); return out; };
            let show = |c: &Cell| -> String { match c { Cell::Null => "null".to_string(), Cell::Int(v) => v.to_string(), Cell::Real(x) if x.fract() == 0.0 => (*x as i64).to_string(), Cell::Text(t) => t.trim_start_matches("md5_").to_string(), other => format!("{:?}", other) } };
            let mut rows: Vec<String> = res.iter().map(|r| format!("{}|{}|{}|{}", show(&r[pi]), show(&r[wi]), show(&r[i0]), show(&r[i1]))).collect();
            rows.sort();
            if rows.is_empty() { out.tag("trivial"); }
            // property-level oracle (C05) on the implementation itself: the rows of unit u on D are the rows on D restricted to u
            let render = |res: &Vec<Vec<Cell>>| -> Vec<String> { let mut v: Vec<String> = res.iter().map(|r| format!("{}|{}|{}|{}", show(&r[pi]), show(&r[wi]), show(&r[i0]), show(&r[i1]))).collect(); v.sort(); v };
            let top_op = case["tree"][0].as_str().unwrap_or("?").to_string();
            for u in 0..4i64 {
                let only = |rows: &J| -> Vec<Vec<Cell>> { cells(rows, true).into_iter().filter(|r| r[0] == Cell::Int(u)).collect() };
                let dbu = crate::exec::Db::new(RandomMode::Const(0.25));
                dbu.create_table("ta", &["pu", "k", "x"], &only(&case["ta"]));
                dbu.create_table("tb", &["pu", "k", "y"], &only(&case["tb"]));
                dbu.create_table("pp", &["k", "w"], &cells(&case["pp"], false));
                if let Ok((_, resu)) = dbu.run(pup.relation()) {
                    let pre = format!("{u}|");
                    let mine: Vec<String> = rows.iter().filter(|r| r.starts_with(&pre)).cloned().collect();
                    let alone: Vec<String> = render(&resu).into_iter().filter(|r| r.starts_with(&pre)).collect();
                    if mine != alone { out.fail(&format!("C05/pup/interference/{top_op}"), format!("{sql}: rows attributed to unit {u} on the full tables {:?} differ from those on the tables restricted to unit {u} {:?} (ta {}, tb {}, pp {})", mine, alone, case["ta"], case["tb"], case["pp"])); break; }
                }
            }
            out.imp = json!({"rows": rows});
            out.aux = json!({"sql": sql});
        }
        Err(e) => { out.imp = json!("exec-error"); out.fail("C17/sqlite/pup-not-executable", format!("{sql}: {e}")); }
    }
    out
}

//! stream `pup`: random trees of relational operators over two protected tables and a public one; the real
//! privacy-unit-preserving rewriting (`rewrite_as_privacy_unit_preserving`, strategy Hard) executed on SQLite against the Lean
//! model `Qrlew.PupTree.eval` (bags of (unit, weight, row)).  The model is the one the C05 non-interference theorem
//! (`restrict_eval`) is proved about; this stream is what ties it to the code.
use crate::common::*;
use crate::exec::{Cell, RandomMode};
use crate::ir;
use qrlew::{builder::{Ready, With}, differential_privacy::DpParameters, hierarchy::Hierarchy, privacy_unit_tracking::{PrivacyUnit, Strategy},
            relation::{Relation, Variant as _}, sql::{parse, relation::QueryWithRelations}, DataType};
use serde_json::{json, Value as J};
use std::sync::Arc;

/// ta(pu, k, x), tb(pu, k, y): protected, the privacy unit is the column pu; pp(k, w): public.
/// styles: `own` (unit = pu, hashed), `nohash` (unit = pu, not hashed), `weight` (unit = pu with the weight column wt),
/// `fk` (ta's unit is its row id rid; tc(r, k, z) is protected through the nullable foreign key r -> ta.rid)
fn world(style: &str, aliased: bool) -> Hierarchy<Arc<Relation>> {
    // `aliased`: every table lives at a path that differs from its relation name and is registered under both (what
    // `io::Database::relations()` does); queries and the privacy-unit definition use the relation names
    let base = world0(style);
    if !aliased { return base; }
    let mut out: Vec<(Vec<String>, Arc<Relation>)> = vec![];
    for (path, r) in base.iter() {
        let name = path.last().unwrap().clone();
        let t: Relation = Relation::table().name(name.as_str()).path(vec![format!("{name} storage")]).schema(r.schema().clone()).size(100).build();
        let t = Arc::new(t);
        out.push((vec![name.clone()], t.clone()));
        out.push((vec![format!("{name} storage")], t));
    }
    out.into_iter().collect()
}

fn world0(style: &str) -> Hierarchy<Arc<Relation>> {
    let t = |name: &str, c: &str| -> Relation {
        // style `uniq`: the column k is declared UNIQUE in both protected tables (and the data honours it)
        let kcol = if style == "uniq" { ("k", DataType::integer_interval(0, 9), Some(qrlew::relation::Constraint::Unique)) } else { ("k", DataType::integer_interval(0, 3), None) };
        let mut cols = vec![("pu", DataType::integer_interval(0, 5), None), kcol, (c, DataType::optional(DataType::integer_interval(-3, 3)), None)];
        if style == "weight" || style == "weightnohash" { cols.push(("wt", DataType::integer_interval(1, 3), None)); }
        if style == "fk" && name == "ta" { cols.push(("rid", DataType::integer_interval(0, 20), None)); }
        Relation::table().name(name).schema(cols.into_iter().collect::<qrlew::relation::Schema>()).size(100).build() };
    let pp: Relation = Relation::table().name("pp").schema(vec![("k", DataType::integer_interval(0, 3)), ("w", DataType::integer_interval(0, 9))].into_iter().collect::<qrlew::relation::Schema>()).size(100).build();
    let mut v = vec![(vec!["ta".to_string()], Arc::new(t("ta", "x"))), (vec!["tb".to_string()], Arc::new(t("tb", "y"))), (vec!["pp".to_string()], Arc::new(pp))];
    if style == "fk" {
        let tc: Relation = Relation::table().name("tc").schema(vec![("r", DataType::optional(DataType::integer_interval(0, 20))), ("k", DataType::integer_interval(0, 3)), ("z", DataType::optional(DataType::integer_interval(-3, 3)))].into_iter().collect::<qrlew::relation::Schema>()).size(100).build();
        v.push((vec!["tc".to_string()], Arc::new(tc)));
    }
    v.into_iter().collect()
}

fn privacy_unit(style: &str) -> PrivacyUnit {
    match style {
        "nohash" => PrivacyUnit::from((vec![("ta", vec![], "pu"), ("tb", vec![], "pu")], false)),
        "weight" => PrivacyUnit::from(vec![("ta", vec![], "pu", "wt"), ("tb", vec![], "pu", "wt")]),
        // the constructor that takes both a weight column and the hashing flag
        "weightnohash" => PrivacyUnit::from((vec![("ta", vec![], "pu", "wt"), ("tb", vec![], "pu", "wt")], false)),
        "fk" => PrivacyUnit::from(vec![("ta", vec![], "rid"), ("tb", vec![], "pu"), ("tc", vec![("r", "ta", "rid")], "rid")]),
        _ => PrivacyUnit::from(vec![("ta", vec![], "pu"), ("tb", vec![], "pu")]),
    }
}

/// a tree as nested arrays (the driver reads the same encoding); every node exposes two integer columns c0, c1
fn gen_tree(rng: &mut Rng, depth: u32, nt: u64) -> J {
    if depth == 0 || rng.chance(1, 4) { return json!(["table", rng.below(nt)]); }
    match rng.below(8) {
        // the seventh element (the driver does not read it): the map also projects a column of its own under one of the two names the
        // rewriting reserves for the privacy unit and its weight — legal SQL, and no business of the tracking
        0 | 1 => json!(["map", rng.below(2), rng.range(-2, 2), rng.below(2), rng.range(-2, 2), gen_tree(rng, depth - 1, nt), if rng.chance(1, 12) { 1 + rng.below(2) } else { 0 }]),
        2 => json!(["filter", rng.below(2), rng.range(-2, 2), gen_tree(rng, depth - 1, nt)]),
        3 => json!(["join", rng.below(2), rng.below(2), rng.below(2), rng.below(2), gen_tree(rng, depth - 1, nt), gen_tree(rng, depth - 1, nt)]),
        4 => json!(["joinpub", rng.below(2), rng.below(2), rng.chance(1, 2), gen_tree(rng, depth - 1, nt)]),
        5 => json!(["union", rng.chance(1, 2), gen_tree(rng, depth - 1, nt), gen_tree(rng, depth - 1, nt)]),
        _ => json!(["reduce", rng.below(2), rng.below(2), rng.chance(1, 3), gen_tree(rng, depth - 1, nt)]),
    }
}

/// emits the CTEs of the tree in dependency order and returns the name of the node's CTE
fn emit(t: &J, ctes: &mut Vec<String>) -> String {
    let a = t.as_array().unwrap();
    let body = match a[0].as_str().unwrap() {
        "table" => if a[1] == 0 { "SELECT k AS c0, x AS c1 FROM ta".to_string() } else if a[1] == 1 { "SELECT k AS c0, y AS c1 FROM tb".to_string() } else { "SELECT k AS c0, z AS c1 FROM tc".to_string() },
        "map" => { let i = emit(&a[5], ctes); let extra = match a.get(6).and_then(|x| x.as_u64()) { Some(1) => format!(", c{} AS \"_PRIVACY_UNIT_\"", a[1]), Some(2) => format!(", c{} AS \"_PRIVACY_UNIT_WEIGHT_\"", a[3]), _ => String::new() };
                   format!("SELECT c{} + {} AS c0, c{} + {} AS c1{extra} FROM {i}", a[1], a[2], a[3], a[4]) }
        "filter" => { let i = emit(&a[3], ctes); format!("SELECT c0 AS c0, c1 AS c1 FROM {i} WHERE c{} > {}", a[1], a[2]) }
        "join" => { let l = emit(&a[5], ctes); let r = emit(&a[6], ctes); format!("SELECT l.c{} AS c0, r.c{} AS c1 FROM {l} AS l JOIN {r} AS r ON l.c{} = r.c{}", a[3], a[4], a[1], a[2]) }
        "joinpub" => { let l = emit(&a[4], ctes); format!("SELECT l.c{} AS c0, p.w AS c1 FROM {l} AS l {} pp AS p ON l.c{} = p.k", a[2], if a[3] == true { "LEFT JOIN" } else { "JOIN" }, a[1]) }
        "union" => { let l = emit(&a[2], ctes); let r = emit(&a[3], ctes); format!("SELECT c0 AS c0, c1 AS c1 FROM {l} UNION{} SELECT c0 AS c0, c1 AS c1 FROM {r}", if a[1] == true { " ALL" } else { "" }) }
        _ => { let i = emit(&a[4], ctes); format!("SELECT c{} AS c0, {} AS c1 FROM {i} GROUP BY c{}", a[1], if a[3] == true { "count(*)".to_string() } else { format!("sum(c{})", a[2]) }, a[1]) }
    };
    let name = format!("n{}", ctes.len());
    ctes.push(format!("{name} AS ({body})"));
    name
}

pub fn gen(rng: &mut Rng, _k: usize, _tier: &str) -> J {
    let style = *rng.pick(&["own", "own", "nohash", "weight", "weightnohash", "fk", "fk", "uniq"]);
    let depth = 1 + rng.below(3) as u32;
    let tree = gen_tree(rng, depth, if style == "fk" { 3 } else { 2 });
    // raw rows: ta / tb = [pu, k, x|null, extra] where extra is the weight (style weight) or, for ta, the row id (style fk)
    let mut next_rid = 0i64;
    let mut table = |rng: &mut Rng, is_ta: bool| -> Vec<J> { (0..rng.below(9)).map(|_| { let extra = if style == "weight" || style == "weightnohash" { json!(rng.range(1, 3)) } else if style == "fk" && is_ta { next_rid += 1 + rng.below(2) as i64; json!(next_rid) } else { J::Null };
        json!([rng.below(4), rng.below(4), if rng.chance(1, 8) { J::Null } else { json!(rng.range(-3, 3)) }, extra]) }).collect() };
    let mut ta = table(rng, true); let mut tb = table(rng, false);
    if style == "uniq" { for t in [&mut ta, &mut tb] { let mut ks: Vec<i64> = (0..10).collect(); for r in t.iter_mut() { let i = rng.below(ks.len() as u64) as usize; r[1] = json!(ks.remove(i)); } } }
    // tc rows refer to a row id of ta, to no row at all (dangling), or to nothing (NULL)
    let rids: Vec<i64> = ta.iter().filter_map(|r| r[3].as_i64()).collect();
    let tc: Vec<J> = if style == "fk" { (0..rng.below(9)).map(|_| { let r = if rng.chance(1, 8) { J::Null } else if rng.chance(1, 8) || rids.is_empty() { json!(19) } else { json!(*rng.pick(&rids)) };
        json!([r, rng.below(4), if rng.chance(1, 8) { J::Null } else { json!(rng.range(-3, 3)) }]) }).collect() } else { vec![] };
    let mut pp: Vec<J> = vec![];
    for k in 0..4 { if rng.chance(2, 3) { let n = if rng.chance(1, 5) { 2 } else { 1 }; for _ in 0..n { pp.push(json!([k, rng.below(10)])); } } }
    // what the privacy-unit definition assigns to every protected row: (unit, weight, c0, c1); rows owned by nobody are not tracked
    let tracked_of = |rows: &Vec<J>, which: usize| -> Vec<J> { rows.iter().filter_map(|r| {
        let (unit, w) = match (style, which) { ("fk", 0) => (r[3].as_i64(), 1), ("fk", 2) => (r[0].as_i64().filter(|x| rids.contains(x)), 1), ("weight", _) | ("weightnohash", _) => (r[0].as_i64(), r[3].as_i64().unwrap_or(1)), _ => (r[0].as_i64(), 1) };
        unit.map(|u| json!([u, w, r[1], r[2]])) }).collect() };
    let tracked = json!([tracked_of(&ta, 0), tracked_of(&tb, 1), tracked_of(&tc, 2)]);
    json!({"tree": tree, "style": style, "top_reserved": rng.chance(1, 25), "aliased": rng.chance(1, 4), "ta": ta, "tb": tb, "tc": tc, "pp": pp, "tracked": tracked})
}

fn cells(rows: &J, nullable_last: bool) -> Vec<Vec<Cell>> {
    rows.as_array().unwrap().iter().map(|r| r.as_array().unwrap().iter().map(|c| match c.as_i64() { Some(v) => Cell::Int(v), None => { let _ = nullable_last; Cell::Null } }).collect()).collect()
}

pub fn eval(case: &J) -> Outcome {
    let mut out = Outcome::new();
    let mut ctes = vec![];
    let top = emit(&case["tree"], &mut ctes);
    // `top_reserved`: the outermost projection itself names two of its columns like the unit and weight columns of the rewriting
    let tail = if case["top_reserved"] == true { ", c0 AS \"_PRIVACY_UNIT_\", 1 AS \"_PRIVACY_UNIT_WEIGHT_\"" } else { "" };
    let sql = format!("WITH {} SELECT c0 AS c0, c1 AS c1{tail} FROM {top}", ctes.join(", "));
    let kind = |t: &J| -> Vec<String> { fn walk(t: &J, acc: &mut Vec<String>) { if let Some(a) = t.as_array() { if let Some(s) = a[0].as_str() { acc.push(s.to_string()); for x in &a[1..] { if x.is_array() { walk(x, acc); } } } } } let mut v = vec![]; walk(t, &mut v); v };
    for k in kind(&case["tree"]) { out.tag(&format!("op={k}")); }
    let style = case["style"].as_str().unwrap_or("own");
    out.tag(&format!("style={style}"));
    let aliased = case["aliased"] == true;
    if aliased { out.tag("aliased-catalogue"); }
    let rels = world(style, aliased);
    let rel = match guarded(|| { let q = parse(&sql).map_err(|e| e.to_string())?; Relation::try_from(QueryWithRelations::new(&q, &rels)).map_err(|e| e.to_string()) }) {
        Ok(Ok(r)) => r, Ok(Err(e)) => { out.tag("trivial"); out.tag("compile-err"); out.aux = json!({"sql": sql, "err": e}); return out; }
        Err((loc, msg)) => { out.tag("trivial"); out.fail(&format!("C18/pup/compile-panic/{}", site(&loc, &msg)), format!("{sql}: {msg}")); return out; } };
    let pu = privacy_unit(style);
    let pup = match guarded(|| rel.rewrite_as_privacy_unit_preserving(&rels, None, pu.clone(), DpParameters::from_epsilon_delta(1.0, 1e-4), Some(Strategy::Hard))) {
        Ok(Ok(d)) => d, Ok(Err(e)) => { out.tag("trivial"); out.tag("pup-refused"); out.aux = json!({"sql": sql, "err": e.to_string()}); return out; }
        Err((loc, msg)) => { out.tag("trivial"); out.fail(&format!("C18/pup/rewrite-panic/{}", site(&loc, &msg)), format!("{sql}: {msg}")); return out; } };
    let facts = ir::facts(pup.relation());
    if !facts.noises.is_empty() || !facts.taus.is_empty() { out.tag("trivial"); out.tag("inner-dp"); out.aux = json!({"sql": sql}); return out; }
    let db = crate::exec::Db::new(RandomMode::Const(0.25));
    // the unit that owns a raw row (None: nobody — a NULL or dangling foreign key), and the loader of a (possibly restricted) database
    let rids: Vec<i64> = case["ta"].as_array().unwrap().iter().filter_map(|r| r[3].as_i64()).collect();
    let owner = |which: usize, r: &J| -> Option<i64> { match (style, which) { ("fk", 0) => r[3].as_i64(), ("fk", 2) => r[0].as_i64().filter(|x| rids.contains(x)), _ => r[0].as_i64() } };
    let load = |db: &crate::exec::Db, keep: &dyn Fn(usize, &J) -> bool| {
        let sel = |name: &str, which: usize| -> J { J::Array(case[name].as_array().unwrap().iter().filter(|r| keep(which, r)).cloned().collect()) };
        let cut = |rows: J, n: usize| -> Vec<Vec<Cell>> { cells(&rows, true).into_iter().map(|r| r[..n].to_vec()).collect() };
        // the rendered SQL reads a table at its path
        let tn = |n: &str| -> String { if aliased { format!("{n} storage") } else { n.to_string() } };
        match style {
            "weight" | "weightnohash" => { db.create_table(&tn("ta"), &["pu", "k", "x", "wt"], &cut(sel("ta", 0), 4)); db.create_table(&tn("tb"), &["pu", "k", "y", "wt"], &cut(sel("tb", 1), 4)); }
            "fk" => { db.create_table(&tn("ta"), &["pu", "k", "x", "rid"], &cut(sel("ta", 0), 4)); db.create_table(&tn("tb"), &["pu", "k", "y"], &cut(sel("tb", 1), 3)); db.create_table(&tn("tc"), &["r", "k", "z"], &cut(sel("tc", 2), 3)); }
            _ => { db.create_table(&tn("ta"), &["pu", "k", "x"], &cut(sel("ta", 0), 3)); db.create_table(&tn("tb"), &["pu", "k", "y"], &cut(sel("tb", 1), 3)); }
        }
        db.create_table(&tn("pp"), &["k", "w"], &cells(&case["pp"], false));
    };
    load(&db, &|_, _| true);
    match db.run(pup.relation()) {
        Ok((names, res)) => {
            let idx = |n: &str| names.iter().position(|x| x == n);
            let (Some(pi), Some(wi), Some(i0), Some(i1)) = (idx("_PRIVACY_UNIT_"), idx("_PRIVACY_UNIT_WEIGHT_"), idx("c0"), idx("c1")) else {
                // every table a tree reads is protected: a result without privacy unit and weight columns means protected rows are passed on untracked
                out.tag("public-result"); out.aux = json!({"sql": sql, "names": names});
                out.fail(&format!("C05/pup/no-unit-column/{style}"), format!("{sql}: the privacy-unit-preserving rewriting of a query over protected tables returns the columns {:?}: no privacy unit, no weight", names));
                out.imp = json!({"rows": "no-unit-column"});
                return out; };
            let show = |c: &Cell| -> String { match c { Cell::Null => "null".to_string(), Cell::Int(v) => v.to_string(), Cell::Real(x) if x.fract() == 0.0 => (*x as i64).to_string(), Cell::Text(t) => t.trim_start_matches("md5_").to_string(), other => format!("{:?}", other) } };
            let mut rows: Vec<String> = res.iter().map(|r| format!("{}|{}|{}|{}", show(&r[pi]), show(&r[wi]), show(&r[i0]), show(&r[i1]))).collect();
            rows.sort();
            if rows.is_empty() { out.tag("trivial"); }
            // property-level oracle (C05) on the implementation itself: the rows of unit u on D are the rows on D restricted to u
            let render = |res: &Vec<Vec<Cell>>| -> Vec<String> { let mut v: Vec<String> = res.iter().map(|r| format!("{}|{}|{}|{}", show(&r[pi]), show(&r[wi]), show(&r[i0]), show(&r[i1]))).collect(); v.sort(); v };
            let top_op = case["tree"][0].as_str().unwrap_or("?").to_string();
            let all_units: std::collections::BTreeSet<i64> = (0..3).flat_map(|w| case[["ta", "tb", "tc"][w]].as_array().unwrap().iter().filter_map(move |r| owner(w, r)).collect::<Vec<_>>()).collect();
            if let Some(r) = rows.iter().find(|r| r.starts_with("null|") || r.split('|').nth(1) == Some("null")) { out.fail(&format!("C05/pup/null-unit/{style}"), format!("{sql}: an output row has no privacy unit or weight: {r} (ta {}, tb {}, tc {})", case["ta"], case["tb"], case["tc"])); }
            for u in all_units {
                let dbu = crate::exec::Db::new(RandomMode::Const(0.25));
                load(&dbu, &|which, r| owner(which, r) == Some(u));
                if let Ok((_, resu)) = dbu.run(pup.relation()) {
                    let pre = format!("{u}|");
                    let mine: Vec<String> = rows.iter().filter(|r| r.starts_with(&pre)).cloned().collect();
                    let alone: Vec<String> = render(&resu).into_iter().filter(|r| r.starts_with(&pre)).collect();
                    if mine != alone { out.fail(&format!("C05/pup/interference/{top_op}"), format!("{sql}: rows attributed to unit {u} on the full tables {:?} differ from those on the tables restricted to unit {u} {:?} (ta {}, tb {}, pp {})", mine, alone, case["ta"], case["tb"], case["pp"])); break; }
                }
            }
            out.imp = json!({"rows": rows});
            out.aux = json!({"sql": sql});
        }
        // two nodes given the same 4-character content-derived name (the recorded C16 / C17 finding): nothing to compare
        Err(e) if e.contains("duplicate WITH table name") => { out.tag("trivial"); out.tag("cte-name-collision"); out.fail("C17/sqlite/pup-not-executable/cte-name-collision", format!("{sql}: {e}")); }
        Err(e) => { out.imp = json!("exec-error"); out.fail("C17/sqlite/pup-not-executable", format!("{sql}: {e}")); }
    }
    out
}

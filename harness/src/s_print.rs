//! stream `exprprint` (C08 / C16 / C17): random expression trees over infix (+, >, =, AND, OR), prefix (NOT, unary -) and suffix
//! (IS NULL, IN (1, 2), LIKE 'x%') operators, written by a real translator; the token sequence of the text is compared with the
//! Lean model `Qrlew.Print.print` (the writer `parse_print` / `print_injective` are about), and the text is read back by the
//! library's own expression reader, which must return the expression that was written.
use crate::common::*;
use qrlew::{dialect_translation::{bigquery::BigQueryTranslator, mssql::MsSqlTranslator, mysql::MySqlTranslator, postgresql::PostgreSqlTranslator, sqlite::SQLiteTranslator, RelationToQueryTranslator},
            expr::Expr, hierarchy::Hierarchy, sql::parse_expr, WithoutContext};
use serde_json::{json, Value as J};
use sqlparser::{dialect::GenericDialect, tokenizer::{Token, Tokenizer}};

const BIN: [&str; 5] = ["+", ">", "=", "AND", "OR"];
const PRE: [&str; 2] = ["NOT", "-"];
const SUF: [&str; 5] = ["IS NULL", "IN", "LIKE", "IS TRUE", "IS FALSE"];

fn gen_tree(rng: &mut Rng, depth: u32) -> J {
    if depth == 0 || rng.chance(1, 4) { return json!(["atom", rng.below(4)]); }
    match rng.below(10) {
        0..=4 => json!(["bin", rng.below(BIN.len() as u64), gen_tree(rng, depth - 1), gen_tree(rng, depth - 1)]),
        5 | 6 => json!(["pre", rng.below(PRE.len() as u64), gen_tree(rng, depth - 1)]),
        _ => json!(["suf", rng.below(SUF.len() as u64), gen_tree(rng, depth - 1)]),
    }
}

pub fn gen(rng: &mut Rng, _k: usize, _tier: &str) -> J {
    let depth = 1 + rng.below(4) as u32;
    json!({"expr": gen_tree(rng, depth), "dialect": *rng.pick(&["postgresql", "postgresql", "mssql", "bigquery", "mysql", "sqlite"])})
}

/// `as_read`: the form the reader gives back — it wraps the operand of IS TRUE / IS FALSE in a cast to boolean (the identity on a boolean)
fn expr_of_as(j: &J, as_read: bool) -> Expr {
    let expr_of = |j: &J| expr_of_as(j, as_read);
    match j[0].as_str().unwrap() {
        "atom" => { let i = j[1].as_u64().unwrap(); if i < 3 { Expr::col(format!("c{i}")) } else { Expr::val(7) } }
        "bin" => { let (l, r) = (expr_of(&j[2]), expr_of(&j[3])); match j[1].as_u64().unwrap() { 0 => Expr::plus(l, r), 1 => Expr::gt(l, r), 2 => Expr::eq(l, r), 3 => Expr::and(l, r), _ => Expr::or(l, r) } }
        "pre" => { let x = expr_of(&j[2]); if j[1].as_u64().unwrap() == 0 { Expr::not(x) } else { Expr::opposite(x) } }
        _ => { let x = expr_of(&j[2]); match j[1].as_u64().unwrap() { 0 => Expr::is_null(x), 1 => Expr::in_list(x, Expr::list([1i64, 2])), 2 => Expr::like(x, Expr::val("x%".to_string())), 3 | 4 => { let x = if as_read { Expr::cast_as_boolean(x) } else { x }; Expr::is_bool(x, Expr::val(j[1].as_u64().unwrap() == 3)) } _ => unreachable!() } }
    }
}
fn expr_of(j: &J) -> Expr { expr_of_as(j, false) }

/// the text as the model's tokens: `(`, `)`, `a<i>`, `op:<k>`, `pre:<k>`, `suf:<k>`; anything else is kept verbatim (and will not match)
fn tokens(text: &str) -> Vec<String> {
    let toks: Vec<Token> = Tokenizer::new(&GenericDialect {}, text).tokenize().unwrap_or_default().into_iter().filter(|t| !matches!(t, Token::Whitespace(_))).collect();
    let mut out = vec![]; let mut i = 0;
    let word = |t: &Token| -> Option<String> { if let Token::Word(w) = t { Some(w.value.to_uppercase()) } else { None } };
    while i < toks.len() {
        let t = &toks[i];
        let prefix_pos = out.last().map_or(true, |l: &String| l == "(" || l.starts_with("op:") || l.starts_with("pre:"));
        match t {
            Token::LParen => out.push("(".into()), Token::RParen => out.push(")".into()),
            Token::Number(n, _) => out.push(if n == "7" { "a3".into() } else { format!("num:{n}") }),
            Token::Plus => out.push("op:0".into()), Token::Gt => out.push("op:1".into()), Token::Eq => out.push("op:2".into()),
            Token::Minus if prefix_pos => out.push("pre:1".into()),
            Token::Word(w) => {
                let u = w.value.to_uppercase();
                if w.quote_style.is_some() || (u.starts_with('C') && u.len() == 2 && w.value.as_bytes()[1].is_ascii_digit()) { out.push(format!("a{}", &w.value[1..])); }
                else if u == "AND" { out.push("op:3".into()); } else if u == "OR" { out.push("op:4".into()); } else if u == "NOT" { out.push("pre:0".into()); }
                else if u == "IS" && toks.get(i + 1).and_then(word).as_deref() == Some("NULL") { out.push("suf:0".into()); i += 1; }
                else if u == "IS" && toks.get(i + 1).and_then(word).as_deref() == Some("TRUE") { out.push("suf:3".into()); i += 1; }
                else if u == "IS" && toks.get(i + 1).and_then(word).as_deref() == Some("FALSE") { out.push("suf:4".into()); i += 1; }
                else if u == "IN" { // IN ( 1 , 2 )
                    let mut j = i + 1; let mut depth = 0; loop { match toks.get(j) { Some(Token::LParen) => depth += 1, Some(Token::RParen) => { depth -= 1; if depth == 0 { break; } } None => break, _ => {} } j += 1; }
                    out.push("suf:1".into()); i = j; }
                else if u == "LIKE" { out.push("suf:2".into()); i += 1; }
                else { out.push(format!("word:{u}")); }
            }
            other => out.push(format!("tok:{other}")),
        }
        i += 1;
    }
    out
}

pub fn eval(case: &J) -> Outcome {
    let mut out = Outcome::new();
    let e = expr_of(&case["expr"]);
    let d = case["dialect"].as_str().unwrap_or("postgresql");
    out.tag(&format!("dialect={d}"));
    if case["expr"][0] == "atom" { out.tag("trivial"); }
    let text = match guarded(|| match d { "mssql" => MsSqlTranslator.expr(&e).to_string(), "bigquery" => BigQueryTranslator.expr(&e).to_string(), "mysql" => MySqlTranslator.expr(&e).to_string(),
                                        "sqlite" => SQLiteTranslator.expr(&e).to_string(), _ => PostgreSqlTranslator.expr(&e).to_string() }) {
        Ok(t) => t, Err((loc, msg)) => { out.tag("trivial"); out.fail(&format!("C18/exprprint/{d}/write-panic/{}", site(&loc, &msg)), format!("{e}: {msg}")); return out; } };
    // the library's own reader must return the expression that was written (structural equality)
    match guarded(|| { let a = parse_expr(&text).map_err(|x| x.to_string())?; Expr::try_from(a.with(&Hierarchy::empty())).map_err(|x| x.to_string()) }) {
        // (compared through the fully parenthesised Display: the list of an IN is a different `Value` spelling after a round trip)
        Ok(Ok(back)) => { if back != e && back.to_string() != e.to_string() && back.to_string() != expr_of_as(&case["expr"], true).to_string() {
            // one observation, three properties: the rendered text does not mean what the relation means (C08), reading it back does not
            // reproduce the expression it came from (C16), and the dialect's text has another meaning (C17)
            for p in ["C08", "C16", "C17"] { out.fail(&format!("{p}/exprprint/{d}/read-back-differs"), format!("{e} is written `{text}`, which the reader takes for {back}")); } } else { out.tag("read-back-same"); } }
        Ok(Err(err)) => out.fail(&format!("C17/exprprint/{d}/not-readable"), format!("{e} is written `{text}`, which the reader rejects: {err}")),
        Err((loc, msg)) => out.fail(&format!("C18/exprprint/{d}/read-panic/{}", site(&loc, &msg)), format!("`{text}`: {msg}")),
    }
    out.imp = json!(tokens(&text));
    out.aux = json!({"text": text});
    out
}

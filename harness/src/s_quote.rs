//! stream `quote`: the text layer of rendering — how a string literal and a (quoted) identifier are written by each
//! translator, compared with the Lean model of sqlparser's escaping (`Model/Quote.lean`), and read back with the
//! library's own parser (oracle: the value that comes back is the value that went in).
//! Also `col`: a Map whose output column is named `s`, rendered and compiled back against the same tables.
use crate::common::*;
use qrlew::{
    ast,
    builder::{Ready, With},
    dialect_translation::{bigquery::BigQueryTranslator, mssql::MsSqlTranslator, mysql::MySqlTranslator, postgresql::PostgreSqlTranslator, sqlite::SQLiteTranslator, RelationToQueryTranslator, RelationWithTranslator},
    expr::{Expr, Identifier},
    data_type::DataTyped as _,
    relation::{Relation, Variant as _},
    sql::{parse, relation::QueryWithRelations},
};
use serde_json::{json, Value as J};
use sqlparser::{dialect::{BigQueryDialect, Dialect, MsSqlDialect, MySqlDialect, PostgreSqlDialect, SQLiteDialect}, parser::Parser};

const ALPHA: [char; 14] = ['a', 'b', ' ', '\'', '\'', '"', '"', '\\', '`', ']', '[', 'é', '%', '.'];

pub fn gen(rng: &mut Rng, k: usize, _tier: &str) -> J {
    let len = match rng.below(8) { 0 => 0, 1 => 1, _ => 1 + rng.below(6) };
    let s: String = if k % 5 == 4 {
        // mostly letters with one or two special characters: the common shape of real values
        let mut v: Vec<char> = (0..len.max(2)).map(|_| *rng.pick(&['a', 'b', 'c', ' '])).collect();
        for _ in 0..1 + rng.below(2) { let i = rng.below(v.len() as u64) as usize; v[i] = *rng.pick(&['\'', '"', '\\', '`']); }
        v.into_iter().collect()
    } else { (0..len).map(|_| *rng.pick(&ALPHA)).collect() };
    let kind = *rng.pick(&["lit", "lit", "ident", "ident", "col"]);
    let dialect = *rng.pick(&["pg", "pg", "sqlite", "mysql", "mssql", "bigquery"]);
    json!({"s": s, "kind": kind, "dialect": dialect})
}

/// which of the shapes the escaping heuristic treats as already escaped occur in `s` for quote `q`
fn shape(s: &str, q: char) -> &'static str {
    let cs: Vec<char> = s.chars().collect();
    let mut doubled = false; let mut bs = false;
    for i in 0..cs.len() { if cs[i] == q { if i > 0 && cs[i - 1] == '\\' { bs = true; } if i + 1 < cs.len() && cs[i + 1] == q { doubled = true; } } }
    match (doubled, bs) { (false, false) => "clean", (true, false) => "doubled-quote", (false, true) => "backslash-quote", _ => "doubled-and-backslash" }
}

fn with_tr<T>(d: &str, f: impl FnOnce(&dyn Fn(&Expr) -> ast::Expr, &dyn Fn(&Identifier) -> Vec<ast::Ident>) -> T) -> T {
    macro_rules! go { ($t:expr) => {{ let t = $t; f(&|e| t.expr(e), &|i| t.identifier(i)) }} }
    match d { "pg" => go!(PostgreSqlTranslator), "sqlite" => go!(SQLiteTranslator), "mysql" => go!(MySqlTranslator), "mssql" => go!(MsSqlTranslator), _ => go!(BigQueryTranslator) }
}

/// parse `text` as one expression with the dialect the library reads target `d` with
fn read_expr(d: &str, text: &str) -> Result<ast::Expr, String> {
    fn go<D: Dialect>(dial: D, text: &str) -> Result<ast::Expr, String> {
        Parser::new(&dial).try_with_sql(text).and_then(|mut p| { let e = p.parse_expr()?; p.expect_token(&sqlparser::tokenizer::Token::EOF)?; Ok(e) }).map_err(|e| e.to_string())
    }
    match d { "pg" => go(PostgreSqlDialect {}, text), "sqlite" => go(SQLiteDialect {}, text), "mysql" => go(MySqlDialect {}, text), "mssql" => go(MsSqlDialect {}, text), _ => go(BigQueryDialect {}, text) }
}

pub fn eval(case: &J) -> Outcome {
    let mut out = Outcome::new();
    let s = case["s"].as_str().unwrap().to_string();
    let kind = case["kind"].as_str().unwrap();
    let d = case["dialect"].as_str().unwrap();
    out.tag(&format!("kind={kind}")); out.tag(&format!("dialect={d}")); out.tag(&format!("len={}", s.chars().count().min(4)));
    match kind {
        "lit" => {
            let sh = shape(&s, '\''); out.tag(&format!("shape={sh}"));
            let text = match guarded(|| with_tr(d, |ex, _| ex(&Expr::val(s.clone())).to_string())) { Ok(t) => t, Err((loc, msg)) => { out.fail(&format!("C18/quote/render-panic/{}", site(&loc, &msg)), format!("literal {s:?}: {msg}")); return out; } };
            // read back with the dialect the library reads this target with
            let back = read_expr(d, &text);
            let got = match &back { Ok(ast::Expr::Value(ast::Value::SingleQuotedString(v))) => Some(v.clone()), Ok(ast::Expr::Nested(b)) => match &**b { ast::Expr::Value(ast::Value::SingleQuotedString(v)) => Some(v.clone()), _ => None }, _ => None };
            out.imp = json!({"text": text, "back": got});
            let bsl = if s.contains('\\') { "+backslash" } else { "" };
            if got.as_deref() != Some(&s) { out.fail(&format!("{}/quote/literal-changed/{sh}{}", if d == "pg" { "C08" } else { "C17" }, if d == "pg" { String::new() } else { format!("{bsl}/{d}") }), format!("the text value {s:?} is rendered for {d} as {text} which reads back as {:?}", got.map(|g| format!("{g:?}")).unwrap_or_else(|| format!("{:?}", back.map(|e| e.to_string()))))); }
        }
        "ident" => {
            let q = match d { "mysql" | "bigquery" => '`', _ => '"' };
            let sh = if s.is_empty() { "empty" } else { shape(&s, q) }; out.tag(&format!("shape={sh}"));
            let text = match guarded(|| with_tr(d, |_, id| id(&Identifier::from_name(s.clone())).iter().map(|i| i.to_string()).collect::<Vec<_>>().join("."))) { Ok(t) => t, Err((loc, msg)) => { out.fail(&format!("C18/quote/render-panic/{}", site(&loc, &msg)), format!("identifier {s:?}: {msg}")); return out; } };
            let back = read_expr(d, &text);
            let got = match &back { Ok(ast::Expr::Identifier(i)) => Some(i.value.clone()), _ => None };
            out.imp = json!({"text": text, "back": got});
            if got.as_deref() != Some(&s) { out.fail(&format!("{}/quote/identifier-changed/{sh}{}", if d == "pg" { "C08" } else { "C17" }, if d == "pg" { String::new() } else { format!("/{d}") }), format!("the name {s:?} is rendered for {d} as {text} which reads back as {:?}", got.map(|g| format!("{g:?}")).unwrap_or_else(|| format!("{:?}", back.map(|e| e.to_string()))))); }
        }
        _ => {
            // a Map with an output column named `s` and a text literal `s`: render, compile back, compare names and the literal's type
            let sh = if s.is_empty() { "empty".to_string() } else if shape(&s, '"') == "clean" && shape(&s, '\'') == "clean" { "clean".to_string() } else { "unclean".to_string() }; out.tag(&format!("shape={sh}"));
            let rels = crate::s_sqlx::world2();
            let t1 = rels.iter().find(|(p, _)| p.last().map(|x| x == "t1").unwrap_or(false)).map(|(_, r)| (**r).clone()).unwrap();
            let built = guarded(|| -> Result<Relation, String> { Ok(Relation::map().with((s.as_str(), Expr::col("a"))).with(("lit", Expr::val(s.clone()))).input(t1.clone()).try_build().map_err(|e: qrlew::relation::Error| e.to_string())?) });
            let rel = match built { Ok(Ok(r)) => r, Ok(Err(_)) => { out.tag("trivial"); out.tag("build-err"); return out; } Err((loc, msg)) => { out.tag("trivial"); out.fail(&format!("C18/quote/build-panic/{}", site(&loc, &msg)), format!("column {s:?}: {msg}")); return out; } };
            let text = match guarded(|| ast::Query::from(RelationWithTranslator(&rel, PostgreSqlTranslator)).to_string()) { Ok(t) => t, Err((loc, msg)) => { out.fail(&format!("C18/quote/render-panic/{}", site(&loc, &msg)), format!("column {s:?}: {msg}")); return out; } };
            let back = guarded(|| { let q = parse(&text).map_err(|e| e.to_string())?; Relation::try_from(QueryWithRelations::new(&q, &rels)).map_err(|e| e.to_string()) });
            match back {
                Ok(Ok(r2)) => {
                    let (n1, n2): (Vec<String>, Vec<String>) = (rel.schema().iter().map(|f| f.name().to_string()).collect(), r2.schema().iter().map(|f| f.name().to_string()).collect());
                    if n1 != n2 { out.fail(&format!("C08/quote/column-name-changed/{sh}"), format!("columns {n1:?} are rendered as {text} which compiles back with columns {n2:?}")); }
                    else if rel.schema()[1].data_type() != r2.schema()[1].data_type() { out.fail(&format!("C08/quote/literal-changed/in-relation/{}", shape(&s, '\'')), format!("literal column of type {} is rendered as {text} which compiles back with type {}", rel.schema()[1].data_type(), r2.schema()[1].data_type())); }
                }
                Ok(Err(e)) => out.fail(&format!("C08/quote/rendered-not-readable/{sh}"), format!("columns named {s:?}: rendered {text} is rejected by the library's reader: {e}")),
                Err((loc, msg)) => out.fail(&format!("C18/quote/read-panic/{}", site(&loc, &msg)), format!("{text}: {msg}")),
            }
        }
    }
    out
}

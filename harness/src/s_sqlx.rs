//! Stream `sqlx`: generated queries of the supported SQL fragment over a small schema with constraints, NULLs and
//! boundary values; each case is compiled to a Relation, rendered, and executed on SQLite together with the original text.
//! One pass serves three properties:
//!   C07  every result cell lies in the declared column type (NULL only where optional) and the row count in the declared size;
//!   C14  columns declared unique / primary key have pairwise distinct non-null values;
//!   C08  the rendered SQL returns the same rows as the original SQL (same order under a total ORDER BY, same column names).
use crate::common::*;
use crate::exec::{Cell, Db, RandomMode};
use crate::s_dtype::mem;
use qrlew::{
    builder::{Ready, With}, data_type::{value::Value, DataType, DataTyped}, hierarchy::Hierarchy,
    relation::{field::Constraint, Relation, Variant as _}, sql::{parse, relation::QueryWithRelations},
};
use serde_json::{json, Value as J};
use std::sync::Arc;

pub const T1_SIZE: i64 = 8;
pub const T2_SIZE: i64 = 10;

/// t1(a int[0,10] PRIMARY KEY, b int[-5,5], c float[0,100], d text{x,y,z}, e optional int[0,3]);  t2(a int[0,10] FOREIGN KEY (repeats, not unique), f float[-10,10], g text{x,y,w});
/// t3(k int[0,3] UNIQUE, h int[0,100])
pub fn world2() -> Hierarchy<Arc<Relation>> {
    let t1: Relation = Relation::table().name("t1").schema(vec![
        ("a", DataType::integer_interval(0, 10), Some(Constraint::PrimaryKey)), ("b", DataType::integer_interval(-5, 5), None),
        ("c", DataType::float_interval(0., 100.), None), ("d", DataType::text_values(["x".to_string(), "y".to_string(), "z".to_string()]), None),
        ("e", DataType::optional(DataType::integer_interval(0, 3)), None),
    ].into_iter().collect::<qrlew::relation::Schema>()).size(T1_SIZE).build();
    let t2: Relation = Relation::table().name("t2").schema(vec![
        ("a", DataType::integer_interval(0, 10), Some(Constraint::ForeignKey)), ("f", DataType::float_interval(-10., 10.), None),
        ("g", DataType::text_values(["x".to_string(), "yé".to_string(), "w東京".to_string()]), None),   // multi-byte characters on purpose
    ].into_iter().collect::<qrlew::relation::Schema>()).size(T2_SIZE).build();
    let t3: Relation = Relation::table().name("t3").schema(vec![
        ("k", DataType::integer_interval(0, 3), Some(Constraint::Unique)), ("h", DataType::integer_interval(0, 100), None),
        ("w", DataType::float_interval(0., 4.), Some(Constraint::Unique)),
    ].into_iter().collect::<qrlew::relation::Schema>()).size(4).build();
    vec![(vec!["t1".to_string()], Arc::new(t1)), (vec!["t2".to_string()], Arc::new(t2)), (vec!["t3".to_string()], Arc::new(t3))].into_iter().collect()
}

/// the same catalogue with every table at a schema-qualified path and under a relation name of its own: main.t1 is the relation `t1x`
/// (queries refer to it as `t1`, the unambiguous suffix of its path; SQLite resolves `"main"."t1"` to the same table)
pub fn world2q() -> Hierarchy<Arc<Relation>> {
    world2().iter().map(|(path, r)| { let n = path.last().unwrap().clone();
        let t: Relation = Relation::table().name(format!("{n}x")).path(vec!["main".to_string(), n.clone()]).schema(r.schema().clone()).size(match r.size().max() { Some(m) => *m, None => 10 }).build();
        (vec!["main".to_string(), n], Arc::new(t)) }).collect()
}

pub struct Data2 { pub t1: Vec<Vec<Cell>>, pub t2: Vec<Vec<Cell>>, pub t3: Vec<Vec<Cell>> }

/// conforming instances: sizes within the declared bounds (incl. empty tables), unique keys distinct, boundary values, NULLs in `e`
pub fn gen_data2(rng: &mut Rng) -> Data2 {
    let n1 = if rng.chance(1, 8) { 0 } else { rng.range(1, T1_SIZE) as usize };
    let mut keys: Vec<i64> = (0..=10).collect();
    let mut t1 = vec![];
    for _ in 0..n1 { let i = rng.below(keys.len() as u64) as usize; let a = keys.remove(i);
        let b = *rng.pick(&[-5i64, 5, 0, -1, 1, 2, 3]); let c = *rng.pick(&[0.0, 100.0, 0.5, 12.25, 50.0, 99.75]);
        let d = rng.pick(&["x", "y", "z"]).to_string(); let e = if rng.chance(1, 3) { Cell::Null } else { Cell::Int(rng.range(0, 3)) };
        t1.push(vec![Cell::Int(a), Cell::Int(b), Cell::Real(c), Cell::Text(d), e]); }
    let n2 = if rng.chance(1, 8) { 0 } else { rng.range(1, T2_SIZE) as usize };
    // duplicate and unmatched join keys
    let t2: Vec<Vec<Cell>> = (0..n2).map(|_| vec![Cell::Int(*rng.pick(&[0i64, 1, 1, 2, 3, 10, 7])), Cell::Real(*rng.pick(&[-10.0, 10.0, 0.0, 2.5, -0.25])), Cell::Text(rng.pick(&["x", "yé", "w東京"]).to_string())]).collect();
    let n3 = rng.range(0, 4) as usize;
    let mut k3: Vec<i64> = (0..=3).collect();
    let mut w3: Vec<f64> = vec![1.2, 1.4, 2.5, 3.0, 0.0, 0.6, 4.0];
    let t3: Vec<Vec<Cell>> = (0..n3).map(|_| { let i = rng.below(k3.len() as u64) as usize; let j = rng.below(w3.len() as u64) as usize; vec![Cell::Int(k3.remove(i)), Cell::Int(*rng.pick(&[0i64, 100, 7, 50])), Cell::Real(w3.remove(j))] }).collect();
    Data2 { t1, t2, t3 }
}

impl Data2 {
    pub fn load(&self) -> Db {
        let db = Db::new(RandomMode::Const(0.25));
        self.load_into(&db);
        db
    }
    /// `RANDOM()` draws distinct values (one SplitMix64 stream per connection)
    pub fn load_seeded(&self, seed: u64) -> Db {
        let db = Db::new(RandomMode::Seeded(seed));
        self.load_into(&db);
        db
    }
    pub fn load_into(&self, db: &Db) {
        db.create_table("t1", &["a", "b", "c", "d", "e"], &self.t1);
        db.create_table("t2", &["a", "f", "g"], &self.t2);
        db.create_table("t3", &["k", "h", "w"], &self.t3);
    }
}

// ------------------------------------------------------------------------------------------------
// query generator (the fragment documented as supported)

struct Src { from: String, cols: Vec<(String, &'static str)> }   // (qualified column expression, kind: i/f/t)

fn gen_source(rng: &mut Rng) -> Src {
    match rng.below(11) {
        // joins whose ON clause is the constant TRUE (inner and outer: an outer join keeps the preserved side when the other is empty)
        10 => { let jt = *rng.pick(&["JOIN", "LEFT JOIN", "RIGHT JOIN", "FULL JOIN", "LEFT JOIN"]);
                Src { from: format!("t3 {jt} t2 ON TRUE"), cols: vec![("t3.k".into(), "i"), ("t3.h".into(), "i"), ("t2.f".into(), "f"), ("t2.g".into(), "t"), ("t2.a".into(), "i")] } }
        0 | 1 | 2 => Src { from: "t1".into(), cols: vec![("a".into(), "i"), ("b".into(), "i"), ("c".into(), "f"), ("d".into(), "t"), ("e".into(), "i")] },
        3 => Src { from: "t2".into(), cols: vec![("a".into(), "i"), ("f".into(), "f"), ("g".into(), "t")] },
        4 | 5 => { let jt = *rng.pick(&["JOIN", "INNER JOIN", "LEFT JOIN", "RIGHT JOIN", "FULL JOIN"]);
                   Src { from: format!("t1 {jt} t2 ON t1.a = t2.a"), cols: vec![("t1.a".into(), "i"), ("t1.b".into(), "i"), ("t1.c".into(), "f"), ("t1.d".into(), "t"), ("t2.f".into(), "f"), ("t2.g".into(), "t"), ("t2.a".into(), "i")] } }
        6 => { let jt = *rng.pick(&["JOIN", "LEFT JOIN"]);
               Src { from: format!("t1 {jt} t2 USING (a)"), cols: vec![("a".into(), "i"), ("b".into(), "i"), ("c".into(), "f"), ("f".into(), "f"), ("g".into(), "t")] } }
        // ON clauses with a term on one side only: an outer join still returns the rows of its preserved side that fail the term
        7 if rng.chance(1, 2) => { let jt = *rng.pick(&["LEFT JOIN", "RIGHT JOIN", "FULL JOIN", "JOIN"]);
               let extra = match rng.below(4) { 0 => format!("t1.b > {}", rng.range(-2, 3)), 1 => format!("t3.h > {}", rng.range(10, 60)), 2 => format!("t1.b < {}", rng.range(0, 4)), _ => format!("t3.k < {}", rng.range(1, 3)) };
               Src { from: format!("t1 {jt} t3 ON t1.e = t3.k AND {extra}"), cols: vec![("t1.a".into(), "i"), ("t1.b".into(), "i"), ("t3.k".into(), "i"), ("t3.h".into(), "i"), ("t1.d".into(), "t")] } }
        7 => { let jt = *rng.pick(&["JOIN", "LEFT JOIN", "RIGHT JOIN", "FULL JOIN"]);
               Src { from: format!("t1 {jt} t3 ON t1.e = t3.k"), cols: vec![("t1.a".into(), "i"), ("t1.b".into(), "i"), ("t3.k".into(), "i"), ("t3.h".into(), "i"), ("t1.d".into(), "t")] } }
        8 => Src { from: "t1 NATURAL JOIN t2".into(), cols: vec![("a".into(), "i"), ("b".into(), "i"), ("f".into(), "f"), ("d".into(), "t")] },
        _ => Src { from: "(SELECT a AS a, b + 1 AS b, c AS c, d AS d FROM t1 WHERE b > -3) AS s".into(), cols: vec![("a".into(), "i"), ("b".into(), "i"), ("c".into(), "f"), ("d".into(), "t")] },
    }
}

fn pick_col<'a>(rng: &mut Rng, s: &'a Src, kinds: &str) -> Option<&'a (String, &'static str)> {
    let c: Vec<&(String, &'static str)> = s.cols.iter().filter(|c| kinds.contains(c.1)).collect();
    if c.is_empty() { None } else { Some(c[rng.below(c.len() as u64) as usize]) }
}

fn gen_scalar(rng: &mut Rng, s: &Src, depth: u32) -> String {
    let num = pick_col(rng, s, "if").map(|c| c.0.clone()).unwrap_or("1".into());
    if depth == 0 { return num; }
    match rng.below(24) {
        // a predicate (IS NULL, IN, LIKE, BETWEEN) as the right-hand operand of a comparison or of an arithmetic operator: its rendering must
        // keep it delimited, whatever the precedence of the two operators
        // a predicate applied to a boolean combination (three-valued logic tests): IS NULL / IN over OR, AND, NOT
        23 => { let d = pick_col(rng, s, "if").map(|c| c.0.clone()).unwrap_or("1".into());
                let inner = match rng.below(3) { 0 => format!("{num} > {} OR {d} > {}", rng.range(0, 8), rng.range(0, 4)), 1 => format!("{num} > {} AND {d} > {}", rng.range(0, 4), rng.range(0, 4)), _ => format!("NOT ({d} > {})", rng.range(0, 4)) };
                let test = *rng.pick(&["IS NULL", "IS NOT NULL", "IN (FALSE)", "IN (TRUE)", "IS TRUE", "IS FALSE"]);
                format!("CASE WHEN ({inner}) {test} THEN 1 ELSE 0 END") }
        22 => { let d = pick_col(rng, s, "if").map(|c| c.0.clone()).unwrap_or("1".into());
                let pred = match rng.below(4) { 0 => format!("{d} IS NULL"), 1 => format!("{d} IN (1, 2, 5)"), 2 => format!("{d} IS NOT NULL"), _ => pick_col(rng, s, "t").map(|t| format!("{} LIKE 'x%'", t.0)).unwrap_or(format!("{d} IN (0, 3)")) };
                let op = *rng.pick(&["=", "<>", "=", "<"]);
                format!("CASE WHEN ({num} > {}) {op} ({pred}) THEN 1 ELSE 0 END", rng.range(0, 6)) }
        // float constants that need all 17 significant digits, of large and of tiny magnitude: a renderer may not move them by an ulp
        20 => { let k = *rng.pick(&["12345678901.234568", "98765432109.87654", "1.2345678901234567e-11", "123456789012345.67"]); format!("{num} + {k}") }
        21 => { let k = *rng.pick(&["12345678901.234568", "1.2345678901234567e-11", "7.0000000000000007e-12"]); format!("CASE WHEN {num} * 0 + {k} = {k} THEN 1 ELSE 0 END") }
        // comparisons whose threshold sits exactly on a bound of some column (0, 3, 5, 10, 100, -5, -10 are bounds of the harness tables),
        // projected as a flag, inside a CASE, or as a range test
        17 => { let k = *rng.pick(&[0i64, 3, 5, 10, 100, -5, -10]); let op = *rng.pick(&[">=", "<=", ">", "<"]); format!("CASE WHEN {num} {op} {k} THEN 1000 ELSE {num} END") }
        18 => { let k = *rng.pick(&[0i64, 3, 5, 10, 100, -5, -10]); let op = *rng.pick(&[">=", "<=", "=", "<>"]); format!("CASE WHEN {num} {op} {k} THEN 'edge' ELSE 'in' END") }
        19 => { let k = *rng.pick(&[3i64, 5, 10, 100]); format!("CASE WHEN {num} BETWEEN {k} AND {} THEN 1 ELSE 0 END", k + 5) }
        // unary minus over a sum / difference (precedence of the rendered minus)
        15 => format!("- ({num} + {})", rng.range(1, 4)),
        16 => { let o = pick_col(rng, s, "if").map(|c| c.0.clone()).unwrap_or("1".into()); format!("- ({num} - {o})") }
        // the mathematical and text functions the reader lists as supported
        12 => { let f = *rng.pick(&["sqrt(abs({x}))", "exp({x} / 10)", "ln(abs({x}) + 1)", "log10(abs({x}) + 1)", "sin({x})", "cos({x})", "round({x} / 3)", "sign({x})", "pow({x}, 2)", "trunc({x} / 3)", "{x} * {x}", "- {x}", "tan({x} / 20)", "log2(abs({x}) + 1)", "abs({x}) + sign({x})"]); f.replace("{x}", &num) }
        13 => pick_col(rng, s, "t").map(|c| { let f = *rng.pick(&["lower({t})", "substr({t}, 1, 1)", "substr({t}, 2)", "substr({t}, 2, 1)", "substring({t} from 2 for 2)", "ltrim({t})", "rtrim({t})", "{t} || 'x'", "char_length({t})", "upper(lower({t}))", "concat(lower({t}), upper({t}))"]); f.replace("{t}", &c.0) }).unwrap_or(num),
        14 => format!("CASE WHEN {num} IS NULL THEN -1 WHEN {num} BETWEEN 1 AND 4 THEN 1 ELSE 0 END"),
        // several WHEN branches with overlapping conditions: the first match wins
        9 => { let (x, y) = (rng.range(0, 4), rng.range(3, 9)); format!("CASE WHEN {num} < {x} THEN 1 WHEN {num} < {y} THEN 2 WHEN {num} < {} THEN 3 ELSE 4 END", y + 2) }
        10 => pick_col(rng, s, "t").map(|c| format!("CASE WHEN {num} > 5 THEN 'hi' WHEN {num} > 1 THEN {} ELSE 'lo' END", c.0)).unwrap_or(num),
        11 => format!("least({num}, {}) - {}", rng.range(0, 6), rng.range(0, 3)),
        0 => format!("{num} + {}", rng.range(-3, 3)),
        1 => format!("{num} * 2"),
        2 => format!("abs({num})"),
        3 => format!("CASE WHEN {num} > 2 THEN {num} ELSE 0 END"),
        4 => format!("{} - {}", gen_scalar(rng, s, depth - 1), pick_col(rng, s, "if").map(|c| c.0.clone()).unwrap_or("1".into())),
        5 => if rng.chance(1, 3) { let o = pick_col(rng, s, "if").map(|c| c.0.clone()).unwrap_or("1".into()); format!("{}({num}, {o}, {})", *rng.pick(&["greatest", "least"]), rng.range(0, 4)) } else { format!("greatest({num}, {})", rng.range(0, 4)) },
        6 => format!("coalesce({num}, 0)"),
        7 => pick_col(rng, s, "t").map(|c| match rng.below(5) { 0 => format!("concat({}, 'x')", c.0), 1 => format!("concat({}, '-', upper({}))", c.0, c.0), 2 => format!("concat({})", c.0), 3 => format!("concat('a', {}, 'b', 'c')", c.0), _ => format!("upper({})", c.0) }).unwrap_or(num),
        _ => num,
    }
}

fn gen_where(rng: &mut Rng, s: &Src) -> String {
    let c = pick_col(rng, s, "if").map(|c| c.0.clone()).unwrap_or("1".into());
    match rng.below(15) {
        14 => { let d = pick_col(rng, s, "if").map(|c| c.0.clone()).unwrap_or("1".into()); let pred = match rng.below(3) { 0 => format!("{d} IS NULL"), 1 => format!("{d} IN (1, 2, 5)"), _ => format!("{d} IS NOT NULL") };
                format!("({c} > {}) {} ({pred})", rng.range(0, 5), *rng.pick(&["=", "<>"])) }
        // negation of a conjunction / disjunction / range (precedence of the rendered NOT)
        11 => { let d = pick_col(rng, s, "if").map(|c| c.0.clone()).unwrap_or("1".into()); format!("NOT ({c} > {} AND {d} < {})", rng.range(0, 4), rng.range(3, 8)) }
        12 => { let d = pick_col(rng, s, "if").map(|c| c.0.clone()).unwrap_or("1".into()); format!("NOT ({c} < {} OR {d} >= {})", rng.range(1, 4), rng.range(2, 6)) }
        13 => format!("{c} NOT BETWEEN {} AND {}", rng.range(0, 3), rng.range(3, 7)),
        6 => format!("{c} BETWEEN {} AND {}", rng.range(-2, 3), rng.range(3, 9)),
        7 => format!("NOT ({c} > {})", rng.range(0, 6)),
        8 => format!("{c} IS NOT NULL AND {c} <> {}", rng.range(0, 5)),
        9 => pick_col(rng, s, "t").map(|t| format!("{} LIKE 'x%' OR {c} < 3", t.0)).unwrap_or(format!("{c} >= 2")),
        10 => format!("abs({c}) + 1 > {} AND NOT ({c} = {})", rng.range(1, 5), rng.range(0, 5)),
        0 => format!("{c} > {}", rng.range(-2, 6)), 1 => format!("{c} <= {}", rng.range(-2, 8)),
        2 => format!("{c} IN ({}, {})", rng.range(0, 4), rng.range(4, 9)),
        3 => { let d = pick_col(rng, s, "if").map(|c| c.0.clone()).unwrap_or("1".into()); format!("{c} > 1 AND {d} < 9") }
        4 => { let d = pick_col(rng, s, "if").map(|c| c.0.clone()).unwrap_or("1".into()); format!("{c} < 2 OR {d} >= 3") }
        _ => pick_col(rng, s, "t").map(|t| format!("{} = 'x'", t.0)).unwrap_or(format!("{c} = 1")),
    }
}

pub fn gen_sql(rng: &mut Rng) -> (String, bool) {
    let s = gen_source(rng);
    let where_ = if rng.chance(1, 2) { format!(" WHERE {}", gen_where(rng, &s)) } else { String::new() };
    // all the columns of a base table, under their own names, in another order — at the top, in a CTE and in a derived table
    if rng.chance(1, 40) { return (rng.pick(&["SELECT d, c, b, a, e FROM t1", "SELECT g, a, f FROM t2", "WITH u AS (SELECT h, w, k FROM t3) SELECT k AS k, h AS h FROM u WHERE h > 10",
        "SELECT s.g AS g, s.a AS a FROM (SELECT f, g, a FROM t2) AS s WHERE s.f > 0", "SELECT x.b AS b, t3.h AS h FROM (SELECT e, d, c, b, a FROM t1) AS x JOIN t3 ON x.e = t3.k"]).to_string(), false); }
    match rng.below(10) {
        // plain projection, optionally DISTINCT / ORDER BY / LIMIT (LIMIT only under a total order)
        0 | 1 | 2 => {
            let n = 1 + rng.below(3) as usize;
            let items: Vec<String> = (0..n).map(|i| { let d = rng.below(3) as u32; format!("{} AS c{i}", gen_scalar(rng, &s, d)) }).collect();
            let distinct = if rng.chance(1, 5) { "DISTINCT " } else { "" };
            let total: Vec<String> = (0..n).map(|i| format!("c{i}")).collect();
            let (order, ordered) = match rng.below(4) { 0 => (format!(" ORDER BY {}", total.join(", ")), true), 1 => (format!(" ORDER BY {} DESC, {}", total[0], total.join(", ")), true), _ => (String::new(), false) };
            let lim = if ordered && rng.chance(1, 2) { format!(" LIMIT {}{}", rng.range(0, 6), if rng.chance(1, 3) { format!(" OFFSET {}", rng.range(0, 3)) } else { String::new() }) } else { String::new() };
            (format!("SELECT {distinct}{} FROM {}{where_}{order}{lim}", items.join(", "), s.from), ordered)
        }
        // aggregation: GROUP BY column / expression / alias, HAVING, mixed aggregate-scalar expressions
        3 | 4 | 5 | 6 => {
            let key = pick_col(rng, &s, "it").map(|c| c.0.clone());
            let n = 1 + rng.below(3) as usize;
            let aggs: Vec<String> = (0..n).map(|i| { let c = pick_col(rng, &s, "if").map(|c| c.0.clone()).unwrap_or("1".into());
                let a = match rng.below(10) { 9 => format!("{}(ALL {c})", *rng.pick(&["sum", "count", "avg"])), 0 => format!("sum({c})"), 1 => format!("count({c})"), 2 => "count(*)".to_string(), 3 => format!("avg({c})"), 4 => format!("min({c})"), 5 => format!("max({c})"),
                                             6 => format!("sum({c}) + count({c})"), 7 => format!("1 + max({c}) * 2"), _ => format!("count(DISTINCT {c})") };
                format!("{a} AS m{i}") }).collect();
            match (key, rng.below(4)) {
                // two grouping keys: neither is the sole key, so only a key that is unique in the input stays unique
                (Some(k), 0) if rng.chance(1, 2) => { let k2 = pick_col(rng, &s, "it").map(|c| c.0.clone()).unwrap_or(k.clone());
                    if k2 == k { (format!("SELECT {k} AS k, {} FROM {}{where_} GROUP BY {k}", aggs.join(", "), s.from), false) }
                    // DISTINCT over a grouping of which only one key is selected: groups that differ in the other key collapse
                    else if rng.chance(1, 4) { if rng.chance(1, 2) { (format!("SELECT DISTINCT {k} AS k FROM {}{where_} GROUP BY {k}, {k2}", s.from), false) } else { (format!("SELECT DISTINCT {k} AS k, count(*) AS n FROM {}{where_} GROUP BY {k}, {k2}", s.from), false) } }
                    else if rng.chance(1, 3) { (format!("SELECT {k} AS k, {k2} AS k2 FROM {}{where_} GROUP BY {k}, {k2}", s.from), false) }
                    else { (format!("SELECT {k} AS k, {k2} AS k2, {} FROM {}{where_} GROUP BY {k}, {k2}", aggs.join(", "), s.from), false) } }
                // the grouping key after, or between, the aggregates: the output keeps the order of the select list
                (Some(k), 1) if rng.chance(1, 3) => { let mut items = aggs.clone(); let pos = rng.below(items.len() as u64 + 1) as usize; items.insert(pos.max(1), format!("{k} AS k")); (format!("SELECT {} FROM {}{where_} GROUP BY {k}", items.join(", "), s.from), false) }
                (Some(k), 0) | (Some(k), 1) => { let having = if rng.chance(1, 4) { " HAVING count(*) > 1" } else { "" }; (format!("SELECT {k} AS k, {} FROM {}{where_} GROUP BY {k}{having}", aggs.join(", "), s.from), false) }
                (Some(k), 3) if rng.chance(1, 3) => (format!("SELECT {k} AS k FROM {}{where_} GROUP BY {k}", s.from), false),
                (Some(k), 2) if !k.contains('.') => (format!("SELECT {k} + 1 AS k, {} FROM {}{where_} GROUP BY {k} + 1", aggs.join(", "), s.from), false),
                // no grouping: literal and constant items before, between and after the aggregates
                _ if rng.chance(1, 2) => { let mut items = aggs.clone();
                    let pos = rng.below(items.len() as u64 + 1) as usize; items.insert(pos, "'all' AS l0".to_string());
                    if rng.chance(1, 2) { let pos = rng.below(items.len() as u64 + 1) as usize; items.insert(pos, "1 + 1 AS l1".to_string()); }
                    (format!("SELECT {} FROM {}{where_}", items.join(", "), s.from), false) }
                _ => (format!("SELECT {} FROM {}{where_}", aggs.join(", "), s.from), false),
            }
        }
        // name resolution: aliases that shadow input columns, used in GROUP BY / ORDER BY / WHERE / HAVING; shadowed table names
        7 if rng.chance(1, 2) => {
            let col = *rng.pick(&["a", "b"]);
            let other = if col == "a" { "b" } else { "a" };
            let e = match rng.below(4) { 0 => format!("CASE WHEN {other} > 2 THEN 1 ELSE 0 END"), 1 => format!("{other} + 1"), 2 => format!("abs({other})"), _ => format!("CASE WHEN {col} > 3 THEN 1 ELSE 0 END") };
            match rng.below(12) {
                // joins whose ON clause is a disjunction / carries extra conditions around an equality with a unique key
                9 => (format!("SELECT t1.a AS x, t3.k AS k, t3.h AS h FROM t1 JOIN t3 ON t1.e = t3.k OR t1.b = t3.k"), false),
                10 => (format!("SELECT t1.a AS x, t1.b AS b, t3.k AS k FROM t1 LEFT JOIN t3 ON t1.e = t3.k OR t1.a = t3.k"), false),
                11 => (format!("SELECT t3.k AS k, t1.a AS x FROM t3 JOIN t1 ON (t3.k = t1.e OR t3.k = t1.b) AND t1.b > -2"), false),
                0 => (format!("SELECT {e} AS {col}, count(*) AS n FROM t1 GROUP BY {col}"), false),
                1 => (format!("SELECT {e} AS {col}, sum(c) AS s FROM t1{where_} GROUP BY {col} HAVING count(*) > 0", where_ = if rng.chance(1, 2) { format!(" WHERE {col} > 2") } else { String::new() }), false),
                2 => (format!("SELECT b AS a, a AS b FROM t1 ORDER BY a, b"), true),
                3 => (format!("SELECT {e} AS {col}, {col} AS orig FROM t1 WHERE {col} > 3 ORDER BY {col}, orig"), true),
                4 => (format!("SELECT t1.a AS b, t2.a AS a, t1.b AS c FROM t1 JOIN t2 ON t1.a = t2.a WHERE t1.b > 0 ORDER BY b, a, c"), true),
                5 => (format!("SELECT t2.a AS a FROM (SELECT {e} AS a FROM t1 WHERE b > 0) AS t2"), false),
                6 => (format!("WITH t2 AS (SELECT {e} AS a, d AS g FROM t1) SELECT a AS a, g AS g FROM t2"), false),
                7 => (format!("SELECT {e} AS k, count(*) AS {col} FROM t1 GROUP BY k ORDER BY {col}, k"), true),
                _ => (format!("SELECT {col} AS x, {e} AS {col} FROM t1 GROUP BY {col}, {other}"), false),
            }
        }
        // set operations
        7 => { let op = *rng.pick(&["UNION", "UNION ALL", "INTERSECT", "EXCEPT"]);
               (format!("SELECT a AS x, b AS y FROM t1{} {op} SELECT a AS x, a - 2 AS y FROM t2", if rng.chance(1, 2) { " WHERE b > 0" } else { "" }), false) }
        // row-wise generators: random() is unique per row, a non-injective function of it is not
        8 if rng.chance(1, 6) => (rng.pick(&["SELECT random() AS r, a AS c1 FROM t1", "SELECT random() > 0.5 AS coin, a AS c1 FROM t1", "SELECT CASE WHEN random() > 0.5 THEN 1 ELSE 0 END AS coin, a AS c1 FROM t2",
                                       "SELECT - random() AS r, b AS c1 FROM t1", "SELECT random() + a AS r, a AS c1 FROM t1", "SELECT abs(random() - 0.5) > 0.25 AS far, k AS c1 FROM t3"]).to_string(), false),
        // the same multi-stage sub-query on both sides of a join (several shared CTEs)
        8 if rng.chance(1, 5) => { let lim = rng.range(-2, 2);
            (rng.pick(&[format!("WITH t AS (SELECT d AS d, sum(2 * a) AS s, count(*) AS n FROM t1 WHERE b > {lim} GROUP BY d) SELECT x.d AS d, x.s AS s, y.n AS n FROM t AS x JOIN t AS y ON x.d = y.d"),
                        format!("WITH t AS (SELECT b AS b, max(c) AS m FROM t1 WHERE b > {lim} GROUP BY b) SELECT x.b AS b, x.m AS m FROM t AS x JOIN t AS y ON x.b = y.b WHERE y.m > 1"),
                        format!("WITH t AS (SELECT DISTINCT a AS a, b AS b FROM t1 WHERE b > {lim}) SELECT x.a AS a, y.b AS b FROM t AS x JOIN t AS y ON x.a = y.a")]).to_string(), false) }
        // diamonds: one sub-query used on both sides of a join / set operation, with further nodes on each side
        8 if rng.chance(1, 2) => {
            let base = format!("SELECT a AS a, b AS b, c AS c FROM t1{}", if rng.chance(1, 2) { " WHERE b > -2" } else { "" });
            let (lo, hi) = (format!("SELECT a AS a, b + 1 AS v FROM t WHERE a < {}", rng.range(3, 9)), format!("SELECT a AS a, c AS w FROM t WHERE a >= {}", rng.range(0, 5)));
            match rng.below(4) {
                0 => (format!("WITH t AS ({base}), lo AS ({lo}), hi AS ({hi}) SELECT lo.a AS x, lo.v AS v, hi.w AS w FROM lo JOIN hi ON lo.a = hi.a"), false),
                1 => (format!("WITH t AS ({base}), lo AS ({lo}), hi AS (SELECT a AS a, b AS v FROM t WHERE a >= 2) SELECT a AS a, v AS v FROM lo UNION ALL SELECT a AS a, v AS v FROM hi"), false),
                2 => (format!("WITH t AS ({base}), g AS (SELECT b AS b, count(*) AS n FROM t GROUP BY b) SELECT t.a AS a, g.n AS n FROM t JOIN g ON t.b = g.b"), false),
                _ => (format!("WITH t AS ({base}), lo AS ({lo}) SELECT u.a AS x, lo.v AS v FROM (SELECT a AS a FROM t WHERE c > 1) AS u LEFT JOIN lo ON u.a = lo.a"), false),
            }
        }
        // CTEs
        8 => (format!("WITH u AS (SELECT a AS a, b * 2 AS bb, d AS d FROM t1{where_w}), v AS (SELECT a AS a, count(*) AS n FROM t2 GROUP BY a) SELECT u.a AS a, u.bb AS bb, v.n AS n FROM u JOIN v ON u.a = v.a", where_w = if rng.chance(1, 2) { " WHERE b < 4" } else { "" }), false),
        // functions of unique columns (uniqueness is propagated through functions listed as bijections)
        9 if rng.chance(2, 3) => { let e = *rng.pick(&["CAST(w AS INTEGER)", "-k", "CAST(k AS TEXT)", "CAST(w AS TEXT)", "exp(w)", "sqrt(w)", "k", "w", "CAST(k AS FLOAT)", "k + 1", "ln(w + 1)"]);
               (format!("SELECT {e} AS x, h AS y FROM t3"), false) }
        // ordered with limit over an aggregate
        _ => (format!("SELECT d AS d, sum(c) AS s FROM t1 GROUP BY d ORDER BY d LIMIT {}", rng.range(1, 3)), true),
    }
}

pub fn gen(rng: &mut Rng, _k: usize, _tier: &str) -> J {
    let (sql, ordered) = gen_sql(rng);
    json!({"sql": sql, "ordered": ordered, "data_seed": rng.next() % 1000000})
}

/// membership of an executed cell in a declared type; float results of transcendental functions (sin, ln ...) computed by SQLite may differ
/// from the library's own evaluation in the last bits, so floats are matched with a relative tolerance of 1e-9
pub fn mem_cell(t: &DataType, v: &Value) -> bool {
    if mem(t, v) { return true; }
    let base = match t { DataType::Optional(o) => o.data_type().clone(), t => t.clone() };
    let f = match v { Value::Float(f) => **f, Value::Optional(o) => match o.as_deref() { Some(Value::Float(f)) => **f, _ => return false }, _ => return false };
    if !f.is_finite() { return false; }
    if let DataType::Float(iv) = &base { let eps = 1e-9 * f.abs() + 1e-12; return iv.iter().any(|[a, b]| f >= a - eps && f <= b + eps); }
    false
}

fn cell_value(c: &Cell, t: &DataType) -> Value {
    let base = match t { DataType::Optional(o) => o.data_type().clone(), t => t.clone() };
    match (c, &base) {
        (Cell::Null, _) => Value::none(),
        (Cell::Int(i), DataType::Float(_)) => Value::float(*i as f64),
        (Cell::Int(i), DataType::Boolean(_)) => Value::boolean(*i != 0),
        (Cell::Int(i), _) => Value::integer(*i),
        (Cell::Real(f), DataType::Integer(_)) if f.fract() == 0.0 => Value::integer(*f as i64),
        (Cell::Real(f), _) => Value::float(*f),
        (Cell::Text(s), _) => Value::text(s.clone()),
    }
}

fn rows_key(rows: &[Vec<Cell>]) -> Vec<String> { rows.iter().map(|r| r.iter().map(|c| match c { Cell::Real(f) => format!("{:.6}", f), Cell::Int(i) => format!("{:.6}", *i as f64), other => other.key() }).collect::<Vec<_>>().join("|")).collect() }

pub fn query_class(sql: &str) -> String {
    let mut v = vec![];
    for (kw, name) in [("FULL JOIN", "full-join"), ("RIGHT JOIN", "right-join"), ("LEFT JOIN", "left-join"), ("NATURAL", "natural"), ("USING", "using"), ("UNION ALL", "union-all"), ("UNION", "union"), ("INTERSECT", "intersect"), ("EXCEPT", "except"),
                       ("GROUP BY", "group"), ("HAVING", "having"), ("DISTINCT", "distinct"), ("LIMIT", "limit"), ("WITH ", "cte")] {
        if sql.contains(kw) && !(name == "union" && sql.contains("UNION ALL")) { v.push(name); }
    }
    if v.is_empty() { if sql.contains("JOIN") { "inner-join".into() } else if sql.contains("sum(") || sql.contains("count(") || sql.contains("avg(") || sql.contains("min(") || sql.contains("max(") { "aggregate".into() } else { "map".into() } } else { v.join("+") }
}

/// a Map anywhere in the relation orders by a column its input does not have (the query ordered by something it did not select)
pub fn orders_by_missing_column(rel: &Relation) -> bool {
    match rel {
        Relation::Map(m) => m.order_by().iter().any(|o| o.expr.columns().iter().any(|c| m.input().schema().field_from_identifier(*c).is_err())) || orders_by_missing_column(m.input()),
        Relation::Reduce(r) => orders_by_missing_column(r.input()),
        Relation::Join(j) => orders_by_missing_column(j.left()) || orders_by_missing_column(j.right()),
        Relation::Set(s) => orders_by_missing_column(s.left()) || orders_by_missing_column(s.right()),
        _ => false,
    }
}

/// two select items without alias (or one of them and the HAVING clause) are the same expression: they get the same content-derived name
pub fn duplicate_unnamed_items(sql: &str) -> bool {
    use qrlew::ast;
    let Ok(q) = parse(sql) else { return false };
    let ast::SetExpr::Select(sel) = q.body.as_ref() else { return false };
    let unnamed: Vec<String> = sel.projection.iter().filter_map(|i| match i { ast::SelectItem::UnnamedExpr(e) => Some(e.to_string()), _ => None }).collect();
    let mut u = unnamed.clone(); u.sort(); u.dedup();
    u.len() != unnamed.len() || sel.having.as_ref().map(|h| unnamed.contains(&h.to_string())).unwrap_or(false)
}

pub fn eval(case: &J) -> Outcome {
    let mut out = Outcome::new();
    let sql = case["sql"].as_str().unwrap();
    let mut cls = query_class(sql);
    if duplicate_unnamed_items(sql) { cls = "duplicate-unnamed-items".to_string(); }
    out.tag(&format!("class={cls}"));
    let rels = world2();
    let rel = match guarded(|| { let q = parse(sql).map_err(|e| e.to_string())?; Relation::try_from(QueryWithRelations::new(&q, &rels)).map_err(|e| e.to_string()) }) {
        Ok(Ok(r)) => r,
        Ok(Err(_)) => { out.tag("trivial"); out.tag("compile-err"); return out; }
        Err((loc, msg)) => { out.tag("trivial");
            // the cause, when the message and the text name it: a division (also inside tan = sin / cos) whose operand ranges contain 0;
            // a function applied to a column whose range the WHERE clause has made empty
            let cause = if msg.contains("min <= max") && (sql.contains(" / ") || sql.contains("tan(")) { "division".to_string() }
                else if msg.contains("divide by zero") { "division".to_string() }
                else if msg.contains("Option::unwrap()") && loc.contains("data_type/function.rs") { "function-of-empty-range".to_string() } else { cls.clone() };
            out.fail(&format!("C18/sqlx/compile-panic/{}/{cause}", site(&loc, &msg)), format!("{sql}: {msg}")); return out; }
    };
    if orders_by_missing_column(&rel) { cls = "order-by-missing-column".to_string(); out.tag("order-by-missing-column"); }
    let mut rng = Rng::new(case["data_seed"].as_u64().unwrap());
    let data = gen_data2(&mut rng);
    let uses_random = sql.contains("random()");
    if uses_random { out.tag("uses-random"); }
    let db = if uses_random { data.load_seeded(case["data_seed"].as_u64().unwrap()) } else { data.load() };
    let rendered = match db.run(&rel) { Ok(x) => x, Err(e) => { out.tag("trivial"); out.fail(&format!("C17/sqlite/rendered-not-executable/{cls}"), format!("{sql}: {e}")); return out; } };
    if rendered.1.is_empty() { out.tag("empty-result"); }
    // ---- C07: cells in declared types, row count in declared size
    let schema = rel.schema();
    for row in &rendered.1 {
        for (i, f) in schema.iter().enumerate() {
            let Some(ci) = rendered.0.iter().position(|n| n == f.name()).or(Some(i)) else { continue };
            if ci >= row.len() { continue; }
            let v = cell_value(&row[ci], &f.data_type());
            let ok = match &row[ci] { Cell::Null => matches!(f.data_type(), DataType::Optional(_) | DataType::Unit(_) | DataType::Any), _ => mem_cell(&f.data_type(), &v) };
            // an ungrouped aggregate over an empty input returns one row of NULLs (count: 0)
            let empty_agg = row[ci] == Cell::Null && !sql.contains("GROUP BY") && rendered.1.len() == 1 && (sql.contains("sum(") || sql.contains("avg(") || sql.contains("min(") || sql.contains("max("));
            // PostgreSQL's LEAST / GREATEST ignore NULL arguments (the shim follows it); the library types them as NULL-propagating
            // least / greatest with the nullable column e among its arguments, in any position
            let has_nullable_arg = |f: &str| -> bool { let mut rest = sql; while let Some(i) = rest.find(f) { let tail = &rest[i + f.len()..]; let mut depth = 1; let mut end = tail.len();
                for (k, ch) in tail.char_indices() { if ch == '(' { depth += 1; } else if ch == ')' { depth -= 1; if depth == 0 { end = k; break; } } }
                if tail[..end].split(',').any(|a| { let a = a.trim(); a == "e" || a.ends_with(".e") }) { return true; } rest = &tail[end.min(tail.len())..]; } false };
            let extremum_of_nullable = (has_nullable_arg("least(") || has_nullable_arg("greatest(")) && row[ci] != Cell::Null;
            // a CASE whose condition is NULL takes the ELSE branch in SQL; the library types the CASE as NULL in that case
            // a CASE one of whose conditions mentions the nullable column e, anywhere in the condition
            let when_mentions_nullable = { let mut rest = sql; let mut hit = false; while let Some(i) = rest.find("WHEN ") { let tail = &rest[i + 5..]; let end = tail.find(" THEN").unwrap_or(tail.len());
                let cond = &tail[..end]; let b = cond.as_bytes();
                // (a condition that is itself an IS [NOT] NULL / IS TRUE / IS FALSE test is never NULL: not this defect)
                if [" IS NULL", " IS NOT NULL", " IS TRUE", " IS FALSE"].iter().any(|sfx| cond.trim_end().ends_with(sfx)) { rest = &tail[end..]; continue; }
                for (k, _) in cond.match_indices('e') { let before = if k == 0 { b' ' } else { b[k - 1] }; let after = if k + 1 < b.len() { b[k + 1] } else { b' ' };
                    if !(after.is_ascii_alphanumeric() || after == b'_' || after == b'\'') && (before == b'.' || !(before.is_ascii_alphanumeric() || before == b'_' || before == b'\'')) { hit = true; } }
                rest = &tail[end..]; } hit };
            let case_on_nullable = when_mentions_nullable && row[ci] != Cell::Null;
            let cls = if empty_agg { "null-aggregate-over-empty-input".to_string() } else if extremum_of_nullable { "value/least-greatest-of-nullable".to_string() } else if case_on_nullable { "value/case-condition-on-nullable".to_string() } else if (sql.contains("sin(") || sql.contains("cos(") || sql.contains("tan(")) && matches!(row[ci], Cell::Real(_)) && f.data_type().to_string().contains("float{") { "value/sin-cos-of-wide-range".to_string() } else if row[ci] == Cell::Null { format!("null/{cls}") } else if sql.contains("FULL JOIN") || sql.contains("LEFT JOIN") || sql.contains("RIGHT JOIN") { "value/outer-join".to_string() } else { format!("value/{cls}") };
            if !ok { out.fail(&format!("C07/sqlx/cell-outside-type/{cls}"), format!("{sql}: column `{}` is declared {} but execution produced {} (row {:?})", f.name(), f.data_type(), row[ci], row));
                // a *bare column* of the inputs whose returned value lies outside its type under a WHERE or an ON clause: the narrowing dropped a row
                // that satisfies the predicate (C10); expression columns are judged by C06 / C07 only
                // follow the column down through renaming Maps, grouping keys and joins to a column of a base table
                fn base_column(r: &Relation, i: usize) -> bool {
                    use qrlew::expr::Expr;
                    let by_name = |inp: &Relation, c: &qrlew::expr::Column| -> Option<usize> { let n = c.last().ok()?; inp.schema().iter().position(|f| f.name() == n) };
                    match r {
                        Relation::Table(_) => true,
                        Relation::Map(m) => match m.projection().get(i) { Some(Expr::Column(c)) => by_name(m.input(), c).map_or(false, |j| base_column(m.input(), j)), _ => false },
                        Relation::Reduce(x) => match x.aggregate().get(i) { Some(a) if matches!(a.aggregate(), qrlew::expr::aggregate::Aggregate::First) => by_name(x.input(), a.column()).map_or(false, |j| base_column(x.input(), j)), _ => false },
                        Relation::Join(j) => { let nl = j.left().schema().len(); if i < nl { base_column(j.left(), i) } else { base_column(j.right(), i - nl) } }
                        _ => false,
                    }
                }
                let bare = base_column(&rel, i);
                if bare && (sql.contains(" WHERE ") || sql.contains(" ON ")) && row[ci] != Cell::Null { out.fail(&format!("C10/sqlx/returned-row-outside-narrowed-type/{cls}"), format!("{sql}: column `{}` is narrowed to {} but the query returns {} (row {:?})", f.name(), f.data_type(), row[ci], row)); }
                break; }
        }
        if !out.oracle.is_empty() { break; }
    }
    let n = rendered.1.len() as i64;
    let size_cls = if sql.contains("FULL JOIN") || sql.contains("LEFT JOIN") || sql.contains("RIGHT JOIN") { "outer-join".to_string() } else { cls.clone() };
    if !rel.size().contains(&n) { out.fail(&format!("C07/sqlx/size-outside-bounds/{size_cls}"), format!("{sql}: the relation declares size {} but execution produced {n} rows (t1: {} rows, t2: {} rows, t3: {} rows)", rel.size(), data.t1.len(), data.t2.len(), data.t3.len())); }
    // ---- C14: declared unique columns are unique among non-null values
    for (i, f) in schema.iter().enumerate() {
        if f.has_unique_or_primary_key_constraint() {
            let ci = rendered.0.iter().position(|n| n == f.name()).unwrap_or(i);
            let mut vals: Vec<String> = rendered.1.iter().filter(|r| r[ci] != Cell::Null).map(|r| r[ci].key()).collect();
            let before = vals.len(); vals.sort(); vals.dedup();
            out.tag("has-unique-column");
            if vals.len() != before { out.fail(&format!("C14/sqlx/duplicate-in-unique-column/{cls}"), format!("{sql}: column `{}` is declared unique but execution produced duplicates: {:?}", f.name(), rendered.1.iter().map(|r| r[ci].to_string()).collect::<Vec<_>>())); }
        }
    }
    // ---- C08: original text vs rendered relation (not for queries that draw random numbers: two executions differ by construction)
    if uses_random { return out; }
    match db.query(sql) {
        Err(_) => { out.tag("original-not-sqlite"); }
        Ok(orig) => {
            let (a, b) = (rows_key(&orig.1), rows_key(&rendered.1));
            let same = if case["ordered"].as_bool().unwrap_or(false) { a == b } else { let (mut a, mut b) = (a.clone(), b.clone()); a.sort(); b.sort(); a == b };
            // two defects of the reader with a recognisable cause: log2 / log10 are read as log(base) / log(x) (inverted), and a division whose
            // divisor is NULL (tan(x) = sin(x) / cos(x) on a NULL x) is rendered with a guard whose ELSE branch returns 0 instead of NULL
            let cls = if sql.contains("log10(") || sql.contains("log2(") { "log-base-inverted".to_string() } else if sql.contains("tan(") { "division-by-null-is-zero".to_string() } else { cls.clone() };
            if !same { out.fail(&format!("C08/sqlx/different-rows/{cls}"), format!("{sql}: original returns {:?} but the rendered relation returns {:?}", orig.1.iter().take(6).collect::<Vec<_>>(), rendered.1.iter().take(6).collect::<Vec<_>>())); }
            else if orig.0 != rendered.0 { out.fail(&format!("C08/sqlx/different-column-names/{cls}"), format!("{sql}: original columns {:?}, rendered {:?}", orig.0, rendered.0)); }
            else { out.tag("c08-same"); }
        }
    }
    out
}

// ------------------------------------------------------------------------------------------------
// stream `sizes`: declared size of Map / Join / Set nodes built through the builders vs the Lean size model

pub fn gen_sizes(rng: &mut Rng, _k: usize, _tier: &str) -> J {
    let pickn = |rng: &mut Rng| *rng.pick(&[0i64, 1, 3, 10, 1000]);
    json!({"kind": *rng.pick(&["map", "join", "set"]), "l": pickn(rng), "r": pickn(rng),
           // (one value in eight beyond every table size: i64::MAX, and u64::MAX, which does not fit the i64 the size is computed in)
           "offset": if rng.chance(1, 2) { if rng.chance(1, 8) { json!(*rng.pick(&[9223372036854775807u64, 18446744073709551615])) } else { json!(rng.range(0, 12)) } } else { J::Null },
           "limit": if rng.chance(1, 2) { if rng.chance(1, 8) { json!(*rng.pick(&[9223372036854775807u64, 18446744073709551615])) } else { json!(rng.range(0, 12)) } } else { J::Null },
           "left_unique": rng.chance(1, 2), "right_unique": rng.chance(1, 2), "join": *rng.pick(&["inner", "left", "right", "full"]), "set": *rng.pick(&["union", "intersect", "except"])})
}

pub fn eval_sizes(case: &J) -> Outcome {
    use qrlew::expr::Expr;
    let mut out = Outcome::new();
    let table = |name: &str, n: i64, unique: bool| -> Relation {
        Relation::table().name(name).schema(vec![("a", DataType::integer_interval(0, 100), if unique { Some(Constraint::Unique) } else { None }), ("b", DataType::integer_interval(0, 5), None)].into_iter().collect::<qrlew::relation::Schema>()).size(n).build()
    };
    let (l, r) = (case["l"].as_i64().unwrap(), case["r"].as_i64().unwrap());
    let res = guarded(|| -> Relation {
        match case["kind"].as_str().unwrap() {
            "map" => { let mut b = Relation::map().with(("a", Expr::col("a"))); if let Some(o) = case["offset"].as_u64() { b = b.offset(o as usize); } if let Some(li) = case["limit"].as_u64() { b = b.limit(li as usize); } b.input(table("t", l, false)).build() }
            "join" => { let (lt, rt) = (table("tl", l, case["left_unique"].as_bool().unwrap()), table("tr", r, case["right_unique"].as_bool().unwrap()));
                        let b = Relation::join(); let b = match case["join"].as_str().unwrap() { "inner" => b.inner(Expr::val(true)), "left" => b.left_outer(Expr::val(true)), "right" => b.right_outer(Expr::val(true)), _ => b.full_outer(Expr::val(true)) };
                        b.on_eq("a", "a").left(lt).right(rt).build() }
            _ => { let b = Relation::set(); let b = match case["set"].as_str().unwrap() { "union" => b.union(), "intersect" => b.intersect(), _ => b.except() }; b.left(table("tl", l, false)).right(table("tr", r, false)).build() }
        }
    });
    match res {
        Ok(rel) => { out.imp = json!([rel.size().min().cloned(), rel.size().max().cloned()]); }
        Err((loc, msg)) => { out.imp = json!("panic"); out.fail(&format!("C18/sizes/panic/{}", site(&loc, &msg)), msg); }
    }
    out
}

// ------------------------------------------------------------------------------------------------
// stream `c08x`: constructs that stress the SQL -> Relation -> SQL path (C08); same verdict logic as `sqlx`

pub fn gen_c08x(rng: &mut Rng, _k: usize, _tier: &str) -> J {
    let strs = ["it''s", "x", "", "semi;colon", "back\\slash", "percent%", "new line", "é→ü", "\"dq\"", "--c", "/*c*/"];
    let idents = ["my col", "we\"\"ird", "select", "ORDER", "Ünï", "a.b", "x y z", "c0"];
    let s = *rng.pick(&strs); let id = *rng.pick(&idents);
    let templates: Vec<(String, bool)> = vec![
        (format!("SELECT t1.a AS x FROM t1, t2"), false),
        (format!("SELECT a AS x, '{s}' AS s FROM t1"), false),
        (format!("SELECT a AS x FROM t1 WHERE d = '{s}' OR d = 'x'"), false),
        (format!("SELECT d || '{s}' AS s FROM t1"), false),
        (format!("SELECT a AS \"{id}\" FROM t1"), false),
        (format!("SELECT \"{id}\" AS y FROM (SELECT a AS \"{id}\" FROM t1) AS q"), false),
        ("SELECT b AS k, count(*) AS n FROM t1 GROUP BY k".to_string(), false),
        ("SELECT a AS x FROM t1 ORDER BY b, a".to_string(), false),
        ("SELECT a AS x, b AS y FROM t1 ORDER BY 2, 1".to_string(), true),
        ("SELECT * FROM t1".to_string(), false),
        ("SELECT * FROM t1 JOIN t3 ON t1.e = t3.k".to_string(), false),
        ("SELECT t1.* FROM t1 JOIN t2 ON t1.a = t2.a".to_string(), false),
        ("SELECT a AS x FROM t1 WHERE a IN (SELECT a FROM t2)".to_string(), false),
        ("SELECT DISTINCT d AS d FROM t1 ORDER BY d".to_string(), true),
        (format!("SELECT a AS x, b AS y FROM t1 ORDER BY a LIMIT {} OFFSET {}", rng.range(0, 4), rng.range(0, 3)), true),
        (format!("SELECT a AS a, b AS b FROM t1 ORDER BY a, b LIMIT {} OFFSET {}", rng.range(0, 4), rng.range(0, 3)), true),
        (format!("SELECT a AS x, b AS y FROM t1 ORDER BY x DESC, y LIMIT {} OFFSET {}", rng.range(0, 4), rng.range(0, 3)), true),
        (format!("SELECT a AS x FROM t1 UNION ALL SELECT a AS x FROM t2 ORDER BY x DESC LIMIT {}", rng.range(0, 5)), true),
        (format!("SELECT a AS x FROM t1 INTERSECT SELECT a AS x FROM t2 ORDER BY x LIMIT {} OFFSET 1", rng.range(1, 3)), true),
        ("SELECT * FROM t1 JOIN t2 USING (a)".to_string(), false),
        ("SELECT b, count(a) > 2 FROM t1 GROUP BY b HAVING count(a) > 2".to_string(), false),
        ("SELECT b, sum(c), sum(c) FROM t1 GROUP BY b".to_string(), false),
        ("SELECT a + b, a + b FROM t1".to_string(), false),
        ("SELECT a AS a, t1.b AS b1, t2.b AS b2 FROM t1 LEFT JOIN t2 USING (a)".to_string(), false),
        ("SELECT a AS a FROM t1 NATURAL JOIN t2".to_string(), false),
        ("SELECT t1.a AS a, t3.k AS k FROM t1 JOIN t2 ON t1.a = t2.a JOIN t3 ON t1.e = t3.k".to_string(), false),
        ("SELECT sum(c) / count(c) AS r, max(b) - min(b) AS w FROM t1".to_string(), false),
        ("SELECT b AS b, sum(c) + b AS r, count(*) * 2 AS n FROM t1 GROUP BY b".to_string(), false),
        ("SELECT CASE WHEN a > 2 THEN 'hi' ELSE 'lo' END AS s, count(*) AS n FROM t1 GROUP BY CASE WHEN a > 2 THEN 'hi' ELSE 'lo' END".to_string(), false),
        ("SELECT a AS x FROM t1 WHERE d LIKE 'x%'".to_string(), false),
        ("SELECT a AS x FROM t1 WHERE b BETWEEN -1 AND 3".to_string(), false),
        ("SELECT a AS x FROM t1 WHERE e IS NULL".to_string(), false),
        ("SELECT a AS x FROM t1 WHERE e IS NOT NULL AND NOT (b > 2)".to_string(), false),
        ("SELECT count(e) AS n, count(*) AS m, sum(e) AS s FROM t1".to_string(), false),
        ("SELECT coalesce(e, -1) AS x, a AS y FROM t1".to_string(), false),
        ("WITH t2 AS (SELECT a AS a FROM t1 WHERE b > 0) SELECT a AS x FROM t2".to_string(), false),
        ("SELECT q.x AS x FROM (SELECT a AS x FROM t1) AS q JOIN (SELECT a AS x FROM t2) AS r ON q.x = r.x".to_string(), false),
        ("SELECT a AS x, a AS y, a + a AS z FROM t1".to_string(), false),
        ("SELECT max(c) AS m FROM t1 HAVING count(*) > 0".to_string(), false),
        ("SELECT d AS d, count(*) AS n FROM t1 GROUP BY d HAVING sum(c) > 10 ORDER BY d".to_string(), true),
        ("SELECT t1.a AS x, t2.a AS y FROM t1 CROSS JOIN t2".to_string(), false),
        ("SELECT a AS x FROM t1 UNION SELECT a AS x FROM t2 ORDER BY x".to_string(), true),
        ("SELECT -a AS x, +b AS y, a % 3 AS m, a / 2 AS h FROM t1".to_string(), false),
        ("SELECT CAST(a AS FLOAT) / 3 AS q, CAST(c AS INTEGER) AS i, CAST(b AS TEXT) AS t FROM t1".to_string(), false),
        ("SELECT a AS x FROM t1 AS u WHERE u.b > 0".to_string(), false),
        ("SELECT count(DISTINCT d) AS n, count(DISTINCT b) AS m FROM t1".to_string(), false),
        ("SELECT DISTINCT b AS b FROM t1 GROUP BY b, d".to_string(), false),
        ("SELECT DISTINCT d AS d, count(*) AS n FROM t1 GROUP BY d, b".to_string(), false),
        ("WITH g AS (SELECT DISTINCT b AS b FROM t1 GROUP BY b, d) SELECT count(*) AS n FROM g".to_string(), false),
        // a CTE name defined again, differently, in a nested WITH (derived table / CTE body): the inner definition shadows the outer one
        (format!("WITH t AS (SELECT a AS a FROM t1 WHERE b > 0) SELECT s.x AS x FROM (WITH t AS (SELECT a + {} AS a FROM t1) SELECT a AS x FROM t) AS s", rng.range(1, 9)), false),
        (format!("WITH t AS (SELECT a AS a FROM t1), u AS (WITH t AS (SELECT a + {k} AS a FROM t2) SELECT a AS a FROM t) SELECT t.a AS x, u.a AS y FROM t JOIN u ON t.a + {k} = u.a", k = rng.range(1, 9)), false),
        ("WITH t AS (SELECT a AS a FROM t1 WHERE a > 3) SELECT s.x AS x, t.a AS y FROM (WITH t AS (SELECT a AS a FROM t1 WHERE a <= 3) SELECT a AS x FROM t) AS s JOIN t ON s.x + 4 = t.a".to_string(), false),
        ("WITH t AS (SELECT d AS d FROM t1) SELECT q.n AS n FROM (WITH t AS (SELECT g AS d FROM t2) SELECT count(*) AS n FROM t WHERE d = 'x') AS q".to_string(), false),
    ];
    let (sql, ordered) = templates[rng.below(templates.len() as u64) as usize].clone();
    json!({"sql": sql, "ordered": ordered, "data_seed": rng.next() % 1000000})
}

// ------------------------------------------------------------------------------------------------
// stream `values`: literal value lists built through the builder — declared uniqueness vs the Lean model (`valuesUnique`),
// and the executed rows against the declared constraint, size and type (alone and joined to a table with a unique key)

pub fn gen_values(rng: &mut Rng, _k: usize, _tier: &str) -> J {
    let n = 1 + rng.below(6) as usize;
    let pool = 1 + rng.below(4) as i64 + if rng.chance(1, 2) { 3 } else { 0 };
    let vals: Vec<i64> = (0..n).map(|_| rng.range(0, pool)).collect();
    json!({"vals": vals, "kind": *rng.pick(&["int", "int", "str", "float"]), "join": rng.chance(1, 3), "data_seed": rng.next() % 1000000})
}

pub fn eval_values(case: &J) -> Outcome {
    use qrlew::expr::Expr;
    let mut out = Outcome::new();
    let vals: Vec<i64> = case["vals"].as_array().unwrap().iter().map(|v| v.as_i64().unwrap()).collect();
    let kind = case["kind"].as_str().unwrap();
    let lits: Vec<Value> = vals.iter().map(|v| match kind { "int" => Value::from(*v), "str" => Value::from(format!("s{v}")), _ => Value::from(*v as f64 + 0.5) }).collect();
    let mut sorted = vals.clone(); sorted.sort(); let adjacent_only = sorted.windows(2).any(|w| w[0] == w[1]) && !vals.windows(2).any(|w| w[0] == w[1]);
    out.tag(&format!("kind={kind}")); out.tag(if adjacent_only { "repeat-not-adjacent" } else if sorted.windows(2).any(|w| w[0] == w[1]) { "repeat-adjacent" } else { "distinct" });
    let built = guarded(|| -> Relation { Relation::values().name("v").values(lits.clone()).build() });
    let v = match built { Ok(r) => r, Err((loc, msg)) => { out.imp = json!("panic"); out.fail(&format!("C18/values/build-panic/{}", site(&loc, &msg)), msg); return out; } };
    out.imp = json!(v.schema()[0].has_unique_or_primary_key_constraint());
    let rel = if case["join"].as_bool().unwrap() && kind == "int" {
        let rels = world2();
        let t3 = rels.iter().find(|(p, _)| p.last().map(|x| x == "t3").unwrap_or(false)).map(|(_, r)| (**r).clone()).unwrap();
        out.tag("joined");
        match guarded(|| -> Relation { Relation::join().inner(Expr::val(true)).on_eq("k", "v").left(t3.clone()).right(v.clone()).build() }) { Ok(r) => r, Err((loc, msg)) => { out.fail(&format!("C18/values/join-panic/{}", site(&loc, &msg)), msg); return out; } }
    } else { v.clone() };
    let mut rng = Rng::new(case["data_seed"].as_u64().unwrap());
    let data = gen_data2(&mut rng);
    let db = data.load();
    let (names, rows) = match db.run(&rel) { Ok(x) => x, Err(e) => { out.fail("C17/sqlite/rendered-not-executable/values", format!("{}: {e}", crate::exec::render(&rel))); return out; } };
    let what = format!("values {:?}{}", lits.iter().map(|l| l.to_string()).collect::<Vec<_>>(), if out.tags.iter().any(|t| t == "joined") { " joined to t3 on k = v" } else { "" });
    for (i, f) in rel.schema().iter().enumerate() {
        let ci = names.iter().position(|n| n == f.name()).unwrap_or(i);
        if f.has_unique_or_primary_key_constraint() {
            let mut ks: Vec<String> = rows.iter().filter(|r| r[ci] != Cell::Null).map(|r| r[ci].key()).collect();
            let before = ks.len(); ks.sort(); ks.dedup();
            if ks.len() != before { out.fail("C14/values/duplicate-in-unique-column", format!("{what}: column `{}` is declared unique but its rows are {:?}", f.name(), rows.iter().map(|r| r[ci].to_string()).collect::<Vec<_>>())); }
        }
        for r in &rows { if r[ci] != Cell::Null && !mem_cell(&f.data_type(), &cell_value(&r[ci], &f.data_type())) { out.fail("C07/values/cell-outside-type", format!("{what}: column `{}` is declared {} but a row holds {}", f.name(), f.data_type(), r[ci])); break; } }
    }
    if !rel.size().contains(&(rows.len() as i64)) { out.fail("C07/values/size-outside-bounds", format!("{what}: declared size {} but {} rows", rel.size(), rows.len())); }
    out
}

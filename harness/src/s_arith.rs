//! C18. stream `arith`: the arithmetic type images at the edges of the number ranges, against the Lean totality model
//! (`Model/Total.lean`): does the computation panic, and which hull does it return.
use crate::common::*;
use qrlew::data_type::{self, function::{self, Function as _}, DataType};
use serde_json::{json, Value as J};

const IB: [i64; 15] = [i64::MIN, i64::MIN + 1, -4611686018427387904, -3037000500, -32, -2, -1, 0, 1, 2, 6, 3037000500, 4611686018427387904, i64::MAX - 1, i64::MAX];
/// float bounds with the integer stand-ins the model sees (only order and sign matter there)
const FB: [(f64, i64); 9] = [(f64::MIN, -1000000), (-2.5, -10), (-1e-300, -1), (-0.0, 0), (0.0, 0), (1e-300, 1), (0.25, 2), (2.5, 10), (f64::MAX, 1000000)];

pub fn gen(rng: &mut Rng, _k: usize, _tier: &str) -> J {
    let kind = *rng.pick(&["idiv", "idiv", "imul", "iplus", "iminus", "fdiv", "fdiv", "absup"]);
    let ipair = |rng: &mut Rng| { let a = if rng.chance(1, 3) { rng.range(-8, 8) } else { *rng.pick(&IB) }; let b = if rng.chance(1, 4) { a } else if rng.chance(1, 3) { rng.range(-8, 8) } else { *rng.pick(&IB) }; [a.min(b), a.max(b)] };
    if kind == "fdiv" {
        let fpair = |rng: &mut Rng| { let i = rng.below(FB.len() as u64) as usize; let j = rng.below(FB.len() as u64) as usize; [i.min(j), i.max(j)] };
        json!({"kind": kind, "x": fpair(rng), "y": fpair(rng)})
    } else { json!({"kind": kind, "x": ipair(rng), "y": ipair(rng)}) }
}

pub fn eval(case: &J) -> Outcome {
    let mut out = Outcome::new();
    let kind = case["kind"].as_str().unwrap();
    out.tag(&format!("kind={kind}"));
    let iv = |j: &J| -> (i64, i64) { (j[0].as_i64().unwrap(), j[1].as_i64().unwrap()) };
    match kind {
        "fdiv" => {
            let (xi, xj) = (case["x"][0].as_u64().unwrap() as usize, case["x"][1].as_u64().unwrap() as usize);
            let (yi, yj) = (case["y"][0].as_u64().unwrap() as usize, case["y"][1].as_u64().unwrap() as usize);
            let (x, y) = (data_type::Float::from_interval(FB[xi].0, FB[xj].0), data_type::Float::from_interval(FB[yi].0, FB[yj].0));
            out.aux = json!({"x": [FB[xi].1, FB[xj].1], "y": [FB[yi].1, FB[yj].1]});
            let both_zero = FB[xi].1 <= 0 && 0 <= FB[xj].1 && FB[yi].1 <= 0 && 0 <= FB[yj].1;
            let r = guarded(|| function::divide().super_image(&DataType::structured_from_data_types([DataType::Float(x.clone()), DataType::Float(y.clone())])));
            let status = match &r { Ok(Ok(_)) => "ok", Ok(Err(_)) => "err", Err(_) => "panic" };
            out.tag(&format!("status={status}")); if both_zero { out.tag("zero-in-both"); }
            if let Err((loc, msg)) = &r { out.fail(&format!("C18/arith/fdiv/panic/{}/{}", site(loc, msg), if both_zero { "zero-in-both" } else { "other" }), format!("super_image of divide on ({x}, {y}) panicked: {msg}")); }
            out.imp = if both_zero { json!("nan-corner") } else { json!(status) };
        }
        "absup" => {
            let (lo, hi) = iv(&case["x"]);
            let r = guarded(|| DataType::integer_interval(lo, hi).absolute_upper_bound());
            out.imp = match r { Ok(Some(f)) => json!((f as i128).to_string()), Ok(None) => json!("none"), Err((loc, msg)) => { out.fail(&format!("C18/arith/absup/panic/{}", site(&loc, &msg)), format!("absolute_upper_bound of int[{lo} {hi}] panicked: {msg}")); json!("panic") } };
        }
        _ => {
            let ((a, b), (c, d)) = (iv(&case["x"]), iv(&case["y"]));
            let arg = DataType::structured_from_data_types([DataType::integer_interval(a, b), DataType::integer_interval(c, d)]);
            let r = guarded(|| match kind { "idiv" => function::divide().super_image(&arg), "imul" => function::multiply().super_image(&arg), "iplus" => function::plus().super_image(&arg), _ => function::minus().super_image(&arg) });
            let zero_div = kind == "idiv" && c <= 0 && 0 <= d;
            if zero_div { out.tag("zero-in-divisor"); }
            out.imp = match r {
                Ok(Ok(DataType::Integer(i))) => match (i.min(), i.max()) { (Some(lo), Some(hi)) => json!([lo, hi]), _ => json!("empty") },
                Ok(Ok(t)) => json!({"other": t.to_string()}),
                Ok(Err(_)) => json!("err"),
                Err((loc, msg)) => { out.fail(&format!("C18/arith/{kind}/panic/{}/{}", site(&loc, &msg), if zero_div { "zero-in-divisor" } else { "other" }), format!("super_image of {kind} on (int[{a} {b}], int[{c} {d}]) panicked: {msg}")); json!("panic") }
            };
        }
    }
    out
}

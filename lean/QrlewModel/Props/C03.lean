import QrlewModel.Lemmas.DpEvent
import QrlewModel.Lemmas.Reals
/-!
# C03 — privacy loss is never under-reported; each DP aggregation fits its budget

Part 1 (core Lean): event composition drops nothing but no-ops and keeps the order.
Part 2 (over ℝ, `Real.sqrt` / `Real.log` from Mathlib): the multiplier recorded for a sum is not larger
than σ/C used in the query; the even split of (ε, δ) over the sums adds up to the budget.
-/
namespace Qrlew.C03
open Qrlew Qrlew.DpEvent

variable {K : Type} (z : K → Bool)

/-- **Composition records every mechanism**: the elementary non-no-op mechanisms of `a.compose(b)` are
those of `a` followed by those of `b`. -/
theorem leaves_compose (a b : DpEvent K) :
    leaves z (compose z a b) = leaves z a ++ leaves z b := by
  unfold compose
  by_cases hb : isNoOp z b = true
  · simp [hb, leaves_of_isNoOp z b hb]
  · by_cases ha : isNoOp z a = true
    · simp [hb, ha, leaves_of_isNoOp z a ha]
    · simp only [hb, ha, Bool.false_eq_true, if_false]
      cases a <;> cases b <;>
        simp [leaves, leavesL, leavesL_append, isNoOp] at *

/-- … and so for the event collected along a whole rewritten tree (`FromIterator`, `Rewriter::{reduce, join, set}`). -/
theorem leaves_collect (es : List (DpEvent K)) :
    leaves z (collect z es) = leavesL z es := by
  unfold collect
  have gen : ∀ (es : List (DpEvent K)) (acc : DpEvent K),
      leaves z (es.foldl (compose z) acc) = leaves z acc ++ leavesL z es := by
    intro es
    induction es with
    | nil => intro acc; simp [leavesL]
    | cons e rest ih => intro acc; simp only [List.foldl]; rw [ih, leaves_compose]; simp [leavesL, List.append_assoc]
  rw [gen]; simp [leaves]

mutual
/-- converse of `leaves_of_isNoOp`: an event with no recorded mechanism is one `is_no_op` answers yes for -/
theorem isNoOp_of_leaves_nil : ∀ (e : DpEvent K), leaves z e = [] → isNoOp z e = true
  | .noOp, _ => by simp [isNoOp]
  | .gaussian m, h => by
    simp only [leaves] at h
    split at h
    · rename_i hz; simpa [isNoOp] using hz
    · simp at h
  | .epsilonDelta a b, h => by
    simp only [leaves] at h
    split at h
    · rename_i hz; simpa [isNoOp] using hz
    · simp at h
  | .composed es, h => by simp only [leaves] at h; simp only [isNoOp]; exact allNoOp_of_leavesL_nil es h
theorem allNoOp_of_leavesL_nil : ∀ (es : List (DpEvent K)), leavesL z es = [] → allNoOp z es = true
  | [], _ => by simp [allNoOp]
  | e :: es, h => by
    simp only [leavesL, List.append_eq_nil_iff] at h
    simp only [allNoOp, Bool.and_eq_true]
    exact ⟨isNoOp_of_leaves_nil e h.1, allNoOp_of_leavesL_nil es h.2⟩
end

/-- **`is_no_op` is exact**: an event is reported as spending nothing exactly when it records no mechanism with a non-zero
parameter, at any nesting depth — a composed event hiding a real mechanism is never a no-op, and `compose` (which drops
no-op operands) therefore drops nothing else. -/
theorem isNoOp_iff_no_leaves (e : DpEvent K) : isNoOp z e = true ↔ leaves z e = [] :=
  ⟨leaves_of_isNoOp z e, isNoOp_of_leaves_nil z e⟩

/-- composition is associative on what it records (the grouping of `compose` calls along the tree does not matter) -/
theorem leaves_compose_assoc (a b c : DpEvent K) :
    leaves z (compose z (compose z a b) c) = leaves z (compose z a (compose z b c)) := by
  simp only [leaves_compose, List.append_assoc]

/-- a composition is a no-op only if both operands are -/
theorem compose_noOp_iff (a b : DpEvent K) : isNoOp z (compose z a b) = true ↔ isNoOp z a = true ∧ isNoOp z b = true := by
  simp only [isNoOp_iff_no_leaves, leaves_compose, List.append_eq_nil_iff]

/-! ### budget arithmetic over ℝ -/

open Budget

theorem noiseMultiplier_real (e d : ℝ) :
    noiseMultiplier realOps e d = max 0 (Real.sqrt (2 * Real.log (1.25 / d)) / e) := by
  simp [noiseMultiplier, realOps]

/-- **Never under-reported**: the multiplier recorded for each of the `n` sums of a DP aggregation
(computed from the undivided ε, δ) is at most the multiplier σ/C actually applied (computed from ε/n, δ/n). -/
theorem recorded_le_actual (n : ℕ) (hn : 1 ≤ n) (e d : ℝ) (he : 0 < e) (hd : 0 < d) :
    recordedMultiplier realOps e d ≤ noiseMultiplier realOps (e / n) (d / n) := by
  unfold recordedMultiplier
  rw [noiseMultiplier_real, noiseMultiplier_real]
  have hn' : (1 : ℝ) ≤ n := by exact_mod_cast hn
  have hnpos : (0 : ℝ) < n := by linarith
  apply max_le_max (le_refl 0)
  have hlog : Real.log (1.25 / d) ≤ Real.log (1.25 / (d / n)) := by
    apply Real.log_le_log (by positivity)
    rw [div_div_eq_mul_div]
    apply div_le_div_of_nonneg_right _ hd.le
    nlinarith
  have hsqrt : Real.sqrt (2 * Real.log (1.25 / d)) ≤ Real.sqrt (2 * Real.log (1.25 / (d / n))) :=
    Real.sqrt_le_sqrt (by linarith)
  have h0 : 0 ≤ Real.sqrt (2 * Real.log (1.25 / d)) := Real.sqrt_nonneg _
  rw [div_div_eq_mul_div]
  calc Real.sqrt (2 * Real.log (1.25 / d)) / e
      ≤ Real.sqrt (2 * Real.log (1.25 / (d / n))) / e := div_le_div_of_nonneg_right hsqrt he.le
    _ ≤ Real.sqrt (2 * Real.log (1.25 / (d / n))) * n / e := by
        apply div_le_div_of_nonneg_right _ he.le
        have := Real.sqrt_nonneg (2 * Real.log (1.25 / (d / n)))
        nlinarith

/-- σ applied to a sum with clipping bound `C ≥ 0` is (multiplier of its share) · C, so σ/C is that multiplier. -/
theorem sigma_eq (e d c : ℝ) (hc : 0 ≤ c) :
    gaussianNoise realOps e d c = noiseMultiplier realOps e d * c := by
  have h0 : 0 ≤ noiseMultiplier realOps e d := by rw [noiseMultiplier_real]; exact le_max_left _ _
  have h1 : 0 ≤ noiseMultiplier realOps e d * c := mul_nonneg h0 hc
  simp only [gaussianNoise]
  show max ((0 : ℕ) : ℝ) (noiseMultiplier realOps e d * c) = noiseMultiplier realOps e d * c
  rw [Nat.cast_zero]
  exact max_eq_right h1

/-- **Fits its budget** (basic composition): the even split of (ε, δ) over `n ≥ 1` sums, and the split
between key release (share `s`) and aggregates (share `1 − s`), add up to exactly the budget handed in. -/
theorem budget_sum (n : ℕ) (hn : 1 ≤ n) (e d s : ℝ) :
    (n : ℝ) * (e / n) = e ∧ (n : ℝ) * (d / n) = d ∧ e * s + e * (1 - s) = e ∧ d * s + d * (1 - s) = d := by
  have hnpos : (n : ℝ) ≠ 0 := by positivity
  refine ⟨by field_simp, by field_simp, by ring, by ring⟩

/-- every σ produced by `gaussian_mechanisms` is the calibrated multiplier of its (ε/n, δ/n) share times its bound -/
theorem sigmas_calibrated (e d : ℝ) (bounds : List ℝ) (hb : ∀ b ∈ bounds, 0 ≤ b) :
    sigmas realOps e d bounds =
      bounds.map fun b => noiseMultiplier realOps (e / bounds.length) (d / bounds.length) * b := by
  simp only [sigmas]
  apply List.map_congr_left
  intro b hbm
  rw [sigma_eq _ _ _ (hb b hbm)]
  simp [realOps]

/-- Documented behaviour, not a guarantee: an event with multiplier 0 is treated as a no-op
(the code only produces it when σ = 0, i.e. when the clipping bound is 0 and the column is identically 0). -/
theorem gaussian_zero_is_noop : isNoOp (fun x : Int => x == 0) (.gaussian 0) = true := by decide

/-- Non-vacuity of `recorded_le_actual` / composition on concrete data. -/
example : (1 : ℕ) ≤ 3 ∧ (0 : ℝ) < 1 ∧ (0 : ℝ) < 1e-5 := by norm_num

example : leaves (fun x : Int => x == 0)
    (collect (fun x : Int => x == 0) [.gaussian 2, .noOp, .composed [.gaussian 0, .epsilonDelta 1 1], .gaussian 3])
    = [.gaussian 2, .epsilonDelta 1 1, .gaussian 3] := by
  simp [collect, compose, isNoOp, allNoOp, leaves, leavesL]

end Qrlew.C03

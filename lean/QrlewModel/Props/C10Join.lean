import QrlewModel.Props.C10
/-!
# C10 — the ON clause of a join

`Qrlew.joinNarrow` is the model of `DataType::filter_by_join_operator`: which side of a join the ON predicate narrows.
`join_matched_sound`: for every kind of join, a pair of rows that satisfies the predicate lies in the narrowed types of both sides.
`join_preserved_side_untouched`: the preserved side of an outer join keeps its type, so the rows that come out without a partner are
not dropped; `narrowing_preserved_side_unsound`: narrowing it anyway loses such a row.
-/
namespace Qrlew.C10
open Qrlew

theorem rowIn_append (l r : List Int) (A B : List Ivs) (hl : RowIn l A) (hr : RowIn r B) : RowIn (l ++ r) (A ++ B) := by
  refine ⟨by simp [hl.1, hr.1], ?_⟩
  intro i hi
  by_cases h : i < A.length
  · have h' : i < l.length := by rw [hl.1]; exact h
    rw [List.getD_eq_getElem?_getD, List.getD_eq_getElem?_getD, List.getElem?_append_left h, List.getElem?_append_left h',
      ← List.getD_eq_getElem?_getD, ← List.getD_eq_getElem?_getD]
    exact hl.2 i h
  · have h1 : A.length ≤ i := by omega
    have h2 : l.length ≤ i := by rw [hl.1]; exact h1
    have hi' : i - A.length < B.length := by simp only [List.length_append] at hi; omega
    rw [List.getD_eq_getElem?_getD, List.getD_eq_getElem?_getD, List.getElem?_append_right h1, List.getElem?_append_right h2, hl.1,
      ← List.getD_eq_getElem?_getD, ← List.getD_eq_getElem?_getD]
    exact hr.2 _ hi'

theorem rowIn_take (l r : List Int) (F : List Ivs) (h : RowIn (l ++ r) F) : RowIn l (F.take l.length) := by
  have hlen : F.length = l.length + r.length := by rw [← h.1]; simp
  refine ⟨by simp [hlen], ?_⟩
  intro i hi
  have hi' : i < l.length := by simp [hlen] at hi; exact hi
  have := h.2 i (by omega)
  rw [List.getD_eq_getElem?_getD, List.getD_eq_getElem?_getD, List.getElem?_append_left hi'] at this
  rw [List.getD_eq_getElem?_getD, List.getD_eq_getElem?_getD, List.getElem?_take_of_lt hi']
  exact this

theorem rowIn_drop (l r : List Int) (F : List Ivs) (h : RowIn (l ++ r) F) : RowIn r (F.drop l.length) := by
  have hlen : F.length = l.length + r.length := by rw [← h.1]; simp
  refine ⟨by simp [hlen], ?_⟩
  intro i hi
  have hi' : i < r.length := by simp [hlen] at hi; exact hi
  have := h.2 (l.length + i) (by omega)
  rw [List.getD_eq_getElem?_getD, List.getD_eq_getElem?_getD, List.getElem?_append_right (by omega)] at this
  simp only [Nat.add_sub_cancel_left] at this
  rw [List.getD_eq_getElem?_getD, List.getD_eq_getElem?_getD, List.getElem?_drop]
  exact this

/-- **A matched pair survives the narrowing, whatever the kind of join.** -/
theorem join_matched_sound (cap : Nat) (hc : 2 ≤ cap) (k : JoinKind) (TL TR : List Ivs) (hTL : RowType cap TL) (hTR : RowType cap TR)
    (p : Pred) (hp : PredOk (TL ++ TR).length p) (l r : List Int) (hl : RowIn l TL) (hr : RowIn r TR)
    (hrange : ∀ x ∈ l ++ r, InRange x) (hev : evalPred (l ++ r) p = true) :
    RowIn l (joinNarrow cap k TL TR p).1 ∧ RowIn r (joinNarrow cap k TL TR p).2 := by
  have hT : RowType cap (TL ++ TR) := by
    intro s hs; rcases List.mem_append.mp hs with h | h
    · exact hTL s h
    · exact hTR s h
  have hF := filter_sound cap hc p (TL ++ TR) hT (l ++ r) (rowIn_append l r TL TR hl hr) hrange hp hev
  have ht := rowIn_take l r _ hF
  have hd := rowIn_drop l r _ hF
  rw [hl.1] at ht hd
  cases k <;> simp only [joinNarrow] <;> first | exact ⟨ht, hd⟩ | exact ⟨hl, hd⟩ | exact ⟨ht, hr⟩ | exact ⟨hl, hr⟩

/-- **The preserved side keeps its type**: a left row without a partner (it comes out NULL-padded) is a row of the join's left type. -/
theorem join_preserved_side_untouched (cap : Nat) (TL TR : List Ivs) (p : Pred) :
    (joinNarrow cap .left TL TR p).1 = TL ∧ (joinNarrow cap .right TL TR p).2 = TR ∧ joinNarrow cap .full TL TR p = (TL, TR) := by
  simp [joinNarrow]

/-- narrowing the preserved side by a term that only mentions it loses rows: with `l.v ∈ [0, 5]` and `ON l.v ≥ 3`, the left row `v = 1`
still comes out of a LEFT JOIN, and is not in the narrowed type -/
theorem narrowing_preserved_side_unsound :
    let TL : List Ivs := [[(0, 5)]]
    let narrowed := (joinNarrow 128 .inner TL [[(0, 9)]] (.gt (.col 0) (.lit 3))).1
    RowIn [1] TL ∧ ¬ RowIn [1] narrowed := by
  refine ⟨⟨rfl, ?_⟩, ?_⟩
  · intro i hi
    have : i = 0 := by simpa using hi
    subst this
    exact ⟨(0, 5), by decide, by decide, by decide⟩
  · intro h
    have := h.2 0 (by decide)
    obtain ⟨ab, hab, h1, h2⟩ := this
    have hn : ((joinNarrow 128 .inner [[(0, 5)]] [[(0, 9)]] (.gt (.col 0) (.lit 3))).1).getD 0 [] = [(3, 5)] := by decide
    rw [hn] at hab
    simp only [List.mem_singleton] at hab
    subst hab
    simp at h1

end Qrlew.C10

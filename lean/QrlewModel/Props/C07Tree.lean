import QrlewModel.Props.C07
import QrlewModel.Props.C14
import QrlewModel.Model.RelTree
import Mathlib.Data.List.Nodup
import Mathlib.Data.List.Perm.Subperm
/-!
# C07 / C14 for whole trees of Relation IR nodes

`Qrlew.RelTree.sizeMax` and `Qrlew.RelTree.uniq` are the size bound and the UNIQUE flags the compiler declares for a node
(compared with the real compiler by the `reltree` stream, together with the rows `eval` computes).  Theorem `sound`: for every
tree (any shape and depth) of tables, maps (projection through listed bijections or other functions, WHERE, OFFSET, LIMIT), inner
joins on a key equality, `UNION [ALL]`, `INTERSECT`, `EXCEPT` and `GROUP BY … count(*)`, and every database whose tables respect
their declared size and UNIQUE columns, the result has at most `sizeMax` rows and every column flagged unique holds pairwise
distinct values.  (Outer joins are not in the tree model: the size the code declares for them is the recorded C07 finding,
`left_join_unique_bound_counterexample`.)
-/
namespace Qrlew.C07Tree
open Qrlew Qrlew.Rel Qrlew.RelTree

def colVals (rows : List Row) (c : Nat) : List Int := rows.map fun r => cell r c

/-- the database respects the declarations of the tables the tree reads -/
def Conf (db : Nat → List Row) : T → Prop
  | .table id n u => (db id).length ≤ n ∧ (∀ r ∈ db id, r.length = u.length) ∧ ∀ c, flag u c = true → (colVals (db id) c).Nodup
  | .map _ _ _ _ t => Conf db t
  | .join _ _ l r => Conf db l ∧ Conf db r
  | .union _ l r => Conf db l ∧ Conf db r ∧ width l = width r
  | .intersect l r => Conf db l ∧ Conf db r ∧ width l = width r
  | .except l r => Conf db l ∧ Conf db r ∧ width l = width r
  | .reduce _ t => Conf db t

structure Sound (db : Nat → List Row) (t : T) : Prop where
  size : (eval db t).length ≤ sizeMax t
  wid : ∀ r ∈ eval db t, r.length = width t
  uniq : ∀ c, flag (uniq t) c = true → (colVals (eval db t) c).Nodup

/-! ### small facts about `flag`, `cell`, `dedup`, `mapRows`, `joinOn` -/

theorem uniq_length (t : T) : (uniq t).length = width t := by
  induction t with
  | table id n u => rfl
  | map proj flt off lim t ih => simp [uniq, width]
  | join lc rc l r ihl ihr => simp [uniq, width, ihl, ihr]
  | union all l r ihl _ => simp [uniq, width, ihl]
  | intersect l r ihl _ => simp [uniq, width, ihl]
  | except l r ihl _ => simp [uniq, width, ihl]
  | reduce keys t _ => simp [uniq, width]

theorem flag_eq (u : List Bool) (c : Nat) : flag u c = (u[c]?).getD false := List.getD_eq_getElem?_getD ..

theorem flag_lt {u : List Bool} {c : Nat} (h : flag u c = true) : c < u.length := by
  rw [flag_eq] at h
  by_contra hc
  rw [List.getElem?_eq_none (by omega)] at h
  exact Bool.false_ne_true h

theorem flag_map_false {α : Type} (l : List α) (c : Nat) : flag (l.map fun _ => false) c = false := by
  rw [flag_eq, List.getElem?_map]
  cases l[c]? <;> rfl

theorem flag_map {α : Type} (l : List α) (f : α → Bool) (c : Nat) (h : flag (l.map f) c = true) :
    ∃ hc : c < l.length, f l[c] = true := by
  have hc : c < l.length := by simpa using flag_lt h
  refine ⟨hc, ?_⟩
  rw [flag_eq, List.getElem?_map, List.getElem?_eq_getElem hc] at h
  simpa using h

theorem flag_append_left (a b : List Bool) (c : Nat) (hc : c < a.length) : flag (a ++ b) c = flag a c := by
  rw [flag_eq, flag_eq, List.getElem?_append_left hc]

theorem flag_append_right (a b : List Bool) (c : Nat) (hc : a.length ≤ c) : flag (a ++ b) c = flag b (c - a.length) := by
  rw [flag_eq, flag_eq, List.getElem?_append_right hc]

theorem flag_of_getElem (u : List Bool) (c : Nat) (hc : c < u.length) (h : u[c] = true) : flag u c = true := by
  rw [flag_eq, List.getElem?_eq_getElem hc]; simpa using h

theorem cell_map {α : Type} (l : List α) (f : α → Int) (c : Nat) (hc : c < l.length) : cell (l.map f) c = f l[c] := by
  unfold cell
  simp [List.getD_eq_getElem?_getD, hc]

theorem cell_append_left (a b : Row) (c : Nat) (hc : c < a.length) : cell (a ++ b) c = cell a c := by
  unfold cell
  simp [List.getD_eq_getElem?_getD, List.getElem?_append_left hc]

theorem cell_append_right (a b : Row) (c : Nat) (hc : a.length ≤ c) : cell (a ++ b) c = cell b (c - a.length) := by
  unfold cell
  simp [List.getD_eq_getElem?_getD, List.getElem?_append_right hc]

theorem dedup_sublist : ∀ l : List Row, (dedup l).Sublist l
  | [] => by simp [dedup]
  | a :: t => by
    simp only [dedup]
    exact ((List.filter_sublist).trans (dedup_sublist t)).cons_cons a

theorem dedup_length_le (l : List Row) : (dedup l).length ≤ l.length := (dedup_sublist l).length_le

theorem mem_dedup_iff (x : Row) : ∀ l : List Row, x ∈ dedup l ↔ x ∈ l
  | [] => by simp [dedup]
  | a :: t => by
    simp only [dedup, List.mem_cons, List.mem_filter, mem_dedup_iff x t]
    constructor
    · rintro (h | ⟨h, _⟩)
      · exact Or.inl h
      · exact Or.inr h
    · rintro (h | h)
      · exact Or.inl h
      · by_cases hx : x = a
        · exact Or.inl hx
        · exact Or.inr ⟨h, by simpa using hx⟩

theorem dedup_nodup : ∀ l : List Row, (dedup l).Nodup
  | [] => by simp [dedup]
  | a :: t => by
    simp only [dedup, List.nodup_cons, List.mem_filter]
    refine ⟨fun h => by simpa using h.2, (dedup_nodup t).sublist List.filter_sublist⟩

theorem mapRows_sublist {α : Type} (p : α → Bool) (off lim : Option Nat) (b : List α) : (mapRows p off lim b).Sublist b := by
  unfold mapRows
  have h1 : (b.filter p).Sublist b := List.filter_sublist
  cases off <;> cases lim <;> simp only
  · exact h1
  · exact (List.take_sublist _ _).trans h1
  · exact (List.drop_sublist _ _).trans h1
  · exact (List.take_sublist _ _).trans ((List.drop_sublist _ _).trans h1)

theorem mem_joinOn {α β κ : Type} [DecidableEq κ] (kl : α → κ) (kr : β → κ) (L : List α) (R : List β) (ab : α × β)
    (h : ab ∈ joinOn kl kr L R) : ab.1 ∈ L ∧ ab.2 ∈ R ∧ kl ab.1 = kr ab.2 := by
  unfold joinOn at h
  simp only [List.mem_flatMap, List.mem_map, List.mem_filter] at h
  obtain ⟨a, ha, b, ⟨hb, hk⟩, rfl⟩ := h
  exact ⟨ha, hb, by simpa using hk⟩

theorem joinOn_cons {α β κ : Type} [DecidableEq κ] (kl : α → κ) (kr : β → κ) (a : α) (t : List α) (R : List β) :
    joinOn kl kr (a :: t) R = ((R.filter fun b => kl a == kr b).map fun b => (a, b)) ++ joinOn kl kr t R := by
  simp [joinOn]

theorem joinOn_length_le_left {α β κ : Type} [DecidableEq κ] (kl : α → κ) (kr : β → κ) (L : List α) (R : List β)
    (h : (R.map kr).Nodup) : (joinOn kl kr L R).length ≤ L.length := by
  induction L with
  | nil => simp [joinOn]
  | cons a t ih =>
    rw [joinOn_cons, List.length_append, List.length_map]
    have := C07.filter_key_le_one kr R h (kl a)
    simp only [List.length_cons]; omega

/-- adding a right row adds as many pairs as there are left rows with its key -/
theorem joinOn_length_cons_right {α β κ : Type} [DecidableEq κ] (kl : α → κ) (kr : β → κ) (L : List α) (b : β) (s : List β) :
    (joinOn kl kr L (b :: s)).length = (L.filter fun a => kl a == kr b).length + (joinOn kl kr L s).length := by
  induction L with
  | nil => simp [joinOn]
  | cons a t ih =>
    rw [joinOn_cons, joinOn_cons, List.length_append, List.length_append, List.length_map, List.length_map, ih,
      List.filter_cons, List.filter_cons]
    by_cases hk : (kl a == kr b) = true
    · simp only [hk, if_true, List.length_cons]; omega
    · simp only [hk, Bool.false_eq_true, if_false]; omega

/-- the number of matching pairs does not depend on the side one counts from -/
theorem joinOn_length_swap {α β κ : Type} [DecidableEq κ] (kl : α → κ) (kr : β → κ) (L : List α) (R : List β) :
    (joinOn kl kr L R).length = (joinOn kr kl R L).length := by
  induction R with
  | nil =>
    have : ∀ L : List α, joinOn kl kr L ([] : List β) = [] := by
      intro L; induction L with
      | nil => simp [joinOn]
      | cons a t ih => rw [joinOn_cons, ih]; simp
    rw [this]; simp [joinOn]
  | cons b s ih =>
    rw [joinOn_length_cons_right, joinOn_cons, List.length_append, List.length_map, ih]
    congr 2
    apply List.filter_congr
    intro a _
    exact Bool.eq_iff_iff.mpr ⟨fun h => by simpa using (by simpa using h : kl a = kr b).symm,
      fun h => by simpa using (by simpa using h : kr b = kl a).symm⟩

/-- the symmetric size bound: with a unique *left* key every right row is matched at most once -/
theorem join_size_unique_left {α β κ : Type} [DecidableEq κ] (kl : α → κ) (kr : β → κ) (L : List α) (R : List β)
    (h : (L.map kl).Nodup) : (joinOn kl kr L R).length ≤ R.length := by
  rw [joinOn_length_swap]
  exact joinOn_length_le_left kr kl R L h

/-- … and the right side's unique columns survive -/
theorem join_keeps_right_unique {α β κ γ : Type} [DecidableEq κ] (kl : α → κ) (kr : β → κ) (col : β → γ) (L : List α) (R : List β)
    (hL : (L.map kl).Nodup) (hR : (R.map col).Nodup) : ((joinOn kl kr L R).map fun ab => col ab.2).Nodup := by
  induction L with
  | nil => simp [joinOn]
  | cons a t ih =>
    simp only [List.map_cons, List.nodup_cons] at hL
    rw [joinOn_cons, List.map_append, List.nodup_append]
    refine ⟨?_, ih hL.2, ?_⟩
    · rw [List.map_map]
      exact hR.sublist ((List.filter_sublist).map col)
    · intro x hx y hy hxy
      simp only [List.map_map, List.mem_map, List.mem_filter, Function.comp] at hx
      obtain ⟨b, ⟨hb, hk⟩, rfl⟩ := hx
      obtain ⟨ab, hab, rfl⟩ := List.mem_map.mp hy
      obtain ⟨h1, h2, h3⟩ := mem_joinOn kl kr t R ab hab
      -- same value in a duplicate-free column: the same right row, hence the same key, hence `kl a` occurs in `t`
      have hbb : b = ab.2 := by
        have := List.inj_on_of_nodup_map hR hb h2 hxy
        exact this
      have hka : kl a = kl ab.1 := by
        have : kl a = kr b := by simpa using hk
        rw [this, hbb, h3]
      exact hL.1 (by rw [hka]; exact List.mem_map_of_mem h1)

/-! ### every tree -/

theorem sound (db : Nat → List Row) (t : T) (h : Conf db t) : Sound db t := by
  induction t with
  | table id n u => exact ⟨h.1, h.2.1, h.2.2⟩
  | map proj flt off lim t ih =>
    have s := ih h
    refine ⟨?_, ?_, ?_⟩
    · simp only [eval, sizeMax, List.length_map]
      exact C07.map_size _ _ _ _ _ s.size
    · intro r hr
      simp only [eval, List.mem_map] at hr
      obtain ⟨_, _, rfl⟩ := hr
      simp [width]
    · intro c hc
      obtain ⟨hlt, hp⟩ := flag_map proj (fun p => p.2.keeps && flag (uniq t) p.1) c hc
      simp only [Bool.and_eq_true] at hp
      have hin : (colVals (eval db t) proj[c].1).Nodup := s.uniq _ hp.2
      have hsub := (mapRows_sublist (keep flt) off lim (eval db t)).map fun r => cell r proj[c].1
      have hnd := hin.sublist hsub
      have hcol : colVals (eval db (.map proj flt off lim t)) c =
          ((mapRows (keep flt) off lim (eval db t)).map fun r => cell r proj[c].1).map proj[c].2.app := by
        simp only [colVals, eval, List.map_map]
        apply List.map_congr_left
        intro r _
        simp only [Function.comp]
        rw [cell_map proj _ c hlt]
      rw [hcol]
      apply hnd.map
      intro x y hxy
      cases hf : proj[c].2 with
      | id => simpa [hf, Fn.app] using hxy
      | neg => simpa [hf, Fn.app] using hxy
      | abs => simp [hf, Fn.keeps] at hp
      | plus k => simp [hf, Fn.keeps] at hp
  | join lc rc l r ihl ihr =>
    have sl := ihl h.1
    have sr := ihr h.2
    have hwl : ∀ ab ∈ joinOn (fun a => cell a lc) (fun b => cell b rc) (eval db l) (eval db r), ab.1.length = width l :=
      fun ab hab => sl.wid _ (mem_joinOn _ _ _ _ ab hab).1
    refine ⟨?_, ?_, ?_⟩
    · simp only [eval, sizeMax, List.length_map]
      by_cases hl : flag (uniq l) lc = true
      · have := join_size_unique_left (fun a => cell a lc) (fun b => cell b rc) (eval db l) (eval db r) (sl.uniq lc hl)
        simp only [hl, Bool.true_or, if_true, joinSizeUnique]
        have := sr.size
        omega
      · by_cases hr : flag (uniq r) rc = true
        · have := C07.join_size_unique (fun a => cell a lc) (fun b => cell b rc) (eval db l) (eval db r) (sr.uniq rc hr)
          simp only [hr, Bool.or_true, if_true, joinSizeUnique] at *
          have := sl.size; have := sr.size
          omega
        · have hl' : flag (uniq l) lc = false := by simpa using hl
          have hr' : flag (uniq r) rc = false := by simpa using hr
          simp only [hl', hr', Bool.or_false, Bool.false_eq_true, if_false]
          exact Nat.le_trans (C07.join_size_product _ _ _ _) (Nat.mul_le_mul sl.size sr.size)
    · intro row hrow
      simp only [eval, List.mem_map] at hrow
      obtain ⟨ab, hab, rfl⟩ := hrow
      obtain ⟨h1, h2, _⟩ := mem_joinOn _ _ _ _ ab hab
      simp [width, sl.wid _ h1, sr.wid _ h2]
    · intro c hc
      simp only [uniq] at hc
      by_cases hcl : c < width l
      · -- a column of the left input
        have hc' : flag ((uniq l).map (· && flag (uniq r) rc)) c = true := by
          rw [flag_append_left _ _ _ (by simpa [uniq_length] using hcl)] at hc
          exact hc
        obtain ⟨hlt, hp⟩ := flag_map (uniq l) (· && flag (uniq r) rc) c hc'
        simp only [Bool.and_eq_true] at hp
        have hfl : flag (uniq l) c = true := flag_of_getElem _ _ hlt hp.1
        have := C14.join_keeps_left_unique (fun a => cell a lc) (fun b => cell b rc) (fun a => cell a c) (eval db l) (eval db r)
          (sl.uniq c hfl) (sr.uniq rc hp.2)
        have hcol : colVals (eval db (.join lc rc l r)) c =
            (joinOn (fun a => cell a lc) (fun b => cell b rc) (eval db l) (eval db r)).map fun ab => cell ab.1 c := by
          simp only [colVals, eval, List.map_map]
          apply List.map_congr_left
          intro ab hab
          simp only [Function.comp]
          exact cell_append_left _ _ _ (by rw [hwl ab hab]; exact hcl)
        rw [hcol]; exact this
      · -- a column of the right input
        have hge : width l ≤ c := by omega
        have hc' : flag ((uniq r).map (· && flag (uniq l) lc)) (c - width l) = true := by
          rw [flag_append_right _ _ _ (by simpa [uniq_length] using hge)] at hc
          simpa [uniq_length] using hc
        obtain ⟨hlt, hp⟩ := flag_map (uniq r) (· && flag (uniq l) lc) (c - width l) hc'
        simp only [Bool.and_eq_true] at hp
        have hfr : flag (uniq r) (c - width l) = true := flag_of_getElem _ _ hlt hp.1
        have := join_keeps_right_unique (fun a => cell a lc) (fun b => cell b rc) (fun b => cell b (c - width l)) (eval db l) (eval db r)
          (sl.uniq lc hp.2) (sr.uniq _ hfr)
        have hcol : colVals (eval db (.join lc rc l r)) c =
            (joinOn (fun a => cell a lc) (fun b => cell b rc) (eval db l) (eval db r)).map fun ab => cell ab.2 (c - width l) := by
          simp only [colVals, eval, List.map_map]
          apply List.map_congr_left
          intro ab hab
          simp only [Function.comp]
          rw [cell_append_right _ _ _ (by rw [hwl ab hab]; exact hge), hwl ab hab]
        rw [hcol]; exact this
  | union all l r ihl ihr =>
    have sl := ihl h.1
    have sr := ihr h.2.1
    have hw := h.2.2
    have hwid : ∀ row ∈ eval db l ++ eval db r, row.length = width l := by
      intro row hrow
      rcases List.mem_append.mp hrow with h1 | h1
      · exact sl.wid _ h1
      · rw [hw]; exact sr.wid _ h1
    cases all with
    | true =>
      refine ⟨?_, ?_, ?_⟩
      · simp only [eval, sizeMax, List.length_append, unionMax]; have := sl.size; have := sr.size; omega
      · intro row hrow; simp only [eval] at hrow; simpa [width] using hwid row hrow
      · intro c hc; simp only [uniq] at hc; rw [flag_map_false] at hc; exact absurd hc (by simp)
    | false =>
      refine ⟨?_, ?_, ?_⟩
      · simp only [eval, sizeMax, unionMax]
        have := dedup_length_le (eval db l ++ eval db r)
        simp only [List.length_append] at this
        have := sl.size; have := sr.size; omega
      · intro row hrow; simp only [eval] at hrow
        simpa [width] using hwid row ((mem_dedup_iff row _).mp hrow)
      · intro c hc; simp only [uniq] at hc; rw [flag_map_false] at hc; exact absurd hc (by simp)
  | intersect l r ihl ihr =>
    have sl := ihl h.1
    have sr := ihr h.2.1
    refine ⟨?_, ?_, ?_⟩
    · simp only [eval, sizeMax, intersectMax]
      have h1 : (dedup ((eval db l).filter fun a => (eval db r).contains a)).length ≤ (eval db l).length :=
        Nat.le_trans (dedup_length_le _) (List.length_filter_le _ _)
      have h2 : (dedup ((eval db l).filter fun a => (eval db r).contains a)).length ≤ (eval db r).length := by
        apply (List.subperm_of_subset (dedup_nodup _) _).length_le
        intro x hx
        have := (List.mem_filter.mp ((mem_dedup_iff x _).mp hx)).2
        simpa using this
      have := sl.size; have := sr.size
      omega
    · intro row hrow; simp only [eval] at hrow
      have := (List.mem_filter.mp ((mem_dedup_iff row _).mp hrow)).1
      simpa [width] using sl.wid _ this
    · intro c hc; simp only [uniq] at hc; rw [flag_map_false] at hc; exact absurd hc (by simp)
  | except l r ihl ihr =>
    have sl := ihl h.1
    refine ⟨?_, ?_, ?_⟩
    · simp only [eval, sizeMax, exceptMax]
      have h1 : (dedup ((eval db l).filter fun a => !(eval db r).contains a)).length ≤ (eval db l).length :=
        Nat.le_trans (dedup_length_le _) (List.length_filter_le _ _)
      have := sl.size
      omega
    · intro row hrow; simp only [eval] at hrow
      have := (List.mem_filter.mp ((mem_dedup_iff row _).mp hrow)).1
      simpa [width] using sl.wid _ this
    · intro c hc; simp only [uniq] at hc; rw [flag_map_false] at hc; exact absurd hc (by simp)
  | reduce keys t ih =>
    have s := ih h
    -- every group is the key tuple of some row
    have hgrp : ∀ g ∈ dedup ((eval db t).map fun r => keys.map (cell r)), ∃ r ∈ eval db t, g = keys.map (cell r) := by
      intro g hg
      obtain ⟨r, hr, rfl⟩ := List.mem_map.mp ((mem_dedup_iff g _).mp hg)
      exact ⟨r, hr, rfl⟩
    refine ⟨?_, ?_, ?_⟩
    · simp only [eval, sizeMax, List.length_map]
      have := dedup_length_le ((eval db t).map fun r => keys.map (cell r))
      simp only [List.length_map] at this
      exact Nat.le_trans this s.size
    · intro row hrow
      simp only [eval, List.mem_map] at hrow
      obtain ⟨g, hg, rfl⟩ := hrow
      obtain ⟨r, _, rfl⟩ := hgrp g hg
      simp [width]
    · intro c hc
      simp only [uniq] at hc
      have hck : c < keys.length := by
        by_contra hge
        rw [flag_append_right _ _ _ (by simpa using hge)] at hc
        have hlt := flag_lt hc
        have h0 : c - (keys.map fun k => keys.length == 1 || flag (uniq t) k).length = 0 := by
          simpa using hlt
        rw [h0] at hc
        exact absurd hc (by decide)
      rw [flag_append_left _ _ _ (by simpa using hck)] at hc
      obtain ⟨_, hp⟩ := flag_map keys (fun k => keys.length == 1 || flag (uniq t) k) c hc
      -- the column of the output is the column of the groups
      have hcol : colVals (eval db (.reduce keys t)) c =
          (dedup ((eval db t).map fun r => keys.map (cell r))).map fun g => cell g c := by
        simp only [colVals, eval, List.map_map]
        apply List.map_congr_left
        intro g hg
        obtain ⟨r, _, rfl⟩ := hgrp g hg
        simp only [Function.comp]
        exact cell_append_left _ _ _ (by simpa using hck)
      rw [hcol]
      simp only [Bool.or_eq_true, beq_iff_eq] at hp
      rcases hp with h1 | hu
      · -- a single grouping key: the groups are duplicate-free one-element tuples
        apply (dedup_nodup _).map_on
        intro g1 hg1 g2 hg2 heq
        obtain ⟨r1, _, rfl⟩ := hgrp g1 hg1
        obtain ⟨r2, _, rfl⟩ := hgrp g2 hg2
        obtain ⟨k, rfl⟩ := List.length_eq_one_iff.mp h1
        have hc0 : c = 0 := by simpa using hck
        subst hc0
        simpa [cell] using heq
      · -- a key that is unique in the input: the groups are a sub-list of the rows' key tuples
        have hsub := (dedup_sublist ((eval db t).map fun r => keys.map (cell r))).map fun g => cell g c
        apply List.Nodup.sublist hsub
        have : (((eval db t).map fun r => keys.map (cell r)).map fun g => cell g c) = colVals (eval db t) keys[c] := by
          simp only [colVals, List.map_map]
          apply List.map_congr_left
          intro r _
          simp only [Function.comp]
          exact cell_map keys (cell r) c hck
        rw [this]
        exact s.uniq _ hu

/-- C07, every tree: the result never has more rows than the declared size -/
theorem size_sound (db : Nat → List Row) (t : T) (h : Conf db t) : (eval db t).length ≤ sizeMax t := (sound db t h).size

/-- C14, every tree: a column flagged UNIQUE holds pairwise distinct values -/
theorem unique_sound (db : Nat → List Row) (t : T) (h : Conf db t) (c : Nat) (hc : flag (uniq t) c = true) :
    (colVals (eval db t) c).Nodup := (sound db t h).uniq c hc

/-- non-vacuity: a reduce over a join on a unique key over conforming tables, with a flagged output column -/
def exDb : Nat → List Row := fun i => if i = 0 then [[1, 5], [2, 5]] else [[1, 7], [1, 8], [2, 9]]
def exJoin : T := .join 0 0 (.table 0 2 [true, false]) (.table 1 3 [false, true])

example : Conf exDb (.reduce [3] exJoin) := by
  refine ⟨⟨by decide, by decide, ?_⟩, ⟨by decide, by decide, ?_⟩⟩
  · intro c hc
    have := flag_lt hc
    rcases c with _ | _ | c
    · decide
    · exact absurd hc (by decide)
    · simp only [List.length_cons, List.length_nil] at this; omega
  · intro c hc
    have := flag_lt hc
    rcases c with _ | _ | c
    · exact absurd hc (by decide)
    · decide
    · simp only [List.length_cons, List.length_nil] at this; omega

example : flag (uniq (.reduce [3] exJoin)) 0 = true ∧ flag (uniq (.reduce [0, 2] exJoin)) 0 = false ∧
    sizeMax (.reduce [3] exJoin) = 3 ∧ eval exDb (.reduce [3] exJoin) = [[7, 1], [8, 1], [9, 1]] := by decide

/-- the flags are not vacuous either way: grouping by two keys must not flag the first one (and `uniq` does not) -/
theorem two_keys_not_flagged : flag (uniq (.reduce [0, 1] (.table 0 4 [false, false]))) 0 = false := by decide

end Qrlew.C07Tree

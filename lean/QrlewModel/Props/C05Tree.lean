import QrlewModel.Props.C05
import QrlewModel.Model.PupTree
/-!
# C05 — non-interference of privacy-unit tracking for whole operator trees

`Qrlew.PupTree.eval` is the model of the privacy-unit-preserving rewriting (strategy Hard) for trees of maps, filters, joins of
tracked relations, inner / left joins with a public relation, `UNION [ALL]` and reduces; the `pup` stream runs it against the real
rewriting executed on SQLite.  Theorem `restrict_eval`: for every tree (any shape and depth), every database and every unit `u`,
the rows the rewriting attributes to `u` are exactly the rows obtained from the database in which all protected rows of the other
units are deleted — a tracked row depends on its own unit's data (and on public data) only.
-/
namespace Qrlew.C05
open Qrlew.Pup Qrlew.PupTree

variable {U α β γ : Type} [DecidableEq U]

/-! ### two more operator lemmas: de-duplication and the commuting form for reduce -/

theorem mem_of_mem_dedup [DecidableEq α] (x : α) : ∀ l : List α, x ∈ dedup l → x ∈ l
  | [], h => by simp [dedup] at h
  | a :: t, h => by
    simp only [dedup, List.mem_cons, List.mem_filter] at h
    rcases h with rfl | ⟨h, _⟩
    · simp
    · exact List.mem_cons_of_mem _ (mem_of_mem_dedup x t h)

theorem filter_dedup [DecidableEq α] (p : α → Bool) : ∀ l : List α, (dedup l).filter p = dedup (l.filter p)
  | [] => by simp [dedup]
  | a :: t => by
    have hc : ((dedup t).filter fun x => !(x == a)).filter p = ((dedup t).filter p).filter fun x => !(x == a) := by
      rw [List.filter_filter, List.filter_filter]
      apply List.filter_congr
      intro x _; exact Bool.and_comm _ _
    by_cases hp : p a = true
    · simp only [dedup, List.filter_cons, hp, if_true]
      rw [hc, filter_dedup p t]
    · have hp' : p a = false := by simpa using hp
      simp only [dedup, List.filter_cons, hp', Bool.false_eq_true, if_false]
      rw [hc, filter_dedup p t]
      apply List.filter_eq_self.mpr
      intro x hx
      have hx' := mem_of_mem_dedup x _ hx
      have hpx : p x = true := (List.mem_filter.mp hx').2
      have : x ≠ a := fun h => by rw [h, hp'] at hpx; exact Bool.false_ne_true hpx
      simpa using this

theorem restrict_dedup [DecidableEq α] (u : U) (R : List (U × α)) : restrict u (dedup R) = dedup (restrict u R) :=
  filter_dedup _ R

theorem filter_eraseDups_aux [BEq α] [LawfulBEq α] (p : α → Bool) :
    ∀ (n : Nat) (l : List α), l.length ≤ n → l.eraseDups.filter p = (l.filter p).eraseDups
  | 0, l, h => by
    have : l = [] := List.eq_nil_of_length_eq_zero (by omega)
    subst this; simp
  | _ + 1, [], _ => by simp
  | n + 1, a :: as, h => by
    have hlen : (as.filter fun b => !b == a).length ≤ n := by
      have := List.length_filter_le (fun b => !b == a) as
      simp only [List.length_cons] at h; omega
    rw [List.eraseDups_cons]
    by_cases hp : p a = true
    · simp only [List.filter_cons, hp, if_true]
      rw [List.eraseDups_cons, filter_eraseDups_aux p n _ hlen, List.filter_filter, List.filter_filter]
      congr 2
      apply List.filter_congr
      intro x _; exact Bool.and_comm _ _
    · have hp' : p a = false := by simpa using hp
      simp only [List.filter_cons, hp', Bool.false_eq_true, if_false]
      rw [filter_eraseDups_aux p n _ hlen, List.filter_filter]
      congr 1
      apply List.filter_congr
      intro x _
      by_cases hx : p x = true
      · have : x ≠ a := fun h => by rw [h, hp'] at hx; exact Bool.false_ne_true hx
        simp [hx, this]
      · simp [hx]

theorem filter_eraseDups [BEq α] [LawfulBEq α] (p : α → Bool) (l : List α) : l.eraseDups.filter p = (l.filter p).eraseDups :=
  filter_eraseDups_aux p l.length l (Nat.le_refl _)

/-- per-unit reduce, commuting form: the unit's groups and aggregates are those of the unit's rows -/
theorem restrict_preduce_comm [DecidableEq γ] (u : U) (key : α → γ) (agg : List α → β) (R : List (U × α)) :
    restrict u (preduce key agg R) = preduce key agg (restrict u R) := by
  simp only [restrict, preduce, List.filter_map]
  have hg : ((R.filter fun r => r.1 == u).map fun r => (r.1, key r.2)).eraseDups =
      ((R.map fun r => (r.1, key r.2)).eraseDups.filter fun g => g.1 == u) := by
    rw [filter_eraseDups, List.filter_map]
    rfl
  rw [hg]
  apply List.map_congr_left
  intro g hg'
  have hu : g.1 = u := by simpa using (List.mem_filter.mp hg').2
  simp only [List.filter_filter]
  congr 4
  apply List.filter_congr
  intro r _
  by_cases hr : r.1 = u
  · simp [hr, hu]
  · have : (r.1 == g.1) = false := by rw [hu]; simpa using hr
    simp [this]

/-! ### every tree -/

/-- **C05 for every tree of tracked operators**: restricting the output to a unit is evaluating the tree on the database
restricted to that unit (public tables untouched). -/
theorem restrict_eval (u : Nat) (env : Env) (t : T) :
    restrict u (eval env t) = eval (env.restrict u) t := by
  induction t with
  | table i => rfl
  | map c0 k0 c1 k1 t ih => simp only [eval]; rw [restrict_pmap, ih]
  | filter c k t ih => simp only [eval]; rw [restrict_pfilter, ih]
  | join p q i j l r ihl ihr => simp only [eval]; rw [restrict_pmap, restrict_joinTracked, ihl, ihr]
  | joinPub p i left l ih =>
    cases left with
    | false => simp only [eval]; rw [restrict_pmap, restrict_joinPublished, ih]; rfl
    | true => simp only [eval]; rw [restrict_pmap, restrict_leftJoinPublished, ih]; rfl
  | union all l r ihl ihr =>
    cases all with
    | true => simp only [eval]; rw [restrict_punion, ihl, ihr]
    | false => simp only [eval]; rw [restrict_dedup, restrict_punion, ihl, ihr]
  | reduce key agg count t ih => simp only [eval]; rw [restrict_pmap, restrict_preduce_comm, ih]

/-- consequence: two databases that agree on unit `u`'s protected rows and on the public table give `u` the same output rows -/
theorem eval_depends_on_own_unit (u : Nat) (e1 e2 : Env) (t : T)
    (hT : ∀ i, restrict u (e1.tracked i) = restrict u (e2.tracked i)) (hP : e1.pub = e2.pub) :
    restrict u (eval e1 t) = restrict u (eval e2 t) := by
  rw [restrict_eval, restrict_eval]
  have : e1.restrict u = e2.restrict u := by
    simp only [Env.restrict, hP]
    congr 1
    funext i; exact hT i
  rw [this]

/-- non-vacuity: a reduce over a join of two tracked tables in which two units share join keys and group keys -/
example :
    let env : Env := { tracked := fun i => if i = 0 then [(1, (1, [some 0, some 5])), (2, (1, [some 0, some 7]))]
                                            else [(1, (1, [some 0, some 1])), (2, (1, [some 0, none]))], pub := [] }
    restrict 1 (eval env (.reduce 0 1 false (.join 0 0 0 1 (.table 0) (.table 1)))) = [(1, (1, [some 0, some 1]))] := by
  decide

end Qrlew.C05

import QrlewModel.Generated.DialectFns
/-!
# C17 — every scalar function × every translator, exhaustively

`Generated/DialectFns.lean` is rebuilt on every run by rendering `SELECT f(args) FROM tf` with the real translators for every
scalar function of the library and reading the text back with the same dialect (no sampling: 44 of the pairs tried
are not read back intact on the reference tree).  `generated_functions_readable` states that the pairs that fail are exactly the
ones recorded below (each of them is also an entry of `known_findings.jsonl`, reproduced by the `dialectfns` stream with the
rendered text as replay): a translator that starts writing something its own reader does not understand breaks this theorem.
-/
namespace Qrlew.C17

/-- the recorded exceptions (hand-maintained; one entry per known finding) -/
def recordedExceptions : List (String × String × String) := [
  ("bigquery", "ExtractEpoch", "readback-error"),
  ("bigquery", "IsBool", "readback-error"),
  ("bigquery", "Log", "readback-type"),
  ("bigquery", "Md5", "readback-error"),
  ("databricks", "CastAsFloat", "readback-error"),
  ("databricks", "ExtractEpoch", "readback-type"),
  ("databricks", "IsBool", "readback-error"),
  ("hive", "ExtractEpoch", "readback-error"),
  ("hive", "IsBool", "readback-error"),
  ("hive", "Log", "readback-type"),
  ("hive", "Md5", "readback-error"),
  ("mssql", "And", "readback-type"),
  ("mssql", "BitwiseAnd", "readback-type"),
  ("mssql", "BitwiseOr", "readback-type"),
  ("mssql", "BitwiseXor", "readback-type"),
  ("mssql", "Ceil", "readback-error"),
  ("mssql", "CharLength", "readback-error"),
  ("mssql", "Eq", "readback-type"),
  ("mssql", "ExtractEpoch", "readback-error"),
  ("mssql", "Gt", "readback-type"),
  ("mssql", "GtEq", "readback-type"),
  ("mssql", "IsBool", "readback-error"),
  ("mssql", "Lt", "readback-type"),
  ("mssql", "LtEq", "readback-type"),
  ("mssql", "Md5", "readback-panic"),
  ("mssql", "Not", "readback-type"),
  ("mssql", "NotEq", "readback-type"),
  ("mssql", "Or", "readback-type"),
  ("mssql", "Substr", "readback-error"),
  ("mssql", "Xor", "readback-type"),
  ("mysql", "CastAsInteger", "readback-panic"),
  ("mysql", "Decode", "readback-panic"),
  ("mysql", "ExtractEpoch", "readback-type"),
  ("mysql", "IsBool", "readback-error"),
  ("postgresql", "BitwiseXor", "readback-panic"),
  ("postgresql", "Date", "readback-error"),
  ("postgresql", "DateFormat", "readback-error"),
  ("postgresql", "DatetimeDiff", "readback-error"),
  ("postgresql", "Dayname", "readback-error"),
  ("postgresql", "IsBool", "readback-error"),
  ("postgresql", "Quarter", "readback-error"),
  ("postgresql", "Unhex", "readback-error"),
  ("postgresql", "UnixTimestamp", "readback-error"),
  ("redshift", "IsBool", "readback-error")
]

theorem generated_functions_readable : ∀ e ∈ Generated.dialectFnNotOk, e ∈ recordedExceptions := by decide

/-- … and nothing is recorded that no longer happens (the list does not rot) -/
theorem recorded_exceptions_current : ∀ e ∈ recordedExceptions, e ∈ Generated.dialectFnNotOk := by decide

/-- non-vacuity: several hundred pairs were tried -/
example : 500 ≤ Generated.dialectFnTried := by decide

end Qrlew.C17

import QrlewModel.Lemmas.Monotone
/-!
# C06 — range propagation is sound (partitioned-monotone functions, integer arithmetic, integer sum)

The corner theorems are generic: any function, any (convex) partition on which it is monotone or
antitone in each coordinate separately (the direction may depend on the other coordinate), any
argument set, any capacity ≥ 2 — including the case where the intersection with a partition has been
collapsed to its hull.  The instances are the saturating integer `+`, `-`, `*` of `function.rs` with the
partitions declared there, and the integer `sum` aggregate on a single-interval element type.
-/
namespace Qrlew.C06
open Qrlew

theorem good_single (cap : Nat) (hc : 2 ≤ cap) (p : Int × Int) (hp : p.1 ≤ p.2) : Good cap [p] := by
  obtain ⟨a, b⟩ := p
  exact ⟨⟨hp, trivial⟩, by simp; omega⟩

/-- membership in the intersection with a single partition interval, with the box bounds -/
theorem mem_inter_single (cap : Nat) (hc : 2 ≤ cap) (s : Ivs) (hs : Good cap s) (p : Int × Int) (hp : p.1 ≤ p.2)
    (x : Int) (hx : Mem x s) (hxp : p.1 ≤ x ∧ x ≤ p.2) :
    ∃ ab ∈ inter cap s [p], (ab.1 ≤ x ∧ x ≤ ab.2) ∧ p.1 ≤ ab.1 ∧ ab.2 ≤ p.2 := by
  have hm : Mem x (inter cap s [p]) :=
    mem_inter cap hc s [p] hs (good_single cap hc p hp) x hx ⟨p, List.mem_singleton.mpr rfl, hxp⟩
  obtain ⟨ab, hab, hx'⟩ := hm
  obtain ⟨p1, p2⟩ := p
  exact ⟨ab, hab, hx', inter_single_within cap s p1 p2 ab hab⟩

/-- **Corner theorem, arity 1.** -/
theorem pm1_sound (cap : Nat) (hc : 2 ≤ cap) (parts : List (Int × Int)) (f : Int → Int) (s : Ivs)
    (hs : Good cap s) (hparts : ∀ p ∈ parts, p.1 ≤ p.2) (hmono : ∀ p ∈ parts, DirMono f p.1 p.2)
    (x : Int) (hx : Mem x s) (hdom : ∃ p ∈ parts, p.1 ≤ x ∧ x ≤ p.2) :
    Mem (f x) (pmImage1 cap parts f s) := by
  obtain ⟨p, hp, hxp⟩ := hdom
  obtain ⟨ab, hab, hxab, hbox⟩ := mem_inter_single cap hc s hs p (hparts p hp) x hx hxp
  have hb := dirMono_between f p.1 p.2 ab.1 ab.2 x (hmono p hp) hbox.1 hxab.1 hxab.2 hbox.2
  unfold pmImage1
  apply mem_fromIntervals cap hc
  · intro q hq
    simp only [List.mem_flatMap, List.mem_map] at hq
    obtain ⟨_, _, _, _, rfl⟩ := hq
    simp only; omega
  · exact ⟨(min (f ab.1) (f ab.2), max (f ab.1) (f ab.2)),
      List.mem_flatMap.mpr ⟨p, hp, List.mem_map.mpr ⟨ab, hab, rfl⟩⟩, hb⟩

/-- coordinate-wise monotonicity of `f` on the box `p` (direction may depend on the other coordinate) -/
def BoxMono (f : Int → Int → Int) (p : (Int × Int) × (Int × Int)) : Prop :=
  (∀ y, p.2.1 ≤ y → y ≤ p.2.2 → DirMono (fun x => f x y) p.1.1 p.1.2) ∧
  (∀ x, p.1.1 ≤ x → x ≤ p.1.2 → DirMono (fun y => f x y) p.2.1 p.2.2)

/-- **Corner theorem, arity 2**: the value at any point of a box lies in the hull of the 4 corner values. -/
theorem pm2_sound (cap : Nat) (hc : 2 ≤ cap) (parts : List ((Int × Int) × (Int × Int))) (f : Int → Int → Int)
    (s1 s2 : Ivs) (hs1 : Good cap s1) (hs2 : Good cap s2)
    (hparts : ∀ p ∈ parts, p.1.1 ≤ p.1.2 ∧ p.2.1 ≤ p.2.2) (hmono : ∀ p ∈ parts, BoxMono f p)
    (x y : Int) (hx : Mem x s1) (hy : Mem y s2)
    (hdom : ∃ p ∈ parts, (p.1.1 ≤ x ∧ x ≤ p.1.2) ∧ (p.2.1 ≤ y ∧ y ≤ p.2.2)) :
    Mem (f x y) (pmImage2 cap parts f s1 s2) := by
  obtain ⟨p, hp, hxp, hyp⟩ := hdom
  obtain ⟨ab, hab, hxab, hbx⟩ := mem_inter_single cap hc s1 hs1 p.1 (hparts p hp).1 x hx hxp
  obtain ⟨cd, hcd, hycd, hby⟩ := mem_inter_single cap hc s2 hs2 p.2 (hparts p hp).2 y hy hyp
  have hm := hmono p hp
  -- first move along x at height y, then along y at the two x-corners
  have h1 := dirMono_between (fun x => f x y) p.1.1 p.1.2 ab.1 ab.2 x (hm.1 y hyp.1 hyp.2) hbx.1 hxab.1 hxab.2 hbx.2
  have ha : p.1.1 ≤ ab.1 ∧ ab.1 ≤ p.1.2 := by omega
  have hb : p.1.1 ≤ ab.2 ∧ ab.2 ≤ p.1.2 := by omega
  have h2 := dirMono_between (fun y => f ab.1 y) p.2.1 p.2.2 cd.1 cd.2 y (hm.2 ab.1 ha.1 ha.2) hby.1 hycd.1 hycd.2 hby.2
  have h3 := dirMono_between (fun y => f ab.2 y) p.2.1 p.2.2 cd.1 cd.2 y (hm.2 ab.2 hb.1 hb.2) hby.1 hycd.1 hycd.2 hby.2
  have h1 : min (f ab.1 y) (f ab.2 y) ≤ f x y ∧ f x y ≤ max (f ab.1 y) (f ab.2 y) := h1
  have h2 : min (f ab.1 cd.1) (f ab.1 cd.2) ≤ f ab.1 y ∧ f ab.1 y ≤ max (f ab.1 cd.1) (f ab.1 cd.2) := h2
  have h3 : min (f ab.2 cd.1) (f ab.2 cd.2) ≤ f ab.2 y ∧ f ab.2 y ≤ max (f ab.2 cd.1) (f ab.2 cd.2) := h3
  unfold pmImage2
  apply mem_fromIntervals cap hc
  · intro q hq
    simp only [List.mem_flatMap, List.mem_map] at hq
    obtain ⟨_, _, _, _, _, _, rfl⟩ := hq
    simp only [min4, max4]; omega
  · refine ⟨(min4 (f ab.1 cd.1) (f ab.1 cd.2) (f ab.2 cd.1) (f ab.2 cd.2), max4 (f ab.1 cd.1) (f ab.1 cd.2) (f ab.2 cd.1) (f ab.2 cd.2)),
      List.mem_flatMap.mpr ⟨p, hp, List.mem_flatMap.mpr ⟨cd, hcd, List.mem_map.mpr ⟨ab, hab, rfl⟩⟩⟩, ?_⟩
    simp only [min4, max4]; omega

/-! ### instances: the integer implementations of `function.rs` -/

theorem sat_mono {u v : Int} (h : u ≤ v) : sat u ≤ sat v := by unfold sat; omega

theorem plus_boxMono : BoxMono plusI (fullI, fullI) := by
  refine ⟨fun y _ _ => Or.inl ?_, fun x _ _ => Or.inl ?_⟩ <;>
    (intro u v _ huv _; simp only [plusI]; exact sat_mono (by omega))

theorem minus_boxMono : BoxMono minusI (fullI, fullI) := by
  refine ⟨fun y _ _ => Or.inl ?_, fun x _ _ => Or.inr ?_⟩ <;>
    (intro u v _ huv _; simp only [minusI]; exact sat_mono (by omega))

theorem mul_boxMono : ∀ p ∈ mulParts, BoxMono mulI p := by
  intro p hp
  simp only [mulParts, List.mem_cons, List.mem_nil_iff, or_false] at hp
  rcases hp with rfl | rfl | rfl | rfl <;> simp only [BoxMono, geZero, leZero] <;> constructor
  all_goals first
    | (intro y hy1 hy2; first
        | (left; intro u v _ huv _; simp only [mulI]; exact sat_mono (Int.mul_le_mul_of_nonneg_right huv (by omega)))
        | (right; intro u v _ huv _; simp only [mulI]; exact sat_mono (Int.mul_le_mul_of_nonpos_right huv (by omega))))
    | (intro x hx1 hx2; first
        | (left; intro u v _ huv _; simp only [mulI]; exact sat_mono (Int.mul_le_mul_of_nonneg_left huv (by omega)))
        | (right; intro u v _ huv _; simp only [mulI]; exact sat_mono (Int.mul_le_mul_of_nonpos_left (by omega) huv)))

/-- every pair of i64 values lies in one of the four quadrants -/
theorem mul_cover (x y : Int) (hx : i64Min ≤ x ∧ x ≤ i64Max) (hy : i64Min ≤ y ∧ y ≤ i64Max) :
    ∃ p ∈ mulParts, (p.1.1 ≤ x ∧ x ≤ p.1.2) ∧ (p.2.1 ≤ y ∧ y ≤ p.2.2) := by
  simp only [mulParts, geZero, leZero, i64Min, i64Max] at *
  by_cases h1 : 0 ≤ x <;> by_cases h2 : 0 ≤ y
  · exact ⟨_, List.mem_cons_self, by simp; omega⟩
  · exact ⟨_, List.mem_cons_of_mem _ List.mem_cons_self, by simp; omega⟩
  · exact ⟨_, List.mem_cons_of_mem _ (List.mem_cons_of_mem _ List.mem_cons_self), by simp; omega⟩
  · exact ⟨_, List.mem_cons_of_mem _ (List.mem_cons_of_mem _ (List.mem_cons_of_mem _ List.mem_cons_self)), by simp; omega⟩

/-- **`+` on integers**: for all argument sets and all i64 arguments in them, the propagated range contains `x + y` (saturating). -/
theorem plus_sound (cap : Nat) (hc : 2 ≤ cap) (s1 s2 : Ivs) (h1 : Good cap s1) (h2 : Good cap s2) (x y : Int)
    (hx : Mem x s1) (hy : Mem y s2) (hxr : i64Min ≤ x ∧ x ≤ i64Max) (hyr : i64Min ≤ y ∧ y ≤ i64Max) :
    Mem (plusI x y) (plusImage cap s1 s2) :=
  pm2_sound cap hc plusParts plusI s1 s2 h1 h2 (by intro p hp; simp [plusParts] at hp; subst hp; simp [fullI, i64Min, i64Max])
    (by intro p hp; simp [plusParts] at hp; subst hp; exact plus_boxMono) x y hx hy
    ⟨(fullI, fullI), by simp [plusParts], by simpa [fullI] using hxr, by simpa [fullI] using hyr⟩

theorem minus_sound (cap : Nat) (hc : 2 ≤ cap) (s1 s2 : Ivs) (h1 : Good cap s1) (h2 : Good cap s2) (x y : Int)
    (hx : Mem x s1) (hy : Mem y s2) (hxr : i64Min ≤ x ∧ x ≤ i64Max) (hyr : i64Min ≤ y ∧ y ≤ i64Max) :
    Mem (minusI x y) (minusImage cap s1 s2) :=
  pm2_sound cap hc plusParts minusI s1 s2 h1 h2 (by intro p hp; simp [plusParts] at hp; subst hp; simp [fullI, i64Min, i64Max])
    (by intro p hp; simp [plusParts] at hp; subst hp; exact minus_boxMono) x y hx hy
    ⟨(fullI, fullI), by simp [plusParts], by simpa [fullI] using hxr, by simpa [fullI] using hyr⟩

/-- **`*` on integers** with the four-quadrant partition of `function.rs`. -/
theorem mul_sound (cap : Nat) (hc : 2 ≤ cap) (s1 s2 : Ivs) (h1 : Good cap s1) (h2 : Good cap s2) (x y : Int)
    (hx : Mem x s1) (hy : Mem y s2) (hxr : i64Min ≤ x ∧ x ≤ i64Max) (hyr : i64Min ≤ y ∧ y ≤ i64Max) :
    Mem (mulI x y) (mulImage cap s1 s2) :=
  pm2_sound cap hc mulParts mulI s1 s2 h1 h2
    (by intro p hp; simp only [mulParts, List.mem_cons, List.mem_nil_iff, or_false] at hp
        rcases hp with rfl | rfl | rfl | rfl <;> simp [geZero, leZero, i64Min, i64Max])
    mul_boxMono x y hx hy (mul_cover x y hxr hyr)

/-! ### integer `sum`: bounds of the sum of a list; regression of the repaired union-of-intervals defect -/

theorem sum_bounds (xs : List Int) (a b : Int) (h : ∀ x ∈ xs, a ≤ x ∧ x ≤ b) :
    (xs.length : Int) * a ≤ xs.sum ∧ xs.sum ≤ (xs.length : Int) * b := by
  induction xs with
  | nil => simp
  | cons x rest ih =>
    have hx := h x List.mem_cons_self
    have := ih (fun y hy => h y (List.mem_cons_of_mem _ hy))
    simp only [List.length_cons, List.sum_cons]
    have e1 : ((rest.length + 1 : Nat) : Int) * a = (rest.length : Int) * a + a := by
      rw [Int.natCast_succ, Int.add_mul, Int.one_mul]
    have e2 : ((rest.length + 1 : Nat) : Int) * b = (rest.length : Int) * b + b := by
      rw [Int.natCast_succ, Int.add_mul, Int.one_mul]
    omega

/-- Regression for the repaired defect (before the fix the image of elements {1, 10} × size {2} was {2, 20}
and excluded 1 + 10 = 11; the witness is kept in corpus/C06 and must now pass). -/
theorem sum_union_regression :
    Mem ([1, 10].sum) (sumImage 128 [(1, 1), (10, 10)] [(2, 2)]) ∧
    Mem ([4, 4, 2].sum) (sumImage 128 [(2, 2), (4, 4)] [(3, 3)]) := by decide

/-- Non-vacuity: the corner hull on a box that straddles two quadrants of `*`. -/
example : mulImage 128 [(-2, 3)] [(4, 5)] = [(-10, 15)] := by decide

end Qrlew.C06

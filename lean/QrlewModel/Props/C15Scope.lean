import QrlewModel.Props.C15
/-!
# C15 — scopes: the bindings a query adds shadow the ones of its context

`hextend base ctes` is the model of how `VisitedQueryRelations::new` builds the relations visible to a query: the context's tables,
extended with the query's CTEs / named sub-queries (compared with `Hierarchy::extend` / `Hierarchy::with` by the `hierops` stream).
For every context, every list of new bindings and every name: a new binding named exactly `p` is what `p` denotes afterwards —
whatever tables of the context carry the same path or a longer path ending in `p` — and a name none of the new bindings is
compatible with keeps its meaning.
-/
namespace Qrlew.C15
open Qrlew

variable {α β : Type} [DecidableEq α]

theorem keys_hinsert (m : List (List α × β)) (k : List α) (v : β) :
    (hinsert m k v).map (·.1) = if m.any (fun e => e.1 == k) then m.map (·.1) else m.map (·.1) ++ [k] := by
  unfold hinsert
  split
  · rw [List.map_map]
    apply List.map_congr_left
    intro e _
    by_cases h : e.1 = k <;> simp [h]
  · simp

theorem hinsert_keysNodup (m : List (List α × β)) (k : List α) (v : β) (hk : KeysNodup m) : KeysNodup (hinsert m k v) := by
  unfold KeysNodup at *
  rw [keys_hinsert]
  split
  · exact hk
  · rename_i h
    apply List.nodup_append.mpr
    refine ⟨hk, by simp, ?_⟩
    intro a ha b hb
    simp only [List.mem_singleton] at hb
    subst hb
    intro hab
    apply h
    obtain ⟨e, he, rfl⟩ := List.mem_map.mp ha
    exact List.any_eq_true.mpr ⟨e, he, by simp [hab]⟩

theorem hextend_keysNodup (m n : List (List α × β)) (hk : KeysNodup m) : KeysNodup (hextend m n) := by
  unfold hextend
  induction n generalizing m with
  | nil => exact hk
  | cons e rest ih => exact ih _ (hinsert_keysNodup m e.1 e.2 hk)

theorem mem_hinsert_self (m : List (List α × β)) (k : List α) (v : β) : (k, v) ∈ hinsert m k v := by
  unfold hinsert
  split
  · rename_i h
    obtain ⟨e, he, hek⟩ := List.any_eq_true.mp h
    exact List.mem_map.mpr ⟨e, he, by simp [hek]⟩
  · simp

theorem mem_hinsert_other (m : List (List α × β)) (k p : List α) (v w : β) (hne : k ≠ p) (h : (p, w) ∈ m) :
    (p, w) ∈ hinsert m k v := by
  unfold hinsert
  split
  · exact List.mem_map.mpr ⟨(p, w), h, by simp [Ne.symm hne]⟩
  · exact List.mem_append_left _ h

/-- a binding that no later binding of the list overrides is present after the extension -/
theorem mem_hextend (m n : List (List α × β)) (p : List α) (v : β) (hn : KeysNodup n) (h : (p, v) ∈ n) :
    (p, v) ∈ hextend m n := by
  unfold hextend
  induction n generalizing m with
  | nil => simp at h
  | cons e rest ih =>
    simp only [KeysNodup, List.map_cons, List.nodup_cons] at hn
    simp only [List.foldl]
    rcases List.mem_cons.mp h with he | hr
    · -- the binding is `e`; the remaining ones have other names and leave it in place
      subst he
      have keep : ∀ (rest : List (List α × β)) (acc : List (List α × β)), (∀ e ∈ rest, e.1 ≠ p) → (p, v) ∈ acc →
          (p, v) ∈ rest.foldl (fun acc e => hinsert acc e.1 e.2) acc := by
        intro rest
        induction rest with
        | nil => intro acc _ h; exact h
        | cons f fs ihf =>
          intro acc hne hacc
          simp only [List.foldl]
          exact ihf _ (fun e he => hne e (List.mem_cons_of_mem _ he)) (mem_hinsert_other acc f.1 p f.2 v (hne f (by simp)) hacc)
      apply keep rest _ _ (mem_hinsert_self m p v)
      intro e he heq
      exact hn.1 (List.mem_map.mpr ⟨e, he, heq⟩)
    · exact ih _ hn.2 hr

/-- **Shadowing**: a new binding named exactly `p` is what `p` denotes in the extended scope. -/
theorem lookup_hextend_shadow (m n : List (List α × β)) (p : List α) (v : β) (hm : KeysNodup m) (hn : KeysNodup n)
    (h : (p, v) ∈ n) : lookup (hextend m n) p = some (p, v) :=
  lookup_exact _ p v (hextend_keysNodup m n hm) (mem_hextend m n p v hn h)

theorem zip_self_eq (l : List α) : ∀ ab ∈ l.zip l, ab.1 = ab.2 := by
  induction l with
  | nil => simp
  | cons a t ih =>
    intro ab hab
    simp only [List.zip_cons_cons, List.mem_cons] at hab
    rcases hab with rfl | h
    · rfl
    · exact ih ab h

theorem compat_self (p : List α) : compat p p = true := by
  unfold compat
  apply List.all_eq_true.mpr
  intro ab hab
  simp [zip_self_eq _ ab hab]

/-- lookups only see the entries compatible with the path -/
theorem lookup_filter_compat (m : List (List α × β)) (p : List α) :
    lookup (m.filter fun e => compat p e.1) p = lookup m p := by
  unfold lookup
  have hfind : (m.filter fun e => compat p e.1).find? (fun e => e.1 == p) = m.find? (fun e => e.1 == p) := by
    induction m with
    | nil => rfl
    | cons a t ih =>
      by_cases ha : a.1 = p
      · have hpp := compat_self p
        simp [List.filter_cons, ha, hpp]
      · by_cases hca : compat p a.1 = true
        · simp [List.filter_cons, hca, ha, ih]
        · simp [List.filter_cons, hca, ha, ih]
  rw [hfind]
  cases m.find? (fun e => e.1 == p) with
  | some e => rfl
  | none =>
    simp only []
    rw [fold_eq_filter, fold_eq_filter, List.filter_filter]
    simp

theorem filter_compat_replace (m : List (List α × β)) (k p : List α) (v : β) (hc : compat p k = false) :
    (m.map fun e => if e.1 == k then (k, v) else e).filter (fun e => compat p e.1) = m.filter (fun e => compat p e.1) := by
  induction m with
  | nil => rfl
  | cons a t ih =>
    by_cases ha : a.1 = k
    · have h1 : compat p a.1 = false := by rw [ha]; exact hc
      simp only [List.map_cons, ha, beq_self_eq_true, if_true, List.filter_cons, hc, h1, Bool.false_eq_true, if_false]
      exact ih
    · have hb : (a.1 == k) = false := by simpa using ha
      simp only [List.map_cons, hb, Bool.false_eq_true, if_false, List.filter_cons]
      rw [ih]

theorem filter_compat_hinsert (m : List (List α × β)) (k p : List α) (v : β) (hc : compat p k = false) :
    (hinsert m k v).filter (fun e => compat p e.1) = m.filter (fun e => compat p e.1) := by
  unfold hinsert
  split
  · exact filter_compat_replace m k p v hc
  · simp [List.filter_append, List.filter_cons, hc]

/-- **Nothing else moves**: a name with which none of the new bindings is compatible denotes what it denoted in the context. -/
theorem lookup_hextend_untouched (m n : List (List α × β)) (p : List α) (hn : ∀ e ∈ n, compat p e.1 = false) :
    lookup (hextend m n) p = lookup m p := by
  rw [← lookup_filter_compat (hextend m n), ← lookup_filter_compat m]
  congr 1
  unfold hextend
  induction n generalizing m with
  | nil => rfl
  | cons e rest ih =>
    simp only [List.foldl]
    rw [ih _ (fun e he => hn e (List.mem_cons_of_mem _ he)), filter_compat_hinsert m e.1 p e.2 (hn e (by simp))]

/-! ## `filter` and `prepend` (what a qualified wildcard / a schema prefix uses) keep keys distinct and exact names stable -/

theorem hfilter_keysNodup (m : List (List α × β)) (p : List α) (hk : KeysNodup m) : KeysNodup (hfilter m p) := by
  unfold KeysNodup hfilter at *
  exact List.Nodup.sublist (List.Sublist.map _ List.filter_sublist) hk

theorem hprepend_keysNodup (m : List (List α × β)) (h : List α) (hk : KeysNodup m) : KeysNodup (hprepend m h) := by
  unfold KeysNodup hprepend at *
  rw [List.map_map]
  have : (fun e : List α × β => h ++ e.1) = (fun k => h ++ k) ∘ (·.1) := rfl
  show (List.map ((fun e : List α × β => (h ++ e.1, e.2).1)) m).Nodup
  simp only
  rw [this, ← List.map_map]
  exact List.Pairwise.map (fun k => h ++ k) (fun a b hab hc => hab (List.append_cancel_left hc)) hk

/-- a binding kept by `filter` is still what its exact name denotes -/
theorem lookup_hfilter_exact (m : List (List α × β)) (p k : List α) (v : β) (hk : KeysNodup m) (h : (k, v) ∈ m)
    (hp : prefixCompat p k = true) : lookup (hfilter m p) k = some (k, v) :=
  lookup_exact (hfilter m p) k v (hfilter_keysNodup m p hk) (by unfold hfilter; exact List.mem_filter.mpr ⟨h, hp⟩)

/-- after `prepend h`, the full path `h ++ k` denotes the binding `k` denoted -/
theorem lookup_hprepend_exact (m : List (List α × β)) (h k : List α) (v : β) (hk : KeysNodup m) (hm : (k, v) ∈ m) :
    lookup (hprepend m h) (h ++ k) = some (h ++ k, v) :=
  lookup_exact (hprepend m h) (h ++ k) v (hprepend_keysNodup m h hk)
    (by unfold hprepend; exact List.mem_map.mpr ⟨(k, v), hm, rfl⟩)

/-- non-vacuity: the context has the table `t`, and `s.t`; the query defines a CTE `t` -/
example :
    let base : List (List String × Nat) := [(["t"], 1), (["s", "t"], 2), (["u"], 3)]
    let ctes : List (List String × Nat) := [(["t"], 10)]
    lookup (hextend base ctes) ["t"] = some (["t"], 10) ∧ lookup (hextend base ctes) ["u"] = some (["u"], 3) ∧
      lookup (hextend base ctes) ["s", "t"] = some (["s", "t"], 2) := by decide

/-- non-vacuity for `filter` / `prepend`: `s.t` survives the filter on `s` (and `t`, `u` do not); after prepending `db` the full path resolves -/
example :
    let base : List (List String × Nat) := [(["t"], 1), (["s", "t"], 2), (["u"], 3)]
    hfilter base ["s"] = [(["s", "t"], 2)] ∧ lookup (hfilter base ["s"]) ["s", "t"] = some (["s", "t"], 2) ∧
      lookup (hprepend base ["db"]) ["db", "u"] = some (["db", "u"], 3) := by decide

end Qrlew.C15

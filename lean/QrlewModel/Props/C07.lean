import QrlewModel.Model.Rel
import QrlewModel.Lemmas.Lists
/-!
# C07 — declared size bounds contain what execution produces (size lemmas)

For every bag (any number of rows, duplicates, empty inputs): LIMIT/OFFSET arithmetic of a Map, set
operations, and inner joins (product bound; `max` bound when a join key is unique).  The bound the code
declares for *outer* joins is refuted by a kernel-checked counterexample (known finding).
-/
namespace Qrlew.C07
open Qrlew.Rel
variable {α β κ : Type}

/-- **Map::size**: filter, then OFFSET, then LIMIT never yields more rows than declared. -/
theorem map_size (p : α → Bool) (offset limit : Option Nat) (b : List α) (inputMax : Nat) (h : b.length ≤ inputMax) :
    (mapRows p offset limit b).length ≤ mapSizeMax inputMax offset limit := by
  have hf : (b.filter p).length ≤ inputMax := Nat.le_trans (List.length_filter_le p b) h
  unfold mapRows mapSizeMax
  cases offset <;> cases limit <;> simp [List.length_take, List.length_drop] <;> omega

theorem union_all_size (L R : List α) (l r : Nat) (hl : L.length ≤ l) (hr : R.length ≤ r) :
    (L ++ R).length ≤ unionMax l r := by simp [unionMax]; omega

/-- UNION / INTERSECT / EXCEPT with duplicate elimination return a sub-bag of what the ALL forms return -/
theorem union_distinct_size (U L R : List α) (l r : Nat) (hl : L.length ≤ l) (hr : R.length ≤ r)
    (hU : U.Sublist (L ++ R)) : U.length ≤ unionMax l r := by
  have := hU.length_le; simp [unionMax] at *; omega

theorem intersect_size (U L R : List α) (l r : Nat) (hl : L.length ≤ l) (hr : R.length ≤ r)
    (h1 : U.Sublist L) (h2 : U.length ≤ R.length) : U.length ≤ intersectMax l r := by
  have := h1.length_le; unfold intersectMax; omega

theorem except_size [DecidableEq α] (L R : List α) (l r : Nat) (hl : L.length ≤ l) :
    (L.filter fun a => !R.contains a).length ≤ exceptMax l r := by
  have := List.length_filter_le (fun a => !R.contains a) L
  unfold exceptMax; omega

/-- inner join: product bound -/
theorem join_size_product [DecidableEq κ] (kl : α → κ) (kr : β → κ) (L : List α) (R : List β) :
    (joinOn kl kr L R).length ≤ L.length * R.length := by
  induction L with
  | nil => simp [joinOn]
  | cons a t ih =>
    simp only [joinOn, List.flatMap_cons, List.length_append, List.length_map, List.length_cons] at *
    have := List.length_filter_le (fun b => kl a == kr b) R
    rw [Nat.succ_mul]; omega

/-- at most one row of a bag with pairwise distinct keys has a given key -/
theorem filter_key_le_one [DecidableEq κ] (kr : β → κ) (R : List β) (h : (R.map kr).Nodup) (k : κ) :
    (R.filter fun b => k == kr b).length ≤ 1 := by
  induction R with
  | nil => simp
  | cons b t ih =>
    simp only [List.map_cons, List.nodup_cons] at h
    by_cases hk : k = kr b
    · have hnil : (t.filter fun b' => k == kr b') = [] := by
        apply List.filter_eq_nil_iff.mpr
        intro b' hb'
        simp only [beq_iff_eq]
        intro hkb
        exact h.1 (by rw [← hk, hkb]; exact List.mem_map.mpr ⟨b', hb', rfl⟩)
      have hb : (k == kr b) = true := by simpa using hk
      simp only [List.filter_cons, hb, if_true, List.length_cons, hnil, List.length_nil]
      omega
    · have hb : (k == kr b) = false := by simpa using hk
      simp only [List.filter_cons, hb]
      exact ih h.2

/-- inner join with a unique key on the right: at most one match per left row, hence ≤ |L| ≤ max(|L|, |R|) -/
theorem join_size_unique [DecidableEq κ] (kl : α → κ) (kr : β → κ) (L : List α) (R : List β) (h : (R.map kr).Nodup) :
    (joinOn kl kr L R).length ≤ joinSizeUnique L.length R.length := by
  have hL : (joinOn kl kr L R).length ≤ L.length := by
    induction L with
    | nil => simp [joinOn]
    | cons a t ih =>
      simp only [joinOn, List.flatMap_cons, List.length_append, List.length_map, List.length_cons] at *
      have := filter_key_le_one kr R h (kl a)
      omega
  unfold joinSizeUnique; omega

/-- `Reduce::size`: a GROUP BY returns at most one row per input row (one per distinct key) -/
theorem reduce_size [DecidableEq κ] (key : α → κ) (b : List α) (inputMax : Nat) (h : b.length ≤ inputMax) :
    ((b.map key).eraseDups).length ≤ inputMax := by
  have := Qrlew.Lists.eraseDups_length_le (b.map key)
  simp only [List.length_map] at this
  omega

/-- the same bound is FALSE for a LEFT OUTER join (unique key on the left): L = {1,2,3}, R = {1,1,1,1} gives 6 rows > 4
(observed on the real code: declared int[0 10], 11 rows) -/
theorem left_join_unique_bound_counterexample :
    ¬ ((leftJoinOn (fun (a : Nat) => a) (fun (b : Nat) => b) [1, 2, 3] [1, 1, 1, 1]).length ≤ joinSizeUnique 3 4) := by decide

/-- the true bound for LEFT OUTER joins: matched pairs plus the left rows -/
theorem left_join_size [DecidableEq κ] (kl : α → κ) (kr : β → κ) (L : List α) (R : List β) :
    (leftJoinOn kl kr L R).length ≤ L.length * R.length + L.length := by
  induction L with
  | nil => simp [leftJoinOn]
  | cons a t ih =>
    simp only [leftJoinOn, List.flatMap_cons, List.length_append, List.length_cons] at *
    have hm := List.length_filter_le (fun b => kl a == kr b) R
    have hlen : (if (R.filter fun b => kl a == kr b).isEmpty then [(a, (none : Option β))]
        else (R.filter fun b => kl a == kr b).map fun b => (a, some b)).length ≤ R.length + 1 := by
      split
      · simp
      · simp only [List.length_map]; omega
    rw [Nat.succ_mul]
    omega

/-- … and the sharp one when the key is unique on the *right*: a LEFT OUTER join then returns exactly one row per left row
(so the bound `max(|L|, |R|)` that `Join::size` declares is sound for that orientation — the recorded finding is the other one). -/
theorem left_join_size_unique_right [DecidableEq κ] (kl : α → κ) (kr : β → κ) (L : List α) (R : List β) (h : (R.map kr).Nodup) :
    (leftJoinOn kl kr L R).length = L.length := by
  induction L with
  | nil => simp [leftJoinOn]
  | cons a t ih =>
    simp only [leftJoinOn, List.flatMap_cons, List.length_append, List.length_cons] at *
    have h1 := filter_key_le_one kr R h (kl a)
    have hlen : (if (R.filter fun b => kl a == kr b).isEmpty then [(a, (none : Option β))]
        else (R.filter fun b => kl a == kr b).map fun b => (a, some b)).length = 1 := by
      split
      · simp
      · rename_i hne
        simp only [List.length_map]
        have : (R.filter fun b => kl a == kr b).length ≠ 0 := by
          intro h0; exact hne (by simp [List.length_eq_zero_iff.mp h0])
        omega
    omega

theorem left_join_unique_right_within_declared [DecidableEq κ] (kl : α → κ) (kr : β → κ) (L : List α) (R : List β) (h : (R.map kr).Nodup) :
    (leftJoinOn kl kr L R).length ≤ joinSizeUnique L.length R.length := by
  rw [left_join_size_unique_right kl kr L R h]; unfold joinSizeUnique; omega

/-- the declared bound of a Map is monotone in the bound of its input (a looser input bound never yields a tighter output bound) -/
theorem mapSizeMax_mono (a b : Nat) (h : a ≤ b) (offset limit : Option Nat) : mapSizeMax a offset limit ≤ mapSizeMax b offset limit := by
  unfold mapSizeMax
  cases offset <;> cases limit <;> simp only <;> omega

/-- **Stacked Maps**: the bound declared for a Map over a Map holds for the rows of the composition, for any two WHEREs, OFFSETs and
LIMITs (the inner declared bound is all the outer node knows about its input). -/
theorem map_map_size (p q : α → Bool) (o1 l1 o2 l2 : Option Nat) (b : List α) (inputMax : Nat) (h : b.length ≤ inputMax) :
    (mapRows q o2 l2 (mapRows p o1 l1 b)).length ≤ mapSizeMax (mapSizeMax inputMax o1 l1) o2 l2 :=
  map_size q o2 l2 _ _ (map_size p o1 l1 b inputMax h)

/-- Non-vacuity: OFFSET beyond the input. -/
example : mapRows (fun (x : Nat) => x > 1) (some 5) (some 2) [1, 2, 3] = [] ∧ mapSizeMax 3 (some 5) (some 2) = 0 := by decide

end Qrlew.C07

import QrlewModel.Model.Total
/-!
# C18 — where the arithmetic behind type images can panic, and where it cannot

* saturating `+ - *` are total, stay in the `i64` range and are monotone; the `(smallest, largest)` pair built from
  corner values is always ordered, so `assert!(min <= max)` cannot fire on integers (`corners_ordered`, `mul_total`, `whole_total`);
* integer division: the image computation panics exactly when the divisor interval contains 0 (`divImage_panics_iff`);
* float division: a NaN corner (the only way the ordering assertion can fail) exists exactly when both intervals contain 0
  (`fdiv_nan_corner_iff`);
* `absolute_upper_bound`: the old formula panics exactly when a bound is `i64::MIN`; the repaired one is total and agrees
  with the old one wherever that was defined (`absUpperOld_none_iff`, `absUpperNew_eq_old`).
-/
namespace Qrlew.C18
open Qrlew.Total

theorem clampI_range (x : Int) : minI ≤ clampI x ∧ clampI x ≤ maxI := by
  unfold clampI minI maxI; split <;> (try split) <;> omega

theorem clampI_mono {x y : Int} (h : x ≤ y) : clampI x ≤ clampI y := by
  unfold clampI minI maxI; split <;> split <;> (try split) <;> (try split) <;> omega

theorem satAdd_mono {a b c d : Int} (h1 : a ≤ b) (h2 : c ≤ d) : satAdd a c ≤ satAdd b d := clampI_mono (by omega)
theorem satSub_mono {a b c d : Int} (h1 : a ≤ b) (h2 : c ≤ d) : satSub a d ≤ satSub b c := clampI_mono (by omega)

theorem satDiv_none_iff (x y : Int) : satDiv? x y = none ↔ y = 0 := by
  unfold satDiv?; split <;> simp_all

/-- whatever the corner values are, the pair handed to `union_interval` is ordered -/
theorem corners_ordered (f : Int → Int → Option Int) (px py : Int × Int) (lo hi : Int)
    (h : corners? f px py = some (lo, hi)) : lo ≤ hi := by
  unfold corners? at h
  split at h
  · simp only [Option.some.injEq, Prod.mk.injEq] at h
    obtain ⟨rfl, rfl⟩ := h
    omega
  · simp at h

theorem corners_none_iff (f : Int → Int → Option Int) (px py : Int × Int) :
    corners? f px py = none ↔ f px.1 py.1 = none ∨ f px.1 py.2 = none ∨ f px.2 py.1 = none ∨ f px.2 py.2 = none := by
  unfold corners?
  cases h1 : f px.1 py.1 <;> cases h2 : f px.1 py.2 <;> cases h3 : f px.2 py.1 <;> cases h4 : f px.2 py.2 <;> simp

theorem allSome_none_iff (l : List (Option α)) : allSome l = none ↔ none ∈ l := by
  induction l with
  | nil => simp [allSome]
  | cons x rest ih =>
    cases x with
    | none => simp [allSome]
    | some v => simp [allSome, ih]

theorem parts_nonempty {a b : Int} (h : a ≤ b) : parts a b ≠ [] := by
  unfold parts
  by_cases hb : 0 ≤ b
  · simp [hb]
  · have : a ≤ 0 := by omega
    simp [hb, this]

/-- a piece of `[c,d]` has a zero end point exactly when `[c,d]` contains 0 -/
theorem parts_zero_corner_iff {c d : Int} (h : c ≤ d) :
    (∃ py ∈ parts c d, py.1 = 0 ∨ py.2 = 0) ↔ (c ≤ 0 ∧ 0 ≤ d) := by
  unfold parts
  by_cases hd : 0 ≤ d <;> by_cases hc : c ≤ 0 <;> simp [hd, hc] <;> omega

/-- integer division: the image computation panics exactly when the divisor interval contains 0 -/
theorem divImage_panics_iff {a b c d : Int} (hab : a ≤ b) (hcd : c ≤ d) :
    divImage? a b c d = none ↔ (c ≤ 0 ∧ 0 ≤ d) := by
  unfold divImage? pieceImage?
  rw [allSome_none_iff, ← parts_zero_corner_iff hcd]
  simp only [List.mem_flatMap, List.mem_map]
  constructor
  · rintro ⟨px, _, py, hpy, hnone⟩
    have := (corners_none_iff satDiv? px py).mp hnone
    simp only [satDiv_none_iff] at this
    exact ⟨py, hpy, by omega⟩
  · rintro ⟨py, hpy, hz⟩
    obtain ⟨px, hpx⟩ := List.exists_mem_of_ne_nil _ (parts_nonempty hab)
    refine ⟨px, hpx, py, hpy, ?_⟩
    rw [corners_none_iff]
    simp only [satDiv_none_iff]
    omega

/-- multiplication, addition and subtraction: the image computation never panics -/
theorem mul_total (a b c d : Int) : mulImage? a b c d ≠ none := by
  unfold mulImage? pieceImage?
  rw [Ne, allSome_none_iff]
  simp only [List.mem_flatMap, List.mem_map, not_exists, not_and]
  intro px _ py _ h
  have := (corners_none_iff _ px py).mp h
  simp at this

theorem whole_total (g : Int → Int → Int) (a b c d : Int) : wholeImage? (fun x y => some (g x y)) a b c d ≠ none := by
  unfold wholeImage?
  rw [Ne, allSome_none_iff]
  simp only [List.mem_singleton]
  intro h
  have := (corners_none_iff _ (a, b) (c, d)).mp h.symm
  simp at this

theorem fdivClass_nan_iff (x y : Int) : fdivClass x y = .nan ↔ (x = 0 ∧ y = 0) := by
  unfold fdivClass
  split
  · split
    · simp_all
    · split <;> simp_all
  · split
    · simp_all
    · split <;> simp_all

/-- float division: a NaN corner exists exactly when both intervals contain 0 -/
theorem fdiv_nan_corner_iff {a b c d : Int} (hab : a ≤ b) (hcd : c ≤ d) :
    fdivNanCorner a b c d = true ↔ ((a ≤ 0 ∧ 0 ≤ b) ∧ (c ≤ 0 ∧ 0 ≤ d)) := by
  rw [← parts_zero_corner_iff hab, ← parts_zero_corner_iff hcd]
  unfold fdivNanCorner
  simp only [List.any_eq_true, List.contains_eq_mem, List.mem_cons, List.not_mem_nil, or_false, decide_eq_true_eq]
  constructor
  · rintro ⟨px, hpx, py, hpy, h⟩
    have e : ∀ x y, QClass.nan = fdivClass x y ↔ (x = 0 ∧ y = 0) := fun x y => by rw [eq_comm]; exact fdivClass_nan_iff x y
    simp only [e] at h
    exact ⟨⟨px, hpx, by omega⟩, ⟨py, hpy, by omega⟩⟩
  · rintro ⟨⟨px, hpx, hx⟩, ⟨py, hpy, hy⟩⟩
    refine ⟨px, hpx, py, hpy, ?_⟩
    have e : ∀ x y, QClass.nan = fdivClass x y ↔ (x = 0 ∧ y = 0) := fun x y => by rw [eq_comm]; exact fdivClass_nan_iff x y
    simp only [e]
    omega

theorem abs_none_iff (x : Int) : abs? x = none ↔ x = minI := by
  unfold abs?; split <;> simp_all

theorem absUpperOld_none_iff (lo hi : Int) : absUpperOld? lo hi = none ↔ (lo = minI ∨ hi = minI) := by
  unfold absUpperOld? abs?
  by_cases h1 : lo = minI <;> by_cases h2 : hi = minI <;> simp [h1, h2, bind, Option.bind]

theorem absUpperNew_eq_old (lo hi : Int) (n : Nat) (h : absUpperOld? lo hi = some n) : absUpperNew lo hi = n := by
  unfold absUpperOld? abs? at h
  by_cases h1 : lo = minI <;> by_cases h2 : hi = minI <;> simp [h1, h2, bind, Option.bind] at h
  unfold absUpperNew
  omega

/-- `unsigned_abs` needs no overflow check: on `i64` bounds the result always fits the unsigned type (`≤ 2⁶³`), `i64::MIN` included -/
theorem absUpperNew_fits (lo hi : Int) (h1 : minI ≤ lo) (h2 : lo ≤ maxI) (h3 : minI ≤ hi) (h4 : hi ≤ maxI) :
    (absUpperNew lo hi : Int) ≤ 9223372036854775808 := by
  unfold absUpperNew minI maxI at *; omega

/-- the saturating operations never leave `i64` (so nothing downstream can overflow on their results) … -/
theorem sat_ops_in_range (x y : Int) :
    (minI ≤ satAdd x y ∧ satAdd x y ≤ maxI) ∧ (minI ≤ satSub x y ∧ satSub x y ≤ maxI) ∧ (minI ≤ satMul x y ∧ satMul x y ≤ maxI) :=
  ⟨clampI_range _, clampI_range _, clampI_range _⟩

/-- … nor does the saturating division where it is defined (`MIN / -1` saturates instead of overflowing) -/
theorem satDiv_range (x y v : Int) (h : satDiv? x y = some v) : minI ≤ v ∧ v ≤ maxI := by
  unfold satDiv? at h
  split at h
  · simp at h
  · simp only [Option.some.injEq] at h; subst h; exact clampI_range _

theorem satDiv_min_neg_one : satDiv? minI (-1) = some maxI := by decide

/-- saturating multiplication is monotone on non-negative operands (what the corner evaluation on the piece `[0, +∞)²` relies on) -/
theorem satMul_mono_nonneg {a b c d : Int} (ha : 0 ≤ a) (hc : 0 ≤ c) (h1 : a ≤ b) (h2 : c ≤ d) : satMul a c ≤ satMul b d :=
  clampI_mono (Int.mul_le_mul h1 h2 hc (Int.le_trans ha h1))

/-- `Map::size`: with non-negative input size, OFFSET and LIMIT, the interval `[0, hi]` handed to `Integer::from_interval` is well formed,
whatever the OFFSET (in particular beyond the input size) -/
theorem map_size_interval_ordered (inputMax : Int) (offset limit : Option Int) (hm : 0 ≤ inputMax)
    (ho : ∀ o, offset = some o → 0 ≤ o) (hl : ∀ l, limit = some l → 0 ≤ l) : 0 ≤ mapSizeHi inputMax offset limit := by
  unfold mapSizeHi
  cases offset with
  | none => cases limit with
    | none => simpa using hm
    | some l => have := hl l rfl; simp only; omega
  | some o => cases limit with
    | none => simp only; omega
    | some l => have := hl l rfl; simp only; omega

/-- … and with the saturating conversion of the `usize` LIMIT / OFFSET the hypothesis on their sign is always met: for *every* LIMIT and
OFFSET a query can carry the interval is well formed -/
theorem map_size_total (inputMax : Int) (offset limit : Option Nat) (hm : 0 ≤ inputMax) :
    0 ≤ mapSizeHi inputMax (offset.map usizeToI64Sat) (limit.map usizeToI64Sat) := by
  apply map_size_interval_ordered inputMax _ _ hm
  · intro o ho
    cases offset with
    | none => simp at ho
    | some n => simp only [Option.map_some, Option.some.injEq] at ho; subst ho; unfold usizeToI64Sat maxI; split <;> omega
  · intro l hl
    cases limit with
    | none => simp at hl
    | some n => simp only [Option.map_some, Option.some.injEq] at hl; subst hl; unfold usizeToI64Sat maxI; split <;> omega

/-- the conversion as it was (`as i64`): `LIMIT 18446744073709551615` becomes −1 and the interval `[0, −1]` is built -/
theorem map_size_wrapping_counterexample : mapSizeHi 100 none (some (usizeAsI64 18446744073709551615)) < 0 := by decide

/-- the `saturating_sub` variant is negative as soon as the OFFSET exceeds the input size: the interval assertion fires -/
theorem map_size_saturating_counterexample : mapSizeHiSaturating 100 (some 200) (some 10) < 0 := by decide

/-- Non-vacuity and the concrete failing shapes: `[-32, 6] / [0, 5]` panics, `[-32, 6] / [1, 5]` does not;
`i64::MIN` breaks the old absolute bound. -/
example : divImage? (-32) 6 0 5 = none ∧ divImage? (-32) 6 1 5 ≠ none ∧ absUpperOld? minI 0 = none ∧ absUpperNew minI 0 = 9223372036854775808 := by
  refine ⟨by decide, by decide, by decide, by decide⟩

end Qrlew.C18

import QrlewModel.Props.C06
import QrlewModel.Props.C10
import QrlewModel.Model.ExprImg
/-!
# C06 — range propagation through whole arithmetic expressions, on the concrete model

`Qrlew.ExprImg.image` composes the models of the partitioned-monotonic images of `+`, `-`, `*`, `greatest`, `least` (each compared with the real
function by the `fnimg` stream) the way `Expr::super_image` does, and is itself compared with the real `Expr::super_image` on
random expression trees by the `exprimg` stream.  `arith_expr_sound`: for every expression tree (any shape and depth), every
family of column types (unions of intervals) and every row whose cells lie in their column's type, the value of the expression
lies in the propagated range.
-/
namespace Qrlew.C06
open Qrlew Qrlew.ExprImg

def InRange (x : Int) : Prop := i64Min ≤ x ∧ x ≤ i64Max

theorem sat_inRange (x : Int) : InRange (sat x) := by
  unfold InRange sat i64Min i64Max; omega

/-- the literals of an expression fit in an i64 -/
def LitsInRange : AE → Prop
  | .col _ => True
  | .lit v => InRange v
  | .plus a b => LitsInRange a ∧ LitsInRange b
  | .minus a b => LitsInRange a ∧ LitsInRange b
  | .mul a b => LitsInRange a ∧ LitsInRange b
  | .greatest a b => LitsInRange a ∧ LitsInRange b
  | .least a b => LitsInRange a ∧ LitsInRange b

/-- **C06 for every arithmetic expression**: value ∈ propagated range (together with the two invariants the induction needs:
the propagated range is a well-formed interval set within capacity, and the value fits in an i64). -/
theorem arith_expr_sound (cap : Nat) (hc : 2 ≤ cap) (tys : Nat → Ivs) (hty : ∀ i, Good cap (tys i))
    (env : Nat → Int) (henv : ∀ i, Mem (env i) (tys i)) (hrange : ∀ i, InRange (env i)) :
    ∀ e : AE, LitsInRange e → Mem (eval env e) (image cap tys e) ∧ Good cap (image cap tys e) ∧ InRange (eval env e)
  | .col i, _ => ⟨henv i, hty i, hrange i⟩
  | .lit v, h => ⟨⟨(v, v), List.mem_singleton.mpr rfl, Int.le_refl v, Int.le_refl v⟩, good_single cap hc (v, v) (Int.le_refl v), h⟩
  | .plus a b, h => by
    obtain ⟨ma, ga, ra⟩ := arith_expr_sound cap hc tys hty env henv hrange a h.1
    obtain ⟨mb, gb, rb⟩ := arith_expr_sound cap hc tys hty env henv hrange b h.2
    exact ⟨plus_sound cap hc _ _ ga gb _ _ ma mb ra rb, C10.pmImage2_good cap hc _ _ _ _, sat_inRange _⟩
  | .minus a b, h => by
    obtain ⟨ma, ga, ra⟩ := arith_expr_sound cap hc tys hty env henv hrange a h.1
    obtain ⟨mb, gb, rb⟩ := arith_expr_sound cap hc tys hty env henv hrange b h.2
    exact ⟨minus_sound cap hc _ _ ga gb _ _ ma mb ra rb, C10.pmImage2_good cap hc _ _ _ _, sat_inRange _⟩
  | .mul a b, h => by
    obtain ⟨ma, ga, ra⟩ := arith_expr_sound cap hc tys hty env henv hrange a h.1
    obtain ⟨mb, gb, rb⟩ := arith_expr_sound cap hc tys hty env henv hrange b h.2
    exact ⟨mul_sound cap hc _ _ ga gb _ _ ma mb ra rb, C10.pmImage2_good cap hc _ _ _ _, sat_inRange _⟩
  | .greatest a b, h => by
    obtain ⟨ma, ga, ra⟩ := arith_expr_sound cap hc tys hty env henv hrange a h.1
    obtain ⟨mb, gb, rb⟩ := arith_expr_sound cap hc tys hty env henv hrange b h.2
    refine ⟨C10.greatest_sound cap hc _ _ ga gb _ _ ma mb ra rb, C10.pmImage2_good cap hc _ _ _ _, ?_⟩
    unfold InRange at *; simp only [eval]; omega
  | .least a b, h => by
    obtain ⟨ma, ga, ra⟩ := arith_expr_sound cap hc tys hty env henv hrange a h.1
    obtain ⟨mb, gb, rb⟩ := arith_expr_sound cap hc tys hty env henv hrange b h.2
    refine ⟨C10.least_sound cap hc _ _ ga gb _ _ ma mb ra rb, C10.pmImage2_good cap hc _ _ _ _, ?_⟩
    unfold InRange at *; simp only [eval]; omega

/-- non-vacuity: `(c0 + c0) * c1 - 3` with `c0 ∈ [1, 2] ∪ [5, 5]`, `c1 ∈ [-1, 4]` at the row `(5, -1)` -/
example :
    let e : AE := .minus (.mul (.plus (.col 0) (.col 0)) (.col 1)) (.lit 3)
    let tys : Nat → Ivs := fun i => if i = 0 then [(1, 2), (5, 5)] else [(-1, 4)]
    eval (fun i => if i = 0 then 5 else -1) e = -13 ∧ image 128 tys e = [(-13, 37)] ∧ Mem (-13) (image 128 tys e) := by decide

end Qrlew.C06

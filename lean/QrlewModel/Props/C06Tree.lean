import QrlewModel.Props.C06
import QrlewModel.Props.C10
import QrlewModel.Model.ExprImg
/-!
# C06 — range propagation through whole arithmetic expressions, on the concrete model

`Qrlew.ExprImg.image` composes the models of the partitioned-monotonic images of `+`, `-`, `*`, `greatest`, `least` (each compared with the real
function by the `fnimg` stream) the way `Expr::super_image` does, and is itself compared with the real `Expr::super_image` on
random expression trees by the `exprimg` stream.  `arith_expr_sound`: for every expression tree (any shape and depth), every
family of column types (unions of intervals) and every row whose cells lie in their column's type, the value of the expression
lies in the propagated range.
-/
namespace Qrlew.C06
open Qrlew Qrlew.ExprImg

def InRange (x : Int) : Prop := i64Min ≤ x ∧ x ≤ i64Max

theorem sat_inRange (x : Int) : InRange (sat x) := by
  unfold InRange sat i64Min i64Max; omega

/-- the literals of an expression fit in an i64 -/
def LitsInRange : AE → Prop
  | .col _ => True
  | .lit v => InRange v
  | .plus a b => LitsInRange a ∧ LitsInRange b
  | .minus a b => LitsInRange a ∧ LitsInRange b
  | .mul a b => LitsInRange a ∧ LitsInRange b
  | .greatest a b => LitsInRange a ∧ LitsInRange b
  | .least a b => LitsInRange a ∧ LitsInRange b

/-- **C06 for every arithmetic expression**: value ∈ propagated range (together with the two invariants the induction needs:
the propagated range is a well-formed interval set within capacity, and the value fits in an i64). -/
theorem arith_expr_sound (cap : Nat) (hc : 2 ≤ cap) (tys : Nat → Ivs) (hty : ∀ i, Good cap (tys i))
    (env : Nat → Int) (henv : ∀ i, Mem (env i) (tys i)) (hrange : ∀ i, InRange (env i)) :
    ∀ e : AE, LitsInRange e → Mem (eval env e) (image cap tys e) ∧ Good cap (image cap tys e) ∧ InRange (eval env e)
  | .col i, _ => ⟨henv i, hty i, hrange i⟩
  | .lit v, h => ⟨⟨(v, v), List.mem_singleton.mpr rfl, Int.le_refl v, Int.le_refl v⟩, good_single cap hc (v, v) (Int.le_refl v), h⟩
  | .plus a b, h => by
    obtain ⟨ma, ga, ra⟩ := arith_expr_sound cap hc tys hty env henv hrange a h.1
    obtain ⟨mb, gb, rb⟩ := arith_expr_sound cap hc tys hty env henv hrange b h.2
    exact ⟨plus_sound cap hc _ _ ga gb _ _ ma mb ra rb, C10.pmImage2_good cap hc _ _ _ _, sat_inRange _⟩
  | .minus a b, h => by
    obtain ⟨ma, ga, ra⟩ := arith_expr_sound cap hc tys hty env henv hrange a h.1
    obtain ⟨mb, gb, rb⟩ := arith_expr_sound cap hc tys hty env henv hrange b h.2
    exact ⟨minus_sound cap hc _ _ ga gb _ _ ma mb ra rb, C10.pmImage2_good cap hc _ _ _ _, sat_inRange _⟩
  | .mul a b, h => by
    obtain ⟨ma, ga, ra⟩ := arith_expr_sound cap hc tys hty env henv hrange a h.1
    obtain ⟨mb, gb, rb⟩ := arith_expr_sound cap hc tys hty env henv hrange b h.2
    exact ⟨mul_sound cap hc _ _ ga gb _ _ ma mb ra rb, C10.pmImage2_good cap hc _ _ _ _, sat_inRange _⟩
  | .greatest a b, h => by
    obtain ⟨ma, ga, ra⟩ := arith_expr_sound cap hc tys hty env henv hrange a h.1
    obtain ⟨mb, gb, rb⟩ := arith_expr_sound cap hc tys hty env henv hrange b h.2
    refine ⟨C10.greatest_sound cap hc _ _ ga gb _ _ ma mb ra rb, C10.pmImage2_good cap hc _ _ _ _, ?_⟩
    unfold InRange at *; simp only [eval]; omega
  | .least a b, h => by
    obtain ⟨ma, ga, ra⟩ := arith_expr_sound cap hc tys hty env henv hrange a h.1
    obtain ⟨mb, gb, rb⟩ := arith_expr_sound cap hc tys hty env henv hrange b h.2
    refine ⟨C10.least_sound cap hc _ _ ga gb _ _ ma mb ra rb, C10.pmImage2_good cap hc _ _ _ _, ?_⟩
    unfold InRange at *; simp only [eval]; omega

/-- column types / cells of a row as families; beyond the row's width (columns the real code rejects) both are padded with `0` -/
def tysOf (T : List Ivs) : Nat → Ivs := fun i => if i < T.length then T.getD i [] else [(0, 0)]
def envOf (row : List Int) : Nat → Int := fun i => row.getD i 0

/-- **WHERE, then SELECT** (one `Map` node: C10 composed with C06): for every row type, every predicate of the C10 fragment and
every arithmetic expression tree, a row that satisfies the predicate evaluates the expression inside the range propagated from
the *narrowed* column types. -/
theorem where_then_project_sound (cap : Nat) (hc : 2 ≤ cap) (T : List Ivs) (hT : C10.RowType cap T) (row : List Int)
    (hrow : C10.RowIn row T) (hr : ∀ x ∈ row, C10.InRange x) (p : Pred) (hok : C10.PredOk T.length p) (hev : evalPred row p = true)
    (e : AE) (he : LitsInRange e) : Mem (eval (envOf row) e) (image cap (tysOf (filterT cap T p)) e) := by
  have w := C10.filter_wf cap hc p T hT
  have h1 := C10.filter_sound cap hc p T hT row hrow hr hok hev
  refine (arith_expr_sound cap hc (tysOf _) ?_ (envOf row) ?_ ?_ e he).1
  · intro i; unfold tysOf; split
    · exact C10.getD_good cap hc _ w.1 i
    · exact good_single cap hc (0, 0) (by decide)
  · intro i; unfold tysOf envOf; split
    · rename_i hi; exact h1.2 i hi
    · rename_i hi
      have hl : row.length ≤ i := by rw [h1.1]; omega
      rw [C10.getD_ge row i 0 hl]; exact ⟨(0, 0), by simp, by simp⟩
  · intro i; unfold envOf
    by_cases hi : i < row.length
    · rw [C10.getD_lt row i 0 hi]
      have := hr _ (List.getElem_mem hi)
      unfold C10.InRange at this; unfold InRange; exact this
    · rw [C10.getD_ge row i 0 (by omega)]; unfold InRange i64Min i64Max; omega

/-- non-vacuity: `WHERE c0 >= 3`, `SELECT c0 + c1` on `c0 ∈ [0, 10]`, `c1 ∈ [2, 4]` at the row `(4, 4)`: the range is `[5, 14]`, not `[2, 14]` -/
example :
    image 128 (tysOf (filterT 128 [[(0, 10)], [(2, 4)]] (.gt (.col 0) (.lit 3)))) (.plus (.col 0) (.col 1)) = [(5, 14)] ∧
      eval (envOf [4, 4]) (.plus (.col 0) (.col 1)) = 8 ∧ evalPred [4, 4] (.gt (.col 0) (.lit 3)) = true := by decide

/-- non-vacuity: `(c0 + c0) * c1 - 3` with `c0 ∈ [1, 2] ∪ [5, 5]`, `c1 ∈ [-1, 4]` at the row `(5, -1)` -/
example :
    let e : AE := .minus (.mul (.plus (.col 0) (.col 0)) (.col 1)) (.lit 3)
    let tys : Nat → Ivs := fun i => if i = 0 then [(1, 2), (5, 5)] else [(-1, 4)]
    eval (fun i => if i = 0 then 5 else -1) e = -13 ∧ image 128 tys e = [(-13, 37)] ∧ Mem (-13) (image 128 tys e) := by decide

end Qrlew.C06

import QrlewModel.Props.C06
import QrlewModel.Model.Filter
/-!
# C10 — WHERE / ON narrowing never drops a row that satisfies the predicate

`filter_sound`: for every row type (columns = integer interval sets of any shape), every predicate built
from comparisons (column/literal on either side), equalities, AND, OR and unsupported sub-terms at any
nesting depth, and every row of the type on which the predicate is true, the row belongs to the narrowed
type.  The proof composes the C11 lattice theorems (∩ and ∪ never lose a point) with the C06 corner
theorem for `greatest` / `least`.
-/
namespace Qrlew.C10
open Qrlew Qrlew.C06

def RowType (cap : Nat) (T : List Ivs) : Prop := ∀ s ∈ T, Good cap s

def RowIn (row : List Int) (T : List Ivs) : Prop :=
  row.length = T.length ∧ ∀ i, i < T.length → Mem (row.getD i 0) (T.getD i [])

def InRange (x : Int) : Prop := i64Min ≤ x ∧ x ≤ i64Max

def OperandOk (n : Nat) : Operand → Prop
  | .col i => i < n
  | .lit k => InRange k

def PredOk (n : Nat) : Pred → Prop
  | .gt l r => OperandOk n l ∧ OperandOk n r
  | .lt l r => OperandOk n l ∧ OperandOk n r
  | .eq l r => OperandOk n l ∧ OperandOk n r
  | .and p q => PredOk n p ∧ PredOk n q
  | .or p q => PredOk n p ∧ PredOk n q
  | .other _ => True

theorem getD_lt {α : Type} (l : List α) (i : Nat) (d : α) (h : i < l.length) : l.getD i d = l[i] := by
  simp [List.getD_eq_getElem?_getD, h]

theorem getD_ge {α : Type} (l : List α) (i : Nat) (d : α) (h : l.length ≤ i) : l.getD i d = d := by
  simp [List.getD_eq_getElem?_getD, h]

theorem good_nil (cap : Nat) (hc : 2 ≤ cap) : Good cap [] := ⟨trivial, by simp; omega⟩

theorem getD_good (cap : Nat) (hc : 2 ≤ cap) (T : List Ivs) (hT : RowType cap T) (i : Nat) : Good cap (T.getD i []) := by
  by_cases h : i < T.length
  · rw [getD_lt _ _ _ h]; exact hT _ (List.getElem_mem h)
  · rw [getD_ge _ _ _ (by omega)]; exact good_nil cap hc

theorem opType_good (cap : Nat) (hc : 2 ≤ cap) (T : List Ivs) (hT : RowType cap T) (o : Operand) : Good cap (opType T o) := by
  cases o with
  | col i => exact getD_good cap hc T hT i
  | lit k => exact good_single cap hc (k, k) (Int.le_refl k)

theorem mem_opType (row : List Int) (T : List Ivs) (h : RowIn row T) (o : Operand) (ho : OperandOk T.length o) :
    Mem (evalOperand row o) (opType T o) := by
  cases o with
  | col i => exact h.2 i ho
  | lit k => exact ⟨(k, k), List.mem_singleton.mpr rfl, Int.le_refl k, Int.le_refl k⟩

theorem evalOperand_range (row : List Int) (hr : ∀ x ∈ row, InRange x) (o : Operand) (n : Nat) (ho : OperandOk n o)
    (hn : n = row.length) : InRange (evalOperand row o) := by
  cases o with
  | col i =>
    have hi : i < row.length := by subst hn; exact ho
    simp only [evalOperand, getD_lt _ _ _ hi]; exact hr _ (List.getElem_mem hi)
  | lit k => exact ho

theorem fromIntervals_good (cap : Nat) (hc : 2 ≤ cap) (ps : Ivs) (hps : ∀ p ∈ ps, p.1 ≤ p.2) : Good cap (fromIntervals cap ps) :=
  foldl_union_good cap hc ps hps _ (good_empty cap hc)

theorem pmImage2_good (cap : Nat) (hc : 2 ≤ cap) (parts : List ((Int × Int) × (Int × Int))) (f : Int → Int → Int) (s1 s2 : Ivs) :
    Good cap (pmImage2 cap parts f s1 s2) := by
  apply fromIntervals_good cap hc
  intro q hq
  simp only [List.mem_flatMap, List.mem_map] at hq
  obtain ⟨_, _, _, _, _, _, rfl⟩ := hq
  simp only [min4, max4]; omega

theorem max_boxMono : BoxMono (fun x y => max x y) (fullI, fullI) := by
  refine ⟨fun y _ _ => Or.inl ?_, fun x _ _ => Or.inl ?_⟩ <;> (intro u v _ huv _; simp only; omega)

theorem min_boxMono : BoxMono (fun x y => min x y) (fullI, fullI) := by
  refine ⟨fun y _ _ => Or.inl ?_, fun x _ _ => Or.inl ?_⟩ <;> (intro u v _ huv _; simp only; omega)

theorem full_parts_ok : ∀ p ∈ plusParts, p.1.1 ≤ p.1.2 ∧ p.2.1 ≤ p.2.2 := by
  intro p hp; simp [plusParts] at hp; subst hp; simp [fullI, i64Min, i64Max]

theorem greatest_sound (cap : Nat) (hc : 2 ≤ cap) (L R : Ivs) (hL : Good cap L) (hR : Good cap R) (x y : Int)
    (hx : Mem x L) (hy : Mem y R) (hxr : InRange x) (hyr : InRange y) : Mem (max x y) (greatestImage cap L R) :=
  pm2_sound cap hc plusParts (fun x y => max x y) L R hL hR full_parts_ok
    (by intro p hp; simp [plusParts] at hp; subst hp; exact max_boxMono) x y hx hy
    ⟨(fullI, fullI), by simp [plusParts], by simpa [fullI, InRange] using hxr, by simpa [fullI, InRange] using hyr⟩

theorem least_sound (cap : Nat) (hc : 2 ≤ cap) (L R : Ivs) (hL : Good cap L) (hR : Good cap R) (x y : Int)
    (hx : Mem x L) (hy : Mem y R) (hxr : InRange x) (hyr : InRange y) : Mem (min x y) (leastImage cap L R) :=
  pm2_sound cap hc plusParts (fun x y => min x y) L R hL hR full_parts_ok
    (by intro p hp; simp [plusParts] at hp; subst hp; exact min_boxMono) x y hx hy
    ⟨(fullI, fullI), by simp [plusParts], by simpa [fullI, InRange] using hxr, by simpa [fullI, InRange] using hyr⟩

/-! ### replacing one column -/

theorem setCol_length (T : List Ivs) (o : Operand) (s : Ivs) : (setCol T o s).length = T.length := by
  cases o <;> simp [setCol]

theorem setCol_rowType (cap : Nat) (T : List Ivs) (hT : RowType cap T) (o : Operand) (s : Ivs) (hs : Good cap s) :
    RowType cap (setCol T o s) := by
  cases o with
  | lit k => exact hT
  | col i =>
    intro t ht
    simp only [setCol] at ht
    rcases List.mem_or_eq_of_mem_set ht with h | h
    · exact hT t h
    · rw [h]; exact hs

theorem setCol_rowIn (row : List Int) (T : List Ivs) (h : RowIn row T) (o : Operand) (s : Ivs)
    (hs : Mem (evalOperand row o) s) : RowIn row (setCol T o s) := by
  cases o with
  | lit k => exact h
  | col i =>
    refine ⟨by simp [setCol, h.1], ?_⟩
    intro j hj
    simp only [setCol, List.length_set] at hj ⊢
    by_cases hij : i = j
    · subst hij
      rw [getD_lt (T.set i s) i [] (by simpa using hj), List.getElem_set_self]
      exact hs
    · rw [getD_lt (T.set i s) j [] (by simpa using hj), List.getElem_set_ne hij]
      have := h.2 j hj
      rwa [getD_lt T j [] hj] at this

/-- evaluating an operand is unaffected by which type the row is checked against -/
theorem opType_setCol_mem (row : List Int) (T : List Ivs) (h : RowIn row T) (o o' : Operand) (s : Ivs)
    (hs : Mem (evalOperand row o) s) (ho' : OperandOk T.length o') :
    Mem (evalOperand row o') (opType (setCol T o s) o') :=
  mem_opType row _ (setCol_rowIn row T h o s hs) o' (by rw [setCol_length]; exact ho')

/-! ### well-formedness is preserved by narrowing (whatever the truth of the predicate) -/

theorem zipWith_rowType (cap : Nat) (f : Ivs → Ivs → Ivs) (A B : List Ivs)
    (hf : ∀ a ∈ A, ∀ b ∈ B, Good cap (f a b)) : RowType cap (List.zipWith f A B) := by
  induction A generalizing B with
  | nil => intro s hs; simp at hs
  | cons a A ih =>
    cases B with
    | nil => intro s hs; simp at hs
    | cons b B =>
      intro s hs
      simp only [List.zipWith_cons_cons, List.mem_cons] at hs
      rcases hs with rfl | hs
      · exact hf a List.mem_cons_self b List.mem_cons_self
      · exact ih B (fun a' ha' b' hb' => hf a' (List.mem_cons_of_mem _ ha') b' (List.mem_cons_of_mem _ hb')) s hs

theorem filter_wf (cap : Nat) (hc : 2 ≤ cap) (p : Pred) : ∀ (T : List Ivs), RowType cap T →
    RowType cap (filterT cap T p) ∧ (filterT cap T p).length = T.length := by
  induction p with
  | gt l r =>
    intro T hT
    have hL := opType_good cap hc T hT l; have hR := opType_good cap hc T hT r
    simp only [filterT, narrowGe]
    refine ⟨setCol_rowType cap _ (setCol_rowType cap T hT l _ (inter_good cap hc _ _ (pmImage2_good cap hc _ _ _ _) hL)) r _
      (inter_good cap hc _ _ (pmImage2_good cap hc _ _ _ _) hR), by simp [setCol_length]⟩
  | lt l r =>
    intro T hT
    have hL := opType_good cap hc T hT l; have hR := opType_good cap hc T hT r
    simp only [filterT, narrowGe]
    refine ⟨setCol_rowType cap _ (setCol_rowType cap T hT r _ (inter_good cap hc _ _ (pmImage2_good cap hc _ _ _ _) hR)) l _
      (inter_good cap hc _ _ (pmImage2_good cap hc _ _ _ _) hL), by simp [setCol_length]⟩
  | eq l r =>
    intro T hT
    have hd := inter_good cap hc _ _ (opType_good cap hc T hT l) (opType_good cap hc T hT r)
    simp only [filterT, narrowEq]
    exact ⟨setCol_rowType cap _ (setCol_rowType cap T hT l _ hd) r _ hd, by simp [setCol_length]⟩
  | and p q ihp ihq =>
    intro T hT
    have hq := ihq T hT; have hp := ihp T hT
    have hpq := ihp _ hq.1; have hqp := ihq _ hp.1
    simp only [filterT]
    refine ⟨zipWith_rowType cap _ _ _ (fun a ha b hb => inter_good cap hc a b (hpq.1 a ha) (hqp.1 b hb)), ?_⟩
    rw [List.length_zipWith, hpq.2, hqp.2, hq.2, hp.2]; omega
  | or p q ihp ihq =>
    intro T hT
    have hq := ihq T hT; have hp := ihp T hT
    simp only [filterT]
    refine ⟨zipWith_rowType cap _ _ _ (fun a ha b hb => union_good cap hc a b (hq.1 a ha) (hp.1 b hb)), ?_⟩
    rw [List.length_zipWith, hq.2, hp.2]; omega
  | other t => intro T hT; exact ⟨hT, rfl⟩

theorem zipWith_rowIn (row : List Int) (f : Ivs → Ivs → Ivs) (A B : List Ivs) (hA : RowIn row A) (hB : RowIn row B)
    (hf : ∀ x a b, Mem x a → Mem x b → Mem x (f a b)) : RowIn row (List.zipWith f A B) := by
  have hl : A.length = B.length := by rw [← hA.1, ← hB.1]
  refine ⟨by rw [List.length_zipWith, ← hl, Nat.min_self]; exact hA.1, ?_⟩
  intro i hi
  rw [List.length_zipWith, ← hl, Nat.min_self] at hi
  have hiB : i < B.length := by omega
  rw [getD_lt (List.zipWith f A B) i [] (by rw [List.length_zipWith]; omega), List.getElem_zipWith]
  have h1 := hA.2 i hi; have h2 := hB.2 i hiB
  rw [getD_lt A i [] hi] at h1; rw [getD_lt B i [] hiB] at h2
  exact hf _ _ _ h1 h2

/-- narrowing by `l >= r` keeps every row on which `l >= r` holds -/
theorem narrowGe_sound (cap : Nat) (hc : 2 ≤ cap) (T : List Ivs) (hT : RowType cap T) (row : List Int)
    (hrow : RowIn row T) (hr : ∀ x ∈ row, InRange x) (l r : Operand) (hl : OperandOk T.length l) (hro : OperandOk T.length r)
    (hge : evalOperand row l ≥ evalOperand row r) : RowIn row (narrowGe cap T l r) := by
  have hL := opType_good cap hc T hT l; have hR := opType_good cap hc T hT r
  have hx := mem_opType row T hrow l hl; have hy := mem_opType row T hrow r hro
  have hxr := evalOperand_range row hr l T.length hl hrow.1.symm
  have hyr := evalOperand_range row hr r T.length hro hrow.1.symm
  have hg := greatest_sound cap hc _ _ hL hR _ _ hx hy hxr hyr
  have hle := least_sound cap hc _ _ hL hR _ _ hx hy hxr hyr
  rw [Int.max_eq_left hge] at hg
  rw [Int.min_eq_right hge] at hle
  have h1 : Mem (evalOperand row l) (inter cap (greatestImage cap (opType T l) (opType T r)) (opType T l)) :=
    mem_inter cap hc _ _ (pmImage2_good cap hc _ _ _ _) hL _ hg hx
  have h2 : Mem (evalOperand row r) (inter cap (leastImage cap (opType T l) (opType T r)) (opType T r)) :=
    mem_inter cap hc _ _ (pmImage2_good cap hc _ _ _ _) hR _ hle hy
  exact setCol_rowIn row _ (setCol_rowIn row T hrow l _ h1) r _ h2

/-- **C10.** Every row of the type on which the predicate is true belongs to the narrowed type. -/
theorem filter_sound (cap : Nat) (hc : 2 ≤ cap) (p : Pred) : ∀ (T : List Ivs), RowType cap T → ∀ (row : List Int),
    RowIn row T → (∀ x ∈ row, InRange x) → PredOk T.length p → evalPred row p = true → RowIn row (filterT cap T p) := by
  induction p with
  | gt l r =>
    intro T hT row hrow hr hok hev
    simp only [evalPred, decide_eq_true_eq] at hev
    exact narrowGe_sound cap hc T hT row hrow hr l r hok.1 hok.2 hev
  | lt l r =>
    intro T hT row hrow hr hok hev
    simp only [evalPred, decide_eq_true_eq] at hev
    exact narrowGe_sound cap hc T hT row hrow hr r l hok.2 hok.1 hev
  | eq l r =>
    intro T hT row hrow hr hok hev
    simp only [evalPred, decide_eq_true_eq] at hev
    have hx := mem_opType row T hrow l hok.1; have hy := mem_opType row T hrow r hok.2
    have hd : Mem (evalOperand row l) (inter cap (opType T l) (opType T r)) :=
      mem_inter cap hc _ _ (opType_good cap hc T hT l) (opType_good cap hc T hT r) _ hx (by rw [hev]; exact hy)
    simp only [filterT, narrowEq]
    exact setCol_rowIn row _ (setCol_rowIn row T hrow l _ hd) r _ (by rw [← hev]; exact hd)
  | and p q ihp ihq =>
    intro T hT row hrow hr hok hev
    simp only [evalPred, Bool.and_eq_true] at hev
    have wq := filter_wf cap hc q T hT; have wp := filter_wf cap hc p T hT
    have hq := ihq T hT row hrow hr hok.2 hev.2
    have hp := ihp T hT row hrow hr hok.1 hev.1
    have hpq := ihp _ wq.1 row hq hr (by rw [wq.2]; exact hok.1) hev.1
    have hqp := ihq _ wp.1 row hp hr (by rw [wp.2]; exact hok.2) hev.2
    have wpq := filter_wf cap hc p _ wq.1; have wqp := filter_wf cap hc q _ wp.1
    simp only [filterT]
    refine ⟨?_, ?_⟩
    · rw [List.length_zipWith, wpq.2, wqp.2, wq.2, wp.2, Nat.min_self]; exact hrow.1
    · intro i hi
      rw [List.length_zipWith, wpq.2, wqp.2, wq.2, wp.2, Nat.min_self] at hi
      have hi1 : i < (filterT cap (filterT cap T q) p).length := by rw [wpq.2, wq.2]; exact hi
      have hi2 : i < (filterT cap (filterT cap T p) q).length := by rw [wqp.2, wp.2]; exact hi
      rw [getD_lt (List.zipWith (inter cap) _ _) i [] (by rw [List.length_zipWith]; omega), List.getElem_zipWith]
      have h1 := hpq.2 i hi1; have h2 := hqp.2 i hi2
      rw [getD_lt (filterT cap (filterT cap T q) p) i [] hi1] at h1; rw [getD_lt (filterT cap (filterT cap T p) q) i [] hi2] at h2
      exact mem_inter cap hc _ _ (wpq.1 _ (List.getElem_mem hi1)) (wqp.1 _ (List.getElem_mem hi2)) _ h1 h2
  | or p q ihp ihq =>
    intro T hT row hrow hr hok hev
    simp only [evalPred, Bool.or_eq_true] at hev
    have wq := filter_wf cap hc q T hT; have wp := filter_wf cap hc p T hT
    simp only [filterT]
    refine ⟨?_, ?_⟩
    · rw [List.length_zipWith, wq.2, wp.2, Nat.min_self]; exact hrow.1
    · intro i hi
      rw [List.length_zipWith, wq.2, wp.2, Nat.min_self] at hi
      have hi1 : i < (filterT cap T q).length := by rw [wq.2]; exact hi
      have hi2 : i < (filterT cap T p).length := by rw [wp.2]; exact hi
      rw [getD_lt (List.zipWith (union cap) _ _) i [] (by rw [List.length_zipWith]; omega), List.getElem_zipWith]
      apply mem_union cap hc _ _ (wq.1 _ (List.getElem_mem hi1)) (wp.1 _ (List.getElem_mem hi2))
      rcases hev with hev | hev
      · right
        have := (ihp T hT row hrow hr hok.1 hev).2 i hi2
        rwa [getD_lt (filterT cap T p) i [] hi2] at this
      · left
        have := (ihq T hT row hrow hr hok.2 hev).2 i hi1
        rwa [getD_lt (filterT cap T q) i [] hi1] at this
  | other t => intro T hT row hrow _ _ _; exact hrow

/-- **Any number of successive WHEREs** (a stack of Maps, or a filter pushed through several nodes): a row on which every
predicate of the list is true belongs to the type narrowed by all of them in turn, and the narrowed type stays well formed. -/
theorem filter_chain_sound (cap : Nat) (hc : 2 ≤ cap) : ∀ (ps : List Pred) (T : List Ivs), RowType cap T → ∀ (row : List Int),
    RowIn row T → (∀ x ∈ row, InRange x) → (∀ p ∈ ps, PredOk T.length p) → (∀ p ∈ ps, evalPred row p = true) →
    RowIn row (ps.foldl (filterT cap) T) ∧ RowType cap (ps.foldl (filterT cap) T)
  | [], T, hT, row, hrow, _, _, _ => ⟨hrow, hT⟩
  | p :: ps, T, hT, row, hrow, hr, hok, hev => by
    have w := filter_wf cap hc p T hT
    have h1 := filter_sound cap hc p T hT row hrow hr (hok p List.mem_cons_self) (hev p List.mem_cons_self)
    simp only [List.foldl]
    exact filter_chain_sound cap hc ps (filterT cap T p) w.1 row h1 hr
      (fun q hq => by rw [w.2]; exact hok q (List.mem_cons_of_mem _ hq)) (fun q hq => hev q (List.mem_cons_of_mem _ hq))

/-- a predicate the narrowing does not understand never narrows anything (the only safe answer) -/
theorem filter_other_identity (cap : Nat) (T : List Ivs) (t : Bool) : filterT cap T (.other t) = T := rfl

/-- Non-vacuity: `a >= 3 AND (a <= b OR <unsupported>)` on a two-column row type. -/
example :
    filterT 128 [[(0, 10)], [(2, 4)]] (.and (.gt (.col 0) (.lit 3)) (.or (.lt (.col 0) (.col 1)) (.other false)))
      = [[(3, 10)], [(2, 4)]] ∧
    evalPred [4, 4] (.and (.gt (.col 0) (.lit 3)) (.or (.lt (.col 0) (.col 1)) (.other false))) = true := by decide

end Qrlew.C10

import QrlewModel.Model.Print
/-!
# C08 / C16 — what the translators write is read back as the same expression

`Qrlew.Print.print` is the model of the translators' expression writer (compared token by token with the real one by the
`exprprint` stream).  `parse_print`: for every expression — any nesting of infix, prefix and suffix operators, *whatever their
precedences* — the written text is read back as exactly that expression by a reader that knows no precedence at all; in
particular `print` is injective: two different expressions are never written alike.  `printOld_not_delimited`: the writer as it was
before `fix:` 2471664 left the `IS NULL` of `(a OR b) IS NULL` dangling after `a OR b`.
-/
namespace Qrlew.C08
open Qrlew.Print

theorem parse_print (e : PE) : ∀ (fuel : Nat) (rest : List Tok), size e ≤ fuel → parse fuel (print e ++ rest) = some (e, rest) := by
  induction e with
  | atom n =>
    intro fuel rest h
    cases fuel with
    | zero => simp [size] at h
    | succ f => simp [print, parse]
  | bin k l r ihl ihr =>
    intro fuel rest h
    cases fuel with
    | zero => simp [size] at h
    | succ f =>
      simp only [size] at h
      have hl := ihl f ([.rp, .op k, .lp] ++ print r ++ [.rp] ++ rest) (by omega)
      have hr := ihr f ([.rp] ++ rest) (by omega)
      simp only [print, List.append_assoc, List.cons_append, List.nil_append] at hl hr ⊢
      simp only [parse, hl, hr]
  | pre k x ih =>
    intro fuel rest h
    cases fuel with
    | zero => simp [size] at h
    | succ f =>
      simp only [size] at h
      have hx := ih f ([.rp] ++ rest) (by omega)
      simp only [print, List.append_assoc, List.cons_append, List.nil_append] at hx ⊢
      simp only [parse, hx]
  | suf k x ih =>
    intro fuel rest h
    cases fuel with
    | zero => simp [size] at h
    | succ f =>
      simp only [size] at h
      have hx := ih f ([.rp, .suf k] ++ rest) (by omega)
      simp only [print, List.append_assoc, List.cons_append, List.nil_append] at hx ⊢
      simp only [parse, hx]

/-- **Rendering is unambiguous**: the text determines the expression. -/
theorem print_injective (a b : PE) (h : print a = print b) : a = b := by
  have ha := parse_print a (size a + size b) [] (by omega)
  have hb := parse_print b (size a + size b) [] (by omega)
  rw [h] at ha
  rw [ha] at hb
  simpa using hb

/-- **Unambiguous in context**: no written expression is a proper prefix of another — whatever follows it (the next select item,
a closing parenthesis, a keyword), the text splits in exactly one way. -/
theorem print_prefix_free (a b : PE) (r1 r2 : List Tok) (h : print a ++ r1 = print b ++ r2) : a = b ∧ r1 = r2 := by
  have ha := parse_print a (size a + size b) r1 (by omega)
  have hb := parse_print b (size a + size b) r2 (by omega)
  rw [h, hb] at ha
  simp only [Option.some.injEq, Prod.mk.injEq] at ha
  exact ⟨ha.1.symm, ha.2.symm⟩

/-- a sequence of written expressions (a select list, an argument list) is read back as that sequence -/
theorem print_list_injective : ∀ (as bs : List PE), as.length = bs.length → as.flatMap print = bs.flatMap print → as = bs
  | [], [], _, _ => rfl
  | [], _ :: _, hl, _ => by simp at hl
  | _ :: _, [], hl, _ => by simp at hl
  | a :: as, b :: bs, hl, h => by
    simp only [List.flatMap_cons] at h
    obtain ⟨e1, e2⟩ := print_prefix_free a b _ _ h
    rw [e1, print_list_injective as bs (by simpa using hl) e2]

/-- the writer before the repair did not delimit the operand of a suffix predicate: of `(a ∨ b) IS NULL` the reader gets `a ∨ b`
followed by a dangling `IS NULL` — where it attaches is left to the precedence table of whoever reads the text (SQL attaches it
to `b`), and a prefix operator's text is the same for `(NOT a) IS NULL` as SQL's reading of `NOT (a IS NULL)` -/
theorem printOld_not_delimited :
    parse 10 (printOld (.suf 0 (.bin 1 (.atom 0) (.atom 1)))) = some (.bin 1 (.atom 0) (.atom 1), [.suf 0]) ∧
    parse 10 (printOld (.suf 0 (.pre 2 (.atom 0)))) = some (.pre 2 (.atom 0), [.suf 0]) := by decide

example : parse 10 (print (.suf 0 (.bin 1 (.atom 0) (.pre 2 (.atom 1))))) = some (.suf 0 (.bin 1 (.atom 0) (.pre 2 (.atom 1))), []) := by decide

end Qrlew.C08

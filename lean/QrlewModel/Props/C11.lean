import QrlewModel.Lemmas.Intervals
import QrlewModel.Lemmas.IntervalsExact
/-!
# C11 — data-type lattice operations soundly over-approximate set operations

Property theorems only (helper lemmas live in `Lemmas/`).  Part 1: interval sets
(`src/data_type/intervals.rs`).  Every theorem is for all interval lists, all bounds, any
capacity `cap ≥ 2` (the code uses 128) and any operation history.
-/
namespace Qrlew.C11
open Qrlew

/-- Well-formed operation (what the Rust API accepts without panicking: `assert!(min <= max)`,
operands that are themselves `Intervals` values). -/
def OpOk (cap : Nat) : IvOp → Prop
  | .unionI lo hi => lo ≤ hi
  | .interI lo hi => lo ≤ hi
  | .unionS s => Good cap s
  | .interS s => Good cap s
  | .hullOp => True

/-- Exact set semantics of one operation on the denoted set. -/
def semStep (S : Int → Prop) : IvOp → Int → Prop
  | .unionI lo hi => fun x => S x ∨ (lo ≤ x ∧ x ≤ hi)
  | .interI lo hi => fun x => S x ∧ (lo ≤ x ∧ x ≤ hi)
  | .unionS s => fun x => S x ∨ Mem x s
  | .interS s => fun x => S x ∧ Mem x s
  | .hullOp => S

def sem (S : Int → Prop) (ops : List IvOp) : Int → Prop := ops.foldl semStep S

/-- Interval sets stay sorted, disjoint and within capacity after one operation,
and the operation never loses a point of the exact result. -/
theorem step_sound (cap : Nat) (hc : 2 ≤ cap) (l : Ivs) (op : IvOp) (S : Int → Prop)
    (hg : Good cap l) (hop : OpOk cap op) (hS : ∀ x, S x → Mem x l) :
    Good cap (stepIv cap l op) ∧ ∀ x, semStep S op x → Mem x (stepIv cap l op) := by
  cases op with
  | unionI lo hi =>
    exact ⟨unionInterval_good cap hc l lo hi hg.1 hop, fun x hx =>
      mem_unionInterval cap l lo hi x hg.1 hop (hx.imp (hS x) id)⟩
  | interI lo hi =>
    exact ⟨interInterval_good cap hc l lo hi hg.1 hop, fun x hx =>
      mem_interInterval cap l lo hi x hg.1 hop (hS x hx.1) hx.2⟩
  | unionS s =>
    exact ⟨union_good cap hc l s hg hop, fun x hx => mem_union cap hc l s hg hop x (hx.imp (hS x) id)⟩
  | interS s =>
    exact ⟨inter_good cap hc l s hg hop, fun x hx => mem_inter cap hc l s hg hop x (hS x hx.1) hx.2⟩
  | hullOp =>
    exact ⟨⟨simplify_wf _ _ (hull_wf l hg.1), simplify_length cap hc _⟩, fun x hx =>
      mem_simplify _ _ _ (hull_wf l hg.1) (mem_hull l x hg.1 (hS x hx))⟩

/-- **Any history** of unions / intersections / simplifications, including ones that cross the
capacity: the representation invariant holds at the end and no point of the exact result is lost. -/
theorem run_sound (cap : Nat) (hc : 2 ≤ cap) (ops : List IvOp) (l : Ivs) (S : Int → Prop)
    (hg : Good cap l) (hops : ∀ op ∈ ops, OpOk cap op) (hS : ∀ x, S x → Mem x l) :
    Good cap (runIv cap l ops) ∧ ∀ x, sem S ops x → Mem x (runIv cap l ops) := by
  induction ops generalizing l S with
  | nil => exact ⟨hg, hS⟩
  | cons op rest ih =>
    have h1 := step_sound cap hc l op S hg (hops op List.mem_cons_self) hS
    exact ih (stepIv cap l op) (semStep S op) h1.1
      (fun o ho => hops o (List.mem_cons_of_mem _ ho)) h1.2

/-- The approximate union contains every value of both operands. -/
theorem union_superset (cap : Nat) (hc : 2 ≤ cap) (l r : Ivs) (hl : Good cap l) (hr : Good cap r) (x : Int) :
    Mem x l ∨ Mem x r → Mem x (union cap l r) := mem_union cap hc l r hl hr x

/-- The approximate intersection contains every value that is in both operands. -/
theorem inter_superset (cap : Nat) (hc : 2 ≤ cap) (l r : Ivs) (hl : Good cap l) (hr : Good cap r) (x : Int) :
    Mem x l → Mem x r → Mem x (inter cap l r) := mem_inter cap hc l r hl hr x

/-- No gratuitous loss of precision: below capacity, `union_interval` is exact. -/
theorem unionInterval_exact (cap : Nat) (l : Ivs) (lo hi x : Int) (h : WF l) (hlh : lo ≤ hi)
    (hlen : l.length + 1 < cap) :
    Mem x (unionInterval cap l lo hi) ↔ Mem x l ∨ (lo ≤ x ∧ x ≤ hi) := by
  obtain ⟨m, hm⟩ := h.exists_sortedAbove
  have := unionIv_length l lo hi
  rw [unionInterval, simplify_eq_of_lt _ _ (by omega)]
  exact mem_unionIv l lo hi x m hm hlh

/-- … and so is `intersection_interval` (its result is never longer than its input). -/
theorem interInterval_exact (cap : Nat) (l : Ivs) (lo hi x : Int) (h : Good cap l) :
    Mem x (interInterval cap l lo hi) ↔ Mem x l ∧ (lo ≤ x ∧ x ≤ hi) := by
  obtain ⟨m, hm⟩ := h.1.exists_sortedAbove
  have := interIv_length l lo hi
  rw [interInterval, simplify_eq_of_lt _ _ (by have := h.2; omega)]
  exact mem_interIv l lo hi x m hm

/-- `is_subset_of` never answers yes wrongly — proved here while the crude size bound `|l|·|r| < capacity` rules out any
collapse to the hull inside `intersection` (beyond that bound the subset test is covered by the `intervals` stream only:
the full statement is `isSubsetOf cap l r = true → ∀ x, Mem x l → Mem x r` for all `Good` operands). -/
theorem isSubsetOf_sound_partial (cap : Nat) (hc : 2 ≤ cap) (l r : Ivs) (hl : Good cap l) (hr : Good cap r)
    (hlen : l.length * r.length < cap) (h : isSubsetOf cap l r = true) (x : Int) (hx : Mem x l) : Mem x r := by
  unfold isSubsetOf at h
  have heq : inter cap l r = l := by simpa using h
  rw [← heq] at hx
  exact ((inter_exact cap hc l r hl hr hlen x).mp hx).2

/-- … and below that bound it answers yes exactly when the denotations are included and the intersection is written as `l` -/
theorem inter_exact_below_capacity (cap : Nat) (hc : 2 ≤ cap) (l r : Ivs) (hl : Good cap l) (hr : Good cap r)
    (hlen : l.length * r.length < cap) (x : Int) : Mem x (inter cap l r) ↔ Mem x l ∧ Mem x r :=
  inter_exact cap hc l r hl hr hlen x

/-- the union is exact (not merely a superset) while `|l| + |r|` stays below the capacity -/
theorem union_exact_below_capacity (cap : Nat) (hc : 2 ≤ cap) (l r : Ivs) (hl : Good cap l) (hr : Good cap r)
    (hlen : l.length + r.length < cap) (x : Int) : Mem x (union cap l r) ↔ Mem x l ∨ Mem x r :=
  (union_exact cap hc l r hl hr hlen x).1

/-- **Lattice laws, as sets, below the capacity regime**: union and intersection denote the same sets whichever operand comes
first (the code folds the shorter operand into the longer one, so the two calls run different loops), and they absorb each
other: `l ∩ (l ∪ r) = l = l ∪ (l ∩ r)` as sets.  Beyond the bounds only the superset theorems above hold — by design, the
collapse to the hull loses exactness, never soundness. -/
theorem union_comm_sem (cap : Nat) (hc : 2 ≤ cap) (l r : Ivs) (hl : Good cap l) (hr : Good cap r)
    (hlen : l.length + r.length < cap) (x : Int) : Mem x (union cap l r) ↔ Mem x (union cap r l) := by
  rw [union_exact_below_capacity cap hc l r hl hr hlen, union_exact_below_capacity cap hc r l hr hl (by omega)]
  exact Or.comm

theorem inter_comm_sem (cap : Nat) (hc : 2 ≤ cap) (l r : Ivs) (hl : Good cap l) (hr : Good cap r)
    (hlen : l.length * r.length < cap) (x : Int) : Mem x (inter cap l r) ↔ Mem x (inter cap r l) := by
  rw [inter_exact cap hc l r hl hr hlen, inter_exact cap hc r l hr hl (by rw [Nat.mul_comm]; exact hlen)]
  exact And.comm

theorem inter_union_absorb (cap : Nat) (hc : 2 ≤ cap) (l r : Ivs) (hl : Good cap l) (hr : Good cap r)
    (hlen : l.length * (l.length + r.length) < cap) (hlen2 : l.length + r.length < cap) (x : Int) :
    Mem x (inter cap l (union cap l r)) ↔ Mem x l := by
  have hu := union_exact cap hc l r hl hr hlen2
  have hg := union_good cap hc l r hl hr
  have hb : l.length * (union cap l r).length < cap :=
    Nat.lt_of_le_of_lt (Nat.mul_le_mul_left _ (hu x).2) hlen
  rw [inter_exact cap hc l _ hl hg hb, (hu x).1]
  exact ⟨fun h => h.1, fun h => ⟨h, Or.inl h⟩⟩

theorem union_idem_sem (cap : Nat) (hc : 2 ≤ cap) (l : Ivs) (hl : Good cap l) (hlen : l.length + l.length < cap) (x : Int) :
    Mem x (union cap l l) ↔ Mem x l := by
  rw [union_exact_below_capacity cap hc l l hl hl hlen]; exact or_self_iff

theorem inter_idem_sem (cap : Nat) (hc : 2 ≤ cap) (l : Ivs) (hl : Good cap l) (hlen : l.length * l.length < cap) (x : Int) :
    Mem x (inter cap l l) ↔ Mem x l := by
  rw [inter_exact cap hc l l hl hl hlen]; exact and_self_iff

/-- Non-vacuity of the partial statement, and a yes / no pair. -/
example : Good 128 [(0, 1), (5, 9)] ∧ Good 128 [(0, 3), (4, 20)] ∧ isSubsetOf 128 [(0, 1), (5, 9)] [(0, 3), (4, 20)] = true ∧
    isSubsetOf 128 [(0, 3), (4, 20)] [(0, 1), (5, 9)] = false := by
  refine ⟨⟨⟨by decide, by decide, by decide, trivial⟩, by decide⟩, ⟨⟨by decide, by decide, by decide, trivial⟩, by decide⟩, by decide, by decide⟩

/-- Non-vacuity: a concrete non-trivial state satisfies the hypotheses and crosses a merge. -/
example : Good 128 [(0, 1), (5, 9)] ∧ OpOk 128 (.unionI 1 5) ∧
    runIv 128 [(0, 1), (5, 9)] [.unionI 1 5, .interI 3 20] = [(3, 9)] := by
  refine ⟨⟨⟨by decide, by decide, by decide, trivial⟩, by decide⟩, (by show (1:Int) ≤ 5; decide), by decide⟩

/-- Non-vacuity at the capacity: with `cap = 3` the third interval forces the collapse to the hull. -/
example : runIv 3 [] [.unionI 0 0, .unionI 2 2, .unionI 4 4] = [(0, 4)] := by decide

end Qrlew.C11

import QrlewModel.Model.Split
/-!
# C08 — the Map / Reduce / Map split of a select item keeps its value

`split_preserves`: for every select item built from aggregates of row-level expressions and scalar functions, every
group of rows, and every naming of the intermediate columns that is injective on the columns of that item, running the
three layers gives the value of the item.  Names being functions of the content is what makes merged duplicates harmless
(`lookup_map`); a naming that identifies two different aggregates is a counterexample (`name_collision_counterexample`),
and two identical select items without alias collapse into one output column (`duplicate_unnamed_items_collapse`).
-/
namespace Qrlew.C08
open Qrlew.Split

/-- reading by name from columns that are named by an injective-on-`l` function of their content returns the content's value -/
theorem lookup_map {κ ν : Type} [DecidableEq ν] (nm : κ → ν) (f : κ → Int) (l : List κ) (k : κ) (hk : k ∈ l)
    (hinj : ∀ k' ∈ l, nm k' = nm k → f k' = f k) : lookup (l.map fun x => (nm x, f x)) (nm k) = f k := by
  induction l with
  | nil => simp at hk
  | cons x rest ih =>
    simp only [List.map_cons, lookup]
    by_cases hx : nm x = nm k
    · simp only [hx, if_true]; exact hinj x List.mem_cons_self hx
    · simp only [hx, if_false]
      have hk' : k ∈ rest := by
        rcases List.mem_cons.mp hk with rfl | h
        · exact absurd rfl hx
        · exact h
      exact ih hk' (fun k' hk'' => hinj k' (List.mem_cons_of_mem _ hk''))

theorem evalP_post {σ ν : Type} [DecidableEq σ] [DecidableEq ν] (sname : S → σ) (name : Agg × S → ν) (rows : List Row)
    (env : List (ν × Int)) (a : A)
    (henv : ∀ k ∈ aggs a, lookup env (name k) = aggFn k.1 (rows.map fun r => evalS r k.2)) :
    evalP env (post name a) = evalA rows a := by
  induction a with
  | agg g s => simpa [post, evalP, evalA, aggs] using henv
  | lit n => simp [post, evalP, evalA]
  | app1 f a ih => simp only [post, evalP, evalA]; rw [ih (by simpa [aggs] using henv)]
  | app2 f a b iha ihb =>
    simp only [post, evalP, evalA]
    rw [iha (fun k hk => henv k (by simp [aggs, hk])), ihb (fun k hk => henv k (by simp [aggs, hk]))]

/-- the split keeps the value of the item, for namings injective on the item's own intermediate columns -/
theorem split_preserves {σ ν : Type} [DecidableEq σ] [DecidableEq ν] (sname : S → σ) (name : Agg × S → ν) (a : A) (rows : List Row)
    (hs : ∀ s ∈ pre a, ∀ s' ∈ pre a, sname s' = sname s → s' = s)
    (hn : ∀ k ∈ aggs a, ∀ k' ∈ aggs a, name k' = name k → k' = k) :
    evalSplit sname name a rows = evalA rows a := by
  unfold evalSplit
  apply evalP_post sname name rows
  intro k hk
  unfold reduceOut
  have hpre : k.2 ∈ pre a := by unfold pre; exact List.mem_map.mpr ⟨k, hk, rfl⟩
  rw [lookup_map name (fun k => aggFn k.1 (rows.map fun r => lookup (mapOut sname a r) (sname k.2))) (aggs a) k hk
    (fun k' hk' he => by rw [hn k hk k' hk' he])]
  congr 1
  apply List.map_congr_left
  intro r _
  unfold mapOut
  exact lookup_map sname (fun s => evalS r s) (pre a) k.2 hpre (fun s' hs' he => by rw [hs k.2 hpre s' hs' he])

/-- **A whole select list**: the row the three layers produce has one column per select item, *in the order of the select list*,
under the item's output name and with the item's value — for any number of items (aggregate-free ones, such as literals, included,
wherever they stand) and any naming that is injective on the aggregates of the list and on their arguments. -/
theorem split_list_preserves {ι σ ν : Type} [DecidableEq σ] [DecidableEq ν] (sname : S → σ) (name : Agg × S → ν)
    (items : List (ι × A)) (rows : List Row)
    (hs : ∀ k ∈ aggsAll items, ∀ k' ∈ aggsAll items, sname k'.2 = sname k.2 → k'.2 = k.2)
    (hn : ∀ k ∈ aggsAll items, ∀ k' ∈ aggsAll items, name k' = name k → k' = k) :
    evalSplitAll sname name items rows = items.map fun it => (it.1, evalA rows it.2) := by
  unfold evalSplitAll topAll
  rw [List.map_map]
  apply List.map_congr_left
  intro it hit
  simp only [Function.comp]
  congr 1
  apply evalP_post sname name rows
  intro k hk
  have hkall : k ∈ aggsAll items := by
    unfold aggsAll; exact List.mem_flatMap.mpr ⟨it, hit, hk⟩
  unfold reduceOutAll
  rw [lookup_map name (fun k => aggFn k.1 (rows.map fun r => lookup (mapOutAll sname items r) (sname k.2))) (aggsAll items) k hkall
    (fun k' hk' he => by rw [hn k hkall k' hk' he])]
  congr 1
  apply List.map_congr_left
  intro r _
  unfold mapOutAll
  exact lookup_map (fun k : Agg × S => sname k.2) (fun k => evalS r k.2) (aggsAll items) k hkall
    (fun k' hk' he => by rw [hs k hkall k' hk' he])

/-- non-vacuity: `SELECT 7 AS l, count(c0) AS n, sum(c0) + 1 AS t` — the literal stays first -/
example : evalSplitAll id id [("l", A.lit 7), ("n", A.agg .count (.col 0)), ("t", A.app2 .plus (A.agg .sum (.col 0)) (A.lit 1))] [[3], [5]]
    = [("l", 7), ("n", 2), ("t", 9)] := by decide

/-- with the identity naming (content itself) the hypotheses hold trivially -/
theorem split_preserves_content_names (a : A) (rows : List Row) : evalSplit id id a rows = evalA rows a :=
  split_preserves id id a rows (fun _ _ _ _ h => h) (fun _ _ _ _ h => h)

/-- a naming that gives `sum(c0)` and `max(c0)` the same name makes the split wrong -/
theorem name_collision_counterexample :
    evalSplit id (fun _ => 0) (.app2 .minus (.agg .sum (.col 0)) (.agg .max (.col 0))) [[1], [2]] ≠
      evalA [[1], [2]] (.app2 .minus (.agg .sum (.col 0)) (.agg .max (.col 0))) := by decide

/-- two identical select items without alias get the same content-derived name: one output column is left -/
theorem duplicate_unnamed_items_collapse :
    (outputNames id [(none, A.agg .sum (.col 0)), (none, A.agg .sum (.col 0))]).length = 1 := by decide

/-- Non-vacuity: `1 + max(c0) * 2` over a group with values 3, 5 is 11 both ways. -/
example : evalSplit id id (.app2 .plus (.lit 1) (.app2 .times (.agg .max (.col 0)) (.lit 2))) [[3], [5]] = 11 ∧
    evalA [[3], [5]] (.app2 .plus (.lit 1) (.app2 .times (.agg .max (.col 0)) (.lit 2))) = 11 := by decide

end Qrlew.C08

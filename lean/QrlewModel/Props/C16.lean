import QrlewModel.Model.Namer
import QrlewModel.Generated.NamerSites
/-!
# C16 — generated names: content-derived names do not depend on history, counter-derived names do

* `content_only_history_independent`: a computation that only asks for content-derived names gets the same
  names from every counter state, after any earlier calls, and leaves the counter untouched.
* `counter_numbers_increasing` / `counter_name_changes`: every number the counter hands out for a key is larger
  than all earlier ones — so anything named from the counter is different on the second compilation.
* `compile_path_counter_sites`: in the generated inventory of /repo's naming call sites, the counter-based ones in the
  modules the SQL reader and the renderer run through are exactly the audited ones.
* `encode_length`, `encode_mod`: the 4-digit base-37 code depends on the hash modulo 37^4 only.
-/
namespace Qrlew.C16
open Qrlew.Namer

theorem step_content (c : Counter) (op : Op) (h : op.isContent = true) :
    (step c op).1 = c ∧ ∀ c', (step c' op).2 = (step c op).2 := by
  cases op <;> simp [Op.isContent] at h <;> simp [step]

theorem content_only_history_independent (ops : List Op) (h : ∀ op ∈ ops, op.isContent = true) :
    ∀ c c', (run c ops).2 = (run c' ops).2 ∧ (run c ops).1 = c := by
  induction ops with
  | nil => intro c c'; simp [run]
  | cons op ops ih =>
    intro c c'
    have hop := h op List.mem_cons_self
    have ⟨h1, h2⟩ := step_content c op hop
    have ⟨h1', _⟩ := step_content c' op hop
    have ih' := ih (fun o ho => h o (List.mem_cons_of_mem _ ho))
    simp only [run]
    rw [h1, h1', h2 c']
    exact ⟨by rw [(ih' c c').1], (ih' c c).2⟩

theorem lookup_put_same (c : Counter) (k : String) (n : Nat) : lookup (put c k n) k = some n := by
  induction c with
  | nil => simp [put, lookup]
  | cons kv rest ih =>
    obtain ⟨k', m⟩ := kv
    by_cases hk : k' = k <;> simp [put, lookup, hk, ih]

theorem lookup_put_other (c : Counter) (k k' : String) (n : Nat) (hne : k' ≠ k) : lookup (put c k n) k' = lookup c k' := by
  induction c with
  | nil => simp [put, lookup, Ne.symm hne]
  | cons kv rest ih =>
    obtain ⟨k'', m⟩ := kv
    by_cases hk : k'' = k
    · subst hk; simp [put, lookup, Ne.symm hne]
    · by_cases hk2 : k'' = k'
      · subst hk2; simp [put, lookup, hk]
      · simp [put, lookup, hk, hk2, ih]

theorem next_after_count_same (c : Counter) (k : String) : next (count c k).1 k = next c k + 1 := by
  simp [count, next, lookup_put_same]

theorem next_after_count_other (c : Counter) (k k' : String) (hne : k' ≠ k) : next (count c k).1 k' = next c k' := by
  simp [count, next, lookup_put_other _ _ _ _ hne]

/-- all numbers handed out for `p` during a run are at least the next free number, and strictly increasing -/
theorem counter_numbers_increasing (p : String) (ops : List Op) :
    ∀ c, (numbersFor p (run c ops).2).Pairwise (· < ·) ∧ ∀ n ∈ numbersFor p (run c ops).2, next c p ≤ n := by
  induction ops with
  | nil => intro c; simp [run, numbersFor]
  | cons op ops ih =>
    intro c
    cases op with
    | content q h =>
      have := ih c
      simpa [run, step, numbersFor] using this
    | name q =>
      by_cases hq : q = p
      · subst hq
        have ⟨ih1, ih2⟩ := ih (count c q).1
        rw [next_after_count_same] at ih2
        simp only [run, step, numbersFor, if_true, List.pairwise_cons, List.mem_cons]
        refine ⟨⟨fun n hn => ?_, ih1⟩, fun n hn => ?_⟩
        · have := ih2 n hn; simp only [count] at *; omega
        · rcases hn with rfl | hn
          · simp [count]
          · have := ih2 n hn; omega
      · have ⟨ih1, ih2⟩ := ih (count c q).1
        rw [next_after_count_other _ _ _ (Ne.symm hq)] at ih2
        simp only [run, step, numbersFor, hq, if_false]
        exact ⟨ih1, ih2⟩
    | id q =>
      by_cases hq : q = p
      · subst hq
        have ⟨ih1, ih2⟩ := ih (count c q).1
        rw [next_after_count_same] at ih2
        simp only [run, step, numbersFor, if_true, List.pairwise_cons, List.mem_cons]
        refine ⟨⟨fun n hn => ?_, ih1⟩, fun n hn => ?_⟩
        · have := ih2 n hn; simp only [count] at *; omega
        · rcases hn with rfl | hn
          · simp [count]
          · have := ih2 n hn; omega
      · have ⟨ih1, ih2⟩ := ih (count c q).1
        rw [next_after_count_other _ _ _ (Ne.symm hq)] at ih2
        simp only [run, step, numbersFor, hq, if_false]
        exact ⟨ih1, ih2⟩

/-- the same request made twice, with anything in between, gets two different counter names -/
theorem counter_name_changes (p : String) (between : List Op) (c : Counter) :
    let outs := (run c (.name p :: between ++ [.name p])).2
    outs.head? ≠ outs.getLast? := by
  intro outs
  have hinc := (counter_numbers_increasing p (.name p :: between ++ [.name p]) c).1
  -- the first and the last output are `counted p _` with increasing numbers
  have hrun : ∀ (ops : List Op) (c : Counter), (run c (ops ++ [.name p])).2.getLast? = some (.counted p (next (run c ops).1 p)) := by
    intro ops
    induction ops with
    | nil => intro c; simp [run, step, count]
    | cons o os ih =>
      intro c
      have := ih (step c o).1
      simp only [List.cons_append, run]
      rw [List.getLast?_cons, this]
      simp [run]
  have hlast := hrun (.name p :: between) c
  have hhead : outs.head? = some (.counted p (next c p)) := by simp [outs, run, step, count]
  have hl : outs.getLast? = some (.counted p (next (run c (.name p :: between)).1 p)) := by
    simpa [outs] using hlast
  rw [hhead, hl]
  intro heq
  have heq' : next c p = next (run c (.name p :: between)).1 p := by
    simpa using heq
  -- but the last number is in the increasing list after the first
  have hmem : next (run c (.name p :: between)).1 p ∈ numbersFor p (run (count c p).1 (between ++ [.name p])).2 := by
    have hmemlast : ∀ (l : List Out) (n : Nat), l.getLast? = some (.counted p n) → n ∈ numbersFor p l := by
      intro l
      induction l with
      | nil => intro n h; simp at h
      | cons o os ihl =>
        intro n h
        cases os with
        | nil =>
          simp only [List.getLast?_singleton, Option.some.injEq] at h
          subst h; simp [numbersFor]
        | cons o2 os2 =>
          rw [List.getLast?_cons_cons] at h
          have := ihl n h
          cases o <;> simp only [numbersFor] <;> (try split) <;> simp [this]
    apply hmemlast
    have := hrun between (count c p).1
    simpa [run, step] using this
  have hge := (counter_numbers_increasing p (between ++ [.name p]) (count c p).1).2 _ hmem
  rw [next_after_count_same] at hge
  omega

theorem encode_length (a : List Char) (len x : Nat) : (encode a len x).length = len := by
  induction len generalizing x with
  | zero => simp [encode]
  | succ n ih => simp [encode, ih]

theorem encode_mod (a : List Char) (len x : Nat) (ha : 0 < a.length) :
    encode a len x = encode a len (x % a.length ^ len) := by
  induction len generalizing x with
  | zero => simp [encode]
  | succ n ih =>
    simp only [encode]
    have h1 : x % a.length ^ (n + 1) % a.length = x % a.length := by
      rw [Nat.pow_succ, Nat.mul_comm]; exact Nat.mod_mul_right_mod _ _ _
    have h2 : x % a.length ^ (n + 1) / a.length = (x / a.length) % a.length ^ n := by
      rw [Nat.pow_succ, Nat.mul_comm, Nat.mod_mul_right_div_self]
    rw [h1, h2, ← ih]

/-- conversely the code is injective on hashes below `|alphabet| ^ len` (distinct symbols): with `encode_mod`, two contents share a
name **exactly** when their hashes agree modulo `37⁴` — the collisions of `name_from_content` are those of the hash, never an
artefact of the encoder. -/
theorem encode_injective (a : List Char) (hn : a.Nodup) (ha : 0 < a.length) (len x y : Nat)
    (hx : x < a.length ^ len) (hy : y < a.length ^ len) (h : encode a len x = encode a len y) : x = y := by
  induction len generalizing x y with
  | zero => simp at hx hy; omega
  | succ n ih =>
    simp only [encode, List.cons.injEq] at h
    have hm : x % a.length = y % a.length :=
      (List.getD_inj (Nat.mod_lt _ ha) (Nat.mod_lt _ ha) hn).mp h.1
    have hdx : x / a.length < a.length ^ n := by
      rw [Nat.div_lt_iff_lt_mul ha]; rw [Nat.pow_succ] at hx; exact hx
    have hdy : y / a.length < a.length ^ n := by
      rw [Nat.div_lt_iff_lt_mul ha]; rw [Nat.pow_succ] at hy; exact hy
    have hd := ih (x / a.length) (y / a.length) hdx hdy h.2
    have e1 := Nat.div_add_mod x a.length
    have e2 := Nat.div_add_mod y a.length
    rw [hd, hm] at e1
    omega

theorem base37_nodup : base37.Nodup := by decide

theorem content_code_eq_iff (h1 h2 : Nat) : encode base37 4 h1 = encode base37 4 h2 ↔ h1 % 37 ^ 4 = h2 % 37 ^ 4 := by
  have hl : base37.length = 37 := by decide
  constructor
  · intro h
    rw [encode_mod base37 4 h1 (by rw [hl]; decide), encode_mod base37 4 h2 (by rw [hl]; decide)] at h
    have := encode_injective base37 base37_nodup (by rw [hl]; decide) 4 _ _ (Nat.mod_lt _ (by rw [hl]; decide)) (Nat.mod_lt _ (by rw [hl]; decide)) h
    rw [hl] at this; exact this
  · intro h
    rw [encode_mod base37 4 h1 (by rw [hl]; decide), encode_mod base37 4 h2 (by rw [hl]; decide), hl, h]

/-- two different hashes can share a code: names are not injective in the content -/
theorem code_collision : encode base37 4 0 = encode base37 4 (37 ^ 4) := by decide

/-! ### Hash maps keyed by content: why `Hash` must agree with `Eq`

The visitors keep their state in a `HashMap<&Node, _>`; `DataType` derives a structural `Hash` but its `==` is mutual
inclusion.  A bucketed lookup (`bucketLookup`: only the keys whose hash equals the query's are compared) agrees with the
plain first-match lookup for every hash function that respects the equality — in particular it does not depend on the
per-map random seed — and it does depend on the seed as soon as two equal keys may hash differently. -/

def bucketLookup {κ ν : Type} (h : κ → Nat) (eq : κ → κ → Bool) (l : List (κ × ν)) (k : κ) : Option ν :=
  ((l.filter fun p => h p.1 == h k).find? fun p => eq p.1 k).map (·.2)

def linearLookup {κ ν : Type} (eq : κ → κ → Bool) (l : List (κ × ν)) (k : κ) : Option ν :=
  (l.find? fun p => eq p.1 k).map (·.2)

theorem lawful_hash_lookup {κ ν : Type} (h : κ → Nat) (eq : κ → κ → Bool) (hl : ∀ a b, eq a b = true → h a = h b)
    (l : List (κ × ν)) (k : κ) : bucketLookup h eq l k = linearLookup eq l k := by
  unfold bucketLookup linearLookup
  induction l with
  | nil => simp
  | cons p rest ih =>
    by_cases hp : eq p.1 k = true
    · have : (h p.1 == h k) = true := by simpa using hl _ _ hp
      simp [List.filter_cons, this, List.find?_cons, hp]
    · have hp' : eq p.1 k = false := by simpa using hp
      by_cases hh : (h p.1 == h k) = true
      · simp only [List.filter_cons, hh, if_true, List.find?_cons, hp']
        exact ih
      · have hh' : (h p.1 == h k) = false := by simpa using hh
        simp only [List.filter_cons, hh', Bool.false_eq_true, if_false, List.find?_cons, hp']
        exact ih

/-- with a hash that respects equality, the answer does not depend on which such hash (which seed) the map uses -/
theorem lawful_hash_seed_independent {κ ν : Type} (h h' : κ → Nat) (eq : κ → κ → Bool)
    (hl : ∀ a b, eq a b = true → h a = h b) (hl' : ∀ a b, eq a b = true → h' a = h' b) (l : List (κ × ν)) (k : κ) :
    bucketLookup h eq l k = bucketLookup h' eq l k := by
  rw [lawful_hash_lookup h eq hl, lawful_hash_lookup h' eq hl']

/-- two keys that are equal (`1 ≃ 2`) but hash apart under one seed and together under another: the lookup differs -/
theorem hash_eq_mismatch_counterexample :
    bucketLookup (fun k : Nat => k) (fun a b => a / 3 == b / 3) [(1, "float{0, 1}")] 2 ≠
      bucketLookup (fun _ : Nat => 0) (fun a b => a / 3 == b / 3) [(1, "float{0, 1}")] 2 := by decide

open Qrlew.Generated

/-- modules the SQL reader, the relation builders and the renderer run through -/
def compileAreas : List String := ["sql", "relation", "expr", "dialect_translation", "data_type", "", "hierarchy"]

/-- counter-based sites reached only when a caller does not supply a name (the SQL reader always names the nodes it
builds from their content), or in the sampling / noise rewritings, which the property does not cover -/
def audited : List NameSite := [
  ⟨"data_type", "data_type/value.rs", "new_name", "", .counter⟩,          -- From<Value> for Union: an anonymous field
  ⟨"relation", "relation/builder.rs", "new_name", "table", .counter⟩,      -- TableBuilder without a name
  ⟨"relation", "relation/builder.rs", "new_name", "values", .counter⟩,     -- ValuesBuilder without a name
  ⟨"relation", "relation/field.rs", "new_name", "field", .counter⟩,        -- Field::from(DataType)
  ⟨"relation", "relation/mod.rs", "new_name", "table", .counter⟩,          -- Table::from_field
  ⟨"relation", "relation/rewriting.rs", "new_id", "POISSON_SAMPLING", .counter⟩,
  ⟨"relation", "relation/rewriting.rs", "new_id", "SAMPLING_WITHOUT_REPLACEMENT", .counter⟩,
  ⟨"expr", "expr/rewriting.rs", "new_id", "GAUSSIAN_NOISE", .counter⟩ ]

/-- the one counter-based site on the reader's path: `random()` / `rand()` takes its id from the counter (known finding) -/
def knownCounterOnPath : List NameSite := [⟨"sql", "sql/expr.rs", "new_id", "UNIFORM_SAMPLING", .counter⟩]

def counterOnCompilePath : List NameSite :=
  nameSites.filter fun s => compileAreas.contains s.area && s.kind == .counter

theorem compile_path_counter_sites : ∀ s ∈ counterOnCompilePath, s ∈ audited ∨ s ∈ knownCounterOnPath := by decide

/-- Non-vacuity: the inventory does contain content-based sites on the path, and the filter of the theorem is not empty. -/
example : (nameSites.filter fun s => compileAreas.contains s.area && s.kind == .content).length > 5 ∧ counterOnCompilePath.length = 9 := by decide

end Qrlew.C16

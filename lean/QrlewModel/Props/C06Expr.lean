/-!
# C06 — from functions to expressions: range propagation composes

`Expr::super_image` computes the type of an expression bottom-up: the type of `f(e₁, e₂)` is the image under `f` of the
types computed for `e₁` and `e₂`.  `expr_sound` shows that this scheme is sound for *every* expression tree as soon as
each function's image is sound on its own (what the per-function theorems of `Props/C06.lean` establish for the
arithmetic functions), for any value domain and any family of functions — including a conditional whose branches are
typed separately.
-/
namespace Qrlew.C06

variable {Val : Type} {φ₁ φ₂ : Type}

/-- expressions over columns, constants, unary and binary functions, and `CASE WHEN c THEN a ELSE b` -/
inductive E (Val φ₁ φ₂ : Type) where
  | col (i : Nat)
  | lit (v : Val)
  | app1 (f : φ₁) (a : E Val φ₁ φ₂)
  | app2 (f : φ₂) (a b : E Val φ₁ φ₂)
  | case (c a b : E Val φ₁ φ₂)

/-- what the functions compute, and which branch a condition value selects -/
structure Sem (Val φ₁ φ₂ : Type) where
  f1 : φ₁ → Val → Val
  f2 : φ₂ → Val → Val → Val
  truthy : Val → Bool

/-- the images the library declares for them (types are sets of values) -/
structure Img (Val φ₁ φ₂ : Type) where
  i1 : φ₁ → (Val → Prop) → (Val → Prop)
  i2 : φ₂ → (Val → Prop) → (Val → Prop) → (Val → Prop)

def eval (s : Sem Val φ₁ φ₂) (env : Nat → Val) : E Val φ₁ φ₂ → Val
  | .col i => env i
  | .lit v => v
  | .app1 f a => s.f1 f (eval s env a)
  | .app2 f a b => s.f2 f (eval s env a) (eval s env b)
  | .case c a b => if s.truthy (eval s env c) then eval s env a else eval s env b

/-- bottom-up type of an expression; a conditional gets the union of its branches' types -/
def image (im : Img Val φ₁ φ₂) (tys : Nat → Val → Prop) : E Val φ₁ φ₂ → (Val → Prop)
  | .col i => tys i
  | .lit v => fun x => x = v
  | .app1 f a => im.i1 f (image im tys a)
  | .app2 f a b => im.i2 f (image im tys a) (image im tys b)
  | .case _ a b => fun x => image im tys a x ∨ image im tys b x

/-- each function's declared image contains the function's values on the argument types -/
def FnSound (s : Sem Val φ₁ φ₂) (im : Img Val φ₁ φ₂) : Prop :=
  (∀ f (S : Val → Prop) v, S v → im.i1 f S (s.f1 f v)) ∧
  (∀ f (S T : Val → Prop) v w, S v → T w → im.i2 f S T (s.f2 f v w))

/-- for every expression, every row whose columns lie in their declared types evaluates inside the propagated type -/
theorem expr_sound (s : Sem Val φ₁ φ₂) (im : Img Val φ₁ φ₂) (h : FnSound s im)
    (tys : Nat → Val → Prop) (env : Nat → Val) (henv : ∀ i, tys i (env i)) :
    ∀ e : E Val φ₁ φ₂, image im tys e (eval s env e)
  | .col i => henv i
  | .lit _ => rfl
  | .app1 f a => h.1 f _ _ (expr_sound s im h tys env henv a)
  | .app2 f a b => h.2 f _ _ _ _ (expr_sound s im h tys env henv a) (expr_sound s im h tys env henv b)
  | .case c a b => by
    simp only [eval, image]
    split
    · exact Or.inl (expr_sound s im h tys env henv a)
    · exact Or.inr (expr_sound s im h tys env henv b)

/-- one unsound function image is enough to break an expression built on it: the hypothesis is needed -/
theorem unsound_function_counterexample :
    ∃ (s : Sem Int Unit Unit) (im : Img Int Unit Unit) (tys : Nat → Int → Prop) (env : Nat → Int),
      (∀ i, tys i (env i)) ∧ ¬ image im tys (.app1 () (.col 0)) (eval s env (.app1 () (.col 0))) :=
  ⟨⟨fun _ x => x + 1, fun _ x _ => x, fun _ => true⟩, ⟨fun _ S => S, fun _ S _ => S⟩, fun _ x => x = 0, fun _ => 0,
    fun _ => rfl, by simp [image, eval]⟩

/-- Non-vacuity: integer addition with the interval image `[a+c, b+d]` meets `FnSound`, and `c0 + c0` on `[0, 3]` lies in `[0, 6]`. -/
example : ∃ (s : Sem Int Unit Unit) (im : Img Int Unit Unit), FnSound s im ∧
    image im (fun _ x => 0 ≤ x ∧ x ≤ 3) (.app2 () (.col 0) (.col 0)) (eval s (fun _ => 3) (.app2 () (.col 0) (.col 0))) :=
  ⟨⟨fun _ x => x, fun _ x y => x + y, fun _ => true⟩,
   ⟨fun _ S => S, fun _ S T z => ∃ x y, S x ∧ T y ∧ z = x + y⟩,
   ⟨fun _ _ _ h => h, fun _ _ _ v w hv hw => ⟨v, w, hv, hw, rfl⟩⟩,
   ⟨3, 3, by simp [image], by simp [image], by simp [eval]⟩⟩

end Qrlew.C06

import QrlewModel.Props.C04
import QrlewModel.Props.C05Tree
import QrlewModel.Model.TauKeys
/-!
# C04 — the key-release pipeline as a whole

`Qrlew.TauKeys.releasedKeys` is the model of `tau_thresholding_values` (distinct (key, unit) pairs → contribution limiting →
noisy count → threshold), compared with the real rewriting by the `taukeys` stream.  For every table of (unit, key) rows, every
assignment of ranks and noise draws, every `K` and τ:

* `released_needs_units`: a released key is held by a number of distinct privacy units that, together with the drawn noise,
  exceeds τ — counted after the limiting (`released_count`), hence also before it;
* `limited_per_unit`: after the limiting no unit is left in more than `K` groups;
* `singleton_never_released`: a key held by at most one unit is not released when the noise draw is non-positive and τ ≥ 1.
-/
namespace Qrlew.C04
open Qrlew Qrlew.Tau Qrlew.TauKeys Qrlew.PupTree

theorem dedup_sublist {α : Type} [DecidableEq α] : ∀ l : List α, (PupTree.dedup l).Sublist l
  | [] => by simp [PupTree.dedup]
  | a :: t => by
    simp only [PupTree.dedup]
    exact ((List.filter_sublist).trans (dedup_sublist t)).cons_cons a

theorem dedup_nodup {α : Type} [DecidableEq α] : ∀ l : List α, (PupTree.dedup l).Nodup
  | [] => by simp [PupTree.dedup]
  | a :: t => by
    simp only [PupTree.dedup, List.nodup_cons, List.mem_filter]
    exact ⟨fun h => by simpa using h.2, (dedup_nodup t).sublist List.filter_sublist⟩

theorem limited_sublist (K : Nat) (rank : Pair → Int) (ps : List Pair) : (limited K rank ps).Sublist ps := List.filter_sublist

theorem countKey_mono {a b : List Pair} (h : a.Sublist b) (k : Int) : countKey a k ≤ countKey b k :=
  (h.filter _).length_le

/-- the count the threshold is applied to -/
theorem released_count (K : Nat) (rank : Pair → Int) (noise : Int → Int) (tau : Int) (rows : List Pair) (k : Int)
    (h : k ∈ releasedKeys K rank noise tau rows) :
    (countKey (limited K rank (TauKeys.dedup rows)) k : Int) + noise k > tau := by
  unfold releasedKeys at h
  have := (List.mem_filter.mp h).2
  simpa [released] using this

/-- the distinct units holding key `k` -/
def unitsHolding (rows : List Pair) (k : Int) : List Nat := PupTree.dedup ((rows.filter fun p => p.2 == k).map (·.1))

/-- among distinct pairs, those with key `k` are as many as the distinct units holding `k` -/
theorem countKey_dedup (rows : List Pair) (k : Int) : countKey (TauKeys.dedup rows) k = (unitsHolding rows k).length := by
  unfold countKey unitsHolding TauKeys.dedup
  rw [C05.filter_dedup]
  have hl : ∀ p ∈ rows.filter (fun p => p.2 == k), p.2 = k := fun p hp => by simpa using (List.mem_filter.mp hp).2
  -- on pairs that all carry the key `k` the projection to the unit is injective, so it commutes with de-duplication
  have key : ∀ (l : List Pair), (∀ p ∈ l, p.2 = k) → (PupTree.dedup l).map (·.1) = PupTree.dedup (l.map (·.1)) := by
    intro l
    induction l with
    | nil => intro _; simp [PupTree.dedup]
    | cons a t ih =>
      intro hk
      have hk' : ∀ p ∈ t, p.2 = k := fun p hp => hk p (List.mem_cons_of_mem _ hp)
      simp only [PupTree.dedup, List.map_cons]
      rw [← ih hk', List.filter_map]
      congr 2
      apply List.filter_congr
      intro p hp
      have hp2 : p.2 = k := hk' p (C05.mem_of_mem_dedup p t hp)
      have ha2 : a.2 = k := hk a List.mem_cons_self
      simp only [Function.comp]
      by_cases h : p = a
      · simp [h]
      · have : p.1 ≠ a.1 := fun h1 => h (Prod.ext h1 (by rw [hp2, ha2]))
        simp [h, this]
  rw [← key _ hl, List.length_map]

/-- **A released key is held by enough distinct units**: their number plus the drawn noise exceeds τ. -/
theorem released_needs_units (K : Nat) (rank : Pair → Int) (noise : Int → Int) (tau : Int) (rows : List Pair) (k : Int)
    (h : k ∈ releasedKeys K rank noise tau rows) : ((unitsHolding rows k).length : Int) + noise k > tau := by
  have h1 := released_count K rank noise tau rows k h
  have h2 := countKey_mono (limited_sublist K rank (TauKeys.dedup rows)) k
  rw [countKey_dedup] at h2
  omega

/-- **A key held by a single privacy unit is never released deterministically** (noise draw ≤ 0, τ ≥ 1). -/
theorem singleton_never_released (K : Nat) (rank : Pair → Int) (noise : Int → Int) (tau : Int) (rows : List Pair) (k : Int)
    (hu : (unitsHolding rows k).length ≤ 1) (hn : noise k ≤ 0) (ht : 1 ≤ tau) : k ∉ releasedKeys K rank noise tau rows := by
  intro h
  have := released_needs_units K rank noise tau rows k h
  omega

/-- **Contribution limiting**: after it, no unit is left in more than `K` groups. -/
theorem limited_per_unit (K : Nat) (rank : Pair → Int) (ps : List Pair) (u : Nat) :
    ((limited K rank ps).filter fun p => p.1 == u).length ≤ K := by
  have h : ((limited K rank ps).filter fun p => p.1 == u).map rank = Tau.kept K (ranksOf rank ps u) := by
    unfold limited Tau.kept ranksOf
    rw [List.filter_filter, List.filter_map, List.filter_filter]
    congr 1
    apply List.filter_congr
    intro p _
    by_cases hp : p.1 = u
    · subst hp; simp [Bool.and_comm]
    · have hb : (p.1 == u) = false := by simpa using hp
      simp [hb]
  have := limit_ok K (ranksOf rank ps u)
  rw [← h, List.length_map] at this
  exact this

/-- **Nothing is invented**: a released key is a key some protected row carries (the threshold only removes keys). -/
theorem released_key_in_data (K : Nat) (rank : Pair → Int) (noise : Int → Int) (tau : Int) (rows : List Pair) (k : Int)
    (h : k ∈ releasedKeys K rank noise tau rows) : ∃ u, (u, k) ∈ rows := by
  unfold releasedKeys at h
  have h1 := (List.mem_filter.mp h).1
  have h2 := (dedup_sublist _).subset h1
  obtain ⟨p, hp, rfl⟩ := List.mem_map.mp h2
  exact ⟨p.1, (dedup_sublist rows).subset ((limited_sublist K rank _).subset hp)⟩

/-- … and every released key is released once -/
theorem releasedKeys_nodup (K : Nat) (rank : Pair → Int) (noise : Int → Int) (tau : Int) (rows : List Pair) :
    (releasedKeys K rank noise tau rows).Nodup := by
  unfold releasedKeys
  exact List.Nodup.sublist List.filter_sublist (dedup_nodup _)

/-- non-vacuity: three units hold key 7, one unit holds key 9 alone; K = 2, τ = 1, no noise, distinct ranks -/
example : releasedKeys 2 (fun p => (p.1 : Int) * 10 + p.2) (fun _ => 0) 1 [(1, 7), (2, 7), (3, 7), (3, 9), (1, 7)] = [7] ∧
    (unitsHolding [(1, 7), (2, 7), (3, 7), (3, 9), (1, 7)] 9).length = 1 := by decide

/-- … and with all ranks tied (constant draws) a unit spread over more than `K` groups loses all of them -/
example : limited 1 (fun _ => 0) [(1, 7), (1, 8), (2, 7)] = [(2, 7)] := by decide

end Qrlew.C04

import QrlewModel.Lemmas.Reals
import QrlewModel.Model.Clip
import Mathlib.Algebra.BigOperators.Group.List.Basic
import Mathlib.Tactic.Ring
import Mathlib.Tactic.Linarith
import Mathlib.Tactic.FieldSimp
/-!
# C01 — true sensitivity never exceeds the calibrated clip bound (clipping core, over ℝ)

For any number of groups, any number of units and any per-unit vectors of partial sums (whatever the
declared ranges and however many rows a unit has), the clipped contribution of one unit has L2 norm at
most `C`, the clipped sums are the sum of the units' contributions (a unit's contribution depends on
its own rows only), and hence removing one unit changes the released vector by at most `C` in L2 norm.
-/
namespace Qrlew.C01
open Qrlew Qrlew.Clip

noncomputable def rz : ℝ → Bool := fun x => decide (x = 0)

theorem vsum_real (l : List ℝ) : vsum realOps l = l.sum := by
  induction l with
  | nil => simp [vsum, realOps]
  | cons a t ih => simp only [vsum, List.foldr_cons, List.sum_cons] at *; rw [ih]; rfl

theorem normSq_real (v : List ℝ) : normSq realOps v = (v.map fun x => x * x).sum := by
  unfold normSq; rw [vsum_real]; rfl

theorem normSq_nonneg (v : List ℝ) : 0 ≤ normSq realOps v := by
  rw [normSq_real]
  apply List.sum_nonneg
  intro x hx
  obtain ⟨y, _, rfl⟩ := List.mem_map.mp hx
  exact mul_self_nonneg y

theorem normSq_scaled (k : ℝ) (v : List ℝ) :
    normSq realOps (v.map fun x => realOps.mul x k) = k * k * normSq realOps v := by
  rw [normSq_real, normSq_real, List.map_map]
  induction v with
  | nil => simp
  | cons a t ih => simp only [List.map_cons, List.sum_cons, Function.comp] at *; rw [ih]; simp [realOps]; ring

theorem scale_real (c : ℝ) (v : List ℝ) :
    scale realOps rz c v = if c = 0 then 0 else 1 / max 1 (Real.sqrt (normSq realOps v) / c) := by
  unfold scale rz
  by_cases h : c = 0 <;> simp [h, realOps]

/-- **Contribution bounded**: after clipping, the squared L2 norm of a unit's vector is at most `C²`. -/
theorem contribution_bounded (c : ℝ) (hc : 0 ≤ c) (v : List ℝ) :
    normSq realOps (scaled realOps rz c v) ≤ c * c := by
  unfold scaled
  rw [normSq_scaled, scale_real]
  by_cases h0 : c = 0
  · simp [h0]
  · have hcpos : 0 < c := lt_of_le_of_ne hc (Ne.symm h0)
    simp only [h0, if_false]
    set n2 := normSq realOps v with hn2
    have hn2nn : 0 ≤ n2 := normSq_nonneg v
    set n := Real.sqrt n2 with hn
    have hnn : 0 ≤ n := Real.sqrt_nonneg _
    have hsq : n * n = n2 := Real.mul_self_sqrt hn2nn
    set m := max 1 (n / c) with hm
    have hm1 : 1 ≤ m := le_max_left _ _
    have hmn : n / c ≤ m := le_max_right _ _
    have hmpos : 0 < m := by linarith
    -- n ≤ c * m
    have hle : n ≤ c * m := by
      have := (div_le_iff₀ hcpos).mp hmn
      linarith [mul_comm m c]
    have h1 : 1 / m * (1 / m) * n2 = (n / m) * (n / m) := by rw [← hsq]; field_simp
    rw [h1]
    have h2 : n / m ≤ c := by rw [div_le_iff₀ hmpos]; exact hle
    have h3 : 0 ≤ n / m := div_nonneg hnn hmpos.le
    nlinarith

/-! ### locality and sensitivity -/

theorem vadd_length (a b : List ℝ) : (vadd realOps a b).length = min a.length b.length := by simp [vadd]

theorem scaled_length (c : ℝ) (v : List ℝ) : (scaled realOps rz c v).length = v.length := by simp [scaled]

theorem total_length (g : Nat) (c : ℝ) (us : List (List ℝ)) (h : ∀ u ∈ us, u.length = g) :
    (total realOps rz g c us).length = g := by
  induction us with
  | nil => simp [total]
  | cons u t ih =>
    simp only [total, vadd_length, scaled_length]
    rw [ih (fun x hx => h x (List.mem_cons_of_mem _ hx)), h u List.mem_cons_self]; simp

theorem vsub_vadd_cancel (a b : List ℝ) (h : a.length = b.length) : vsub realOps (vadd realOps a b) b = a := by
  induction a generalizing b with
  | nil => simp [vadd, vsub]
  | cons x xs ih =>
    cases b with
    | nil => simp at h
    | cons y ys =>
      simp only [vadd, vsub, List.zipWith_cons_cons] at *
      rw [ih ys (by simpa using h)]
      simp [realOps]

theorem vadd_comm (a b : List ℝ) : vadd realOps a b = vadd realOps b a := by
  induction a generalizing b with
  | nil => cases b <;> simp [vadd]
  | cons x xs ih => cases b with
    | nil => simp [vadd]
    | cons y ys => simp only [vadd, List.zipWith_cons_cons] at *; rw [ih ys]; simp [realOps, add_comm]

theorem vadd_assoc (a b c : List ℝ) : vadd realOps (vadd realOps a b) c = vadd realOps a (vadd realOps b c) := by
  induction a generalizing b c with
  | nil => simp [vadd]
  | cons x xs ih => cases b with
    | nil => simp [vadd]
    | cons y ys => cases c with
      | nil => simp [vadd]
      | cons z zs => simp only [vadd, List.zipWith_cons_cons] at *; rw [ih ys zs]; simp [realOps, add_assoc]

/-- **Locality**: the released vector is the contribution of any one unit plus the released vector of the
database without that unit — a unit's contribution depends on its own rows only. -/
theorem total_insert (g : Nat) (c : ℝ) (us₁ us₂ : List (List ℝ)) (u : List ℝ) :
    total realOps rz g c (us₁ ++ u :: us₂) = vadd realOps (scaled realOps rz c u) (total realOps rz g c (us₁ ++ us₂)) := by
  induction us₁ with
  | nil => simp [total]
  | cons w ws ih =>
    simp only [List.cons_append, total]
    rw [ih, ← vadd_assoc, vadd_comm (scaled realOps rz c w), vadd_assoc]

/-- **Sensitivity**: removing all rows of one privacy unit changes the vector of clipped sums (over all
released groups) by at most `C` in Euclidean norm. -/
theorem sensitivity (g : Nat) (c : ℝ) (hc : 0 ≤ c) (us₁ us₂ : List (List ℝ)) (u : List ℝ)
    (hu : u.length = g) (h₁ : ∀ w ∈ us₁, w.length = g) (h₂ : ∀ w ∈ us₂, w.length = g) :
    normSq realOps (vsub realOps (total realOps rz g c (us₁ ++ u :: us₂)) (total realOps rz g c (us₁ ++ us₂))) ≤ c * c := by
  rw [total_insert, vsub_vadd_cancel]
  · exact contribution_bounded c hc u
  · rw [scaled_length, hu, total_length g c]
    intro w hw
    rcases List.mem_append.mp hw with h | h
    · exact h₁ w h
    · exact h₂ w h

/-- Non-vacuity: a unit over two groups beyond the bound is rescaled onto the sphere of radius `C`. -/
example : (0 : ℝ) ≤ 5 ∧ ([3, 4] : List ℝ).length = 2 := by norm_num

end Qrlew.C01

import QrlewModel.Model.Tau
import QrlewModel.Lemmas.Reals
import Mathlib.Tactic.Linarith
/-!
# C04 — grouping keys are released only if public or above the τ threshold

* `limit_ok`: whatever the random draw (ties allowed), a unit keeps at most `K` groups — so the sensitivity
  of the distinct-unit counts is what `τ` was computed for;
* `tau_ge_one` / `singleton_not_deterministic`: with a non-negative quantile factor the threshold is at
  least 1, hence a key held by one unit is never released when the drawn noise is non-positive.
-/
namespace Qrlew.C04
open Qrlew.Tau

theorem exists_min (l : List Int) (h : l ≠ []) : ∃ m ∈ l, ∀ x ∈ l, m ≤ x := by
  induction l with
  | nil => exact absurd rfl h
  | cons a t ih =>
    by_cases ht : t = []
    · subst ht; exact ⟨a, List.mem_cons_self, by intro x hx; simp at hx; omega⟩
    · obtain ⟨m, hm, hmin⟩ := ih ht
      by_cases ham : a ≤ m
      · refine ⟨a, List.mem_cons_self, ?_⟩
        intro x hx
        rcases List.mem_cons.mp hx with rfl | hx
        · exact Int.le_refl _
        · have := hmin x hx; omega
      · refine ⟨m, List.mem_cons_of_mem _ hm, ?_⟩
        intro x hx
        rcases List.mem_cons.mp hx with rfl | hx
        · omega
        · exact hmin x hx

/-- **A unit keeps at most `K` groups**, for every assignment of random ranks (any number of groups, ties allowed). -/
theorem limit_ok (k : Nat) (l : List Int) : (kept k l).length ≤ k := by
  by_cases h : kept k l = []
  · rw [h]; exact Nat.zero_le _
  · obtain ⟨m, hm, hmin⟩ := exists_min (kept k l) h
    -- every kept rank is ≥ m, so the kept rows are among the rows counted by `cnt l m`, and m is kept
    have hmk : cnt l m ≤ k := by
      have := (List.mem_filter.mp hm).2; simpa using this
    have hsub : (kept k l).length ≤ cnt l m := by
      unfold kept cnt
      rw [← List.countP_eq_length_filter, ← List.countP_eq_length_filter]
      apply List.countP_mono_left
      intro x hx hkx
      have hxk : x ∈ kept k l := List.mem_filter.mpr ⟨hx, hkx⟩
      simpa using hmin x hxk
    omega

/-- τ = 1 + σ·q with σ ≥ 0 (noise scale) and q ≥ 0 (the normal quantile of a probability ≥ 1/2) is at least 1 -/
theorem tau_ge_one (sigma q : ℝ) (hs : 0 ≤ sigma) (hq : 0 ≤ q) : 1 ≤ 1 + sigma * q := by
  have := mul_nonneg hs hq; linarith

/-- **A key held by a single privacy unit is never released deterministically**: with count 1 and a
non-positive noise draw the strict filter `count + noise > τ` fails as soon as τ ≥ 1. -/
theorem singleton_not_deterministic (noise tau : ℝ) (hn : noise ≤ 0) (ht : 1 ≤ tau) : ¬ ((1 : ℝ) + noise > tau) := by
  intro h; linarith

/-- keys with public values: which keys are released does not depend on the data at all (only the aggregates beside them do) -/
theorem public_keys_independent_of_data {κ ν : Type} (vals : List κ) (agg agg' : κ → Option ν) :
    (Tau.releasePublic vals agg).map (·.1) = (Tau.releasePublic vals agg').map (·.1) ∧ (Tau.releasePublic vals agg).map (·.1) = vals := by
  simp [Tau.releasePublic, List.map_map, Function.comp_def]

/-- a key column computed by grouping the protected rows does depend on them: removing the only row of a key removes the key -/
theorem keys_from_data_depend_on_data :
    Tau.releaseFromData [("a", 1), ("c", 5)] ≠ Tau.releaseFromData ([("a", 1)] : List (String × Nat)) := by decide

/-- integer form used by the executable model: released keys have count + noise > τ -/
theorem released_iff (count noise tau : Int) : released count noise tau = true ↔ count + noise > tau := by
  simp [released]

/-- Non-vacuity: 5 groups with ties, K = 2: only the top ranks survive. -/
example : kept 2 [5, 1, 5, 3, 9] = [9] ∧ kept 3 [5, 1, 5, 3, 9] = [5, 5, 9] := by decide

end Qrlew.C04

import QrlewModel.Model.Hierarchy
/-!
# C15 — name resolution: exact or unique-suffix match, never an arbitrary candidate

Theorems about `Hierarchy::get_key_value` for every map (any number of entries, shared suffixes,
nested prefixes) and every lookup path.
-/
namespace Qrlew.C15
open Qrlew

variable {α β : Type} [DecidableEq α]

/-- keys of the map are pairwise distinct (it is a `BTreeMap`). -/
def KeysNodup (m : List (List α × β)) : Prop := (m.map (·.1)).Nodup

/-- The fold with `Zero / One / More` computes "exactly one compatible entry". -/
theorem fold_eq_filter (m : List (List α × β)) (p : List α) :
    (m.foldl (foundStep p) Found.zero).toOption =
      (match m.filter (fun e => compat p e.1) with | [e] => some e | _ => none) := by
  -- generalise over the accumulator
  have gen : ∀ (m : List (List α × β)) (f : Found (List α × β)),
      (m.foldl (foundStep p) f).toOption =
        (match f, m.filter (fun e => compat p e.1) with
          | .zero, [e] => some e
          | .one x, [] => some x
          | _, _ => none) := by
    intro m
    induction m with
    | nil => intro f; cases f <;> simp [Found.toOption]
    | cons e rest ih =>
      intro f
      simp only [List.foldl, List.filter]
      by_cases hc : compat p e.1 = true
      · simp only [foundStep, hc, if_true]
        cases f with
        | zero =>
          rw [ih]
          cases h : List.filter (fun e => compat p e.1) rest <;> simp
        | one x => rw [ih]
        | more => rw [ih]
      · have hc' : compat p e.1 = false := by simpa using hc
        simp only [foundStep, hc', Bool.false_eq_true, if_false]
        exact ih f
  rw [gen m Found.zero]
  cases h : List.filter (fun e => compat p e.1) m with
  | nil => simp
  | cons a t => cases t <;> simp

/-- An exact key always wins. -/
theorem lookup_exact (m : List (List α × β)) (p : List α) (v : β)
    (hk : KeysNodup m) (h : (p, v) ∈ m) : lookup m p = some (p, v) := by
  unfold lookup
  induction m with
  | nil => simp at h
  | cons e rest ih =>
    simp only [KeysNodup, List.map_cons, List.nodup_cons] at hk
    rw [List.mem_cons] at h
    by_cases he : e.1 = p
    · simp only [List.find?, he, beq_self_eq_true]
      rcases h with h | h
      · rw [← h]
      · exfalso; apply hk.1; rw [he]; exact List.mem_map.mpr ⟨(p, v), h, rfl⟩
    · rcases h with h | h
      · exfalso; apply he; rw [← h]
      · have : (e.1 == p) = false := by simpa using he
        simp only [List.find?, this]
        have := ih hk.2 h
        revert this
        cases hf : List.find? (fun e => e.1 == p) rest with
        | some x => simp
        | none =>
          intro _
          have hm := List.find?_eq_none.mp hf (p, v) h
          simp at hm

/-- Without an exact key the lookup yields the single compatible entry, and nothing if there are several (or none). -/
theorem lookup_unique (m : List (List α × β)) (p : List α) (hp : ∀ e ∈ m, e.1 ≠ p) :
    lookup m p = (match m.filter (fun e => compat p e.1) with | [e] => some e | _ => none) := by
  unfold lookup
  have : m.find? (fun e => e.1 == p) = none := by
    apply List.find?_eq_none.mpr
    intro e he; simpa using hp e he
  rw [this]
  exact fold_eq_filter m p

/-- Whatever the lookup returns is never an arbitrary candidate: if the key was not matched exactly,
every entry compatible with the path is the returned one. -/
theorem lookup_never_arbitrary (m : List (List α × β)) (p : List α) (e : List α × β)
    (hp : ∀ e ∈ m, e.1 ≠ p) (h : lookup m p = some e) :
    e ∈ m ∧ compat p e.1 = true ∧ ∀ e' ∈ m, compat p e'.1 = true → ∀ i j : Nat, m[i]? = some e' → m[j]? = some e → i = j := by
  rw [lookup_unique m p hp] at h
  -- the filtered list is the singleton [e]
  have hs : m.filter (fun e => compat p e.1) = [e] := by
    revert h
    cases hf : m.filter (fun e => compat p e.1) with
    | nil => simp
    | cons a t => cases t <;> simp
  have hmem : e ∈ m.filter (fun e => compat p e.1) := by rw [hs]; simp
  have ⟨hem, hec⟩ := List.mem_filter.mp hmem
  refine ⟨hem, by simpa using hec, ?_⟩
  intro e' he' hc' i j hi hj
  -- count of compatible entries is one: two distinct positions would give a filtered list of length ≥ 2
  apply Decidable.byContradiction
  intro hij
  have hlen : (m.filter (fun e => compat p e.1)).length = 1 := by rw [hs]; rfl
  have hcount : (m.filter (fun e => compat p e.1)).length = m.countP (fun e => compat p e.1) := by
    rw [List.countP_eq_length_filter]
  -- split m at the two positions
  have hi' := List.getElem?_eq_some_iff.mp hi
  have hj' := List.getElem?_eq_some_iff.mp hj
  obtain ⟨hil, hie⟩ := hi'
  obtain ⟨hjl, hje⟩ := hj'
  have key : ∀ (l : List (List α × β)) (i j : Nat) (hi : i < l.length) (hj : j < l.length), i < j →
      compat p l[i].1 = true → compat p l[j].1 = true → 2 ≤ l.countP (fun e => compat p e.1) := by
    intro l
    induction l with
    | nil => intro i j hi; simp at hi
    | cons a t ih =>
      intro i j hi hj hlt hci hcj
      cases i with
      | zero =>
        cases j with
        | zero => omega
        | succ j' =>
          simp only [List.getElem_cons_zero] at hci
          simp only [List.getElem_cons_succ] at hcj
          have h2 := List.countP_cons (p := fun (e : List α × β) => compat p e.1) (a := a) (l := t)
          simp only [hci, if_true] at h2
          have hj'' : j' < t.length := by simpa using hj
          have : 0 < t.countP (fun e => compat p e.1) :=
            List.countP_pos_iff.mpr ⟨t[j'], List.getElem_mem hj'', hcj⟩
          omega
      | succ i' =>
        cases j with
        | zero => omega
        | succ j' =>
          simp only [List.getElem_cons_succ] at hci hcj
          have := ih i' j' (by simpa using hi) (by simpa using hj) (by omega) hci hcj
          have h2 := List.countP_cons (p := fun e => compat p e.1) (a := a) (l := t)
          omega
  have hc'' : compat p m[i].1 = true := by rw [hie]; exact hc'
  have hec' : compat p m[j].1 = true := by rw [hje]; simpa using hec
  rcases Nat.lt_or_gt_of_ne hij with hlt | hlt
  · have := key m i j hil hjl hlt hc'' hec'; omega
  · have := key m j i hjl hil hlt hec' hc''; omega

/-- The result does not depend on the order of the entries (it is a property of the *set* of entries). -/
theorem lookup_perm (m m' : List (List α × β)) (p : List α) (hk : KeysNodup m) (hperm : m.Perm m') :
    lookup m p = lookup m' p := by
  by_cases hex : ∃ v, (p, v) ∈ m
  · obtain ⟨v, hv⟩ := hex
    have hk' : KeysNodup m' := by
      unfold KeysNodup at *
      exact (hperm.map (fun (e : List α × β) => e.1)).nodup_iff.mp hk
    rw [lookup_exact m p v hk hv, lookup_exact m' p v hk' (hperm.mem_iff.mp hv)]
  · have hp : ∀ e ∈ m, e.1 ≠ p := by
      intro e he heq; apply hex; exact ⟨e.2, by rw [← heq]; exact he⟩
    have hp' : ∀ e ∈ m', e.1 ≠ p := fun e he => hp e (hperm.mem_iff.mpr he)
    rw [lookup_unique m p hp, lookup_unique m' p hp']
    have hf := hperm.filter (fun e => compat p e.1)
    cases h1 : m.filter (fun e => compat p e.1) with
    | nil => rw [h1] at hf; rw [List.nil_perm.mp hf]
    | cons a t =>
      cases t with
      | nil =>
        rw [h1] at hf
        rw [List.singleton_perm.mp hf]
      | cons b t' =>
        rw [h1] at hf
        have hl := hf.length_eq
        cases h2 : m'.filter (fun e => compat p e.1) with
        | nil => simp [h2] at hl
        | cons a' t2 =>
          cases t2 with
          | nil => simp [h2] at hl
          | cons b' t3 => rfl

/-- Non-vacuity: a map with a shared suffix, an exact key, and an ambiguous suffix. -/
example :
    let m : List (List String × Nat) := [(["t1", "a"], 1), (["t2", "a"], 2), (["t2", "b"], 3)]
    lookup m ["t1", "a"] = some (["t1", "a"], 1) ∧ lookup m ["b"] = some (["t2", "b"], 3) ∧
      lookup m ["a"] = none ∧ lookup m ["x", "t2", "b"] = some (["t2", "b"], 3) := by decide

end Qrlew.C15

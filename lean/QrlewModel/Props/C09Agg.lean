import QrlewModel.Props.C09
import QrlewModel.Model.DpAgg
import Mathlib.Algebra.Order.BigOperators.Group.List
import Mathlib.Tactic.Positivity
/-!
# C09 — the whole DP aggregation pipeline is exact when noise and clipping are inactive

`Qrlew.DpAgg.release` is the model of `PupRelation::differentially_private_aggregates` with the noise draws at 0 (it is run
against the real rewriting by the `dpagg` stream).  Here: for any table (any number of rows, units and groups, NULLs allowed)
whose values are within the declared bound `A` and in which no privacy unit owns more than `m` rows, and any clipping
constants at least `m`, `A·m`, `A²·m` (what the code derives from the declared range and the multiplicity), the released
table is the true count / sum / mean / variance / standard deviation of every group.
-/
namespace Qrlew.C09
open Qrlew Qrlew.Clip Qrlew.C01 Qrlew.DpAgg

/-- the non-NULL values of group `j` -/
def xs (rows : List (Row ℝ)) (j : Nat) : List ℝ := (rows.filter fun r => r.2.1 == j).filterMap (·.2.2)

theorem cell_real (f : Row ℝ → ℝ) (rows : List (Row ℝ)) (u j : Nat) :
    cell realOps f rows u j = ((rows.filter fun r => r.1 == u && r.2.1 == j).map f).sum := by
  unfold cell; rw [vsum_real]

theorem cell_cons (f : Row ℝ → ℝ) (r : Row ℝ) (rows : List (Row ℝ)) (u j : Nat) :
    cell realOps f (r :: rows) u j = (if r.1 = u ∧ r.2.1 = j then f r else 0) + cell realOps f rows u j := by
  rw [cell_real, cell_real, List.filter_cons]
  by_cases h : r.1 = u ∧ r.2.1 = j
  · have : (r.1 == u && r.2.1 == j) = true := by simp [h.1, h.2]
    simp [h]
  · have : (r.1 == u && r.2.1 == j) = false := by
      simp only [Bool.and_eq_false_iff, beq_eq_false_iff_ne]
      by_cases h1 : r.1 = u
      · right; exact fun h2 => h ⟨h1, h2⟩
      · left; exact h1
    simp [this, h]

theorem sum_range_ite (n a : Nat) (x : ℝ) :
    ((List.range n).map fun u => if a = u then x else 0).sum = if a < n then x else 0 := by
  induction n with
  | zero => simp
  | succ k ih =>
    rw [List.range_succ, List.map_append, List.sum_append, ih]
    by_cases h1 : a < k
    · have : a ≠ k := Nat.ne_of_lt h1
      simp [h1, this, Nat.lt_succ_of_lt h1]
    · by_cases h2 : a = k
      · subst h2; simp
      · have : ¬ a < k + 1 := by omega
        simp [h1, h2, this]

/-- adding the cells of all units gives the plain per-group sum -/
theorem sum_cells (f : Row ℝ → ℝ) (nU : Nat) (rows : List (Row ℝ)) (hU : ∀ r ∈ rows, r.1 < nU) (j : Nat) :
    ((List.range nU).map fun u => cell realOps f rows u j).sum = ((rows.filter fun r => r.2.1 == j).map f).sum := by
  induction rows with
  | nil => simp [cell_real]
  | cons r t ih =>
    have hr : r.1 < nU := hU r List.mem_cons_self
    have ht : ∀ r ∈ t, r.1 < nU := fun x hx => hU x (List.mem_cons_of_mem _ hx)
    simp only [cell_cons]
    rw [List.sum_map_add, ih ht, List.filter_cons]
    by_cases hj : r.2.1 = j
    · have e : ((List.range nU).map fun u => if r.1 = u ∧ r.2.1 = j then f r else 0) =
          (List.range nU).map fun u => if r.1 = u then f r else 0 := by
        apply List.map_congr_left; intro u _; simp [hj]
      rw [e, sum_range_ite]; simp [hr, hj]
    · have e : ((List.range nU).map fun u => if r.1 = u ∧ r.2.1 = j then f r else 0) =
          (List.range nU).map fun _ => (0 : ℝ) := by
        apply List.map_congr_left; intro u _; simp [hj]
      rw [e]; simp [hj]

/-- adding the units' vectors up gives, per group, the sum of the units' cells -/
theorem foldr_unitVec (g : Nat) (f : Row ℝ → ℝ) (rows : List (Row ℝ)) (us : List Nat) :
    (us.map (unitVec realOps g f rows)).foldr (vadd realOps) (List.replicate g 0) =
      (List.range g).map fun j => (us.map fun u => cell realOps f rows u j).sum := by
  induction us with
  | nil =>
    simp only [List.map_nil, List.foldr_nil, List.sum_nil]
    apply List.ext_getElem <;> simp
  | cons u t ih =>
    simp only [List.map_cons, List.foldr_cons, List.sum_cons]
    rw [ih]
    unfold unitVec vadd
    apply List.ext_getElem
    · simp
    · intro i h1 h2
      simp [realOps]

/-! ### clipping is inactive when no unit owns more than `m` rows -/

theorem sum_sq_le_sq_sum_abs (v : List ℝ) : (v.map fun x => x * x).sum ≤ ((v.map fun x => |x|).sum) ^ 2 := by
  induction v with
  | nil => simp
  | cons a t ih =>
    simp only [List.map_cons, List.sum_cons]
    have hT : 0 ≤ (t.map fun x => |x|).sum := by
      apply List.sum_nonneg; intro x hx; obtain ⟨y, _, rfl⟩ := List.mem_map.mp hx; exact abs_nonneg y
    have ha : a * a = |a| * |a| := (abs_mul_abs_self a).symm
    have hA : 0 ≤ |a| := abs_nonneg a
    nlinarith

theorem abs_cell_le (f : Row ℝ → ℝ) (rows : List (Row ℝ)) (u j : Nat) :
    |cell realOps f rows u j| ≤ cell realOps (fun r => |f r|) rows u j := by
  rw [cell_real, cell_real]
  generalize (rows.filter fun r => r.1 == u && r.2.1 == j) = l
  induction l with
  | nil => simp
  | cons a t ih => simp only [List.map_cons, List.sum_cons]; exact (abs_add_le _ _).trans (by linarith)

/-- the cells of one unit over the groups add up to at most the unit's total -/
theorem sum_groups_le (f : Row ℝ → ℝ) (hf : ∀ r, 0 ≤ f r) (g : Nat) (rows : List (Row ℝ)) (u : Nat) :
    ((List.range g).map fun j => cell realOps f rows u j).sum ≤ ((rows.filter fun r => r.1 == u).map f).sum := by
  induction rows with
  | nil => simp [cell_real]
  | cons r t ih =>
    simp only [cell_cons]
    rw [List.sum_map_add, List.filter_cons]
    by_cases hu : r.1 = u
    · have e : ((List.range g).map fun j => if r.1 = u ∧ r.2.1 = j then f r else 0) =
          (List.range g).map fun j => if r.2.1 = j then f r else 0 := by
        apply List.map_congr_left; intro j _; simp [hu]
      rw [e, sum_range_ite]
      have : (if r.2.1 < g then f r else 0) ≤ f r := by split <;> simp [hf r]
      simp only [hu, beq_self_eq_true, if_true, List.map_cons, List.sum_cons]
      linarith
    · have e : ((List.range g).map fun j => if r.1 = u ∧ r.2.1 = j then f r else 0) =
          (List.range g).map fun _ => (0 : ℝ) := by
        apply List.map_congr_left; intro j _; simp [hu]
      rw [e]
      have hb : (r.1 == u) = false := by simp [hu]
      simp only [hb]
      simpa using ih

/-- **No clipping**: a unit that owns at most `m` rows, each with `|f| ≤ B`, has a vector of L2 norm at most `B·m`. -/
theorem unitVec_normSq_le (g : Nat) (f : Row ℝ → ℝ) (rows : List (Row ℝ)) (u : Nat) (B : ℝ) (m : Nat)
    (hB : ∀ r ∈ rows, |f r| ≤ B) (hM : (rows.filter fun r => r.1 == u).length ≤ m) (hB0 : 0 ≤ B) :
    normSq realOps (unitVec realOps g f rows u) ≤ (B * m) * (B * m) := by
  rw [normSq_real]
  refine (sum_sq_le_sq_sum_abs _).trans ?_
  have h1 : ((unitVec realOps g f rows u).map fun x => |x|).sum ≤ B * m := by
    unfold unitVec
    rw [List.map_map]
    have hle : ((List.range g).map ((fun x => |x|) ∘ cell realOps f rows u)).sum ≤
        ((List.range g).map fun j => cell realOps (fun r => |f r|) rows u j).sum := by
      apply List.sum_le_sum
      intro j _
      exact abs_cell_le f rows u j
    refine hle.trans ((sum_groups_le (fun r => |f r|) (fun r => abs_nonneg _) g rows u).trans ?_)
    have hcard : ((rows.filter fun r => r.1 == u).map fun r => |f r|).sum ≤
        ((rows.filter fun r => r.1 == u).map fun r => |f r|).length • B := by
      apply List.sum_le_card_nsmul
      intro x hx
      obtain ⟨r, hr, rfl⟩ := List.mem_map.mp hx
      exact hB r (List.mem_of_mem_filter hr)
    refine hcard.trans ?_
    rw [List.length_map, nsmul_eq_mul, mul_comm]
    exact mul_le_mul_of_nonneg_left (by exact_mod_cast hM) hB0
  have h0 : 0 ≤ ((unitVec realOps g f rows u).map fun x => |x|).sum := by
    apply List.sum_nonneg; intro x hx; obtain ⟨y, _, rfl⟩ := List.mem_map.mp hx; exact abs_nonneg y
  nlinarith

/-- … so the clipped sums of a derived column are its plain per-group sums -/
theorem clippedSums_exact (nU g : Nat) (f : Row ℝ → ℝ) (c B : ℝ) (m : Nat) (rows : List (Row ℝ))
    (hU : ∀ r ∈ rows, r.1 < nU) (hB : ∀ r ∈ rows, |f r| ≤ B) (hB0 : 0 ≤ B)
    (hM : ∀ u, (rows.filter fun r => r.1 == u).length ≤ m) (hc : 0 < c) (hcB : B * m ≤ c) :
    clippedSums realOps rz nU g f c rows = (List.range g).map fun j => ((rows.filter fun r => r.2.1 == j).map f).sum := by
  unfold clippedSums
  rw [total_exact g c hc]
  · rw [foldr_unitVec]
    apply List.map_congr_left
    intro j _
    exact sum_cells f nU rows hU j
  · intro v hv
    obtain ⟨u, _, rfl⟩ := List.mem_map.mp hv
    have hBm : 0 ≤ B * m := mul_nonneg hB0 (Nat.cast_nonneg m)
    exact (unitVec_normSq_le g f rows u B m hB (hM u) hB0).trans (by nlinarith)

/-! ### the three derived columns and the recombination -/

@[simp] theorem one_none (u j : Nat) : one realOps ((u, j, none) : Row ℝ) = 0 := by simp [one, realOps]
@[simp] theorem one_some (u j : Nat) (v : ℝ) : one realOps ((u, j, some v) : Row ℝ) = 1 := by simp [one, realOps]
@[simp] theorem val_none (u j : Nat) : val realOps ((u, j, none) : Row ℝ) = 0 := by simp [val, realOps]
@[simp] theorem val_some (u j : Nat) (v : ℝ) : val realOps ((u, j, some v) : Row ℝ) = v := by simp [val]
@[simp] theorem sqr_none (u j : Nat) : sqr realOps ((u, j, none) : Row ℝ) = 0 := by simp [sqr, realOps]
@[simp] theorem sqr_some (u j : Nat) (v : ℝ) : sqr realOps ((u, j, some v) : Row ℝ) = v * v := by simp [sqr, realOps]

theorem sum_one (l : List (Row ℝ)) : (l.map (one realOps)).sum = ((l.filterMap (·.2.2)).length : ℝ) := by
  induction l with
  | nil => simp
  | cons r t ih =>
    rcases r with ⟨u, j, x⟩
    cases x with
    | none => simpa using ih
    | some v => simp only [List.map_cons, List.sum_cons, one_some, ih]; simp [add_comm]

theorem sum_val (l : List (Row ℝ)) : (l.map (val realOps)).sum = (l.filterMap (·.2.2)).sum := by
  induction l with
  | nil => simp
  | cons r t ih =>
    rcases r with ⟨u, j, x⟩
    cases x with
    | none => simpa using ih
    | some v => simp only [List.map_cons, List.sum_cons, val_some, ih]; simp

theorem sum_sqr (l : List (Row ℝ)) : (l.map (sqr realOps)).sum = ((l.filterMap (·.2.2)).map fun x => x * x).sum := by
  induction l with
  | nil => simp
  | cons r t ih =>
    rcases r with ⟨u, j, x⟩
    cases x with
    | none => simpa using ih
    | some v => simp only [List.map_cons, List.sum_cons, sqr_some, ih]; simp

theorem zip3_map (n : Nat) (a b c : Nat → ℝ) :
    zip3 realOps ((List.range' 0 n).map a) ((List.range' 0 n).map b) ((List.range' 0 n).map c) =
      (List.range' 0 n).map fun j => recombine realOps (a j) (b j) (c j) := by
  generalize 0 = s
  induction n generalizing s with
  | zero => simp [zip3]
  | succ k ih => simp only [List.range'_succ, List.map_cons, zip3]; rw [ih]

/-- the true statistics of a non-empty list of values -/
noncomputable def trueStats (l : List ℝ) : Out ℝ :=
  let mean : ℝ := l.sum / (l.length : ℝ)
  let var : ℝ := (l.map fun x => (x - mean) ^ 2).sum / (l.length : ℝ)
  { count := (l.length : ℝ), sum := l.sum, mean := mean, var := var, std := Real.sqrt var }

/-- recombining the exact count, sum and sum of squares gives the true mean, variance and standard deviation -/
theorem recombine_exact (l : List ℝ) (hne : l ≠ []) :
    recombine realOps (l.length : ℝ) l.sum (l.map fun x => x * x).sum = trueStats l := by
  have hpos : 0 < l.length := List.length_pos_iff.mpr hne
  have h1 : (1 : ℝ) ≤ l.length := by exact_mod_cast hpos
  have hmax : max (1 : ℝ) (l.length : ℝ) = l.length := max_eq_right h1
  have hv := var_exact l hne
  have hvnn : (0 : ℝ) ≤ (l.map fun x => (x - l.sum / (l.length : ℝ)) ^ 2).sum / (l.length : ℝ) := by
    apply div_nonneg _ (Nat.cast_nonneg _)
    apply List.sum_nonneg; intro x hx; obtain ⟨y, _, rfl⟩ := List.mem_map.mp hx; positivity
  have hvar : max (0 : ℝ) ((l.map fun x => x * x).sum / (l.length : ℝ) - l.sum / (l.length : ℝ) * (l.sum / (l.length : ℝ))) =
      (l.map fun x => (x - l.sum / (l.length : ℝ)) ^ 2).sum / (l.length : ℝ) := by
    rw [← hv, ← pow_two, max_eq_right]; rw [hv]; exact hvnn
  simp only [recombine, trueStats, realOps, Nat.cast_one, Nat.cast_zero, hmax, hvar]

/-- an empty group is released as count 0, sum 0, mean 0, variance 0 -/
theorem recombine_empty : recombine realOps (0 : ℝ) 0 0 = { count := 0, sum := 0, mean := 0, var := 0, std := 0 } := by
  simp [recombine, realOps]

/-- **C09, whole pipeline.**  Values within `[-A, A]`, at most `m` rows per privacy unit, clipping constants at least
`m`, `A·m` and `A²·m`: the released table holds, for every group, the statistics of the group's non-NULL values. -/
theorem release_exact (nU g : Nat) (A : ℝ) (m : Nat) (cOne cVal cSq : ℝ) (rows : List (Row ℝ))
    (hU : ∀ r ∈ rows, r.1 < nU) (hA : ∀ r ∈ rows, ∀ v, r.2.2 = some v → |v| ≤ A) (hA0 : 0 ≤ A)
    (hM : ∀ u, (rows.filter fun r => r.1 == u).length ≤ m)
    (h1 : 0 < cOne) (h2 : 0 < cVal) (h3 : 0 < cSq) (hOne : (m : ℝ) ≤ cOne) (hVal : A * m ≤ cVal) (hSq : A * A * m ≤ cSq) :
    release realOps rz nU g cOne cVal cSq rows =
      (List.range g).map fun j =>
        recombine realOps ((xs rows j).length : ℝ) (xs rows j).sum ((xs rows j).map fun x => x * x).sum := by
  unfold release
  have bOne : ∀ r ∈ rows, |one realOps r| ≤ 1 := by
    intro r _; rcases r with ⟨u, j, x⟩; cases x <;> simp
  have bVal : ∀ r ∈ rows, |val realOps r| ≤ A := by
    intro r hr; rcases r with ⟨u, j, x⟩
    cases x with
    | none => simpa using hA0
    | some v => simpa using hA _ hr v rfl
  have bSq : ∀ r ∈ rows, |sqr realOps r| ≤ A * A := by
    intro r hr; rcases r with ⟨u, j, x⟩
    cases x with
    | none => simpa using mul_nonneg hA0 hA0
    | some v =>
      have hv : |v| ≤ A := hA _ hr v rfl
      simp only [sqr_some, abs_mul]
      exact mul_le_mul hv hv (abs_nonneg _) hA0
  rw [clippedSums_exact nU g (one realOps) cOne 1 m rows hU bOne zero_le_one hM h1 (by simpa using hOne),
    clippedSums_exact nU g (val realOps) cVal A m rows hU bVal hA0 hM h2 hVal,
    clippedSums_exact nU g (sqr realOps) cSq (A * A) m rows hU bSq (mul_nonneg hA0 hA0) hM h3 hSq]
  simp only [sum_one, sum_val, sum_sqr, List.range_eq_range']
  exact zip3_map g _ _ _

/-- … that is, for a group that has a non-NULL value, its true count, sum, mean, variance and standard deviation -/
theorem release_true_stats (nU g : Nat) (A : ℝ) (m : Nat) (cOne cVal cSq : ℝ) (rows : List (Row ℝ))
    (hU : ∀ r ∈ rows, r.1 < nU) (hA : ∀ r ∈ rows, ∀ v, r.2.2 = some v → |v| ≤ A) (hA0 : 0 ≤ A)
    (hM : ∀ u, (rows.filter fun r => r.1 == u).length ≤ m)
    (h1 : 0 < cOne) (h2 : 0 < cVal) (h3 : 0 < cSq) (hOne : (m : ℝ) ≤ cOne) (hVal : A * m ≤ cVal) (hSq : A * A * m ≤ cSq)
    (j : Nat) (hj : j < g) (hne : xs rows j ≠ []) :
    (release realOps rz nU g cOne cVal cSq rows)[j]? = some (trueStats (xs rows j)) := by
  rw [release_exact nU g A m cOne cVal cSq rows hU hA hA0 hM h1 h2 h3 hOne hVal hSq]
  simp [hj, recombine_exact _ hne]

/-- the hypotheses are satisfiable by a table with two units, two groups, a NULL and a unit owning two rows -/
example : let rows : List (Row ℝ) := [(0, 0, some 3), (0, 1, some (-4)), (1, 0, none), (1, 0, some 2)]
    (∀ r ∈ rows, r.1 < 2) ∧ (∀ r ∈ rows, ∀ v, r.2.2 = some v → |v| ≤ 4) ∧
    (∀ u, (rows.filter fun r => r.1 == u).length ≤ 2) ∧ xs rows 0 ≠ [] := by
  refine ⟨by simp, ?_, ?_, by simp [xs]⟩
  · intro r hr v hv
    simp only [List.mem_cons, List.not_mem_nil, or_false] at hr
    rcases hr with rfl | rfl | rfl | rfl <;> simp at hv <;> subst hv <;> norm_num [abs_le]
  · intro u
    rcases u with _ | _ | u <;> simp

/-- **clipping matters**: with the multiplicity exceeded the released count is *not* the true count (a unit owning three rows,
multiplicity constant 1: the unit is scaled down to 1) — the hypothesis on the multiplicity cannot be dropped -/
theorem count_clipped_counterexample :
    clippedSums realOps rz 1 1 (one realOps) 1 [(0, 0, some 1), (0, 0, some 1), (0, 0, some 1)] = [1] := by
  have hv : unitVec realOps 1 (one realOps) [(0, 0, some 1), (0, 0, some 1), (0, 0, some 1)] 0 = [3] := by
    simp [unitVec, cell_real, List.range_succ]; norm_num
  have hs : Real.sqrt (3 * 3) = 3 := Real.sqrt_mul_self (by norm_num)
  simp only [clippedSums, List.range_succ, List.range_zero, List.nil_append, List.map_cons, List.map_nil, hv, total, scaled,
    scale_real, normSq_real, List.sum_cons, List.sum_nil, add_zero, hs, vadd, List.replicate]
  norm_num [realOps]

end Qrlew.C09

import QrlewModel.Props.C11
import QrlewModel.Model.DTLat
/-!
# C11 — the lattice operations on composite types (the fragment compared by the `dtlat` stream)

Types: integer interval sets, nullable integers, two-field structs and sized lists, nested at will; values accordingly.
`DTLat.subset / union / inter` are compared with `DataType::is_subset_of / super_union / super_intersection` line by line.
For every pair of types of the fragment (any nesting depth):

* `type_subset_sound`: `A ⊆ B` reported ⇒ every value of `A` is a value of `B` (interval sets below the capacity regime, as for the
  scalar statement `isSubsetOf_sound_partial`);
* `type_union_superset`: the union contains every value of either operand;
* `type_inter_superset`: the intersection contains every value that is in both.
-/
namespace Qrlew.C11
open Qrlew Qrlew.DTLat

inductive V where
  | i (n : Int)
  | none
  | some (v : V)
  | pair (a b : V)
  | list (vs : List V)

/-- membership; a plain integer is also a value of the nullable type (the embedding the library's own conversions use) -/
def mem : DT → V → Prop
  | .int s, v => ∃ n, v = .i n ∧ Mem n s
  | .opt s, v => v = .none ∨ ∃ n, (v = .some (.i n) ∨ v = .i n) ∧ Mem n s
  | .pair a b, v => ∃ x y, v = .pair x y ∧ mem a x ∧ mem b y
  | .list t sz, v => ∃ vs, v = .list vs ∧ (∀ x ∈ vs, mem t x) ∧ Mem (vs.length : Int) sz

/-- every interval set in the type is well-formed, within capacity and has at most `k` intervals -/
def WFT (cap k : Nat) : DT → Prop
  | .int s => Good cap s ∧ s.length ≤ k
  | .opt s => Good cap s ∧ s.length ≤ k
  | .pair a b => WFT cap k a ∧ WFT cap k b
  | .list t sz => WFT cap k t ∧ Good cap sz ∧ sz.length ≤ k

theorem leaf_subset (cap k : Nat) (hc : 2 ≤ cap) (hk : k * k < cap) (a b : Ivs) (ha : Good cap a ∧ a.length ≤ k) (hb : Good cap b ∧ b.length ≤ k)
    (h : isSubsetOf cap a b = true) (n : Int) (hn : Mem n a) : Mem n b :=
  isSubsetOf_sound_partial cap hc a b ha.1 hb.1 (Nat.lt_of_le_of_lt (Nat.mul_le_mul ha.2 hb.2) hk) h n hn

/-- **`A ⊆ B` and `v ∈ A` give `v ∈ B`**, for every pair of types of the fragment. -/
theorem type_subset_sound (cap k : Nat) (hc : 2 ≤ cap) (hk : k * k < cap) :
    ∀ (A B : DT), WFT cap k A → WFT cap k B → subset cap A B = true → ∀ v, mem A v → mem B v := by
  intro A
  induction A with
  | int a =>
    intro B wa wb h v hv
    cases B with
    | int b => obtain ⟨n, rfl, hn⟩ := hv; exact ⟨n, rfl, leaf_subset cap k hc hk a b wa wb (by simpa [subset] using h) n hn⟩
    | opt b => obtain ⟨n, rfl, hn⟩ := hv; exact Or.inr ⟨n, Or.inr rfl, leaf_subset cap k hc hk a b wa wb (by simpa [subset] using h) n hn⟩
    | pair _ _ => simp [subset] at h
    | list _ _ => simp [subset] at h
  | opt a =>
    intro B wa wb h v hv
    cases B with
    | int b => simp [subset] at h
    | opt b =>
      rcases hv with rfl | ⟨n, hv, hn⟩
      · exact Or.inl rfl
      · exact Or.inr ⟨n, hv, leaf_subset cap k hc hk a b wa wb (by simpa [subset] using h) n hn⟩
    | pair _ _ => simp [subset] at h
    | list _ _ => simp [subset] at h
  | pair a1 a2 ih1 ih2 =>
    intro B wa wb h v hv
    cases B with
    | int b => simp [subset] at h
    | opt b => simp [subset] at h
    | pair b1 b2 =>
      simp only [subset, Bool.and_eq_true] at h
      obtain ⟨x, y, rfl, hx, hy⟩ := hv
      exact ⟨x, y, rfl, ih1 b1 wa.1 wb.1 h.1 x hx, ih2 b2 wa.2 wb.2 h.2 y hy⟩
    | list _ _ => simp [subset] at h
  | list t sz ih =>
    intro B wa wb h v hv
    cases B with
    | int b => simp [subset] at h
    | opt b => simp [subset] at h
    | pair _ _ => simp [subset] at h
    | list t' sz' =>
      simp only [subset, Bool.and_eq_true] at h
      obtain ⟨vs, rfl, hall, hlen⟩ := hv
      exact ⟨vs, rfl, fun x hx => ih t' wa.1 wb.1 h.1 x (hall x hx), leaf_subset cap k hc hk sz sz' wa.2 wb.2 h.2 _ hlen⟩

/-- **The union contains both operands.** -/
theorem type_union_superset (cap k : Nat) (hc : 2 ≤ cap) :
    ∀ (A B U : DT), WFT cap k A → WFT cap k B → DTLat.union cap A B = some U → ∀ v, mem A v ∨ mem B v → mem U v := by
  intro A
  induction A with
  | int a =>
    intro B U wa wb h v hv
    cases B with
    | int b =>
      simp only [DTLat.union, Option.some.injEq] at h; subst h
      rcases hv with ⟨n, rfl, hn⟩ | ⟨n, rfl, hn⟩
      · exact ⟨n, rfl, C11.union_superset cap hc a b wa.1 wb.1 n (Or.inl hn)⟩
      · exact ⟨n, rfl, C11.union_superset cap hc a b wa.1 wb.1 n (Or.inr hn)⟩
    | opt b =>
      simp only [DTLat.union, Option.some.injEq] at h; subst h
      rcases hv with ⟨n, rfl, hn⟩ | hv
      · exact Or.inr ⟨n, Or.inr rfl, C11.union_superset cap hc a b wa.1 wb.1 n (Or.inl hn)⟩
      · rcases hv with rfl | ⟨n, hv, hn⟩
        · exact Or.inl rfl
        · exact Or.inr ⟨n, hv, C11.union_superset cap hc a b wa.1 wb.1 n (Or.inr hn)⟩
    | pair _ _ => simp [DTLat.union] at h
    | list _ _ => simp [DTLat.union] at h
  | opt a =>
    intro B U wa wb h v hv
    cases B with
    | int b =>
      simp only [DTLat.union, Option.some.injEq] at h; subst h
      rcases hv with hv | ⟨n, rfl, hn⟩
      · rcases hv with rfl | ⟨n, hv, hn⟩
        · exact Or.inl rfl
        · exact Or.inr ⟨n, hv, C11.union_superset cap hc a b wa.1 wb.1 n (Or.inl hn)⟩
      · exact Or.inr ⟨n, Or.inr rfl, C11.union_superset cap hc a b wa.1 wb.1 n (Or.inr hn)⟩
    | opt b =>
      simp only [DTLat.union, Option.some.injEq] at h; subst h
      rcases hv with hv | hv
      · rcases hv with rfl | ⟨n, hv, hn⟩
        · exact Or.inl rfl
        · exact Or.inr ⟨n, hv, C11.union_superset cap hc a b wa.1 wb.1 n (Or.inl hn)⟩
      · rcases hv with rfl | ⟨n, hv, hn⟩
        · exact Or.inl rfl
        · exact Or.inr ⟨n, hv, C11.union_superset cap hc a b wa.1 wb.1 n (Or.inr hn)⟩
    | pair _ _ => simp [DTLat.union] at h
    | list _ _ => simp [DTLat.union] at h
  | pair a1 a2 ih1 ih2 =>
    intro B U wa wb h v hv
    cases B with
    | int b => simp [DTLat.union] at h
    | opt b => simp [DTLat.union] at h
    | pair b1 b2 =>
      simp only [DTLat.union, bind, Option.bind, pure] at h
      cases h1 : DTLat.union cap a1 b1 with
      | none => simp [h1] at h
      | some u1 =>
        cases h2 : DTLat.union cap a2 b2 with
        | none => simp [h1, h2] at h
        | some u2 =>
          simp only [h1, h2, Option.some.injEq] at h; subst h
          rcases hv with ⟨x, y, rfl, hx, hy⟩ | ⟨x, y, rfl, hx, hy⟩
          · exact ⟨x, y, rfl, ih1 b1 u1 wa.1 wb.1 h1 x (Or.inl hx), ih2 b2 u2 wa.2 wb.2 h2 y (Or.inl hy)⟩
          · exact ⟨x, y, rfl, ih1 b1 u1 wa.1 wb.1 h1 x (Or.inr hx), ih2 b2 u2 wa.2 wb.2 h2 y (Or.inr hy)⟩
    | list _ _ => simp [DTLat.union] at h
  | list t sz ih =>
    intro B U wa wb h v hv
    cases B with
    | int b => simp [DTLat.union] at h
    | opt b => simp [DTLat.union] at h
    | pair _ _ => simp [DTLat.union] at h
    | list t' sz' =>
      simp only [DTLat.union, bind, Option.bind, pure] at h
      cases h1 : DTLat.union cap t t' with
      | none => simp [h1] at h
      | some u1 =>
        simp only [h1, Option.some.injEq] at h; subst h
        rcases hv with ⟨vs, rfl, hall, hlen⟩ | ⟨vs, rfl, hall, hlen⟩
        · exact ⟨vs, rfl, fun x hx => ih t' u1 wa.1 wb.1 h1 x (Or.inl (hall x hx)), C11.union_superset cap hc sz sz' wa.2.1 wb.2.1 _ (Or.inl hlen)⟩
        · exact ⟨vs, rfl, fun x hx => ih t' u1 wa.1 wb.1 h1 x (Or.inr (hall x hx)), C11.union_superset cap hc sz sz' wa.2.1 wb.2.1 _ (Or.inr hlen)⟩

/-- **The intersection contains every value that is in both operands.** -/
theorem type_inter_superset (cap k : Nat) (hc : 2 ≤ cap) :
    ∀ (A B N : DT), WFT cap k A → WFT cap k B → DTLat.inter cap A B = some N → ∀ v, mem A v → mem B v → mem N v := by
  intro A
  induction A with
  | int a =>
    intro B N wa wb h v hva hvb
    cases B with
    | int b =>
      simp only [DTLat.inter, Option.some.injEq] at h; subst h
      obtain ⟨n, rfl, hn⟩ := hva
      obtain ⟨m, hm, hmb⟩ := hvb
      cases hm
      exact ⟨n, rfl, C11.inter_superset cap hc a b wa.1 wb.1 n hn hmb⟩
    | opt b =>
      simp only [DTLat.inter, Option.some.injEq] at h; subst h
      obtain ⟨n, rfl, hn⟩ := hva
      rcases hvb with hb | ⟨m, hm, hmb⟩
      · cases hb
      · rcases hm with hm | hm
        · cases hm
        · cases hm; exact ⟨n, rfl, C11.inter_superset cap hc a b wa.1 wb.1 n hn hmb⟩
    | pair _ _ => simp [DTLat.inter] at h
    | list _ _ => simp [DTLat.inter] at h
  | opt a =>
    intro B N wa wb h v hva hvb
    cases B with
    | int b =>
      simp only [DTLat.inter, Option.some.injEq] at h; subst h
      obtain ⟨m, rfl, hmb⟩ := hvb
      rcases hva with ha | ⟨n, hn', hn⟩
      · cases ha
      · rcases hn' with hn' | hn'
        · cases hn'
        · cases hn'; exact ⟨m, rfl, C11.inter_superset cap hc a b wa.1 wb.1 m hn hmb⟩
    | opt b =>
      simp only [DTLat.inter, Option.some.injEq] at h; subst h
      rcases hva with rfl | ⟨n, hn', hn⟩
      · exact Or.inl rfl
      · rcases hvb with hb | ⟨m, hm, hmb⟩
        · rcases hn' with rfl | rfl <;> cases hb
        · refine Or.inr ⟨n, hn', C11.inter_superset cap hc a b wa.1 wb.1 n hn ?_⟩
          rcases hn' with rfl | rfl <;> rcases hm with hm | hm <;> cases hm <;> exact hmb
    | pair _ _ => simp [DTLat.inter] at h
    | list _ _ => simp [DTLat.inter] at h
  | pair a1 a2 ih1 ih2 =>
    intro B N wa wb h v hva hvb
    cases B with
    | int b => simp [DTLat.inter] at h
    | opt b => simp [DTLat.inter] at h
    | pair b1 b2 =>
      simp only [DTLat.inter, bind, Option.bind, pure] at h
      cases h1 : DTLat.inter cap a1 b1 with
      | none => simp [h1] at h
      | some n1 =>
        cases h2 : DTLat.inter cap a2 b2 with
        | none => simp [h1, h2] at h
        | some n2 =>
          simp only [h1, h2, Option.some.injEq] at h; subst h
          obtain ⟨x, y, rfl, hx, hy⟩ := hva
          obtain ⟨x', y', he, hx', hy'⟩ := hvb
          cases he
          exact ⟨x, y, rfl, ih1 b1 n1 wa.1 wb.1 h1 x hx hx', ih2 b2 n2 wa.2 wb.2 h2 y hy hy'⟩
    | list _ _ => simp [DTLat.inter] at h
  | list t sz ih =>
    intro B N wa wb h v hva hvb
    cases B with
    | int b => simp [DTLat.inter] at h
    | opt b => simp [DTLat.inter] at h
    | pair _ _ => simp [DTLat.inter] at h
    | list t' sz' =>
      simp only [DTLat.inter, bind, Option.bind, pure] at h
      cases h1 : DTLat.inter cap t t' with
      | none => simp [h1] at h
      | some n1 =>
        simp only [h1, Option.some.injEq] at h; subst h
        obtain ⟨vs, rfl, hall, hlen⟩ := hva
        obtain ⟨vs', he, hall', hlen'⟩ := hvb
        cases he
        exact ⟨vs, rfl, fun x hx => ih t' n1 wa.1 wb.1 h1 x (hall x hx) (hall' x hx), C11.inter_superset cap hc sz sz' wa.2.1 wb.2.1 _ hlen hlen'⟩

/-! ## The `none` branch of the model is exactly "shapes differ"

`DTLat.union` / `DTLat.inter` return `none` where the model does not cover the pair.  The theorems above would hold for the wrong
reason if that branch were taken on pairs of the fragment; `union_isSome` / `inter_isSome` show it is taken exactly when the two
types differ in shape (leaf optionality ignored), and `type_union_total` / `type_inter_total` restate the two superset theorems
without the `= some _` hypothesis. -/

/-- same constructor skeleton, nullable and plain integer leaves identified -/
def sameShape : DT → DT → Bool
  | .int _, .int _ | .int _, .opt _ | .opt _, .int _ | .opt _, .opt _ => true
  | .pair a b, .pair c d => sameShape a c && sameShape b d
  | .list t _, .list u _ => sameShape t u
  | _, _ => false

theorem union_isSome (cap : Nat) : ∀ (A B : DT), (DTLat.union cap A B).isSome = sameShape A B := by
  intro A
  induction A with
  | int a => intro B; cases B <;> simp [DTLat.union, sameShape]
  | opt a => intro B; cases B <;> simp [DTLat.union, sameShape]
  | pair a b iha ihb =>
    intro B
    cases B with
    | pair c d =>
      have h1 := iha c; have h2 := ihb d
      simp only [DTLat.union, sameShape]
      cases hu1 : DTLat.union cap a c <;> cases hu2 : DTLat.union cap b d <;> simp_all
    | _ => simp [DTLat.union, sameShape]
  | list t sz ih =>
    intro B
    cases B with
    | list u sz2 =>
      have h1 := ih u
      simp only [DTLat.union, sameShape]
      cases hu1 : DTLat.union cap t u <;> simp_all
    | _ => simp [DTLat.union, sameShape]

theorem inter_isSome (cap : Nat) : ∀ (A B : DT), (DTLat.inter cap A B).isSome = sameShape A B := by
  intro A
  induction A with
  | int a => intro B; cases B <;> simp [DTLat.inter, sameShape]
  | opt a => intro B; cases B <;> simp [DTLat.inter, sameShape]
  | pair a b iha ihb =>
    intro B
    cases B with
    | pair c d =>
      have h1 := iha c; have h2 := ihb d
      simp only [DTLat.inter, sameShape]
      cases hu1 : DTLat.inter cap a c <;> cases hu2 : DTLat.inter cap b d <;> simp_all
    | _ => simp [DTLat.inter, sameShape]
  | list t sz ih =>
    intro B
    cases B with
    | list u sz2 =>
      have h1 := ih u
      simp only [DTLat.inter, sameShape]
      cases hu1 : DTLat.inter cap t u <;> simp_all
    | _ => simp [DTLat.inter, sameShape]

/-- a reported inclusion only ever relates types of the same shape -/
theorem subset_sameShape (cap : Nat) : ∀ (A B : DT), subset cap A B = true → sameShape A B = true := by
  intro A
  induction A with
  | int a => intro B; cases B <;> simp [subset, sameShape]
  | opt a => intro B; cases B <;> simp [subset, sameShape]
  | pair a b iha ihb =>
    intro B
    cases B with
    | pair c d =>
      simp only [subset, sameShape, Bool.and_eq_true]
      exact fun h => ⟨iha c h.1, ihb d h.2⟩
    | _ => simp [subset]
  | list t sz ih =>
    intro B
    cases B with
    | list u sz2 =>
      simp only [subset, sameShape, Bool.and_eq_true]
      exact fun h => ih u h.1
    | _ => simp [subset]

/-- **Union, total form**: on every pair of same-shaped types of the fragment the union exists and contains both operands. -/
theorem type_union_total (cap k : Nat) (hc : 2 ≤ cap) (A B : DT) (wa : WFT cap k A) (wb : WFT cap k B) (hs : sameShape A B = true) :
    ∃ U, DTLat.union cap A B = some U ∧ ∀ v, mem A v ∨ mem B v → mem U v := by
  have h := union_isSome cap A B
  rw [hs] at h
  obtain ⟨U, hU⟩ := Option.isSome_iff_exists.mp h
  exact ⟨U, hU, type_union_superset cap k hc A B U wa wb hU⟩

/-- **Intersection, total form.** -/
theorem type_inter_total (cap k : Nat) (hc : 2 ≤ cap) (A B : DT) (wa : WFT cap k A) (wb : WFT cap k B) (hs : sameShape A B = true) :
    ∃ N, DTLat.inter cap A B = some N ∧ ∀ v, mem A v → mem B v → mem N v := by
  have h := inter_isSome cap A B
  rw [hs] at h
  obtain ⟨N, hN⟩ := Option.isSome_iff_exists.mp h
  exact ⟨N, hN, type_inter_superset cap k hc A B N wa wb hN⟩

/-- **Lattice coherence on the fragment**: whenever `A ⊆ B` is reported, both the union and the intersection of the pair exist,
the union still contains every value of `B` and the intersection every value of `A` (no value is lost by going through the
join or the meet of a comparable pair). -/
theorem subset_union_inter (cap k : Nat) (hc : 2 ≤ cap) (hk : k * k < cap) (A B : DT) (wa : WFT cap k A) (wb : WFT cap k B)
    (h : subset cap A B = true) :
    ∃ U N, DTLat.union cap A B = some U ∧ DTLat.inter cap A B = some N ∧ (∀ v, mem B v → mem U v) ∧ (∀ v, mem A v → mem N v) := by
  have hs := subset_sameShape cap A B h
  obtain ⟨U, hU, hu⟩ := type_union_total cap k hc A B wa wb hs
  obtain ⟨N, hN, hn⟩ := type_inter_total cap k hc A B wa wb hs
  exact ⟨U, N, hU, hN, fun v hv => hu v (Or.inr hv), fun v hv => hn v hv (type_subset_sound cap k hc hk A B wa wb h v hv)⟩

/-- non-vacuity: a struct of a nullable integer and a list, a wider one, and a value of the first -/
example :
    let A : DT := .pair (.opt [(1, 3)]) (.list (.int [(0, 5)]) [(1, 2)])
    let B : DT := .pair (.opt [(0, 4)]) (.list (.int [(0, 9)]) [(0, 2)])
    WFT 128 3 A ∧ WFT 128 3 B ∧ subset 128 A B = true ∧ subset 128 B A = false ∧
      mem A (.pair .none (.list [.i 4, .i 0])) ∧ DTLat.union 128 A B = some B ∧ DTLat.inter 128 A B = some A := by
  refine ⟨?_, ?_, by decide, by decide, ?_, by decide, by decide⟩
  · simp [WFT, Good, WF, SortedAbove]
  · simp [WFT, Good, WF, SortedAbove]
  · refine ⟨.none, .list [.i 4, .i 0], rfl, Or.inl rfl, [.i 4, .i 0], rfl, ?_, ?_⟩
    · intro x hx
      simp only [List.mem_cons, List.not_mem_nil, or_false] at hx
      rcases hx with rfl | rfl
      · exact ⟨4, rfl, (0, 5), by simp, by simp⟩
      · exact ⟨0, rfl, (0, 5), by simp, by simp⟩
    · exact ⟨(1, 2), by simp, by simp⟩

end Qrlew.C11

import QrlewModel.Props.C07
import QrlewModel.Lemmas.Lists
/-!
# C14 — columns declared unique are unique (propagation rules)

Uniqueness of a column = its values over the bag are pairwise distinct (`Nodup`).  The propagation rules of
`relation/mod.rs` are sound for functions that are injective on the column's values, for group-by keys,
and for joins whose other side has a unique key; a lossy cast is the kernel-checked counterexample
(it was listed as a bijection before the repair).
-/
namespace Qrlew.C14
open Qrlew.Lists
open Qrlew.Rel
variable {α β κ γ : Type}

/-- projection through a function that is injective on the values present keeps uniqueness -/
theorem map_injective_unique (f : γ → κ) (vals : List γ) (h : vals.Nodup)
    (hinj : ∀ x ∈ vals, ∀ y ∈ vals, f x = f y → x = y) : (vals.map f).Nodup := by
  induction vals with
  | nil => simp
  | cons a t ih =>
    simp only [List.nodup_cons, List.map_cons] at *
    refine ⟨?_, ih h.2 (fun x hx y hy => hinj x (List.mem_cons_of_mem _ hx) y (List.mem_cons_of_mem _ hy))⟩
    intro hmem
    obtain ⟨b, hb, hfb⟩ := List.mem_map.mp hmem
    have := hinj b (List.mem_cons_of_mem _ hb) a List.mem_cons_self hfb
    exact h.1 (this ▸ hb)

/-- a filter (WHERE) keeps uniqueness -/
theorem filter_unique (col : α → κ) (p : α → Bool) (b : List α) (h : (b.map col).Nodup) : ((b.filter p).map col).Nodup := by
  exact h.sublist ((List.filter_sublist (p := p) (l := b)).map col)

/-- an inner join keeps the left side's unique columns when the right side's join key is unique
(each left row is matched at most once) -/
theorem join_keeps_left_unique [DecidableEq κ] (kl : α → κ) (kr : β → κ) (col : α → γ) (L : List α) (R : List β)
    (hL : (L.map col).Nodup) (hR : (R.map kr).Nodup) : ((joinOn kl kr L R).map fun ab => col ab.1).Nodup := by
  induction L with
  | nil => simp [joinOn]
  | cons a t ih =>
    simp only [List.map_cons, List.nodup_cons] at hL
    simp only [joinOn, List.flatMap_cons, List.map_append, List.map_map] at *
    have hone := C07.filter_key_le_one kr R hR (kl a)
    rw [List.nodup_append]
    refine ⟨?_, ih hL.2, ?_⟩
    · -- at most one copy of `col a`
      match hm : R.filter (fun b => kl a == kr b) with
      | [] => simp
      | [b] => simp
      | b :: c :: rest => rw [hm] at hone; simp at hone
    · intro x hx y hy
      simp only [List.mem_map, Function.comp] at hx
      obtain ⟨b, _, rfl⟩ := hx
      intro hxy
      apply hL.1
      rw [List.mem_map] at hy
      obtain ⟨ab, hab, hcol⟩ := hy
      rw [List.mem_flatMap] at hab
      obtain ⟨a', ha', hab'⟩ := hab
      rw [List.mem_map] at hab'
      obtain ⟨b', _, rfl⟩ := hab'
      simp only at hcol hxy
      exact List.mem_map.mpr ⟨a', ha', by rw [hcol, ← hxy]⟩

/-- a LEFT OUTER join on a key that is unique on the right returns every left row exactly once, in order … -/
theorem left_join_unique_right_fst [DecidableEq κ] (kl : α → κ) (kr : β → κ) (L : List α) (R : List β) (hR : (R.map kr).Nodup) :
    (leftJoinOn kl kr L R).map (·.1) = L := by
  induction L with
  | nil => simp [leftJoinOn]
  | cons a t ih =>
    simp only [leftJoinOn, List.flatMap_cons, List.map_append] at *
    rw [ih]
    have hone := C07.filter_key_le_one kr R hR (kl a)
    match hm : R.filter (fun b => kl a == kr b) with
    | [] => simp
    | [b] => simp
    | b :: c :: rest => rw [hm] at hone; simp at hone

/-- … hence keeps every unique column of the left (preserved) side unique -/
theorem left_join_keeps_left_unique [DecidableEq κ] (kl : α → κ) (kr : β → κ) (col : α → γ) (L : List α) (R : List β)
    (hL : (L.map col).Nodup) (hR : (R.map kr).Nodup) : ((leftJoinOn kl kr L R).map fun ab => col ab.1).Nodup := by
  have h : ((leftJoinOn kl kr L R).map fun ab => col ab.1) = ((leftJoinOn kl kr L R).map (·.1)).map col := by
    rw [List.map_map]; rfl
  rw [h, left_join_unique_right_fst kl kr L R hR]; exact hL

/-- but a unique column of the *right* side does not stay unique under a LEFT OUTER join: unmatched left rows all carry NULL there
(what the recorded outer-join findings of this property are about) -/
theorem left_join_right_unique_counterexample :
    ¬ ((leftJoinOn (fun (a : Nat) => a) (fun (b : Nat) => b) [1, 2] [7]).map (·.2)).Nodup := by decide

/-- OFFSET / LIMIT after a WHERE keep uniqueness (the rows returned are a sub-bag) -/
theorem map_rows_unique (col : α → κ) (p : α → Bool) (offset limit : Option Nat) (b : List α) (h : (b.map col).Nodup) :
    ((mapRows p offset limit b).map col).Nodup := by
  have hs : (mapRows p offset limit b).Sublist b := by
    unfold mapRows
    cases offset <;> cases limit <;> simp only
    · exact List.filter_sublist
    · exact (List.take_sublist _ _).trans List.filter_sublist
    · exact (List.drop_sublist _ _).trans List.filter_sublist
    · exact (List.take_sublist _ _).trans ((List.drop_sublist _ _).trans List.filter_sublist)
  exact h.sublist (hs.map col)

/-- a literal value list is declared unique exactly when it has no repeated value (adjacent or not) -/
theorem values_unique_iff [DecidableEq α] (vals : List α) : Rel.valuesUnique vals = true ↔ vals.Nodup := by
  unfold Rel.valuesUnique
  induction vals with
  | nil => simp
  | cons a as ih =>
    rw [List.eraseDups_cons, List.nodup_cons]
    simp only [List.length_cons, beq_iff_eq, Nat.add_right_cancel_iff]
    constructor
    · intro h
      have h1 := eraseDups_length_le (as.filter fun b => !b == a)
      have h2 : (as.filter fun b => !b == a).length ≤ as.length := List.length_filter_le _ _
      have h3 : (as.filter fun b => !b == a).length = as.length := by omega
      have h4 : as.filter (fun b => !b == a) = as := List.filter_eq_self.mpr (by
        have := (List.length_filter_eq_length_iff).mp h3; exact this)
      rw [h4] at h
      refine ⟨?_, ih.mp (by simpa using h)⟩
      intro hmem
      have := (List.filter_eq_self.mp h4) a hmem
      simp at this
    · rintro ⟨hn, hnd⟩
      have h4 : as.filter (fun b => !b == a) = as := List.filter_eq_self.mpr (by
        intro b hb; have : b ≠ a := fun e => hn (e ▸ hb); simpa using this)
      rw [h4]; simpa using ih.mpr hnd

/-- the case an adjacent-only comparison gets wrong -/
example : Rel.valuesUnique [1, 2, 1] = false ∧ ¬ ([1, 2, 1] : List Nat).Nodup := by decide


/-- the values of a single grouping key, one per group, are duplicate-free -/
theorem single_group_key_unique [DecidableEq κ] (key : α → κ) (b : List α) : ((b.map key).eraseDups).Nodup :=
  nodup_eraseDups_aux _ _ (Nat.le_refl _)

/-- with two grouping keys the first one repeats across groups: it must not be declared unique -/
theorem two_group_keys_counterexample :
    ¬ ((([(1, 1), (1, 2)] : List (Nat × Nat)).eraseDups).map (·.1)).Nodup := by decide


/-- the lossy cast is not injective: ⌊1.2⌋ = ⌊1.4⌋ (values in tenths) — the witness of the repaired defect -/
theorem cast_to_integer_not_injective : ¬ (([12, 14] : List Int).map fun x => x / 10).Nodup := by decide

/-- Non-vacuity. -/
example : (([3, 1, 2] : List Int).map fun x => -x).Nodup := by decide

end Qrlew.C14

import QrlewModel.Props.C03
import QrlewModel.Model.DpReduce
/-!
# C03 — the accounting of one whole DP aggregation

`Qrlew.DpReduce` is the model of what `Reduce::differentially_private` hands to each sum (σ) and returns as event, for any number
of DISTINCT-split groups and of sums per group (compared with the real rewriting by the `dpquery` stream).

* `event_leaves` (any number type): the returned event records the key release, if one took place, followed by exactly one entry
  per sum whose σ is positive, in order — whatever the nesting `compose` builds.
* `reduce_accounting` (over ℝ): for valid parameters every sum with a positive clipping bound has a positive σ, hence an entry, and
  the multiplier recorded in that entry is at most σ/C; the shares of ε handed to the key release and to the sums add up to ε.
-/
namespace Qrlew.C03
open Qrlew Qrlew.DpEvent Qrlew.DpReduce

section generic
variable {K : Type} (o : NumOps K) (z pos : K → Bool)

theorem leaves_foldl_compose (es : List (DpEvent K)) (acc : DpEvent K) :
    leaves z (es.foldl (compose z) acc) = leaves z acc ++ leavesL z es := by
  induction es generalizing acc with
  | nil => simp [leavesL]
  | cons e rest ih => simp only [List.foldl]; rw [ih, leaves_compose]; simp [leavesL, List.append_assoc]

/-- the entries one group contributes: one per sum with positive σ -/
def groupEntries (epsG deltaG : K) (bounds : List K) : List (DpEvent K) :=
  leavesL z ((Budget.sigmas o epsG deltaG bounds).map fun s =>
    if pos s then DpEvent.gaussian (Budget.recordedMultiplier o epsG deltaG) else .noOp)

theorem leaves_groupEvent (epsG deltaG : K) (bounds : List K) :
    leaves z (groupEvent o z pos epsG deltaG bounds) = groupEntries o z pos epsG deltaG bounds := by
  unfold groupEvent groupEntries
  exact leaves_collect z _

theorem leavesL_map_groupEvent (epsG deltaG : K) (groups : List (List K)) :
    leavesL z (groups.map (groupEvent o z pos epsG deltaG)) = groups.flatMap (groupEntries o z pos epsG deltaG) := by
  induction groups with
  | nil => simp [leavesL]
  | cons g gs ih => simp [leavesL, ih, leaves_groupEvent]

/-- **The event of a whole DP aggregation**: the key release (when thresholding was used) and then the entries of the groups in
order; nothing else, nothing dropped but no-ops. -/
theorem event_leaves (eps delta share : K) (tauUsed : Bool) (groups : List (List K)) :
    leaves z (event o z pos eps delta share tauUsed groups) =
      leaves z (if tauUsed then DpEvent.epsilonDelta (o.mul eps share) (o.mul delta share) else .noOp) ++
      groups.flatMap (groupEntries o z pos (groupBudget o eps delta share tauUsed groups.length).1
        (groupBudget o eps delta share tauUsed groups.length).2) := by
  unfold event
  rw [leaves_compose, leaves_compose]
  have h0 : leaves z (DpEvent.noOp : DpEvent K) = [] := by simp [leaves]
  rw [h0, List.nil_append]
  congr 1
  cases hg : groups with
  | nil => simp [leaves]
  | cons g gs =>
    simp only [List.map_cons, List.flatMap_cons]
    rw [leaves_foldl_compose, leaves_groupEvent, leavesL_map_groupEvent]
end generic

/-! ### over ℝ -/

open Budget

noncomputable def rzero : ℝ → Bool := fun x => decide (x = 0)
noncomputable def rpos : ℝ → Bool := fun x => decide (0 < x)

theorem noiseMultiplier_pos (e d : ℝ) (he : 0 < e) (hd : 0 < d) (hd1 : d ≤ 1) : 0 < noiseMultiplier realOps e d := by
  rw [noiseMultiplier_real]
  apply lt_max_of_lt_right
  apply div_pos _ he
  apply Real.sqrt_pos.mpr
  have : (1 : ℝ) < 1.25 / d := by
    rw [lt_div_iff₀ hd]; linarith
  have := Real.log_pos this
  linarith

/-- a sum with a positive clipping bound receives a positive σ, and the multiplier recorded for it is at most σ/C -/
theorem sum_accounted (n : ℕ) (hn : 1 ≤ n) (e d c : ℝ) (he : 0 < e) (hd : 0 < d) (hd1 : d ≤ 1) (hc : 0 < c) :
    0 < gaussianNoise realOps (e / n) (d / n) c ∧
      recordedMultiplier realOps e d ≤ gaussianNoise realOps (e / n) (d / n) c / c := by
  have hnpos : (0 : ℝ) < n := by exact_mod_cast hn
  have hn1 : (1 : ℝ) ≤ n := by exact_mod_cast hn
  have hdn : d / n ≤ 1 := by
    rw [div_le_one hnpos]; linarith
  have hm := noiseMultiplier_pos (e / n) (d / n) (div_pos he hnpos) (div_pos hd hnpos) hdn
  rw [sigma_eq _ _ _ hc.le]
  refine ⟨mul_pos hm hc, ?_⟩
  rw [mul_div_assoc, div_self hc.ne', mul_one]
  exact recorded_le_actual n hn e d he hd

/-- with valid parameters a group whose `n ≥ 1` bounds are all positive contributes exactly `n` Gaussian entries -/
theorem group_entries_all (e d : ℝ) (he : 0 < e) (hd : 0 < d) (hd1 : d ≤ 1) (bounds : List ℝ) (hb : ∀ c ∈ bounds, 0 < c) :
    groupEntries realOps rzero rpos e d bounds = List.replicate bounds.length (.gaussian (recordedMultiplier realOps e d)) := by
  have hm : rzero (recordedMultiplier realOps e d) = false := by
    have := noiseMultiplier_pos e d he hd hd1
    simp [rzero, recordedMultiplier, this.ne']
  unfold groupEntries Budget.sigmas
  rw [List.map_map]
  have hlen : ∀ (n : ℕ) (l : List ℝ), (∀ c ∈ l, 0 < c) → 1 ≤ n →
      leavesL rzero (l.map ((fun s => if rpos s = true then DpEvent.gaussian (recordedMultiplier realOps e d) else .noOp) ∘
        fun b => gaussianNoise realOps (realOps.div e (realOps.ofNat n)) (realOps.div d (realOps.ofNat n)) b)) =
      List.replicate l.length (.gaussian (recordedMultiplier realOps e d)) := by
    intro n l hl hn
    induction l with
    | nil => simp [leavesL]
    | cons c cs ih =>
      have hc : 0 < c := hl c (by simp)
      have hσ := (sum_accounted n hn e d c he hd hd1 hc).1
      have hp : rpos (gaussianNoise realOps (realOps.div e (realOps.ofNat n)) (realOps.div d (realOps.ofNat n)) c) = true := by
        have : gaussianNoise realOps (realOps.div e (realOps.ofNat n)) (realOps.div d (realOps.ofNat n)) c =
            gaussianNoise realOps (e / n) (d / n) c := rfl
        rw [this]; unfold rpos; exact decide_eq_true hσ
      simp only [List.map_cons, Function.comp, hp, if_true, leavesL, leaves, hm, Bool.false_eq_true, if_false, List.length_cons,
        List.replicate_succ, List.cons_append, List.nil_append]
      congr 1
      exact ih (fun c hc => hl c (List.mem_cons_of_mem _ hc))
  cases bounds with
  | nil => simp [leavesL]
  | cons c cs => exact hlen _ _ hb (by simp)

/-- **Accounting of a whole DP aggregation.**  For `ε > 0`, `0 < δ ≤ 1`, a thresholding share in `(0, 1)`, and `g ≥ 1` groups:
every sum with clipping bound `C > 0` gets `σ > 0` (so `event_leaves` gives it an entry) and the recorded multiplier is `≤ σ/C`. -/
theorem reduce_accounting (eps delta share : ℝ) (tauUsed : Bool) (groups : List (List ℝ))
    (he : 0 < eps) (hd : 0 < delta) (hd1 : delta ≤ 1) (hs0 : 0 < share) (hs1 : share < 1) (hg : groups ≠ []) :
    let b := groupBudget realOps eps delta share tauUsed groups.length
    ∀ i (hi : i < groups.length) j (hj : j < (groups[i]).length), 0 < (groups[i])[j] →
      ∃ σ, ((DpReduce.sigmas realOps eps delta share tauUsed groups)[i]?.bind (·[j]?)) = some σ ∧ 0 < σ ∧
        recordedMultiplier realOps b.1 b.2 ≤ σ / (groups[i])[j] := by
  intro b i hi j hj hc
  have hglen : 1 ≤ groups.length := by
    cases groups with
    | nil => exact absurd rfl hg
    | cons _ _ => simp
  have hsh : 0 < Budget.aggShare realOps tauUsed share ∧ Budget.aggShare realOps tauUsed share ≤ 1 := by
    cases tauUsed <;> simp [Budget.aggShare, realOps] <;> constructor <;> linarith
  have hgpos : (0 : ℝ) < ((if groups.length < 1 then 1 else groups.length : ℕ) : ℝ) := by
    have : ¬ groups.length < 1 := by omega
    simp only [this, if_false]
    exact_mod_cast hglen
  have hg1 : (1 : ℝ) ≤ ((if groups.length < 1 then 1 else groups.length : ℕ) : ℝ) := by
    have : ¬ groups.length < 1 := by omega
    simp only [this, if_false]
    exact_mod_cast hglen
  have hb1 : 0 < b.1 := by
    show 0 < (eps * Budget.aggShare realOps tauUsed share) / _
    exact div_pos (mul_pos he hsh.1) hgpos
  have hb2 : 0 < b.2 := by
    show 0 < (delta * Budget.aggShare realOps tauUsed share) / _
    exact div_pos (mul_pos hd hsh.1) hgpos
  have hb2le : b.2 ≤ 1 := by
    show (delta * Budget.aggShare realOps tauUsed share) / ((if groups.length < 1 then 1 else groups.length : ℕ) : ℝ) ≤ 1
    rw [div_le_one hgpos]
    have : delta * Budget.aggShare realOps tauUsed share ≤ 1 * 1 := mul_le_mul hd1 hsh.2 hsh.1.le (by norm_num)
    linarith
  have hn : 1 ≤ (groups[i]).length := by omega
  obtain ⟨hpos, hle⟩ := sum_accounted (groups[i]).length hn b.1 b.2 ((groups[i])[j]) hb1 hb2 hb2le hc
  refine ⟨gaussianNoise realOps (b.1 / (groups[i]).length) (b.2 / (groups[i]).length) ((groups[i])[j]), ?_, hpos, hle⟩
  simp only [DpReduce.sigmas, Budget.sigmas, List.getElem?_map, List.getElem?_eq_getElem hi, Option.map_some, Option.bind_some,
    List.getElem?_eq_getElem hj]
  rfl

/-- **Fits the budget** (basic composition over the whole aggregation): the ε handed to the key release plus the ε handed to each
sum add up to ε — exactly when every group has at least one sum.  The same holds for δ (replace `eps` by `delta`). -/
theorem reduce_budget (eps share : ℝ) (tauUsed : Bool) (groups : List (List ℝ)) (hg : groups ≠ []) (hne : ∀ b ∈ groups, b ≠ []) :
    (if tauUsed then eps * share else 0) +
      (groups.map fun bounds => (bounds.map fun _ =>
        (groupBudget realOps eps eps share tauUsed groups.length).1 / bounds.length).sum).sum = eps := by
  have hglen : ¬ groups.length < 1 := by
    cases groups with
    | nil => exact absurd rfl hg
    | cons _ _ => simp
  have hgpos : (groups.length : ℝ) ≠ 0 := by
    have : 0 < groups.length := by omega
    positivity
  have hgroup : ∀ bounds ∈ groups, (bounds.map fun _ =>
      (groupBudget realOps eps eps share tauUsed groups.length).1 / bounds.length).sum =
      (groupBudget realOps eps eps share tauUsed groups.length).1 := by
    intro bounds hb
    have hl : (bounds.length : ℝ) ≠ 0 := by
      have : bounds ≠ [] := hne bounds hb
      have : 0 < bounds.length := List.length_pos_iff.mpr this
      positivity
    rw [List.map_const', List.sum_replicate, nsmul_eq_mul]
    field_simp
  rw [List.map_congr_left hgroup, List.map_const', List.sum_replicate, nsmul_eq_mul]
  simp only [groupBudget, hglen, if_false]
  cases tauUsed <;> simp [Budget.aggShare, realOps] <;> field_simp <;> ring

/-- non-vacuity: two groups (one DISTINCT split), three sums, thresholding used, valid parameters -/
example : (0 : ℝ) < 1 ∧ (0 : ℝ) < 1e-5 ∧ (1e-5 : ℝ) ≤ 1 ∧ (0 : ℝ) < 0.5 ∧ (0.5 : ℝ) < 1 ∧
    ([[10, 1], [3]] : List (List ℝ)) ≠ [] ∧ ∀ b ∈ ([[10, 1], [3]] : List (List ℝ)), b ≠ [] := by
  refine ⟨by norm_num, by norm_num, by norm_num, by norm_num, by norm_num, by simp, by simp⟩

end Qrlew.C03

import QrlewModel.Model.Quote
/-!
# C08 — rendering keeps the value of string literals and quoted identifiers (text layer)

`unesc_esc`: for every string without a backslash-quote or a doubled quote, reading back what the renderer
writes gives the string again, for any quote character (`'` for literals, `"` / backtick for identifiers).
The two excluded shapes are real counterexamples (the escaping routine assumes they are already escaped),
and bracket quoting cannot carry a `]`.
-/
namespace Qrlew.C08
open Qrlew.Quote

theorem unesc_cons_ne (q c : Char) (l : List Char) (h : (c == q) = false) :
    unesc q (c :: l) = (unesc q l).map (c :: ·) := by
  cases l with
  | nil => simp [unesc, h]
  | cons c' r => simp [unesc, h]

theorem unesc_qq (q : Char) (l : List Char) : unesc q (q :: q :: l) = (unesc q l).map (q :: ·) := by
  simp [unesc]

theorem unesc_esc (q : Char) (s : List Char) : ∀ prev, Clean q prev s → unesc q (esc q prev s) = some s := by
  induction s with
  | nil => intro prev _; simp [esc, unesc]
  | cons c rest ih =>
    intro prev h
    obtain ⟨h1, h2⟩ := h
    by_cases hc : c = q
    · subst hc
      obtain ⟨hp, hh⟩ := h1 rfl
      have hprev : (prev == '\\') = false := by simpa using hp
      cases rest with
      | nil => simp [esc, unesc, hprev]
      | cons c' rest' =>
        have hne : (c' == c) = false := by
          simp only [List.head?_cons, ne_eq, Option.some.injEq] at hh
          simpa using hh
        simp only [esc, beq_self_eq_true, if_true, hprev, Bool.false_eq_true, if_false, hne]
        rw [unesc_qq, ih c h2]
        rfl
    · have hcq : (c == q) = false := by simpa using hc
      cases rest with
      | nil => simp [esc, unesc, hcq]
      | cons c' rest' =>
        simp only [esc, hcq, Bool.false_eq_true, if_false]
        rw [unesc_cons_ne q c _ hcq, ih c h2]
        rfl

/-- string literals (rendering starts with no previous character) -/
theorem literal_round_trip (s : List Char) (h : Clean '\'' (default : Char) s) :
    unesc '\'' (esc '\'' default s) = some s := unesc_esc '\'' s default h

/-- quoted identifiers with a doubling quote style -/
theorem ident_round_trip (q : Char) (s : List Char) (h : Clean q (default : Char) s) :
    unesc q (esc q default s) = some s := unesc_esc q s default h

/-- a value with two consecutive quotes is written unchanged and read back with one quote (`a''b` ↦ `a'b`) -/
theorem doubled_quote_counterexample :
    unesc '\'' (esc '\'' default ['a', '\'', '\'', 'b']) = some ['a', '\'', 'b'] := by decide

/-- a quote after a backslash is written unescaped: the literal body then contains a lone quote -/
theorem backslash_quote_counterexample : unesc '\'' (esc '\'' default ['a', '\\', '\'', 'b']) = none := by decide

/-- bracket quoting cannot escape its closing delimiter -/
theorem bracket_counterexample : unbracket (bracket ['a', ']', 'b']) = some ['a'] := by decide

/-- bracket quoting is faithful for names without `]` -/
theorem bracket_round_trip (s : List Char) (h : ∀ c ∈ s, c ≠ ']') : unbracket (bracket s) = some s := by
  have key : List.takeWhile (· != ']') (s ++ [']']) = s := by
    induction s with
    | nil => simp
    | cons c rest ih =>
      have hc : (c != ']') = true := by simpa using h c List.mem_cons_self
      simp only [List.cons_append, List.takeWhile_cons, hc, if_true]
      congr 1
      exact ih (fun x hx => h x (List.mem_cons_of_mem _ hx))
  simp only [bracket, unbracket, List.cons_append, key]

/-- Non-vacuity: an ordinary apostrophe is doubled and read back. -/
example : esc '\'' default ['i', 't', '\'', 's'] = ['i', 't', '\'', '\'', 's'] ∧ Clean '\'' default ['i', 't', '\'', 's'] := by
  refine ⟨by decide, ?_⟩
  simp [Clean]

end Qrlew.C08

import QrlewModel.Lemmas.Rules
import QrlewModel.Model.KTree
import QrlewModel.Generated.Rules
import QrlewModel.Props.C13
/-!
# C02 — no un-noised path from protected tables to a DP / published / public result

`no_unnoised_path` is generic in the rule table: it assumes only the *local* condition `LocalSafe`
on the table.  `generated_local_safe` discharges that condition, by `decide`, for the table that the
translator regenerates from the real `RewritingRulesSetter` on every run — so a rule added to or
changed in `/repo` that opens an un-noised path breaks this obligation.
-/
namespace Qrlew.C02
open Qrlew

variable {κ : Type}

/-- Local (per-rule) safety of a rule table. -/
structure LocalSafe (table : κ → List Rule) (prot red leafK : κ → Bool) : Prop where
  /-- a protected table is only ever labelled private, privacy-unit-preserving, or replaced by synthetic data -/
  prot_leaf : ∀ k, prot k = true → ∀ r ∈ table k, r.output = .priv ∨ r.output = .pup ∨ r.output = .sd
  /-- a rule consuming raw (private / tracked) rows produces raw rows again, unless it is the DP rule on an aggregation -/
  raw_in_raw_out : ∀ k, leafK k = false → ∀ r ∈ table k,
    (∃ i ∈ r.inputs, isRaw i = true) → isRaw r.output = true ∨ (red k = true ∧ r = dpRule)

/-- Arity well-formedness: maps/reduces/joins/sets are inner nodes (tables and values are leaves). -/
def WFK (leafK : κ → Bool) : KTree κ → Prop
  | .leaf _ => True
  | .unary k c => leafK k = false ∧ WFK leafK c
  | .binary k l r => leafK k = false ∧ WFK leafK l ∧ WFK leafK r

/-- Key invariant: if a consistent derivation still exposes protected rows at its root, its root label is raw. -/
theorem exposed_raw (table : κ → List Rule) (prot red leafK : κ → Bool)
    (hs : LocalSafe table prot red leafK)
    (t : KTree κ) (hwf : WFK leafK t) (d : Deriv) (hc : Consistent d (annot table t)) (he : exposed prot red d t = true) :
    isRaw d.output = true := by
  induction t generalizing d with
  | leaf k =>
    cases d with
    | leaf r =>
      simp only [exposed, Bool.and_eq_true, bne_iff_ne, ne_eq] at he
      simp only [annot, Consistent] at hc
      rcases hs.prot_leaf k he.1 r hc with h | h | h
      · simp [Deriv.output, Deriv.rule, h, isRaw]
      · simp [Deriv.output, Deriv.rule, h, isRaw]
      · exact absurd h he.2
    | unary r c => simp [exposed] at he
    | binary r a b => simp [exposed] at he
  | unary k c ih =>
    cases d with
    | leaf r => simp [exposed] at he
    | binary r a b => simp [exposed] at he
    | unary r d' =>
      simp only [exposed, Bool.and_eq_true, Bool.not_eq_true', Bool.and_eq_false_iff] at he
      simp only [annot, Consistent] at hc
      obtain ⟨hr, hf, hc'⟩ := hc
      have hraw := ih hwf.2 d' hc' he.2
      have hk : leafK k = false := hwf.1
      have hin : ∃ i ∈ r.inputs, isRaw i = true := by
        simp only [fits1, beq_iff_eq] at hf
        exact ⟨d'.output, List.mem_of_getElem? hf, hraw⟩
      rcases hs.raw_in_raw_out k hk r hr hin with h | ⟨h1, h2⟩
      · exact h
      · rcases he.1 with h | h
        · rw [h1] at h; exact absurd h (by decide)
        · rw [h2] at h; simp at h
  | binary k l r ihl ihr =>
    cases d with
    | leaf r0 => simp [exposed] at he
    | unary r0 c => simp [exposed] at he
    | binary r0 a b =>
      simp only [exposed, Bool.or_eq_true] at he
      simp only [annot, Consistent] at hc
      obtain ⟨hr, hf, hl, hr'⟩ := hc
      have hk : leafK k = false := hwf.1
      simp only [fits2, Bool.and_eq_true, beq_iff_eq] at hf
      have hin : ∃ i ∈ r0.inputs, isRaw i = true := by
        rcases he with he | he
        · exact ⟨a.output, List.mem_of_getElem? hf.1, ihl hwf.2.1 a hl he⟩
        · exact ⟨b.output, List.mem_of_getElem? hf.2, ihr hwf.2.2 b hr' he⟩
      rcases hs.raw_in_raw_out k hk r0 hr hin with h | ⟨_, h2⟩
      · exact h
      · -- the DP rule has a single input; a binary node fitted two
        rw [h2] at hf; simp [dpRule] at hf

/-- **No un-noised path.** In every consistent derivation whose root is labelled public, published,
differentially private (or synthetic), every protected table is either replaced by its synthetic
version or lies below a differentially-private aggregation. -/
theorem no_unnoised_path (table : κ → List Rule) (prot red leafK : κ → Bool)
    (hs : LocalSafe table prot red leafK)
    (t : KTree κ) (hwf : WFK leafK t) (d : Deriv) (hc : Consistent d (annot table t))
    (hroot : isRaw d.output = false) : exposed prot red d t = false := by
  cases he : exposed prot red d t with
  | false => rfl
  | true =>
    have := exposed_raw table prot red leafK hs t hwf d hc he
    rw [this] at hroot; exact absurd hroot (by decide)

/-! ### the regenerated table -/

open Qrlew.Generated

def prot : NodeKind → Bool
  | .tableProtected => true
  | _ => false

def red : NodeKind → Bool
  | .reduceDpOk | .reduceDpNo => true
  | _ => false

def leafK : NodeKind → Bool
  | .tableProtected | .tablePublic | .values => true
  | _ => false

def rawInRawOut (k : NodeKind) (r : Rule) : Bool :=
  !(r.inputs.any isRaw) || isRaw r.output || (red k && r == dpRule)

def protLeafOk (r : Rule) : Bool := r.output == .priv || r.output == .pup || r.output == .sd

/-- decidable form of `LocalSafe` for the generated table -/
def localSafeB (synthetic hard : Bool) : Bool :=
  NodeKind.all.all fun k =>
    (if prot k then (rulesFor k synthetic hard).all protLeafOk else true) &&
    (if leafK k then true else (rulesFor k synthetic hard).all (rawInRawOut k))

theorem localSafeB_sound (synthetic hard : Bool) (h : localSafeB synthetic hard = true) :
    LocalSafe (fun k => rulesFor k synthetic hard) prot red leafK := by
  simp only [localSafeB, List.all_eq_true, Bool.and_eq_true] at h
  have hall : ∀ k : NodeKind, k ∈ NodeKind.all := by intro k; cases k <;> decide
  constructor
  · intro k hk r hr
    have := (h k (hall k)).1
    simp only [hk, if_true, List.all_eq_true] at this
    have := this r hr
    simp only [protLeafOk, Bool.or_eq_true, beq_iff_eq] at this
    rcases this with (h | h) | h
    · exact Or.inl h
    · exact Or.inr (Or.inl h)
    · exact Or.inr (Or.inr h)
  · intro k hk r hr ⟨i, hi, hraw⟩
    have := (h k (hall k)).2
    simp only [hk, Bool.false_eq_true, if_false, List.all_eq_true] at this
    have := this r hr
    simp only [rawInRawOut, Bool.or_eq_true, Bool.not_eq_true', Bool.and_eq_true, beq_iff_eq] at this
    rcases this with (h | h) | h
    · have : r.inputs.any isRaw = true := List.any_eq_true.mpr ⟨i, hi, hraw⟩
      rw [h] at this; exact absurd this (by decide)
    · exact Or.inl h
    · exact Or.inr h

/-- **The obligation regenerated from the code**: the rule table the real setter produces is locally
safe, in all four configurations (synthetic data or not, Soft or Hard strategy). -/
theorem generated_local_safe : ∀ synthetic hard : Bool,
    LocalSafe (fun k => rulesFor k synthetic hard) prot red leafK := by
  intro s h
  apply localSafeB_sound
  cases s <;> cases h <;> decide

/-- The statement for the code's own table: any tree, any consistent derivation with a non-raw root. -/
theorem generated_no_unnoised_path (synthetic hard : Bool) (t : KTree NodeKind) (hwf : WFK leafK t)
    (d : Deriv) (hc : Consistent d (annot (fun k => rulesFor k synthetic hard) t))
    (hroot : isRaw d.output = false) : exposed prot red d t = false :=
  no_unnoised_path _ prot red leafK (generated_local_safe synthetic hard) t hwf d hc hroot

/-- the root labels `rewrite_with_differential_privacy` accepts are never raw -/
theorem accDP_not_raw (l : Label) (h : accDP l = true) : isRaw l = false := by
  cases l <;> simp_all [accDP, isRaw]

/-- **End to end with the search of C13**: whatever derivation the compiler's search *applies* for a DP rewriting — with the
rule table regenerated from the code, on any tree — has no un-noised path; and when the search answers "unreachable" nothing
is released at all. -/
theorem chosen_dp_rewriting_safe (synthetic hard : Bool) (t : KTree NodeKind) (hwf : WFK leafK t) (d : Deriv)
    (h : choose accDP (annot (fun k => rulesFor k synthetic hard) t) = some d) : exposed prot red d t = false := by
  obtain ⟨hc, ha, _⟩ := C13.choose_optimal accDP _ d h
  exact generated_no_unnoised_path synthetic hard t hwf d hc (accDP_not_raw _ ha)

/-- Non-vacuity: `SELECT sum(x) FROM protected` — the DP derivation hides the table, the tracked one exposes it. -/
example :
    let t : KTree NodeKind := .unary .reduceDpOk (.leaf .tableProtected)
    exposed prot red (.unary ⟨[.pup], .dp⟩ (.leaf ⟨[], .pup⟩)) t = false ∧
    exposed prot red (.unary ⟨[.pup], .pup⟩ (.leaf ⟨[], .pup⟩)) t = true ∧
    Consistent (.unary ⟨[.pup], .dp⟩ (.leaf ⟨[], .pup⟩)) (annot (fun k => rulesFor k false true) t) ∧ WFK leafK t := by
  refine ⟨by decide, by decide, ?_, by simp [WFK, leafK]⟩
  simp [annot, Consistent, rulesFor, fits1, Deriv.output, Deriv.rule]

end Qrlew.C02

import QrlewModel.Model.Pup
/-!
# C05 — a tracked row depends only on its own unit's data (operator-level non-interference)

For each operator of the privacy-unit-preserving rewriting, restricting the output to a unit `u` is the
same as running the operator on the inputs restricted to `u` (published inputs are not restricted).
By induction this lifts to every tree of these operators.  Counterexamples (kernel-checked) for the two
constructs that break it on the real code as well: a kept `LIMIT`, and outer joins preserving the
non-tracked side (NULL unit id).
-/
namespace Qrlew.C05
open Qrlew.Pup

variable {U α β γ : Type} [DecidableEq U]

theorem restrict_pmap (u : U) (f : α → β) (R : List (U × α)) :
    restrict u (pmap f R) = pmap f (restrict u R) := by
  simp [restrict, pmap, List.filter_map, Function.comp_def]

theorem restrict_pfilter (u : U) (p : α → Bool) (R : List (U × α)) :
    restrict u (pfilter p R) = pfilter p (restrict u R) := by
  simp only [restrict, pfilter, List.filter_filter]
  congr 1; funext r; exact Bool.and_comm _ _

theorem restrict_punion (u : U) (R S : List (U × α)) :
    restrict u (punion R S) = punion (restrict u R) (restrict u S) := by
  simp [restrict, punion]

/-- generic step: if every output row of `F r` carries the unit of `r`, restricting commutes with `flatMap F` -/
theorem restrict_flatMap {δ : Type} (u : U) (R : List (U × α)) (F : U × α → List (U × δ))
    (hF : ∀ r, ∀ x ∈ F r, x.1 = r.1) : restrict u (R.flatMap F) = (restrict u R).flatMap F := by
  induction R with
  | nil => simp [restrict]
  | cons r t ih =>
    simp only [restrict, List.flatMap_cons, List.filter_append] at *
    rw [ih]
    by_cases h : r.1 = u
    · have hk : List.filter (fun x => x.1 == u) (F r) = F r := by
        apply List.filter_eq_self.mpr
        intro x hx; simp [hF r x hx, h]
      simp [h, hk]
    · have hk : List.filter (fun x => x.1 == u) (F r) = [] := by
        apply List.filter_eq_nil_iff.mpr
        intro x hx; simp [hF r x hx, h]
      have hb : (r.1 == u) = false := by simpa using h
      simp [hb, hk]

theorem flatMap_congr_on {δ ε : Type} (l : List δ) (f g : δ → List ε) (h : ∀ x ∈ l, f x = g x) : l.flatMap f = l.flatMap g := by
  induction l with
  | nil => rfl
  | cons a t ih =>
    simp only [List.flatMap_cons]
    rw [h a List.mem_cons_self, ih (fun x hx => h x (List.mem_cons_of_mem _ hx))]

theorem restrict_joinPublished (u : U) (on : α → β → Bool) (R : List (U × α)) (P : List β) :
    restrict u (joinPublished on R P) = joinPublished on (restrict u R) P := by
  unfold joinPublished
  apply restrict_flatMap
  intro r x hx
  simp only [List.mem_map] at hx
  obtain ⟨b, _, rfl⟩ := hx; rfl

theorem restrict_leftJoinPublished (u : U) (on : α → β → Bool) (R : List (U × α)) (P : List β) :
    restrict u (leftJoinPublished on R P) = leftJoinPublished on (restrict u R) P := by
  unfold leftJoinPublished
  apply restrict_flatMap
  intro r x hx
  simp only at hx
  split at hx
  · simp at hx; rw [hx]
  · simp only [List.mem_map] at hx; obtain ⟨b, _, rfl⟩ := hx; rfl

/-- joining two tracked relations: only rows of the same unit meet, so the unit's output rows are
computed from the unit's rows of both sides -/
theorem restrict_joinTracked (u : U) (on : α → β → Bool) (R : List (U × α)) (S : List (U × β)) :
    restrict u (joinTracked on R S) = joinTracked on (restrict u R) (restrict u S) := by
  have h1 : restrict u (joinTracked on R S) = joinTracked on (restrict u R) S := by
    unfold joinTracked
    apply restrict_flatMap
    intro r x hx
    simp only [List.mem_map] at hx
    obtain ⟨b, _, rfl⟩ := hx; rfl
  rw [h1]
  unfold joinTracked
  apply flatMap_congr_on
  intro r hr
  have hru : r.1 = u := by
    have := (List.mem_filter.mp hr).2; simpa using this
  congr 1
  simp only [restrict, List.filter_filter]
  apply List.filter_congr
  intro s _
  by_cases hs : s.1 = u
  · simp [hru, hs]
  · have : (u == s.1) = false := by simp; exact fun h => hs h.symm
    simp [hru, this, hs]

/-- a unit's per-unit aggregates are computed from its own rows only -/
theorem restrict_preduce [DecidableEq γ] (u : U) (key : α → γ) (agg : List α → β) (R : List (U × α)) :
    (restrict u (preduce key agg R)).map (·.2.2) =
      ((preduce key agg R).filter fun g => g.1 == u).map fun g =>
        agg (((restrict u R).filter fun r => key r.2 == g.2.1).map (·.2)) := by
  simp only [restrict, preduce, List.filter_map, List.map_map, Function.comp_def]
  apply List.map_congr_left
  intro g hg
  simp only [List.mem_filter] at hg
  have hu : g.1 = u := by simpa using hg.2
  simp only [List.filter_filter]
  congr 2
  apply List.filter_congr
  intro r _
  simp [hu, Bool.and_comm]

/-! ### the constructs that break it -/

/-- a `LIMIT` kept on a tracked map: deleting another unit's rows lets this unit's rows slide in -/
theorem limit_interferes :
    restrict 2 (plimit 1 [((1 : Nat), "a"), (2, "b")]) ≠ plimit 1 (restrict 2 [((1 : Nat), "a"), (2, "b")]) := by decide

/-- RIGHT/FULL outer join preserving the published side: unmatched rows have no unit id -/
theorem rightJoin_null_unit :
    (none, (none, "x")) ∈ rightJoinPublished (fun (_ : String) (_ : String) => false) [((1 : Nat), "a")] ["x"] := by decide

/-! ## Neighbouring datasets: removing one unit leaves every other unit's output rows as they were -/

/-- the dataset without the rows of unit `u` -/
def without (u : U) (R : List (U × α)) : List (U × α) := R.filter fun r => !(r.1 == u)

theorem restrict_without (u v : U) (hne : v ≠ u) (R : List (U × α)) : restrict v (without u R) = restrict v R := by
  unfold restrict without
  rw [List.filter_filter]
  apply List.filter_congr
  intro r _
  by_cases h : r.1 = v
  · simp [h, hne]
  · have : (r.1 == v) = false := by simpa using h
    simp [this]

/-- **Non-interference between neighbours**, for every operator (or tree of operators) that commutes with `restrict`: the rows
the output attributes to a unit `v` are the same whether or not another unit `u` is in the data. -/
theorem neighbour_stable {δ : Type} (op : List (U × α) → List (U × δ)) (hop : ∀ v R, restrict v (op R) = op (restrict v R))
    (u v : U) (hne : v ≠ u) (R : List (U × α)) : restrict v (op (without u R)) = restrict v (op R) := by
  rw [hop, hop, restrict_without u v hne]

/-- instances: projection, WHERE, joins with published data — and any composition of them -/
theorem neighbour_stable_pmap (f : α → β) (u v : U) (hne : v ≠ u) (R : List (U × α)) :
    restrict v (pmap f (without u R)) = restrict v (pmap f R) :=
  neighbour_stable (pmap f) (fun v R => restrict_pmap v f R) u v hne R

theorem neighbour_stable_pfilter (p : α → Bool) (u v : U) (hne : v ≠ u) (R : List (U × α)) :
    restrict v (pfilter p (without u R)) = restrict v (pfilter p R) :=
  neighbour_stable (pfilter p) (fun v R => restrict_pfilter v p R) u v hne R

theorem neighbour_stable_joinPublished (on : α → β → Bool) (P : List β) (u v : U) (hne : v ≠ u) (R : List (U × α)) :
    restrict v (joinPublished on (without u R) P) = restrict v (joinPublished on R P) :=
  neighbour_stable (fun R => joinPublished on R P) (fun v R => restrict_joinPublished v on R P) u v hne R

theorem neighbour_stable_leftJoinPublished (on : α → β → Bool) (P : List β) (u v : U) (hne : v ≠ u) (R : List (U × α)) :
    restrict v (leftJoinPublished on (without u R) P) = restrict v (leftJoinPublished on R P) :=
  neighbour_stable (fun R => leftJoinPublished on R P) (fun v R => restrict_leftJoinPublished v on R P) u v hne R

theorem commutes_comp {δ ε : Type} (f : List (U × α) → List (U × δ)) (g : List (U × δ) → List (U × ε))
    (hf : ∀ v R, restrict v (f R) = f (restrict v R)) (hg : ∀ v R, restrict v (g R) = g (restrict v R)) :
    ∀ v R, restrict v (g (f R)) = g (f (restrict v R)) := fun v R => by rw [hg, hf]

/-- … while a kept LIMIT is not stable: removing unit 1 changes what unit 2 gets -/
theorem limit_not_neighbour_stable :
    restrict 2 (plimit 1 (without 1 [((1 : Nat), "a"), (2, "b")])) ≠ restrict 2 (plimit 1 [((1 : Nat), "a"), (2, "b")]) := by decide

/-- Non-vacuity: a join of two tracked relations where units share join keys. -/
example : restrict 1 (joinTracked (fun (a b : Nat) => a == b) [((1 : Nat), 7), (2, 7)] [(1, 7), (2, 7)]) = [(1, (7, 7))] := by decide

end Qrlew.C05

import QrlewModel.Lemmas.Monotone
import QrlewModel.Model.Injection
/-!
# C12 — conversions are value-preserving injections within the converted type (numeric core)
-/
namespace Qrlew.C12
open Qrlew

/-- The converted type contains the image of every value: for any monotone (or antitone) value map,
mapping and re-ordering the endpoints of every interval covers the image of every member. -/
theorem image_mem (cap : Nat) (hc : 2 ≤ cap) (f : Int → Int) (l : Ivs)
    (hmono : (∀ u v, u ≤ v → f u ≤ f v) ∨ (∀ u v, u ≤ v → f v ≤ f u)) (x : Int) (hx : Mem x l) :
    Mem (f x) (imageIvs cap f l) := by
  obtain ⟨ab, hab, hxab⟩ := hx
  unfold imageIvs
  apply mem_fromIntervals cap hc
  · intro p hp
    simp only [List.mem_map] at hp
    obtain ⟨q, _, rfl⟩ := hp
    split <;> simp only <;> omega
  · refine ⟨_, List.mem_map.mpr ⟨ab, hab, rfl⟩, ?_⟩
    rcases hmono with h | h
    · have h1 := h ab.1 x hxab.1; have h2 := h x ab.2 hxab.2
      split <;> simp only <;> omega
    · have h1 := h ab.1 x hxab.1; have h2 := h x ab.2 hxab.2
      split <;> simp only <;> omega

/-- Boolean → Integer is injective and the reverse conversion returns the original value. -/
theorem bool_round_trip (b : Bool) : intToBool? (boolToInt b) = some b := by cases b <;> rfl
theorem boolToInt_injective (a b : Bool) (h : boolToInt a = boolToInt b) : a = b := by
  cases a <;> cases b <;> simp [boolToInt] at h <;> rfl

/-- An out-of-range integer is refused rather than approximated. -/
theorem intToBool_refuses (n : Int) (h0 : n ≠ 0) (h1 : n ≠ 1) : intToBool? n = none := by
  simp [intToBool?, h0, h1]

/-- an accepted Integer → Boolean conversion is value-preserving: the boolean converts back to exactly that integer … -/
theorem intToBool_exact (n : Int) (b : Bool) (h : intToBool? n = some b) : boolToInt b = n := by
  unfold intToBool? at h
  split at h
  · rename_i h0; simp only [Option.some.injEq] at h; subst h; simp [boolToInt, h0]
  · split at h
    · rename_i _ h1; simp only [Option.some.injEq] at h; subst h; simp [boolToInt, h1]
    · simp at h

/-- … hence injective where it is defined -/
theorem intToBool_injective (m n : Int) (b : Bool) (hm : intToBool? m = some b) (hn : intToBool? n = some b) : m = n := by
  rw [← intToBool_exact m b hm, ← intToBool_exact n b hn]

/-- an accepted Float → Integer conversion is value-preserving as far as the float can tell: the integer converts back to exactly
that float (the acceptance test *is* the round trip) — what is lost at ±2⁶³ is `floatToInt_not_value_preserving` -/
theorem floatToInt_round_trip (x n : Int) (h : floatToInt? x = some n) : ofInt n = x := by
  unfold floatToInt? at h
  split at h
  · rename_i hx; simp only [Option.some.injEq] at h; subst h; exact hx
  · simp at h

theorem floatToInt_injective (x y n : Int) (hx : floatToInt? x = some n) (hy : floatToInt? y = some n) : x = y := by
  rw [← floatToInt_round_trip x n hx, ← floatToInt_round_trip y n hy]

/-- `i64 as f64` is exact up to 2^53 … -/
theorem ofInt_exact (n : Int) (h : -(2 ^ 53) < n ∧ n < 2 ^ 53) : ofInt n = n := by
  have hn : n.natAbs < 2 ^ 53 := by omega
  unfold ofInt ofNatF
  simp only [hn, if_true]
  split <;> omega

/-- … hence Integer → Float is injective there (`injective_partial`) -/
theorem intToFloat_injective_partial (a b : Int) (ha : -(2 ^ 53) < a ∧ a < 2 ^ 53) (hb : -(2 ^ 53) < b ∧ b < 2 ^ 53)
    (h : ofInt a = ofInt b) : a = b := by
  rw [ofInt_exact a ha, ofInt_exact b hb] at h; exact h

/-- … but NOT beyond: two different integers convert to the same float (as observed on the real code). -/
theorem intToFloat_not_injective : ofInt (2 ^ 53) = ofInt (2 ^ 53 + 1) ∧ (2 ^ 53 : Int) ≠ 2 ^ 53 + 1 := by decide

/-- Float → Integer at 2^63 is accepted and changes the value (saturating `as` passes the round-trip guard). -/
theorem floatToInt_not_value_preserving : floatToInt? (2 ^ 63) = some (2 ^ 63 - 1) := by decide

/-- Float → Integer within the exact range preserves the value and round-trips. -/
theorem floatToInt_exact (x : Int) (h : -(2 ^ 53) < x ∧ x < 2 ^ 53) : floatToInt? x = some x := by
  have hs : floatToI64 x = x := by unfold floatToI64 sat i64Min i64Max; omega
  unfold floatToInt?
  rw [hs, ofInt_exact x h]; simp

/-! ### Date ↔ DateTime -/

/-- Date → DateTime → Date returns the original date; Date → DateTime is injective. -/
theorem date_round_trip (d : Int) : stampToDate? (dateToStamp d) = some d := by simp [stampToDate?, dateToStamp]
theorem dateToStamp_injective (a b : Int) (h : dateToStamp a = dateToStamp b) : a = b := by
  simpa [dateToStamp] using h

/-- DateTime → Date is value-preserving wherever it is accepted: the accepted timestamp *is* the midnight of the date returned. -/
theorem stampToDate_exact (s : Stamp) (d : Int) (h : stampToDate? s = some d) : dateToStamp d = s := by
  unfold stampToDate? at h
  split at h
  · rename_i hz
    cases s with
    | mk day sec nano =>
      simp only [Option.some.injEq] at h
      simp only at hz
      simp [dateToStamp, ← h, hz.1, hz.2]
  · simp at h

/-- … hence injective on what it accepts … -/
theorem stampToDate_injective (s t : Stamp) (d : Int) (hs : stampToDate? s = some d) (ht : stampToDate? t = some d) : s = t := by
  rw [← stampToDate_exact s d hs, ← stampToDate_exact t d ht]

/-- … and a timestamp with any time of day, down to one nanosecond after midnight, is refused rather than truncated. -/
theorem stampToDate_refuses (s : Stamp) (h : s.sec ≠ 0 ∨ s.nano ≠ 0) : stampToDate? s = none := by
  unfold stampToDate?
  split
  · rename_i hz; rcases h with h | h
    · exact absurd hz.1 h
    · exact absurd hz.2 h
  · rfl

example : stampToDate? ⟨18700, 0, 250000000⟩ = none ∧ stampToDate? ⟨18700, 0, 0⟩ = some 18700 := by decide

/-- Non-vacuity: ties-to-even at the first inexact integers. -/
example : ofInt (2 ^ 53 + 1) = 2 ^ 53 ∧ ofInt (2 ^ 53 + 3) = 2 ^ 53 + 4 ∧ ofInt (-(2 ^ 62) - 513) = -(2 ^ 62) - 1024 ∧ ofInt (-(2 ^ 62) - 512) = -(2 ^ 62) ∧
    ofInt 9223372036854775807 = 2 ^ 63 := by decide

end Qrlew.C12

import QrlewModel.Props.C11Lat
import QrlewModel.Props.C06
import QrlewModel.Model.InjLat
/-!
# C12 — conversions between composite types (the fragment compared by the `injlat` stream)

`InjLat.imageT` / `InjLat.conv` are compared line by line with `DataType::into_data_type` and the injection's `value` on nested
types (interval sets, nullable integers, structs, sized lists).  For every pair of types of the fragment and every value:

* `conv_total`: when the type converts, every value of it converts (nothing is refused);
* `conv_in_image`: the converted value lies in the converted type;
* `conv_injective`: two values never convert to the same value;
* `conv_preserves`: conversion only wraps leaves into `some`: stripping the wrappers gives back the original value — and a leaf
  that does not fit the target is refused, never approximated (`conv_refuses_leaf`).
-/
namespace Qrlew.C12
open Qrlew Qrlew.DTLat Qrlew.InjLat

/-! ### `Intervals::contains` is membership -/

theorem interIv_point (l : Ivs) (m x : Int) (h : SortedAbove m l) (hx : Mem x l) : interIv l x x = [(x, x)] := by
  induction l generalizing m with
  | nil => simp at hx
  | cons p rest ih =>
    obtain ⟨a, b⟩ := p
    simp only [SortedAbove] at h
    rw [mem_cons] at hx
    unfold interIv
    by_cases h1 : b < x
    · simp only [h1, if_true]
      rcases hx with hx | hx
      · omega
      · exact ih b h.2.2 hx
    · simp only [h1, if_false]
      by_cases h2 : x < a
      · rcases hx with hx | hx
        · omega
        · have := mem_above h.2.2 hx; omega
      · simp only [h2, if_false]
        have hmax : max a x = x := by omega
        have hmin : min b x = x := by omega
        rw [hmax, hmin]
        -- nothing after this interval reaches down to `x`
        cases rest with
        | nil => simp [interIv]
        | cons q rest' =>
          obtain ⟨a', b'⟩ := q
          simp only [SortedAbove] at h
          have : ¬ b' < x := by omega
          have h3 : x < a' := by omega
          simp [interIv, this, h3]

theorem union_nil_left (cap : Nat) (r : Ivs) : Qrlew.union cap [] r = r := by
  unfold Qrlew.union
  cases r with
  | nil => simp
  | cons p rest => simp

theorem simplify_nil (cap : Nat) : simplify cap [] = [] := by
  unfold simplify; split <;> rfl

theorem point_set (cap : Nat) (hc : 2 ≤ cap) (x : Int) : unionInterval cap (simplify cap []) x x = [(x, x)] := by
  rw [simplify_nil]
  unfold unionInterval
  rw [show unionIv [] x x = [(x, x)] from rfl, simplify_eq_of_lt]
  simp; omega

theorem containsV_complete (cap : Nat) (hc : 2 ≤ cap) (l : Ivs) (hl : Good cap l) (x : Int) (hx : Mem x l) :
    containsV cap l x = true := by
  obtain ⟨m, hm⟩ := hl.1.exists_sortedAbove
  have hII : interInterval cap l x x = [(x, x)] := by
    unfold interInterval
    rw [interIv_point l m x hm hx, simplify_eq_of_lt]; simp; omega
  unfold containsV isSubsetOf
  rw [point_set cap hc]
  unfold Qrlew.inter
  by_cases hlen : l.length ≤ 1
  · -- the set is a single interval (it is not empty: it has a member)
    cases l with
    | nil => simp at hx
    | cons p rest =>
      cases rest with
      | cons _ _ => simp at hlen
      | nil =>
        obtain ⟨a, b⟩ := p
        rw [mem_cons] at hx
        have hab : a ≤ x ∧ x ≤ b := by simpa using hx
        have hi : interIv [(x, x)] a b = [(x, x)] := by
          have h1 : ¬ x < a := by omega
          have h2 : ¬ b < x := by omega
          have hmax : max x a = x := by omega
          have hmin : min x b = x := by omega
          simp [interIv, h1, h2, hmax, hmin]
        have hI : interInterval cap [(x, x)] a b = [(x, x)] := by
          unfold interInterval; rw [hi, simplify_eq_of_lt]; simp; omega
        simp only [List.length_cons, List.length_nil, Nat.le_refl, if_true, List.foldl_cons, List.foldl_nil]
        rw [simplify_nil, union_nil_left, hI]
        simp
  · have hlen' : ¬ l.length ≤ ([(x, x)] : Ivs).length := by simpa using hlen
    simp only [hlen', if_false, List.foldl_cons, List.foldl_nil]
    rw [simplify_nil, union_nil_left, hII]
    simp

theorem containsV_sound (cap : Nat) (hc : 2 ≤ cap) (l : Ivs) (hl : Good cap l) (x : Int) (h : containsV cap l x = true) : Mem x l := by
  unfold containsV at h
  rw [point_set cap hc] at h
  have hg : Good cap [(x, x)] := C06.good_single cap hc (x, x) (Int.le_refl x)
  exact C11.isSubsetOf_sound_partial cap hc [(x, x)] l hg hl (by simpa using hl.2) h x ⟨(x, x), by simp, by simp⟩

/-! ### values of a type, lists of conversions -/

/-- membership of the source type (strict: a nullable leaf holds `none` or `some n`) -/
def memS : DT → V → Prop
  | .int s, v => ∃ n, v = .i n ∧ Mem n s
  | .opt s, v => v = .none ∨ ∃ n, v = .some (.i n) ∧ Mem n s
  | .pair a b, v => ∃ x y, v = .pair x y ∧ memS a x ∧ memS b y
  | .list t sz, v => ∃ vs, v = .list vs ∧ (∀ x ∈ vs, memS t x) ∧ Mem (vs.length : Int) sz

theorem mapOpt_total (f : V → Option V) : ∀ vs : List V, (∀ v ∈ vs, ∃ w, f v = some w) →
    ∃ ws, mapOpt f vs = some ws ∧ ws.length = vs.length
  | [], _ => ⟨[], rfl, rfl⟩
  | v :: vs, h => by
    obtain ⟨w, hw⟩ := h v List.mem_cons_self
    obtain ⟨ws, hws, hl⟩ := mapOpt_total f vs (fun x hx => h x (List.mem_cons_of_mem _ hx))
    exact ⟨w :: ws, by simp [mapOpt, hw, hws], by simp [hl]⟩

theorem mapOpt_cons (f : V → Option V) (v : V) (vs ws : List V) (h : mapOpt f (v :: vs) = some ws) :
    ∃ w ws', ws = w :: ws' ∧ f v = some w ∧ mapOpt f vs = some ws' := by
  simp only [mapOpt, bind, Option.bind, pure] at h
  cases hf : f v with
  | none => simp [hf] at h
  | some w =>
    cases hr : mapOpt f vs with
    | none => simp [hf, hr] at h
    | some ws' => simp only [hf, hr, Option.some.injEq] at h; exact ⟨w, ws', h.symm, rfl, rfl⟩

theorem mapOpt_length (f : V → Option V) : ∀ (vs ws : List V), mapOpt f vs = some ws → ws.length = vs.length
  | [], ws, h => by simp [mapOpt] at h; subst h; rfl
  | v :: vs, ws, h => by
    obtain ⟨w, ws', rfl, _, hr⟩ := mapOpt_cons f v vs ws h
    simp [mapOpt_length f vs ws' hr]

theorem mapOpt_forall (f : V → Option V) (P : V → Prop) (Q : V → Prop) (hPQ : ∀ v w, P v → f v = some w → Q w) :
    ∀ (vs ws : List V), (∀ v ∈ vs, P v) → mapOpt f vs = some ws → ∀ w ∈ ws, Q w
  | [], ws, _, h => by simp [mapOpt] at h; subst h; simp
  | v :: vs, ws, hP, h => by
    obtain ⟨w, ws', rfl, hf, hr⟩ := mapOpt_cons f v vs ws h
    intro x hx
    rcases List.mem_cons.mp hx with rfl | hx
    · exact hPQ v _ (hP v List.mem_cons_self) hf
    · exact mapOpt_forall f P Q hPQ vs ws' (fun y hy => hP y (List.mem_cons_of_mem _ hy)) hr x hx

theorem mapOpt_injective (f : V → Option V) : ∀ (vs vs' ws : List V),
    (∀ v ∈ vs, ∀ v' w, f v = some w → f v' = some w → v = v') →
    mapOpt f vs = some ws → mapOpt f vs' = some ws → vs = vs'
  | [], vs', ws, _, h, h' => by
    simp [mapOpt] at h; subst h
    cases vs' with
    | nil => rfl
    | cons a t => obtain ⟨_, _, he, _, _⟩ := mapOpt_cons f a t [] h'; cases he
  | v :: vs, vs', ws, hinj, h, h' => by
    obtain ⟨w, ws', rfl, hf, hr⟩ := mapOpt_cons f v vs ws h
    cases vs' with
    | nil => simp [mapOpt] at h'
    | cons a t =>
      obtain ⟨w2, ws2, he, hf', hr'⟩ := mapOpt_cons f a t _ h'
      cases he
      have : v = a := hinj v List.mem_cons_self a w hf hf'
      subst this
      rw [mapOpt_injective f vs t ws' (fun x hx => hinj x (List.mem_cons_of_mem _ hx)) hr hr']

/-! ### inversion lemmas for `imageT` and `conv` -/

theorem imageT_int_int {cap : Nat} {a b : Ivs} {I : DT} (h : imageT cap (.int a) (.int b) = some I) :
    isSubsetOf cap a b = true ∧ I = .int a := by
  unfold imageT at h; split at h
  · rename_i hs; exact ⟨hs, by simpa using h.symm⟩
  · simp at h

theorem imageT_int_opt {cap : Nat} {a b : Ivs} {I : DT} (h : imageT cap (.int a) (.opt b) = some I) :
    isSubsetOf cap a b = true ∧ I = .opt a := by
  unfold imageT at h; split at h
  · rename_i hs; exact ⟨hs, by simpa using h.symm⟩
  · simp at h

theorem imageT_opt_opt {cap : Nat} {a b : Ivs} {I : DT} (h : imageT cap (.opt a) (.opt b) = some I) :
    isSubsetOf cap a b = true ∧ I = .opt a := by
  unfold imageT at h; split at h
  · rename_i hs; exact ⟨hs, by simpa using h.symm⟩
  · simp at h

theorem imageT_pair {cap : Nat} {a1 a2 b1 b2 I : DT} (h : imageT cap (.pair a1 a2) (.pair b1 b2) = some I) :
    ∃ i1 i2, imageT cap a1 b1 = some i1 ∧ imageT cap a2 b2 = some i2 ∧ I = .pair i1 i2 := by
  simp only [imageT, bind, Option.bind, pure] at h
  cases h1 : imageT cap a1 b1 with
  | none => simp [h1] at h
  | some i1 =>
    cases h2 : imageT cap a2 b2 with
    | none => simp [h1, h2] at h
    | some i2 => simp only [h1, h2, Option.some.injEq] at h; exact ⟨i1, i2, rfl, rfl, h.symm⟩

theorem imageT_list {cap : Nat} {t t' I : DT} {s s' : Ivs} (h : imageT cap (.list t s) (.list t' s') = some I) :
    ∃ u, imageT cap t t' = some u ∧ isSubsetOf cap s s' = true ∧ I = .list u s := by
  simp only [imageT, bind, Option.bind, pure] at h
  cases h1 : imageT cap t t' with
  | none => simp [h1] at h
  | some u =>
    simp only [h1] at h
    split at h
    · rename_i hs; exact ⟨u, rfl, hs, by simpa using h.symm⟩
    · simp at h

theorem conv_pair {cap : Nat} {a1 a2 b1 b2 : DT} {x y w : V} (h : conv cap (.pair a1 a2) (.pair b1 b2) (.pair x y) = some w) :
    ∃ wx wy, conv cap a1 b1 x = some wx ∧ conv cap a2 b2 y = some wy ∧ w = .pair wx wy := by
  simp only [conv, bind, Option.bind, pure] at h
  cases hx : conv cap a1 b1 x with
  | none => simp [hx] at h
  | some wx =>
    cases hy : conv cap a2 b2 y with
    | none => simp [hx, hy] at h
    | some wy => simp only [hx, hy, Option.some.injEq] at h; exact ⟨wx, wy, rfl, rfl, h.symm⟩

theorem conv_list {cap : Nat} {t t' : DT} {s s' : Ivs} {vs : List V} {w : V} (h : conv cap (.list t s) (.list t' s') (.list vs) = some w) :
    ∃ ws, mapOpt (conv cap t t') vs = some ws ∧ containsV cap s' (Int.ofNat ws.length) = true ∧ w = .list ws := by
  simp only [conv, bind, Option.bind, pure] at h
  cases hws : mapOpt (conv cap t t') vs with
  | none => simp [hws] at h
  | some ws =>
    simp only [hws] at h
    split at h
    · rename_i hc; exact ⟨ws, rfl, hc, by simpa using h.symm⟩
    · simp at h

theorem conv_leaf {cap : Nat} {b : Ivs} {n : Int} {w r : V} (h : (if containsV cap b n = true then some r else none) = some w) :
    containsV cap b n = true ∧ w = r := by
  split at h
  · rename_i hc; exact ⟨hc, by simpa using h.symm⟩
  · simp at h

theorem conv_int_int {cap : Nat} {a b : Ivs} {n : Int} {w : V} (h : conv cap (.int a) (.int b) (.i n) = some w) :
    containsV cap b n = true ∧ w = .i n := by simp only [conv] at h; exact conv_leaf h

theorem conv_int_opt {cap : Nat} {a b : Ivs} {n : Int} {w : V} (h : conv cap (.int a) (.opt b) (.i n) = some w) :
    containsV cap b n = true ∧ w = .some (.i n) := by simp only [conv] at h; exact conv_leaf h

theorem conv_opt_some {cap : Nat} {a b : Ivs} {n : Int} {w : V} (h : conv cap (.opt a) (.opt b) (.some (.i n)) = some w) :
    containsV cap b n = true ∧ w = .some (.i n) := by simp only [conv] at h; exact conv_leaf h

theorem conv_opt_none {cap : Nat} {a b : Ivs} {w : V} (h : conv cap (.opt a) (.opt b) .none = some w) : w = .none := by
  simp only [conv] at h; simpa using h.symm

/-! ### the conversion theorems -/

/-- **Total**: when the type converts, every value of it converts. -/
theorem conv_total (cap k : Nat) (hc : 2 ≤ cap) (hk : k * k < cap) :
    ∀ (A B I : DT), C11.WFT cap k A → C11.WFT cap k B → imageT cap A B = some I → ∀ v, memS A v → ∃ w, conv cap A B v = some w := by
  intro A
  induction A with
  | int a =>
    intro B I wa wb h v hv
    obtain ⟨n, rfl, hn⟩ := hv
    cases B with
    | int b =>
      have := containsV_complete cap hc b wb.1 n (C11.leaf_subset cap k hc hk a b wa wb (imageT_int_int h).1 n hn)
      exact ⟨.i n, by simp [conv, this]⟩
    | opt b =>
      have := containsV_complete cap hc b wb.1 n (C11.leaf_subset cap k hc hk a b wa wb (imageT_int_opt h).1 n hn)
      exact ⟨.some (.i n), by simp [conv, this]⟩
    | pair _ _ => simp [imageT] at h
    | list _ _ => simp [imageT] at h
  | opt a =>
    intro B I wa wb h v hv
    cases B with
    | int b => simp [imageT] at h
    | opt b =>
      rcases hv with rfl | ⟨n, rfl, hn⟩
      · exact ⟨.none, by simp [conv]⟩
      · have := containsV_complete cap hc b wb.1 n (C11.leaf_subset cap k hc hk a b wa wb (imageT_opt_opt h).1 n hn)
        exact ⟨.some (.i n), by simp [conv, this]⟩
    | pair _ _ => simp [imageT] at h
    | list _ _ => simp [imageT] at h
  | pair a1 a2 ih1 ih2 =>
    intro B I wa wb h v hv
    cases B with
    | int b => simp [imageT] at h
    | opt b => simp [imageT] at h
    | pair b1 b2 =>
      obtain ⟨i1, i2, h1, h2, _⟩ := imageT_pair h
      obtain ⟨x, y, rfl, hx, hy⟩ := hv
      obtain ⟨wx, hwx⟩ := ih1 b1 i1 wa.1 wb.1 h1 x hx
      obtain ⟨wy, hwy⟩ := ih2 b2 i2 wa.2 wb.2 h2 y hy
      exact ⟨.pair wx wy, by simp [conv, hwx, hwy]⟩
    | list _ _ => simp [imageT] at h
  | list t sz ih =>
    intro B I wa wb h v hv
    cases B with
    | int b => simp [imageT] at h
    | opt b => simp [imageT] at h
    | pair _ _ => simp [imageT] at h
    | list t' sz' =>
      obtain ⟨u, h1, hs, _⟩ := imageT_list h
      obtain ⟨vs, rfl, hall, hlen⟩ := hv
      obtain ⟨ws, hws, hl⟩ := mapOpt_total (conv cap t t') vs (fun x hx => ih t' u wa.1 wb.1 h1 x (hall x hx))
      have hin := containsV_complete cap hc sz' wb.2.1 _ (C11.leaf_subset cap k hc hk sz sz' wa.2 wb.2 hs _ hlen)
      refine ⟨.list ws, ?_⟩
      have hin' : containsV cap sz' (ws.length : Int) = true := by rw [hl]; exact hin
      simp only [conv, bind, Option.bind, pure, hws]
      simp only [Int.ofNat_eq_natCast] at *
      simp [hin']

/-- **In the converted type**: a converted value lies in the converted type. -/
theorem conv_in_image (cap : Nat) :
    ∀ (A B I : DT), imageT cap A B = some I → ∀ v w, memS A v → conv cap A B v = some w → memS I w := by
  intro A
  induction A with
  | int a =>
    intro B I h v w hv hw
    obtain ⟨n, rfl, hn⟩ := hv
    cases B with
    | int b =>
      obtain ⟨_, rfl⟩ := imageT_int_int h
      obtain ⟨_, rfl⟩ := conv_int_int hw
      exact ⟨n, rfl, hn⟩
    | opt b =>
      obtain ⟨_, rfl⟩ := imageT_int_opt h
      obtain ⟨_, rfl⟩ := conv_int_opt hw
      exact Or.inr ⟨n, rfl, hn⟩
    | pair _ _ => simp [imageT] at h
    | list _ _ => simp [imageT] at h
  | opt a =>
    intro B I h v w hv hw
    cases B with
    | int b => simp [imageT] at h
    | opt b =>
      obtain ⟨_, rfl⟩ := imageT_opt_opt h
      rcases hv with rfl | ⟨n, rfl, hn⟩
      · rw [conv_opt_none hw]; exact Or.inl rfl
      · obtain ⟨_, rfl⟩ := conv_opt_some hw
        exact Or.inr ⟨n, rfl, hn⟩
    | pair _ _ => simp [imageT] at h
    | list _ _ => simp [imageT] at h
  | pair a1 a2 ih1 ih2 =>
    intro B I h v w hv hw
    cases B with
    | int b => simp [imageT] at h
    | opt b => simp [imageT] at h
    | pair b1 b2 =>
      obtain ⟨i1, i2, h1, h2, rfl⟩ := imageT_pair h
      obtain ⟨x, y, rfl, hx, hy⟩ := hv
      obtain ⟨wx, wy, hwx, hwy, rfl⟩ := conv_pair hw
      exact ⟨wx, wy, rfl, ih1 b1 i1 h1 x wx hx hwx, ih2 b2 i2 h2 y wy hy hwy⟩
    | list _ _ => simp [imageT] at h
  | list t sz ih =>
    intro B I h v w hv hw
    cases B with
    | int b => simp [imageT] at h
    | opt b => simp [imageT] at h
    | pair _ _ => simp [imageT] at h
    | list t' sz' =>
      obtain ⟨u, h1, _, rfl⟩ := imageT_list h
      obtain ⟨vs, rfl, hall, hlen⟩ := hv
      obtain ⟨ws, hws, _, rfl⟩ := conv_list hw
      refine ⟨ws, rfl, ?_, ?_⟩
      · exact mapOpt_forall (conv cap t t') (memS t) (memS u) (fun x y hx hy => ih t' u h1 x y hx hy) vs ws hall hws
      · rw [mapOpt_length _ vs ws hws]; exact hlen

/-- a conversion only accepts values of the source's shape -/
theorem conv_shape_int {cap : Nat} {a : Ivs} {B : DT} {v w : V} (h : conv cap (.int a) B v = some w) : ∃ n, v = .i n := by
  cases v with
  | i n => exact ⟨n, rfl⟩
  | none => cases B <;> simp [conv] at h
  | some _ => cases B <;> simp [conv] at h
  | pair _ _ => cases B <;> simp [conv] at h
  | list _ => cases B <;> simp [conv] at h

theorem conv_shape_opt {cap : Nat} {a b : Ivs} {v w : V} (h : conv cap (.opt a) (.opt b) v = some w) : v = .none ∨ ∃ n, v = .some (.i n) := by
  cases v with
  | i n => simp [conv] at h
  | none => exact Or.inl rfl
  | some x =>
    cases x with
    | i n => exact Or.inr ⟨n, rfl⟩
    | none => simp [conv] at h
    | some _ => simp [conv] at h
    | pair _ _ => simp [conv] at h
    | list _ => simp [conv] at h
  | pair _ _ => simp [conv] at h
  | list _ => simp [conv] at h

theorem conv_shape_pair {cap : Nat} {a1 a2 b1 b2 : DT} {v w : V} (h : conv cap (.pair a1 a2) (.pair b1 b2) v = some w) : ∃ x y, v = .pair x y := by
  cases v with
  | pair x y => exact ⟨x, y, rfl⟩
  | i _ => simp [conv] at h
  | none => simp [conv] at h
  | some _ => simp [conv] at h
  | list _ => simp [conv] at h

theorem conv_shape_list {cap : Nat} {t t' : DT} {s s' : Ivs} {v w : V} (h : conv cap (.list t s) (.list t' s') v = some w) : ∃ vs, v = .list vs := by
  cases v with
  | list vs => exact ⟨vs, rfl⟩
  | i _ => simp [conv] at h
  | none => simp [conv] at h
  | some _ => simp [conv] at h
  | pair _ _ => simp [conv] at h

/-- **Injective**: two values never convert to the same value. -/
theorem conv_injective (cap : Nat) :
    ∀ (A B : DT) (v v' w : V), conv cap A B v = some w → conv cap A B v' = some w → v = v' := by
  intro A
  induction A with
  | int a =>
    intro B v v' w h h'
    obtain ⟨n, rfl⟩ := conv_shape_int h
    obtain ⟨n', rfl⟩ := conv_shape_int h'
    cases B with
    | int b =>
      obtain ⟨_, e1⟩ := conv_int_int h
      obtain ⟨_, e2⟩ := conv_int_int h'
      rw [e1] at e2; simpa using e2
    | opt b =>
      obtain ⟨_, e1⟩ := conv_int_opt h
      obtain ⟨_, e2⟩ := conv_int_opt h'
      rw [e1] at e2; simpa using e2
    | pair _ _ => simp [conv] at h
    | list _ _ => simp [conv] at h
  | opt a =>
    intro B v v' w h h'
    cases B with
    | int b => cases v <;> simp [conv] at h
    | opt b =>
      rcases conv_shape_opt h with rfl | ⟨n, rfl⟩ <;> rcases conv_shape_opt h' with rfl | ⟨n', rfl⟩
      · rfl
      · have e1 := conv_opt_none h
        obtain ⟨_, e2⟩ := conv_opt_some h'
        rw [e1] at e2; cases e2
      · have e1 := conv_opt_none h'
        obtain ⟨_, e2⟩ := conv_opt_some h
        rw [e1] at e2; cases e2
      · obtain ⟨_, e1⟩ := conv_opt_some h
        obtain ⟨_, e2⟩ := conv_opt_some h'
        rw [e1] at e2; simpa using e2
    | pair _ _ => cases v <;> simp [conv] at h
    | list _ _ => cases v <;> simp [conv] at h
  | pair a1 a2 ih1 ih2 =>
    intro B v v' w h h'
    cases B with
    | int b => cases v <;> simp [conv] at h
    | opt b => cases v <;> simp [conv] at h
    | pair b1 b2 =>
      obtain ⟨x, y, rfl⟩ := conv_shape_pair h
      obtain ⟨x', y', rfl⟩ := conv_shape_pair h'
      obtain ⟨wx, wy, hx, hy, rfl⟩ := conv_pair h
      obtain ⟨wx', wy', hx', hy', e⟩ := conv_pair h'
      cases e
      rw [ih1 b1 x x' wx hx hx', ih2 b2 y y' wy hy hy']
    | list _ _ => cases v <;> simp [conv] at h
  | list t sz ih =>
    intro B v v' w h h'
    cases B with
    | int b => cases v <;> simp [conv] at h
    | opt b => cases v <;> simp [conv] at h
    | pair _ _ => cases v <;> simp [conv] at h
    | list t' sz' =>
      obtain ⟨vs, rfl⟩ := conv_shape_list h
      obtain ⟨vs', rfl⟩ := conv_shape_list h'
      obtain ⟨ws, hws, _, rfl⟩ := conv_list h
      obtain ⟨ws', hws', _, e⟩ := conv_list h'
      cases e
      rw [mapOpt_injective (conv cap t t') vs vs' ws (fun x _ x' y hx hx' => ih t' x x' y hx hx') hws hws']

theorem mapOpt_roundtrip (f g : V → Option V) : ∀ (vs ws vs' : List V),
    (∀ v ∈ vs, ∀ w v', f v = some w → g w = some v' → v' = v) →
    mapOpt f vs = some ws → mapOpt g ws = some vs' → vs' = vs
  | [], ws, vs', _, h, h' => by
    simp [mapOpt] at h; subst h
    simp [mapOpt] at h'; exact h'
  | v :: vs, ws, vs', hr, h, h' => by
    obtain ⟨w, ws1, rfl, hv, hrest⟩ := mapOpt_cons f v vs ws h
    obtain ⟨u, us, rfl, hw, hrest'⟩ := mapOpt_cons g w ws1 vs' h'
    rw [hr v (by simp) w u hv hw,
      mapOpt_roundtrip f g vs ws1 us (fun x hx => hr x (List.mem_cons_of_mem _ hx)) hrest hrest']

/-- **Round trip**: where the reverse conversion exists (it accepts the converted value), it returns the original value —
for every pair of types of the fragment and every value, at any nesting depth. -/
theorem conv_roundtrip (cap : Nat) :
    ∀ (A B : DT) (v w v' : V), conv cap A B v = some w → conv cap B A w = some v' → v' = v := by
  intro A
  induction A with
  | int a =>
    intro B v w v' h h'
    obtain ⟨n, rfl⟩ := conv_shape_int h
    cases B with
    | int b =>
      obtain ⟨_, rfl⟩ := conv_int_int h
      exact (conv_int_int h').2
    | opt b =>
      obtain ⟨_, rfl⟩ := conv_int_opt h
      simp [conv] at h'
    | pair _ _ => simp [conv] at h
    | list _ _ => simp [conv] at h
  | opt a =>
    intro B v w v' h h'
    cases B with
    | int b => cases v <;> simp [conv] at h
    | opt b =>
      rcases conv_shape_opt h with rfl | ⟨n, rfl⟩
      · have e := conv_opt_none h; subst e
        exact conv_opt_none h'
      · obtain ⟨_, rfl⟩ := conv_opt_some h
        exact (conv_opt_some h').2
    | pair _ _ => cases v <;> simp [conv] at h
    | list _ _ => cases v <;> simp [conv] at h
  | pair a1 a2 ih1 ih2 =>
    intro B v w v' h h'
    cases B with
    | int b => cases v <;> simp [conv] at h
    | opt b => cases v <;> simp [conv] at h
    | pair b1 b2 =>
      obtain ⟨x, y, rfl⟩ := conv_shape_pair h
      obtain ⟨wx, wy, hx, hy, rfl⟩ := conv_pair h
      obtain ⟨ux, uy, hx', hy', rfl⟩ := conv_pair h'
      rw [ih1 b1 x wx ux hx hx', ih2 b2 y wy uy hy hy']
    | list _ _ => cases v <;> simp [conv] at h
  | list t sz ih =>
    intro B v w v' h h'
    cases B with
    | int b => cases v <;> simp [conv] at h
    | opt b => cases v <;> simp [conv] at h
    | pair _ _ => cases v <;> simp [conv] at h
    | list t' sz' =>
      obtain ⟨vs, rfl⟩ := conv_shape_list h
      obtain ⟨ws, hws, _, rfl⟩ := conv_list h
      obtain ⟨us, hus, _, rfl⟩ := conv_list h'
      rw [mapOpt_roundtrip (conv cap t t') (conv cap t' t) vs ws us (fun x _ y z hx hy => ih t' x y z hx hy) hws hus]

/-- non-vacuity of the round trip: a struct with a list goes to a wider type and comes back -/
example :
    let A : DT := .pair (.opt [(1, 3)]) (.list (.int [(0, 5)]) [(1, 2)])
    let B : DT := .pair (.opt [(0, 4)]) (.list (.int [(0, 9)]) [(0, 2)])
    let v : V := .pair (.some (.i 2)) (.list [.i 4, .i 0])
    conv 128 A B v = some v ∧ conv 128 B A v = some v := ⟨by rfl, by rfl⟩

/-- **A conversion is offered exactly when the lattice reports inclusion**: `into_data_type` (model `imageT`) succeeds on a pair
of types iff `is_subset_of` (model `DTLat.subset`, the function `Props/C11Lat.lean` is about) answers yes — the two modelled
APIs, each compared with the code by its own stream, cannot drift apart. -/
theorem imageT_isSome_eq_subset (cap : Nat) : ∀ (A B : DT), (imageT cap A B).isSome = DTLat.subset cap A B := by
  intro A
  induction A with
  | int a => intro B; cases B <;> simp [imageT, DTLat.subset] <;> split <;> simp_all
  | opt a => intro B; cases B <;> simp [imageT, DTLat.subset] <;> split <;> simp_all
  | pair a b iha ihb =>
    intro B
    cases B with
    | pair c d =>
      have h1 := iha c; have h2 := ihb d
      simp only [imageT, DTLat.subset]
      cases hu1 : imageT cap a c <;> cases hu2 : imageT cap b d <;> simp_all
    | _ => simp [imageT, DTLat.subset]
  | list t sz ih =>
    intro B
    cases B with
    | list u sz2 =>
      have h1 := ih u
      simp only [imageT, DTLat.subset]
      cases hu1 : imageT cap t u <;> simp_all <;> split <;> simp_all
    | _ => simp [imageT, DTLat.subset]

/-- hence a conversion is only ever offered into a type that contains every value of the source (below the capacity regime,
as for `type_subset_sound`): nothing has to be approximated to fit. -/
theorem imageT_only_into_supersets (cap k : Nat) (hc : 2 ≤ cap) (hk : k * k < cap) (A B I : DT) (wa : C11.WFT cap k A) (wb : C11.WFT cap k B)
    (h : imageT cap A B = some I) : ∀ v, C11.mem A v → C11.mem B v := by
  have hs : DTLat.subset cap A B = true := by rw [← imageT_isSome_eq_subset, h]; rfl
  exact C11.type_subset_sound cap k hc hk A B wa wb hs

/-- **Refused, not approximated**: a leaf outside the target's range makes the whole conversion fail. -/
theorem conv_refuses_leaf (cap : Nat) (a b : Ivs) (n : Int) (h : containsV cap b n = false) :
    conv cap (.int a) (.int b) (.i n) = none ∧ conv cap (.int a) (.opt b) (.i n) = none ∧ conv cap (.opt a) (.opt b) (.some (.i n)) = none := by
  simp [conv, h]

/-- non-vacuity: a struct with a list converts into a wider struct with a nullable leaf; a value is carried over, a value whose
leaf lies outside the narrower target is refused -/
example :
    let A : DT := .pair (.int [(1, 3)]) (.list (.int [(0, 5)]) [(1, 2)])
    let B : DT := .pair (.opt [(0, 4)]) (.list (.int [(0, 9)]) [(0, 2)])
    imageT 128 A B = some (.pair (.opt [(1, 3)]) (.list (.int [(0, 5)]) [(1, 2)])) ∧ imageT 128 B A = none ∧
      conv 128 A B (.pair (.i 2) (.list [.i 5])) = some (.pair (.some (.i 2)) (.list [.i 5])) ∧
      conv 128 B A (.pair (.some (.i 4)) (.list [.i 5])) = none := ⟨by decide, by decide, by rfl, by rfl⟩

end Qrlew.C12

import QrlewModel.Lemmas.Rules
/-!
# C13 — the rewriting search is complete, well-typed and picks a best-scoring derivation

All theorems are for every relation tree and every assignment of candidate rules to its nodes
(no hypothesis on the rule table), and for any predicate of acceptable root labels.
-/
namespace Qrlew.C13
open Qrlew

/-- Selection after elimination enumerates exactly the consistent derivations:
sound (every node's rule takes exactly the labels produced by its children) and complete
(elimination never removes a usable rule). -/
theorem select_eliminate_iff (t : RTree) (d : Deriv) :
    d ∈ select (eliminate t) ↔ Consistent d t := by
  rw [mem_select_iff, eliminate_consistent_iff]

/-- Elimination keeps exactly the rules that are the root of some consistent derivation. -/
theorem eliminate_exact (t : RTree) (r : Rule) :
    r ∈ (eliminate t).rules ↔ ∃ d, Consistent d t ∧ d.rule = r :=
  eliminate_rules_exact t r

/-- The compiler reports "unreachable property" exactly when no consistent derivation has an
acceptable root label. -/
theorem choose_none_iff (acc : Label → Bool) (t : RTree) :
    choose acc t = none ↔ ¬ ∃ d, Consistent d t ∧ acc d.output = true := by
  unfold choose
  rw [maxBy_none_iff, List.filter_eq_nil_iff]
  constructor
  · rintro h ⟨d, hd, ha⟩
    exact h d ((select_eliminate_iff t d).mpr hd) ha
  · intro h d hd ha
    exact h ⟨d, (select_eliminate_iff t d).mp hd, ha⟩

/-- The derivation that is applied is consistent, has an acceptable root, and no other
consistent acceptable derivation has a strictly higher score. -/
theorem choose_optimal (acc : Label → Bool) (t : RTree) (d : Deriv) (h : choose acc t = some d) :
    Consistent d t ∧ acc d.output = true ∧
      ∀ d', Consistent d' t → acc d'.output = true → score d' ≤ score d := by
  unfold choose at h
  obtain ⟨hm, hmax⟩ := maxBy_some score _ d h
  rw [List.mem_filter] at hm
  refine ⟨(select_eliminate_iff t d).mp hm.1, hm.2, ?_⟩
  intro d' hd' ha'
  exact hmax d' (List.mem_filter.mpr ⟨(select_eliminate_iff t d').mpr hd', ha'⟩)

/-- **Elimination is an optimisation only**: it removes no derivation and adds none — selecting with or without it enumerates
the same derivations. -/
theorem eliminate_preserves_derivations (t : RTree) (d : Deriv) : d ∈ select (eliminate t) ↔ d ∈ select t := by
  rw [select_eliminate_iff, mem_select_iff]

/-- **Accepting more root labels never loses a rewriting nor lowers the score**: if a derivation is found for `acc`, one is
found for every weaker requirement `acc2`, with a score at least as high (e.g. a caller accepting `Published` besides
`DifferentiallyPrivate`). -/
theorem choose_mono (acc acc2 : Label → Bool) (hsub : ∀ l, acc l = true → acc2 l = true) (t : RTree) (d : Deriv)
    (h : choose acc t = some d) : ∃ d2, choose acc2 t = some d2 ∧ score d ≤ score d2 := by
  obtain ⟨hc, ha, _⟩ := choose_optimal acc t d h
  cases h2 : choose acc2 t with
  | none => exact absurd ⟨d, hc, hsub _ ha⟩ ((choose_none_iff acc2 t).mp h2)
  | some d2 => exact ⟨d2, rfl, (choose_optimal acc2 t d2 h2).2.2 d hc (hsub _ ha)⟩

/-- the score of the applied derivation is determined by the tree and the acceptable labels (ties are between equal scores) -/
theorem choose_score_unique (acc : Label → Bool) (t : RTree) (d d2 : Deriv) (h : choose acc t = some d)
    (hc : Consistent d2 t) (ha : acc d2.output = true) (hbest : ∀ d3, Consistent d3 t → acc d3.output = true → score d3 ≤ score d2) :
    score d = score d2 := by
  obtain ⟨hcd, had, hmax⟩ := choose_optimal acc t d h
  exact Nat.le_antisymm (hbest d hcd had) (hmax d2 hc ha)

/-- Non-vacuity: a reduce over a protected table with the real rule shapes; the DP derivation wins. -/
example :
    let table := RTree.leaf [⟨[], .priv⟩, ⟨[], .pup⟩]
    let reduce := RTree.unary [⟨[.pub], .pub⟩, ⟨[.pubd], .pubd⟩, ⟨[.pup], .pup⟩, ⟨[.pup], .dp⟩] table
    choose accDP reduce = some (.unary ⟨[.pup], .dp⟩ (.leaf ⟨[], .pup⟩)) ∧
      choose accDP table = none := by decide

end Qrlew.C13

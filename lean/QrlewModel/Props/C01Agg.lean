import QrlewModel.Props.C09Agg
/-!
# C01 — sensitivity of the sums the DP rewriting noises, stated on the pipeline model

`Qrlew.DpAgg.clippedSums` is the model of what `differentially_private_aggregates` computes before adding noise for one derived
column (compared with the real rewriting by the `dpagg` stream).  `dp_sensitivity`: for any table — any number of rows per unit,
NULLs, any layout of groups, values of any magnitude — deleting all rows of one privacy unit moves the vector of clipped sums
(over all groups) by at most the clipping constant `c` in Euclidean norm: the bound the noise is calibrated to is enforced by the
clipping, not assumed of the data.
-/
namespace Qrlew.C01
open Qrlew Qrlew.Clip Qrlew.DpAgg Qrlew.C09

/-- the table without the rows of unit `u` -/
def without (u : Nat) (rows : List (Row ℝ)) : List (Row ℝ) := rows.filter fun r => !(r.1 == u)

theorem cell_without_ne (f : Row ℝ → ℝ) (rows : List (Row ℝ)) (u v j : Nat) (h : v ≠ u) :
    cell realOps f (without u rows) v j = cell realOps f rows v j := by
  rw [cell_real, cell_real, without, List.filter_filter]
  congr 2
  apply List.filter_congr
  intro r _
  by_cases hr : r.1 = v
  · have : (r.1 == u) = false := by rw [hr]; simpa using h
    rw [this]; simp
  · have : (r.1 == v) = false := by simpa using hr
    simp [this]

theorem cell_without_self (f : Row ℝ → ℝ) (rows : List (Row ℝ)) (u j : Nat) :
    cell realOps f (without u rows) u j = 0 := by
  rw [cell_real, without, List.filter_filter]
  have : (rows.filter fun r => (r.1 == u && r.2.1 == j) && !(r.1 == u)) = [] := by
    apply List.filter_eq_nil_iff.mpr
    intro r _
    by_cases hr : r.1 = u <;> simp [hr]
  rw [this]; simp

theorem unitVec_without_ne (g : Nat) (f : Row ℝ → ℝ) (rows : List (Row ℝ)) (u v : Nat) (h : v ≠ u) :
    unitVec realOps g f (without u rows) v = unitVec realOps g f rows v := by
  unfold unitVec
  apply List.map_congr_left
  intro j _
  exact cell_without_ne f rows u v j h

theorem unitVec_without_self (g : Nat) (f : Row ℝ → ℝ) (rows : List (Row ℝ)) (u : Nat) :
    unitVec realOps g f (without u rows) u = List.replicate g 0 := by
  unfold unitVec
  apply List.ext_getElem
  · simp
  · intro i h1 h2
    simp [cell_without_self]

theorem unitVec_length (g : Nat) (f : Row ℝ → ℝ) (rows : List (Row ℝ)) (v : Nat) : (unitVec realOps g f rows v).length = g := by
  simp [unitVec]

/-- a unit without rows contributes nothing -/
theorem scaled_zero (g : Nat) (c : ℝ) : scaled realOps rz c (List.replicate g 0) = List.replicate g 0 := by
  unfold scaled
  apply List.ext_getElem
  · simp
  · intro i h1 h2
    simp [realOps]

theorem vadd_zero_left (g : Nat) (v : List ℝ) (h : v.length = g) : vadd realOps (List.replicate g 0) v = v := by
  unfold vadd
  apply List.ext_getElem
  · simp [h]
  · intro i h1 h2
    simp [realOps]

theorem total_zero_unit (g : Nat) (c : ℝ) (us₁ us₂ : List (List ℝ)) (h₁ : ∀ w ∈ us₁, w.length = g) (h₂ : ∀ w ∈ us₂, w.length = g) :
    total realOps rz g c (us₁ ++ List.replicate g 0 :: us₂) = total realOps rz g c (us₁ ++ us₂) := by
  rw [total_insert, scaled_zero, vadd_zero_left]
  rw [total_length g c]
  intro w hw
  rcases List.mem_append.mp hw with h | h
  · exact h₁ w h
  · exact h₂ w h

/-- **C01 on the pipeline model**: deleting one privacy unit moves the clipped sums of a derived column by at most `c`. -/
theorem dp_sensitivity (nU g : Nat) (f : Row ℝ → ℝ) (c : ℝ) (hc : 0 ≤ c) (rows : List (Row ℝ)) (u : Nat) (hu : u < nU) :
    normSq realOps (vsub realOps (clippedSums realOps rz nU g f c rows) (clippedSums realOps rz nU g f c (without u rows))) ≤ c * c := by
  unfold clippedSums
  -- the units before `u`, `u` itself, the units after it
  have hsplit : List.range nU = List.range u ++ u :: List.range' (u + 1) (nU - (u + 1)) := by
    have h1 : List.range nU = List.range' 0 u ++ List.range' u (nU - u) := by
      rw [List.range_eq_range']
      have := List.range'_append_1 (s := 0) (m := u) (n := nU - u)
      simp only [Nat.zero_add] at this
      rw [this]
      congr 1; omega
    have h2 : List.range' u (nU - u) = u :: List.range' (u + 1) (nU - (u + 1)) := by
      have : nU - u = (nU - (u + 1)) + 1 := by omega
      rw [this, List.range'_succ]
    rw [h1, h2, List.range_eq_range']
  have hne₁ : ∀ v ∈ List.range u, v ≠ u := fun v hv => Nat.ne_of_lt (List.mem_range.mp hv)
  have hne₂ : ∀ v ∈ List.range' (u + 1) (nU - (u + 1)), v ≠ u := by
    intro v hv
    have := (List.mem_range'_1.mp hv).1
    omega
  rw [hsplit, List.map_append, List.map_cons, List.map_append, List.map_cons]
  have e₁ : (List.range u).map (unitVec realOps g f (without u rows)) = (List.range u).map (unitVec realOps g f rows) :=
    List.map_congr_left fun v hv => unitVec_without_ne g f rows u v (hne₁ v hv)
  have e₂ : (List.range' (u + 1) (nU - (u + 1))).map (unitVec realOps g f (without u rows)) =
      (List.range' (u + 1) (nU - (u + 1))).map (unitVec realOps g f rows) :=
    List.map_congr_left fun v hv => unitVec_without_ne g f rows u v (hne₂ v hv)
  have hl₁ : ∀ w ∈ (List.range u).map (unitVec realOps g f rows), w.length = g := by
    intro w hw; obtain ⟨v, _, rfl⟩ := List.mem_map.mp hw; exact unitVec_length g f rows v
  have hl₂ : ∀ w ∈ (List.range' (u + 1) (nU - (u + 1))).map (unitVec realOps g f rows), w.length = g := by
    intro w hw; obtain ⟨v, _, rfl⟩ := List.mem_map.mp hw; exact unitVec_length g f rows v
  rw [e₁, e₂, unitVec_without_self, total_zero_unit g c _ _ hl₁ hl₂]
  exact sensitivity g c hc _ _ _ (unitVec_length g f rows u) hl₁ hl₂

/-- non-vacuity: deleting the only unit (three rows, clipping constant 1) leaves the zero vector, the full table gives `[1]` -/
example : without 0 ([(0, 0, some 1), (0, 0, some 1), (0, 0, some 1)] : List (Row ℝ)) = [] ∧
    clippedSums realOps rz 1 1 (one realOps) 1 [(0, 0, some 1), (0, 0, some 1), (0, 0, some 1)] = [1] :=
  ⟨by simp [without], count_clipped_counterexample⟩

end Qrlew.C01

import QrlewModel.Props.C01
/-!
# C09 — DP rewriting is exact when noise and clipping are inactive (algebraic core, over ℝ)

* clipping inactive: a unit whose L2 norm is within the bound is not rescaled, so the clipped sums are the plain sums;
* recombination: `sum / greatest(1, count)` is the mean of a non-empty group; `E[x²] − E[x]²` is the (population)
  variance of the data — the expression the code computes after the repair of the missing square
  (`/repo` commit "fix: DP variance / standard deviation subtract the squared mean").
-/
namespace Qrlew.C09
open Qrlew Qrlew.Clip Qrlew.C01

/-- a unit within the clipping bound is not rescaled -/
theorem scale_one_of_within (c : ℝ) (hc : 0 < c) (v : List ℝ) (h : normSq realOps v ≤ c * c) :
    scale realOps rz c v = 1 := by
  rw [scale_real]
  simp only [hc.ne', if_false]
  have hn : Real.sqrt (normSq realOps v) ≤ c := by
    rw [show c = Real.sqrt (c * c) from (Real.sqrt_mul_self hc.le).symm]
    exact Real.sqrt_le_sqrt h
  have : Real.sqrt (normSq realOps v) / c ≤ 1 := (div_le_one hc).mpr hn
  rw [max_eq_left this]; norm_num

/-- … so its clipped contribution is its true contribution -/
theorem scaled_eq_self (c : ℝ) (hc : 0 < c) (v : List ℝ) (h : normSq realOps v ≤ c * c) :
    scaled realOps rz c v = v := by
  unfold scaled
  rw [scale_one_of_within c hc v h]
  simp [realOps]

/-- and the clipped sums over all units are the plain sums (any number of units and groups) -/
theorem total_exact (g : Nat) (c : ℝ) (hc : 0 < c) (us : List (List ℝ)) (h : ∀ u ∈ us, normSq realOps u ≤ c * c) :
    total realOps rz g c us = us.foldr (vadd realOps) (List.replicate g 0) := by
  induction us with
  | nil => simp [total, realOps]
  | cons u t ih =>
    simp only [total, List.foldr_cons]
    rw [scaled_eq_self c hc u (h u List.mem_cons_self), ih (fun w hw => h w (List.mem_cons_of_mem _ hw))]

/-- `sum / greatest(1, count)` is `sum / count` as soon as the group has a row -/
theorem mean_exact (s cnt : ℝ) (h : 1 ≤ cnt) : s / max 1 cnt = s / cnt := by rw [max_eq_right h]

/-- `E[x²] − E[x]²` is the variance of the data (population form): the mean of the squared deviations. -/
theorem var_exact (xs : List ℝ) (hne : xs ≠ []) :
    (xs.map fun x => x * x).sum / xs.length - (xs.sum / xs.length) ^ 2 =
      (xs.map fun x => (x - xs.sum / xs.length) ^ 2).sum / xs.length := by
  have hn : (xs.length : ℝ) ≠ 0 := by
    have : 0 < xs.length := List.length_pos_iff.mpr hne
    exact_mod_cast this.ne'
  set m := xs.sum / xs.length with hm
  have key : ∀ (l : List ℝ) (a : ℝ), (l.map fun x => (x - a) ^ 2).sum = (l.map fun x => x * x).sum - 2 * a * l.sum + l.length * a ^ 2 := by
    intro l a
    induction l with
    | nil => simp
    | cons y t ih => simp only [List.map_cons, List.sum_cons, List.length_cons, Nat.cast_succ]; rw [ih]; ring
  rw [key xs m]
  have hs : xs.sum = m * xs.length := by rw [hm]; field_simp
  rw [hs]; field_simp; ring

/-- what the code computed before the repair is not the variance: data {2, 2} has variance 0 but E[x²] − E[x] = 2 -/
theorem var_before_fix_counterexample :
    (([2, 2] : List ℝ).map fun x => x * x).sum / 2 - ([2, 2] : List ℝ).sum / 2 ≠ 0 := by norm_num

end Qrlew.C09

import QrlewModel.Model.Quote
import QrlewModel.Generated.Dialects
import QrlewModel.Props.C08
/-!
# C17 — per-dialect quoting: what a translator writes, the same dialect reads back

The table `Generated.dialects` is regenerated on every run from the real translators (`identifier`) and from the sqlparser
dialects the library reads each target with.  Over that table:

* `writer_quote_readable`: every reading dialect accepts the quote character its translator writes (the `assert!` in
  `try_identifier` cannot fire on the library's own output);
* `ident_round_trip`: for every dialect, a name without a doubled / backslash-preceded quote character is read back unchanged
  from its quoted form by the tokenizer model;
* `literal_round_trip`: the same for string literals, where the dialects that treat backslash as an escape (MySQL, BigQuery)
  additionally need a value without backslash — `backslash_counterexample` shows the need is real.
-/
namespace Qrlew.C17
open Qrlew.Quote Qrlew.Generated

theorem readQ_of_unesc (q : Char) : ∀ (l v : List Char), unesc q l = some v → readQ q false (l ++ [q]) = some (v, [])
  | [], v, h => by
    simp only [unesc, Option.some.injEq] at h; subst h; simp [readQ]
  | [c], v, h => by
    by_cases hc : c = q
    · simp [unesc, hc] at h
    · have hcq : (c == q) = false := by simpa using hc
      simp only [unesc, hcq, Bool.false_eq_true, if_false, Option.some.injEq] at h
      subst h; simp [readQ, hcq]
  | c :: c' :: rest', v, h => by
    by_cases hc : c = q
    · subst hc
      by_cases hc' : c' = c
      · subst hc'
        simp only [unesc, beq_self_eq_true, if_true, Option.map_eq_some_iff] at h
        obtain ⟨v', hv', rfl⟩ := h
        have ih := readQ_of_unesc c' rest' v' hv'
        simp [readQ, ih]
      · have : (c' == c) = false := by simpa using hc'
        simp [unesc, this] at h
    · have hcq : (c == q) = false := by simpa using hc
      simp only [unesc, hcq, Bool.false_eq_true, if_false, Option.map_eq_some_iff] at h
      obtain ⟨v', hv', rfl⟩ := h
      have ih := readQ_of_unesc q (c' :: rest') v' hv'
      simp only [List.cons_append] at ih ⊢
      simp [readQ, hcq, ih]

/-- without a backslash in the text, a backslash-escaping tokenizer reads what a plain one reads -/
theorem readQ_backslash_free (q : Char) : ∀ (l : List Char), (∀ c ∈ l, c ≠ '\\') → readQ q true l = readQ q false l
  | [], _ => by simp [readQ]
  | [c], _ => by simp [readQ]
  | c :: c' :: rest', h => by
    have hc : (c == '\\') = false := by simpa using h c (by simp)
    have ih1 := readQ_backslash_free q rest' (fun x hx => h x (by simp [hx]))
    have ih2 := readQ_backslash_free q (c' :: rest') (fun x hx => h x (List.mem_cons_of_mem _ hx))
    simp only [readQ, hc, Bool.and_false, Bool.false_eq_true, if_false, ih1, ih2, Bool.false_and]

theorem esc_backslash_free (q : Char) (hq : q ≠ '\\') : ∀ (s : List Char) (p : Char), (∀ c ∈ s, c ≠ '\\') → ∀ c ∈ esc q p s, c ≠ '\\'
  | [], _, _ => by simp [esc]
  | [c], p, h => by
    have := h c (by simp)
    simp only [esc]; split <;> (try split) <;> simp [hq, this]
  | c :: c' :: rest', p, h => by
    have hc := h c (by simp)
    have ih1 := fun p => esc_backslash_free q hq rest' p (fun x hx => h x (by simp [hx]))
    have ih2 := fun p => esc_backslash_free q hq (c' :: rest') p (fun x hx => h x (List.mem_cons_of_mem _ hx))
    simp only [esc]
    split
    · split
      · intro x hx; rcases List.mem_cons.mp hx with rfl | hx
        · exact hc
        · exact ih2 _ x hx
      · split
        · intro x hx
          rcases List.mem_cons.mp hx with rfl | hx
          · exact hq
          · rcases List.mem_cons.mp hx with rfl | hx
            · exact hq
            · exact ih1 _ x hx
        · intro x hx
          rcases List.mem_cons.mp hx with rfl | hx
          · exact hq
          · rcases List.mem_cons.mp hx with rfl | hx
            · exact hq
            · exact ih2 _ x hx
    · intro x hx; rcases List.mem_cons.mp hx with rfl | hx
      · exact hc
      · exact ih2 _ x hx

/-- a plain tokenizer reads back what the renderer writes -/
theorem write_read (q : Char) (s : List Char) (h : Clean q (Char.ofNat 0) s) : readBack q false (write q s) = some s := by
  have := readQ_of_unesc q _ _ (C08.unesc_esc q s (Char.ofNat 0) h)
  simp [write, readBack, this]

/-- a backslash-escaping tokenizer reads back what the renderer writes when the value has no backslash -/
theorem write_read_backslash (q : Char) (hq : q ≠ '\\') (s : List Char) (h : Clean q (Char.ofNat 0) s)
    (hb : ∀ c ∈ s, c ≠ '\\') : readBack q true (write q s) = some s := by
  have h1 := readQ_of_unesc q _ _ (C08.unesc_esc q s (Char.ofNat 0) h)
  have hfree : ∀ c ∈ esc q (Char.ofNat 0) s ++ [q], c ≠ '\\' := by
    intro c hc
    rcases List.mem_append.mp hc with hc | hc
    · exact esc_backslash_free q hq s _ hb c hc
    · simp only [List.mem_singleton] at hc; subst hc; exact hq
  have h2 := readQ_backslash_free q _ hfree
  simp [write, readBack, h2, h1]

theorem writer_quote_readable : ∀ d ∈ dialects, d.reads = true → d.write ∈ d.delims := by decide

theorem writer_quotes_double : ∀ d ∈ dialects, d.write = '"' ∨ d.write = '`' := by decide

/-- identifiers: every dialect reads back the names its translator writes (identifier tokens have no backslash escapes) -/
theorem ident_round_trip : ∀ d ∈ dialects, ∀ s, Clean d.write (Char.ofNat 0) s → readBack d.write false (write d.write s) = some s :=
  fun d _ s h => write_read d.write s h

/-- string literals: every dialect reads back the values its translator writes; backslash-escaping dialects need a backslash-free value -/
theorem literal_round_trip : ∀ d ∈ dialects, ∀ s, Clean '\'' (Char.ofNat 0) s → (d.backslash = true → ∀ c ∈ s, c ≠ '\\') →
    readBack '\'' d.backslash (write '\'' s) = some s := by
  intro d _ s h hb
  cases hbs : d.backslash with
  | false => exact write_read '\'' s h
  | true => exact write_read_backslash '\'' (by decide) s h (hb hbs)

/-- the backslash hypothesis is needed: `a\n` written for MySQL / BigQuery is read back as `a` + newline -/
theorem backslash_counterexample : readBack '\'' true (write '\'' ['a', '\\', 'n']) = some ['a', '\n'] := by decide

/-- which dialects those are, from the generated table -/
theorem backslash_dialects : (dialects.filter (·.backslash)).map (·.name) = ["mysql", "bigquery"] := by decide

/-- the hypothesis `Clean` is met by every string without the quote character (ordinary names and texts), whatever precedes it -/
theorem clean_of_no_quote (q : Char) : ∀ (s : List Char) (p : Char), (∀ c ∈ s, c ≠ q) → Clean q p s
  | [], _, _ => trivial
  | c :: rest, _, h =>
    ⟨fun hc => absurd hc (h c List.mem_cons_self), clean_of_no_quote q rest c (fun x hx => h x (List.mem_cons_of_mem _ hx))⟩

/-- **No two names or texts are written alike**: on the strings the escaping handles, the writer is injective — two different
identifiers (or literals) never become the same token, in any dialect. -/
theorem write_injective (q : Char) (s t : List Char) (hs : Clean q (Char.ofNat 0) s) (ht : Clean q (Char.ofNat 0) t)
    (h : write q s = write q t) : s = t := by
  have h1 := write_read q s hs
  rw [h, write_read q t ht] at h1
  exact (Option.some.inj h1).symm

/-- quote-free strings in particular: every dialect's identifier quoting is injective and readable back on them -/
theorem ident_plain_round_trip : ∀ d ∈ dialects, ∀ s, (∀ c ∈ s, c ≠ d.write) → readBack d.write false (write d.write s) = some s :=
  fun d hd s h => ident_round_trip d hd s (clean_of_no_quote d.write s _ h)

/-- Non-vacuity: a reserved word and a name with an embedded quote meet the hypothesis and are written as expected. -/
example : Clean '`' (Char.ofNat 0) "we`ird".toList ∧ write '`' "we`ird".toList = "`we``ird`".toList ∧ write '"' "select".toList = "\"select\"".toList := by
  refine ⟨by simp [Clean], by decide, by decide⟩

end Qrlew.C17

import QrlewModel.Model.Rel
/-
Trees of Relation IR nodes with the two facts `relation/mod.rs` declares about every node besides its column types:
the upper bound of its size (`Map::size`, `Join::size`, `Set::size`, `Reduce::size`) and which of its columns carry a
UNIQUE constraint (`Map::schema_exprs`, `Join::schema`, `Set::schema`, `Reduce::schema_aggregate`), together with an
evaluator over bags of integer rows.  `sizeMax` / `uniq` are compared with what the real builders compute, `eval` with the
rows SQLite returns for the rendered relation (stream `reltree`); the theorems of `Props/C07Tree.lean` are about these functions.
-/
namespace Qrlew.RelTree

abbrev Row := List Int
def cell (r : Row) (i : Nat) : Int := r.getD i 0

/-- the expression of a projected column, applied to one input column -/
inductive Fn where
  | id              -- the column itself
  | neg             -- `-x`: a function `Function::is_bijection` lists
  | abs             -- `abs(x)`: not injective
  | plus (k : Int)  -- `x + k`: injective, but not a column modulo a listed bijection, so the constraint is dropped
  deriving Repr, Inhabited, DecidableEq

def Fn.app : Fn → Int → Int
  | .id, x => x
  | .neg, x => -x
  | .abs, x => Int.ofNat x.natAbs
  | .plus k, x => x + k

/-- does `Map::schema_exprs` pass the input column's constraint on (`into_column_modulo_bijection`)? -/
def Fn.keeps : Fn → Bool
  | .id => true
  | .neg => true
  | .abs => false
  | .plus _ => false

inductive T where
  | table (id n : Nat) (uniq : List Bool)
  | map (proj : List (Nat × Fn)) (flt : Option (Nat × Int)) (offset limit : Option Nat) (t : T)
  | join (lc rc : Nat) (l r : T)
  | union (all : Bool) (l r : T)
  | intersect (l r : T)
  | except (l r : T)
  | reduce (keys : List Nat) (t : T)
  deriving Repr, Inhabited

def flag (u : List Bool) (i : Nat) : Bool := u.getD i false

/-- which output columns are declared UNIQUE -/
def uniq : T → List Bool
  | .table _ _ u => u
  | .map proj _ _ _ t => proj.map fun p => p.2.keeps && flag (uniq t) p.1
  -- `Join::schema`: the left fields keep their constraint when the right join key is unique, and vice versa
  | .join lc rc l r => (uniq l).map (· && flag (uniq r) rc) ++ (uniq r).map (· && flag (uniq l) lc)
  | .union _ l _ => (uniq l).map fun _ => false
  | .intersect l _ => (uniq l).map fun _ => false
  | .except l _ => (uniq l).map fun _ => false
  -- `Reduce::schema_aggregate`: a grouping key is unique when it is the only key or unique in the input; then `count(*)`
  | .reduce keys t => (keys.map fun k => keys.length == 1 || flag (uniq t) k) ++ [false]

/-- `…::size().max()` -/
def sizeMax : T → Nat
  | .table _ n _ => n
  | .map _ _ offset limit t => Rel.mapSizeMax (sizeMax t) offset limit
  | .join lc rc l r =>
      if flag (uniq l) lc || flag (uniq r) rc then Rel.joinSizeUnique (sizeMax l) (sizeMax r) else sizeMax l * sizeMax r
  | .union _ l r => Rel.unionMax (sizeMax l) (sizeMax r)
  | .intersect l r => Rel.intersectMax (sizeMax l) (sizeMax r)
  | .except l r => Rel.exceptMax (sizeMax l) (sizeMax r)
  | .reduce _ t => sizeMax t

/-- keep the first occurrence of every row -/
def dedup : List Row → List Row
  | [] => []
  | a :: t => a :: (dedup t).filter (fun x => !(x == a))

def keep (flt : Option (Nat × Int)) (r : Row) : Bool :=
  match flt with | none => true | some (c, k) => decide (cell r c > k)

/-- the rows of the node on the database `db` (table id ↦ rows); inner joins, `UNION [ALL]`, `INTERSECT`, `EXCEPT`,
`GROUP BY keys` with `count(*)` -/
def eval (db : Nat → List Row) : T → List Row
  | .table id _ _ => db id
  | .map proj flt offset limit t =>
      (Rel.mapRows (keep flt) offset limit (eval db t)).map fun r => proj.map fun p => p.2.app (cell r p.1)
  | .join lc rc l r => (Rel.joinOn (fun a => cell a lc) (fun b => cell b rc) (eval db l) (eval db r)).map fun ab => ab.1 ++ ab.2
  | .union true l r => eval db l ++ eval db r
  | .union false l r => dedup (eval db l ++ eval db r)
  | .intersect l r => dedup ((eval db l).filter fun a => (eval db r).contains a)
  | .except l r => dedup ((eval db l).filter fun a => !(eval db r).contains a)
  | .reduce keys t =>
      let rows := eval db t
      let groups := dedup (rows.map fun r => keys.map (cell r))
      groups.map fun g => g ++ [Int.ofNat (rows.filter fun r => keys.map (cell r) == g).length]

/-- number of columns -/
def width : T → Nat
  | .table _ _ u => u.length
  | .map proj _ _ _ _ => proj.length
  | .join _ _ l r => width l + width r
  | .union _ l _ => width l
  | .intersect l _ => width l
  | .except l _ => width l
  | .reduce keys _ => keys.length + 1

end Qrlew.RelTree

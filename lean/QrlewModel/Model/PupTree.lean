import QrlewModel.Model.Pup
/-
Trees of the operators of `privacy_unit_tracking/mod.rs` (strategy Hard) over rows of nullable integers, evaluated on bags
of `(unit, (weight, cells))` with the operator semantics of `Qrlew.Pup`:

* `table`   — a protected base table (its rows carry their unit, weight 1);
* `map`     — `SELECT c_i + k, c_j + k'` (`PrivacyUnitTracking::map`: unit and weight are passed through);
* `filter`  — `WHERE c_i > k` (a `Map` with a filter);
* `join`    — `l JOIN r ON l.c_p = r.c_q` of two tracked inputs (`PrivacyUnitTracking::join`: the ON clause gets
              `AND l.unit = r.unit`, the unit is the left one, the weight is the product);
* `joinPub` — inner / left outer join with a public table on the right (`join_right_published`: unit and weight of the left);
* `union`   — `UNION [ALL]` (`PrivacyUnitTracking::set`: whole rows are compared, unit and weight included);
* `reduce`  — `GROUP BY c_i` with `sum(c_j)` or `count(*)` (`PrivacyUnitTracking::reduce`: the unit is added to the grouping
              columns, the weight is the sum of the weights).
NULL follows SQL: `NULL + k` is NULL, a comparison with NULL is not true, SUM skips NULLs and is NULL when nothing is left,
GROUP BY and UNION treat NULLs as equal.
-/
namespace Qrlew.PupTree
open Qrlew.Pup

abbrev Cell := Option Int
/-- (weight, cells) -/
abbrev Row := Int × List Cell

def getC (r : List Cell) (i : Nat) : Cell := (r[i]?).join
def addC (c : Cell) (k : Int) : Cell := c.map (· + k)
def gtC (c : Cell) (k : Int) : Bool := match c with | some v => decide (v > k) | none => false
def eqC (a b : Cell) : Bool := match a, b with | some x, some y => x == y | _, _ => false

def isum (l : List Int) : Int := l.foldr (· + ·) 0

/-- SQL `SUM`: NULLs are skipped; NULL when no value is left -/
def sumC (l : List Cell) : Cell :=
  let vs := l.filterMap id
  if vs.isEmpty then none else some (isum vs)

/-- keep the first occurrence of every element (`UNION` without `ALL`) -/
def dedup {α : Type} [DecidableEq α] : List α → List α
  | [] => []
  | a :: t => a :: (dedup t).filter (fun x => !(x == a))

inductive T where
  | table (i : Nat)
  | map (c0 : Nat) (k0 : Int) (c1 : Nat) (k1 : Int) (t : T)
  | filter (c : Nat) (k : Int) (t : T)
  | join (p q i j : Nat) (l r : T)
  | joinPub (p i : Nat) (left : Bool) (l : T)
  | union (all : Bool) (l r : T)
  | reduce (key agg : Nat) (count : Bool) (t : T)
  deriving Repr, Inhabited

structure Env where
  tracked : Nat → List (Nat × Row)
  pub : List (List Cell)

def mapRow (c0 : Nat) (k0 : Int) (c1 : Nat) (k1 : Int) (r : Row) : Row := (r.1, [addC (getC r.2 c0) k0, addC (getC r.2 c1) k1])
def joinRow (i j : Nat) (x : Row × Row) : Row := (x.1.1 * x.2.1, [getC x.1.2 i, getC x.2.2 j])
def joinPubRow (i : Nat) (x : Row × List Cell) : Row := (x.1.1, [getC x.1.2 i, getC x.2 1])
def leftJoinPubRow (i : Nat) (x : Row × Option (List Cell)) : Row :=
  (x.1.1, [getC x.1.2 i, match x.2 with | some b => getC b 1 | none => none])
def aggRows (agg : Nat) (count : Bool) (rs : List Row) : Int × Cell :=
  (isum (rs.map (·.1)), if count then some (Int.ofNat rs.length) else sumC (rs.map fun r => getC r.2 agg))
def reduceRow (x : Cell × (Int × Cell)) : Row := (x.2.1, [x.1, x.2.2])

def eval (env : Env) : T → List (Nat × Row)
  | .table i => env.tracked i
  | .map c0 k0 c1 k1 t => pmap (mapRow c0 k0 c1 k1) (eval env t)
  | .filter c k t => pfilter (fun r => gtC (getC r.2 c) k) (eval env t)
  | .join p q i j l r =>
      pmap (joinRow i j) (joinTracked (fun a b => eqC (getC a.2 p) (getC b.2 q)) (eval env l) (eval env r))
  | .joinPub p i false l =>
      pmap (joinPubRow i) (joinPublished (fun a b => eqC (getC a.2 p) (getC b 0)) (eval env l) env.pub)
  | .joinPub p i true l =>
      pmap (leftJoinPubRow i) (leftJoinPublished (fun a b => eqC (getC a.2 p) (getC b 0)) (eval env l) env.pub)
  | .union true l r => punion (eval env l) (eval env r)
  | .union false l r => dedup (punion (eval env l) (eval env r))
  | .reduce key agg count t =>
      pmap reduceRow (preduce (fun r => getC r.2 key) (aggRows agg count) (eval env t))

/-- the environment in which only unit `u` has protected rows -/
def Env.restrict (u : Nat) (env : Env) : Env := { tracked := fun i => Pup.restrict u (env.tracked i), pub := env.pub }

end Qrlew.PupTree

import QrlewModel.Model.DTLat
/-
Conversions between composite types of the fragment of `DTLat` (`data_type/injection.rs`, `DataType::inject_into` /
`into_data_type`): `A` converts into the variant of `B` when it is included in it; the converted type is `A` with the leaf
optionality of `B`; a value is converted leaf by leaf (an integer into a nullable integer is wrapped) and refused as soon as
one leaf does not fit.
-/
namespace Qrlew.InjLat
open Qrlew.DTLat

inductive V where
  | i (n : Int)
  | none
  | some (v : V)
  | pair (a b : V)
  | list (vs : List V)
  deriving Repr, Inhabited

/-- `into_data_type`: the converted type (`none`: refused) -/
def imageT (cap : Nat) : DT → DT → Option DT
  | .int a, .int b => if isSubsetOf cap a b then some (.int a) else none
  | .int a, .opt b => if isSubsetOf cap a b then some (.opt a) else none
  | .opt a, .opt b => if isSubsetOf cap a b then some (.opt a) else none
  | .pair a b, .pair c d => do pure (.pair (← imageT cap a c) (← imageT cap b d))
  | .list t s, .list t' s' => do
      let u ← imageT cap t t'
      if isSubsetOf cap s s' then pure (.list u s) else none
  | _, _ => none

def mapOpt (f : V → Option V) : List V → Option (List V)
  | [] => some []
  | v :: vs => do pure ((← f v) :: (← mapOpt f vs))

/-- the injection's `value`: the converted value (`none`: refused) -/
def conv (cap : Nat) : DT → DT → V → Option V
  | .int _, .int b, .i n => if containsV cap b n then some (.i n) else none
  | .int _, .opt b, .i n => if containsV cap b n then some (.some (.i n)) else none
  | .opt _, .opt _, .none => some .none
  | .opt _, .opt b, .some (.i n) => if containsV cap b n then some (.some (.i n)) else none
  | .pair a b, .pair c d, .pair x y => do pure (.pair (← conv cap a c x) (← conv cap b d y))
  | .list t _, .list t' s', .list vs => do
      let ws ← mapOpt (conv cap t t') vs
      if containsV cap s' (Int.ofNat ws.length) then pure (.list ws) else none
  | _, _, _ => none

end Qrlew.InjLat

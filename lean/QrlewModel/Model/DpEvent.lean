/-
Model of `src/differential_privacy/dp_event.rs` (`DpEvent`, `compose`, `is_no_op`) and of the budget
arithmetic of `differential_privacy/{mod,aggregates,group_by}.rs`, generic in the number type so that
the same definitions are run on `Float` by the driver and reasoned about over `ℝ` in the theorems.
-/
namespace Qrlew

/-- `DpEvent` restricted to the variants the compiler produces. -/
inductive DpEvent (K : Type) where
  | noOp
  | gaussian (noiseMultiplier : K)
  | epsilonDelta (epsilon delta : K)
  | composed (events : List (DpEvent K))
  deriving Repr, Inhabited

namespace DpEvent
variable {K : Type}

mutual
/-- `DpEvent::is_no_op` (`isZero` is `x == 0.0`). -/
def isNoOp (isZero : K → Bool) : DpEvent K → Bool
  | .noOp => true
  | .gaussian m => isZero m
  | .epsilonDelta e d => isZero e && isZero d
  | .composed es => allNoOp isZero es
def allNoOp (isZero : K → Bool) : List (DpEvent K) → Bool
  | [] => true
  | e :: es => isNoOp isZero e && allNoOp isZero es
end

/-- `DpEvent::compose`. -/
def compose (isZero : K → Bool) (a b : DpEvent K) : DpEvent K :=
  if isNoOp isZero b then a
  else if isNoOp isZero a then b
  else match a, b with
    | .composed v1, .composed v2 => .composed (v1 ++ v2)
    | .composed v, o => .composed (v ++ [o])
    | c, .composed v => .composed (c :: v)
    | c, o => .composed [c, o]

/-- `FromIterator<DpEvent>`: fold with `compose` from `NoOp`. -/
def collect (isZero : K → Bool) (es : List (DpEvent K)) : DpEvent K :=
  es.foldl (compose isZero) .noOp

mutual
/-- the elementary mechanisms recorded in an event, in order, no-ops dropped -/
def leaves (isZero : K → Bool) : DpEvent K → List (DpEvent K)
  | .noOp => []
  | .gaussian m => if isZero m then [] else [.gaussian m]
  | .epsilonDelta e d => if isZero e && isZero d then [] else [.epsilonDelta e d]
  | .composed es => leavesL isZero es
def leavesL (isZero : K → Bool) : List (DpEvent K) → List (DpEvent K)
  | [] => []
  | e :: es => leaves isZero e ++ leavesL isZero es
end

end DpEvent

/-- The arithmetic the budget formulas need. -/
structure NumOps (K : Type) where
  ofNat : Nat → K
  add : K → K → K
  sub : K → K → K
  mul : K → K → K
  div : K → K → K
  sqrt : K → K
  ln : K → K
  max : K → K → K
  c125 : K        -- the constant 1.25

namespace Budget
variable {K : Type} (o : NumOps K)

/-- `gaussian_noise_multiplier(ε, δ) = sqrt(2 ln(1.25/δ)) / ε`, clamped at 0 from below. -/
def noiseMultiplier (eps delta : K) : K :=
  o.max (o.ofNat 0) (o.div (o.sqrt (o.mul (o.ofNat 2) (o.ln (o.div o.c125 delta)))) eps)

/-- `gaussian_noise(ε, δ, sensitivity)`. -/
def gaussianNoise (eps delta sens : K) : K :=
  o.max (o.ofNat 0) (o.mul (noiseMultiplier o eps delta) sens)

/-- `gaussian_mechanisms(ε, δ, bounds)`: the σ applied to each of the `n` sums (budget split evenly). -/
def sigmas (eps delta : K) (bounds : List K) : List K :=
  let n := o.ofNat bounds.length
  bounds.map fun b => gaussianNoise o (o.div eps n) (o.div delta n) b

/-- … and the event it records for each sum: the multiplier of the *undivided* (ε, δ). -/
def recordedMultiplier (eps delta : K) : K := noiseMultiplier o eps delta

/-- `Reduce::differentially_private`: the share of (ε, δ) left to the aggregates. -/
def aggShare (tauUsed : Bool) (share : K) : K := if tauUsed then o.sub (o.ofNat 1) share else o.ofNat 1

end Budget
end Qrlew

import QrlewModel.Model.Monotone
/-
Model of `DataType::filter` / `filter_by_function` (`src/expr/mod.rs`) on row types whose columns are
integer interval sets: narrowing of a row type by a predicate built from comparisons between columns and
literals, equalities, AND, OR and unsupported sub-terms.
-/
namespace Qrlew

inductive Operand where
  | col (i : Nat)
  | lit (k : Int)
  deriving Repr, DecidableEq

inductive Pred where
  | gt (l r : Operand)    -- also `>=` (narrowed identically)
  | lt (l r : Operand)    -- also `<=`
  | eq (l r : Operand)
  | and (p q : Pred)
  | or (p q : Pred)
  | other (truth : Bool)  -- any unsupported predicate (its truth value on the row is arbitrary)
  deriving Repr

def evalOperand (row : List Int) : Operand → Int
  | .col i => row.getD i 0
  | .lit k => k

/-- truth of the predicate on a row (`>`/`>=` and `<`/`<=` are both covered by the non-strict reading, the weaker one) -/
def evalPred (row : List Int) : Pred → Bool
  | .gt l r => decide (evalOperand row l ≥ evalOperand row r)
  | .lt l r => decide (evalOperand row l ≤ evalOperand row r)
  | .eq l r => decide (evalOperand row l = evalOperand row r)
  | .and p q => evalPred row p && evalPred row q
  | .or p q => evalPred row p || evalPred row q
  | .other t => t

def opType (T : List Ivs) : Operand → Ivs
  | .col i => T.getD i []
  | .lit k => [(k, k)]

/-- `greatest().super_image` / `least().super_image` on integers: one partition, monotone in both arguments -/
def greatestImage (cap : Nat) (s1 s2 : Ivs) : Ivs := pmImage2 cap plusParts (fun x y => max x y) s1 s2
def leastImage (cap : Nat) (s1 s2 : Ivs) : Ivs := pmImage2 cap plusParts (fun x y => min x y) s1 s2

def setCol (T : List Ivs) : Operand → Ivs → List Ivs
  | .col i, s => T.set i s
  | .lit _, _ => T

/-- `l >= r`: the left column is narrowed to `greatest(L, R) ∩ L`, the right one to `least(L, R) ∩ R`
(both computed from the types before narrowing) -/
def narrowGe (cap : Nat) (T : List Ivs) (l r : Operand) : List Ivs :=
  let L := opType T l
  let R := opType T r
  setCol (setCol T l (inter cap (greatestImage cap L R) L)) r (inter cap (leastImage cap L R) R)

def narrowEq (cap : Nat) (T : List Ivs) (l r : Operand) : List Ivs :=
  let d := inter cap (opType T l) (opType T r)
  setCol (setCol T l d) r d

def filterT (cap : Nat) (T : List Ivs) : Pred → List Ivs
  | .gt l r => narrowGe cap T l r
  | .lt l r => narrowGe cap T r l
  | .eq l r => narrowEq cap T l r
  | .and p q => List.zipWith (inter cap) (filterT cap (filterT cap T q) p) (filterT cap (filterT cap T p) q)
  | .or p q => List.zipWith (union cap) (filterT cap T q) (filterT cap T p)
  | .other _ => T

/-- the kinds of join whose ON predicate `DataType::filter_by_join_operator` (`relation/mod.rs`) narrows the two sides by -/
inductive JoinKind where | inner | left | right | full
  deriving DecidableEq, Repr

/-- the column types of the two sides after the ON predicate: both sides narrowed for an inner join; for a LEFT (RIGHT) outer join only
the right (left) side, because every row of the preserved side comes out whether or not it satisfies the predicate; nothing for FULL -/
def joinNarrow (cap : Nat) (k : JoinKind) (TL TR : List Ivs) (p : Pred) : List Ivs × List Ivs :=
  let F := filterT cap (TL ++ TR) p
  match k with
  | .inner => (F.take TL.length, F.drop TL.length)
  | .left => (TL, F.drop TL.length)
  | .right => (F.take TL.length, TR)
  | .full => (TL, TR)

end Qrlew

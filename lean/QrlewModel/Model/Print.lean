/-
Model of how the translators write scalar expressions (`dialect_translation/mod.rs`: `binary_op_builder`, `unary_op_builder`,
`is_null`, `InList`, `like`): every operand of a binary operator, of a prefix operator and of a suffix predicate (`IS NULL`,
`IN (…)`, `LIKE p`) is wrapped in parentheses, so that the text is read back the same way whatever the precedences of the
operators are.  `printOld` is the writer as it was before `fix:` 2471664 (suffix predicates left their operand bare).
The `exprprint` stream compares `print` with the token sequence of the text the real translator produces.
-/
namespace Qrlew.Print

inductive Tok where
  | lp | rp
  | atom (n : Nat)      -- a column or a literal
  | op (k : Nat)        -- an infix operator
  | pre (k : Nat)       -- a prefix operator (`NOT`, unary `-`)
  | suf (k : Nat)       -- a suffix predicate (`IS NULL`, `IN (…)`, `LIKE '…'`)
  deriving DecidableEq, Repr, Inhabited

inductive PE where
  | atom (n : Nat)
  | bin (k : Nat) (l r : PE)
  | pre (k : Nat) (x : PE)
  | suf (k : Nat) (x : PE)
  deriving DecidableEq, Repr, Inhabited

def print : PE → List Tok
  | .atom n => [.atom n]
  | .bin k l r => [.lp] ++ print l ++ [.rp, .op k, .lp] ++ print r ++ [.rp]
  | .pre k x => [.pre k, .lp] ++ print x ++ [.rp]
  | .suf k x => [.lp] ++ print x ++ [.rp, .suf k]

/-- the writer before the repair: a suffix predicate did not delimit its operand -/
def printOld : PE → List Tok
  | .atom n => [.atom n]
  | .bin k l r => [.lp] ++ printOld l ++ [.rp, .op k, .lp] ++ printOld r ++ [.rp]
  | .pre k x => [.pre k, .lp] ++ printOld x ++ [.rp]
  | .suf k x => printOld x ++ [.suf k]

/-- a reader for the delimited language: no precedence table is needed to read what `print` writes -/
def parse : Nat → List Tok → Option (PE × List Tok)
  | 0, _ => none
  | _ + 1, .atom n :: rest => some (.atom n, rest)
  | fuel + 1, .pre k :: .lp :: rest =>
      match parse fuel rest with
      | some (x, .rp :: r) => some (.pre k x, r)
      | _ => none
  | fuel + 1, .lp :: rest =>
      match parse fuel rest with
      | some (l, .rp :: .op k :: .lp :: r2) =>
          (match parse fuel r2 with
           | some (r, .rp :: r3) => some (.bin k l r, r3)
           | _ => none)
      | some (x, .rp :: .suf k :: r2) => some (.suf k x, r2)
      | _ => none
  | _ + 1, _ => none

def size : PE → Nat
  | .atom _ => 1
  | .bin _ l r => size l + size r + 1
  | .pre _ x => size x + 1
  | .suf _ x => size x + 1

end Qrlew.Print

/-
Model of privacy-unit tracking (`src/privacy_unit_tracking/mod.rs`) at the level of bags of tagged rows:
a tracked relation is a list of `(unit, row)`; a public (published) relation is a list of rows.
`Option` units model SQL NULL in the unit column (what outer joins on the non-tracked side produce).
-/
namespace Qrlew.Pup

variable {U α β γ : Type} [DecidableEq U]

/-- rows attributed to unit `u` -/
def restrict (u : U) (R : List (U × α)) : List (U × α) := R.filter fun r => r.1 == u

/-- `map` (projection) and `filter` (WHERE) are row-wise -/
def pmap (f : α → β) (R : List (U × α)) : List (U × β) := R.map fun r => (r.1, f r.2)
def pfilter (p : α → Bool) (R : List (U × α)) : List (U × α) := R.filter fun r => p r.2

/-- join of two tracked relations: the rewriting adds equality of the unit ids to the ON clause -/
def joinTracked (on : α → β → Bool) (R : List (U × α)) (S : List (U × β)) : List (U × (α × β)) :=
  R.flatMap fun r => (S.filter fun s => r.1 == s.1 && on r.2 s.2).map fun s => (r.1, (r.2, s.2))

/-- inner join of a tracked relation with a published one: the tracked side's id is kept -/
def joinPublished (on : α → β → Bool) (R : List (U × α)) (P : List β) : List (U × (α × β)) :=
  R.flatMap fun r => (P.filter fun b => on r.2 b).map fun b => (r.1, (r.2, b))

/-- LEFT OUTER join, tracked side preserved: unmatched tracked rows are kept (with a NULL right part) -/
def leftJoinPublished (on : α → β → Bool) (R : List (U × α)) (P : List β) : List (U × (α × Option β)) :=
  R.flatMap fun r =>
    let m := P.filter fun b => on r.2 b
    if m.isEmpty then [(r.1, (r.2, none))] else m.map fun b => (r.1, (r.2, some b))

/-- RIGHT OUTER join with the *published* side preserved: unmatched published rows get a NULL unit id -/
def rightJoinPublished (on : α → β → Bool) (R : List (U × α)) (P : List β) : List (Option U × (Option α × β)) :=
  P.flatMap fun b =>
    let m := R.filter fun r => on r.2 b
    if m.isEmpty then [(none, (none, b))] else m.map fun r => (some r.1, (some r.2, b))

/-- UNION ALL of two tracked relations (set operators compare whole rows, unit id included) -/
def punion (R S : List (U × α)) : List (U × α) := R ++ S

/-- a `LIMIT n` kept on a tracked map -/
def plimit (n : Nat) (R : List (U × α)) : List (U × α) := R.take n

/-- per-unit aggregation under the hard strategy: `GROUP BY unit, key`; `agg` folds the group's rows -/
def preduce [DecidableEq γ] (key : α → γ) (agg : List α → β) (R : List (U × α)) : List (U × (γ × β)) :=
  let groups := (R.map fun r => (r.1, key r.2)).eraseDups
  groups.map fun g => (g.1, (g.2, agg ((R.filter fun r => r.1 == g.1 && key r.2 == g.2).map (·.2))))

end Qrlew.Pup

/-
Model of the contribution limiting of `relation/rewriting.rs::limit_col_contributions` for one unit:
every (unit, key) row gets a random rank `r`; a row is kept iff the number of rows of the same unit
whose rank is ≥ its own is at most `K` (self-join on `r_i ≤ r_j`, count, filter `≤ K`).
-/
namespace Qrlew.Tau

/-- `#{ j | x ≤ r_j }` -/
def cnt (l : List Int) (x : Int) : Nat := (l.filter fun y => decide (x ≤ y)).length

/-- the ranks of the rows that are kept -/
def kept (k : Nat) (l : List Int) : List Int := l.filter fun x => decide (cnt l x ≤ k)

/-- the filter of tau-thresholding: `count + noise > τ` -/
def released (count noise tau : Int) : Bool := decide (count + noise > tau)

end Qrlew.Tau

/-
Model of the contribution limiting of `relation/rewriting.rs::limit_col_contributions` for one unit:
every (unit, key) row gets a random rank `r`; a row is kept iff the number of rows of the same unit
whose rank is ≥ its own is at most `K` (self-join on `r_i ≤ r_j`, count, filter `≤ K`).
-/
namespace Qrlew.Tau

/-- `#{ j | x ≤ r_j }` -/
def cnt (l : List Int) (x : Int) : Nat := (l.filter fun y => decide (x ≤ y)).length

/-- the ranks of the rows that are kept -/
def kept (k : Nat) (l : List Int) : List Int := l.filter fun x => decide (cnt l x ≤ k)

/-- the filter of tau-thresholding: `count + noise > τ` -/
def released (count noise tau : Int) : Bool := decide (count + noise > tau)

/-- grouping keys with public values: the released rows are the listed values left-joined with the per-key aggregates of the data
(`join_with_grouping_values`); a key absent from the data gets no aggregate -/
def releasePublic {κ ν : Type} (vals : List κ) (agg : κ → Option ν) : List (κ × Option ν) := vals.map fun k => (k, agg k)

/-- what a plain GROUP BY over the protected rows would release instead: one row per key present in the data -/
def releaseFromData {κ ν : Type} [DecidableEq κ] (rows : List (κ × ν)) : List κ := (rows.map (·.1)).eraseDups

end Qrlew.Tau

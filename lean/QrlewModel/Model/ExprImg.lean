import QrlewModel.Model.Monotone
import QrlewModel.Model.Filter
/-
Arithmetic expression trees (`+`, `-`, `*`, `greatest`, `least`) over integer columns and the range `Expr::super_image` propagates for them: the type of
`f(e₁, e₂)` is the image under `f` (`plusImage` / `minusImage` / `mulImage`, the models of the partitioned-monotonic
implementations in `data_type/function.rs`) of the types propagated for `e₁` and `e₂`; a literal has the one-point type.
Compared with the real `Expr::super_image` by the `exprimg` stream; `Props/C06Tree.lean` proves the propagated range sound
for every tree.
-/
namespace Qrlew.ExprImg

inductive AE where
  | col (i : Nat)
  | lit (v : Int)
  | plus (a b : AE)
  | minus (a b : AE)
  | mul (a b : AE)
  | greatest (a b : AE)
  | least (a b : AE)
  deriving Repr, Inhabited

/-- value of the expression on a row (saturating i64 arithmetic, as the image computation uses) -/
def eval (env : Nat → Int) : AE → Int
  | .col i => env i
  | .lit v => v
  | .plus a b => plusI (eval env a) (eval env b)
  | .minus a b => minusI (eval env a) (eval env b)
  | .mul a b => mulI (eval env a) (eval env b)
  | .greatest a b => max (eval env a) (eval env b)
  | .least a b => min (eval env a) (eval env b)

/-- the propagated range -/
def image (cap : Nat) (tys : Nat → Ivs) : AE → Ivs
  | .col i => tys i
  | .lit v => [(v, v)]
  | .plus a b => plusImage cap (image cap tys a) (image cap tys b)
  | .minus a b => minusImage cap (image cap tys a) (image cap tys b)
  | .mul a b => mulImage cap (image cap tys a) (image cap tys b)
  | .greatest a b => greatestImage cap (image cap tys a) (image cap tys b)
  | .least a b => leastImage cap (image cap tys a) (image cap tys b)

end Qrlew.ExprImg

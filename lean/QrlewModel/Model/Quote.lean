/-
Model of how string literals and quoted identifiers are written and read back
(`sqlparser::ast::value::EscapeQuotedString` used by the renderer, and the tokenizer's
`tokenize_quoted_string` in un-escaping mode), on lists of characters.
-/
namespace Qrlew.Quote

/-- `EscapeQuotedString::fmt` with quote `q`: `prev` is the previously *recorded* character.
The heuristic: a quote after a backslash, or followed by another quote, is assumed to be already escaped. -/
def esc (q : Char) (prev : Char) : List Char → List Char
  | [] => []
  | [c] => if c == q then (if prev == '\\' then [c] else [q, q]) else [c]
  | c :: c' :: rest' =>
    if c == q then
      if prev == '\\' then c :: esc q prev (c' :: rest')      -- `continue`: previous_char is not updated
      else if c' == q then q :: q :: esc q c rest'             -- a pair of quotes is consumed and written as it is
      else q :: q :: esc q c (c' :: rest')
    else c :: esc q c (c' :: rest')

/-- body of a quoted token as read by the tokenizer: a doubled quote is one quote, a lone quote is not allowed inside -/
def unesc (q : Char) : List Char → Option (List Char)
  | [] => some []
  | [c] => if c == q then none else some [c]
  | c :: c' :: rest' =>
    if c == q then (if c' == q then (unesc q rest').map (q :: ·) else none)
    else (unesc q (c' :: rest')).map (c :: ·)

/-- the string contains no quote that the escaping heuristic would leave alone:
no quote right after a backslash and no two quotes in a row -/
def Clean (q : Char) (prev : Char) : List Char → Prop
  | [] => True
  | c :: rest => (c = q → prev ≠ '\\' ∧ rest.head? ≠ some q) ∧ Clean q c rest

/-- `[ident]` (MS SQL style): no escaping at all; reading stops at the first `]` -/
def bracket (s : List Char) : List Char := '[' :: s ++ [']']
def unbracket : List Char → Option (List Char)
  | '[' :: rest => some (rest.takeWhile (· != ']'))
  | _ => none

end Qrlew.Quote

namespace Qrlew.Quote

/-- the character a backslash escape stands for in the dialects that have them (`tokenize_quoted_string`, unescape mode) -/
def escChar (c : Char) : Char :=
  if c == '0' then Char.ofNat 0 else if c == 'a' then Char.ofNat 7 else if c == 'b' then Char.ofNat 8
  else if c == 'f' then Char.ofNat 12 else if c == 'n' then '\n' else if c == 'r' then '\r' else if c == 't' then '\t'
  else if c == 'Z' then Char.ofNat 26 else c

/-- the tokenizer after an opening quote `q`: value read and the text left after the closing quote;
`bs`: the dialect treats backslash as an escape inside string literals (MySQL, BigQuery) -/
def readQ (q : Char) (bs : Bool) : List Char → Option (List Char × List Char)
  | [] => none
  | [c] => if c == q then some ([], []) else none
  | c :: c' :: rest' =>
    if c == q then (if c' == q then (readQ q bs rest').map (fun (v, r) => (q :: v, r)) else some ([], c' :: rest'))
    else if bs && c == '\\' then (readQ q bs rest').map (fun (v, r) => (escChar c' :: v, r))
    else (readQ q bs (c' :: rest')).map (fun (v, r) => (c :: v, r))

/-- a whole token: opening quote, body, closing quote, nothing after -/
def readBack (q : Char) (bs : Bool) : List Char → Option (List Char)
  | [] => none
  | c :: rest => if c == q then (match readQ q bs rest with | some (v, []) => some v | _ => none) else none

/-- what the renderer writes for a value: quote, escaped body, quote -/
def write (q : Char) (s : List Char) : List Char := q :: esc q (Char.ofNat 0) s ++ [q]

end Qrlew.Quote

/-
Model of how string literals and quoted identifiers are written and read back
(`sqlparser::ast::value::EscapeQuotedString` used by the renderer, and the tokenizer's
`tokenize_quoted_string` in un-escaping mode), on lists of characters.
-/
namespace Qrlew.Quote

/-- `EscapeQuotedString::fmt` with quote `q`: `prev` is the previously *recorded* character.
The heuristic: a quote after a backslash, or followed by another quote, is assumed to be already escaped. -/
def esc (q : Char) (prev : Char) : List Char → List Char
  | [] => []
  | [c] => if c == q then (if prev == '\\' then [c] else [q, q]) else [c]
  | c :: c' :: rest' =>
    if c == q then
      if prev == '\\' then c :: esc q prev (c' :: rest')      -- `continue`: previous_char is not updated
      else if c' == q then q :: q :: esc q c rest'             -- a pair of quotes is consumed and written as it is
      else q :: q :: esc q c (c' :: rest')
    else c :: esc q c (c' :: rest')

/-- body of a quoted token as read by the tokenizer: a doubled quote is one quote, a lone quote is not allowed inside -/
def unesc (q : Char) : List Char → Option (List Char)
  | [] => some []
  | [c] => if c == q then none else some [c]
  | c :: c' :: rest' =>
    if c == q then (if c' == q then (unesc q rest').map (q :: ·) else none)
    else (unesc q (c' :: rest')).map (c :: ·)

/-- the string contains no quote that the escaping heuristic would leave alone:
no quote right after a backslash and no two quotes in a row -/
def Clean (q : Char) (prev : Char) : List Char → Prop
  | [] => True
  | c :: rest => (c = q → prev ≠ '\\' ∧ rest.head? ≠ some q) ∧ Clean q c rest

/-- `[ident]` (MS SQL style): no escaping at all; reading stops at the first `]` -/
def bracket (s : List Char) : List Char := '[' :: s ++ [']']
def unbracket : List Char → Option (List Char)
  | '[' :: rest => some (rest.takeWhile (· != ']'))
  | _ => none

end Qrlew.Quote

import QrlewModel.Model.DpEvent
/-
Model of the clipping pipeline of `relation/rewriting.rs` (`l2_norms → scale → sums_by_group` =
`l2_clipped_sums`), generic in the number type (Float in the driver, ℝ in the theorems).
A privacy unit is represented by the vector of its per-group partial sums (one entry per group, in a
fixed group order); the released vector is the sum over units of the rescaled vectors.
-/
namespace Qrlew.Clip
variable {K : Type} (o : NumOps K) (isZero : K → Bool)

def vsum (l : List K) : K := l.foldr o.add (o.ofNat 0)

/-- squared L2 norm of a unit's vector -/
def normSq (v : List K) : K := vsum o (v.map fun x => o.mul x x)

/-- `1 / greatest(1, norm / C)`, and the literal `0` when `C = 0` -/
def scale (c : K) (v : List K) : K :=
  if isZero c then o.ofNat 0 else o.div (o.ofNat 1) (o.max (o.ofNat 1) (o.div (o.sqrt (normSq o v)) c))

/-- a unit's contribution after clipping -/
def scaled (c : K) (v : List K) : List K := v.map fun x => o.mul x (scale o isZero c v)

def vadd (a b : List K) : List K := List.zipWith o.add a b
def vsub (a b : List K) : List K := List.zipWith o.sub a b

/-- the clipped sums per group over all units (`g` groups) -/
def total (g : Nat) (c : K) : List (List K) → List K
  | [] => List.replicate g (o.ofNat 0)
  | u :: us => vadd o (scaled o isZero c u) (total g c us)

end Qrlew.Clip

import QrlewModel.Model.Intervals
/-
Model of `PartitionnedMonotonic::super_image` (`src/data_type/function.rs`) for arity 1 and 2 over
integer bounds: the argument set is intersected with every partition, every resulting interval (box)
is mapped to the hull of the values at its endpoints (corners), and the hulls are collected into an
interval set.  All partitions declared in `function.rs` are single intervals / products of single
intervals, so partitions are modelled as `(lo, hi)` pairs.
-/
namespace Qrlew

def min4 (a b c d : Int) : Int := min (min a b) (min c d)
def max4 (a b c d : Int) : Int := max (max a b) (max c d)

/-- unary: `partitions.flat_map(|p| (set ∩ p).iter().map(|[a, b]| [min(f a, f b), max(f a, f b)])).collect()` -/
def pmImage1 (cap : Nat) (parts : List (Int × Int)) (f : Int → Int) (s : Ivs) : Ivs :=
  fromIntervals cap (parts.flatMap fun p =>
    (inter cap s [p]).map fun ab => (min (f ab.1) (f ab.2), max (f ab.1) (f ab.2)))

/-- binary: boxes are the products of the intervals of `s1 ∩ p1` and `s2 ∩ p2`; corners are the 4 bound combinations.
The boxes are visited with the second argument's intervals in the outer loop (`IntervalsProduct::iter` recurses into the
tail of the product first): the order matters for the result once the capacity of the interval set is exceeded. -/
def pmImage2 (cap : Nat) (parts : List ((Int × Int) × (Int × Int))) (f : Int → Int → Int) (s1 s2 : Ivs) : Ivs :=
  fromIntervals cap (parts.flatMap fun p =>
    (inter cap s2 [p.2]).flatMap fun cd => (inter cap s1 [p.1]).map fun ab =>
      (min4 (f ab.1 cd.1) (f ab.1 cd.2) (f ab.2 cd.1) (f ab.2 cd.2),
       max4 (f ab.1 cd.1) (f ab.1 cd.2) (f ab.2 cd.1) (f ab.2 cd.2)))

/-! ### the integer implementations of `function.rs` (saturating i64 arithmetic) -/

def i64Min : Int := -9223372036854775808
def i64Max : Int := 9223372036854775807
/-- clamp to the i64 range (`saturating_*`) -/
def sat (x : Int) : Int := max i64Min (min i64Max x)

def fullI : Int × Int := (i64Min, i64Max)
def geZero : Int × Int := (0, i64Max)
def leZero : Int × Int := (i64Min, 0)

def plusI (x y : Int) : Int := sat (x + y)
def minusI (x y : Int) : Int := sat (x - y)
def mulI (x y : Int) : Int := sat (x * y)

/-- `plus()` / `minus()`: one partition, the whole plane -/
def plusParts : List ((Int × Int) × (Int × Int)) := [(fullI, fullI)]
/-- `multiply()`: the four quadrants, in the order of `function.rs` -/
def mulParts : List ((Int × Int) × (Int × Int)) := [(geZero, geZero), (geZero, leZero), (leZero, geZero), (leZero, leZero)]

def plusImage (cap : Nat) (s1 s2 : Ivs) : Ivs := pmImage2 cap plusParts plusI s1 s2
def minusImage (cap : Nat) (s1 s2 : Ivs) : Ivs := pmImage2 cap plusParts minusI s1 s2
def mulImage (cap : Nat) (s1 s2 : Ivs) : Ivs := pmImage2 cap mulParts mulI s1 s2

/-- integer `sum()` aggregate: image = `multiply().super_image(hull of the element type × list size)`
(the hull was added by the repair of the union-of-intervals defect, /repo commit "fix: range of sum over a union …") -/
def sumImage (cap : Nat) (elems sizes : Ivs) : Ivs := mulImage cap (simplify cap (hull elems)) sizes

end Qrlew

import QrlewModel.Model.Intervals
/-
The DataType lattice on the composite fragment the SQL path produces: integer interval sets, nullable integers (`Optional`
around a scalar: what a nullable column is), two-field structs and lists with a size, nested at will.  `subset`, `union`,
`inter` mirror `DataType::is_subset_of`, `super_union`, `super_intersection` (`data_type/mod.rs`) on pairs of types of the
same shape (leaf optionality may differ), and are compared with them by the `dtlat` stream.
-/
namespace Qrlew.DTLat

inductive DT where
  | int (s : Ivs)
  | opt (s : Ivs)
  | pair (a b : DT)
  | list (t : DT) (size : Ivs)
  deriving Repr, Inhabited, DecidableEq

/-- `is_subset_of` -/
def subset (cap : Nat) : DT → DT → Bool
  | .int a, .int b => isSubsetOf cap a b
  | .int a, .opt b => isSubsetOf cap a b
  | .opt a, .opt b => isSubsetOf cap a b
  | .pair a b, .pair c d => subset cap a c && subset cap b d
  | .list t s, .list t' s' => subset cap t t' && isSubsetOf cap s s'
  | _, _ => false

/-- `super_union` (`none` where the shapes differ: outside the fragment) -/
def union (cap : Nat) : DT → DT → Option DT
  | .int a, .int b => some (.int (Qrlew.union cap a b))
  | .int a, .opt b => some (.opt (Qrlew.union cap a b))
  | .opt a, .int b => some (.opt (Qrlew.union cap a b))
  | .opt a, .opt b => some (.opt (Qrlew.union cap a b))
  | .pair a b, .pair c d => do pure (.pair (← union cap a c) (← union cap b d))
  | .list t s, .list t' s' => do pure (.list (← union cap t t') (Qrlew.union cap s s'))
  | _, _ => none

/-- `super_intersection` -/
def inter (cap : Nat) : DT → DT → Option DT
  | .int a, .int b => some (.int (Qrlew.inter cap a b))
  | .int a, .opt b => some (.int (Qrlew.inter cap a b))
  | .opt a, .int b => some (.int (Qrlew.inter cap a b))
  | .opt a, .opt b => some (.opt (Qrlew.inter cap a b))
  | .pair a b, .pair c d => do pure (.pair (← inter cap a c) (← inter cap b d))
  | .list t s, .list t' s' => do pure (.list (← inter cap t t') (Qrlew.inter cap s s'))
  | _, _ => none

end Qrlew.DTLat

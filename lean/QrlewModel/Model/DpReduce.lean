import QrlewModel.Model.DpEvent
/-
The privacy accounting of one whole DP aggregation (`Reduce::differentially_private` in `differential_privacy/mod.rs`,
`Reduce::differentially_private_aggregates` / `Relation::gaussian_mechanisms` in `aggregates.rs`): which σ each sum receives
and which event is returned, for any number of DISTINCT-split groups and any number of sums per group.  The driver runs these
definitions on `Float` against the σ / C / event read off the real rewritten relation (stream `dpquery`); `Props/C03.lean`
reasons about them over `ℝ`.
-/
namespace Qrlew.DpReduce
open Qrlew Qrlew.DpEvent

variable {K : Type} (o : NumOps K)

/-- the (ε, δ) handed to the aggregates of one of the `g` reduces the DISTINCT split produces
(`DpAggregatesParameters::from_dp_parameters(.., aggregation_share)` then `.split(g)`; `g = 0` cannot occur, the code divides by
`max(g, 1)`) -/
def groupBudget (eps delta share : K) (tauUsed : Bool) (g : Nat) : K × K :=
  let s := Budget.aggShare o tauUsed share
  let n := o.ofNat (if g < 1 then 1 else g)
  (o.div (o.mul eps s) n, o.div (o.mul delta s) n)

/-- σ of every sum, group by group: `gaussian_mechanisms(ε_G, δ_G, bounds)` -/
def sigmas (eps delta share : K) (tauUsed : Bool) (groups : List (List K)) : List (List K) :=
  let b := groupBudget o eps delta share tauUsed groups.length
  groups.map fun bounds => Budget.sigmas o b.1 b.2 bounds

/-- the event of one group: one `Gaussian(recorded multiplier)` per sum whose σ is positive, `NoOp` for the others -/
def groupEvent (z pos : K → Bool) (epsG deltaG : K) (bounds : List K) : DpEvent K :=
  collect z ((Budget.sigmas o epsG deltaG bounds).map fun s =>
    if pos s then .gaussian (Budget.recordedMultiplier o epsG deltaG) else .noOp)

/-- the event of the whole reduce: the key release (if any) composed with the events of the groups in order -/
def event (z pos : K → Bool) (eps delta share : K) (tauUsed : Bool) (groups : List (List K)) : DpEvent K :=
  let tau : DpEvent K := if tauUsed then .epsilonDelta (o.mul eps share) (o.mul delta share) else .noOp
  let b := groupBudget o eps delta share tauUsed groups.length
  let agg := match groups.map (groupEvent o z pos b.1 b.2) with
    | [] => .noOp
    | e :: es => es.foldl (compose z) e      -- `Iterator::reduce` over the per-group DP relations
  compose z (compose z .noOp tau) agg

end Qrlew.DpReduce

/-
Model of `namer.rs` and `encoder.rs`: the process-wide counter behind `new_name` / `new_id`,
content-derived names (`name_from_content`: prefix + 4 base-37 digits of a hash), and the encoder.
Names are kept structured (`Out`) — text is produced only by the driver.
-/
namespace Qrlew.Namer

/-- the `COUNTER` map: key ↦ last value handed out -/
abbrev Counter := List (String × Nat)

def lookup (c : Counter) (k : String) : Option Nat :=
  match c with
  | [] => none
  | (k', n) :: rest => if k' = k then some n else lookup rest k

def put (c : Counter) (k : String) (n : Nat) : Counter :=
  match c with
  | [] => [(k, n)]
  | (k', m) :: rest => if k' = k then (k, n) :: rest else (k', m) :: put rest k n

/-- `count`: first call for a key returns 0 (`or_default`), later calls return the incremented value -/
def next (c : Counter) (k : String) : Nat := match lookup c k with | none => 0 | some n => n + 1
def count (c : Counter) (k : String) : Counter × Nat := (put c k (next c k), next c k)

/-- `Encoder::encode`: `len` digits, least significant first -/
def encode (alphabet : List Char) : Nat → Nat → List Char
  | 0, _ => []
  | len + 1, x => alphabet.getD (x % alphabet.length) '?' :: encode alphabet len (x / alphabet.length)

def base37 : List Char := "0123456789abcdefghijklmnopqrstuvwxyz_".toList

inductive Op where
  | name (pfx : String)                 -- new_name
  | id (pfx : String)                   -- new_id
  | content (pfx : String) (hash : Nat) -- name_from_content, given the hash of the content
  deriving Repr

inductive Out where
  | counted (pfx : String) (n : Nat)
  | idx (pfx : String) (n : Nat)
  | hashed (pfx : String) (code : List Char)
  deriving Repr, DecidableEq

def Op.isContent : Op → Bool | .content .. => true | _ => false

def step (c : Counter) : Op → Counter × Out
  | .name p => let (c', n) := count c p; (c', .counted p n)
  | .id p => let (c', n) := count c p; (c', .idx p n)
  | .content p h => (c, .hashed p (encode base37 4 h))

def run (c : Counter) : List Op → Counter × List Out
  | [] => (c, [])
  | op :: ops => let (c', o) := step c op; let (c'', os) := run c' ops; (c'', o :: os)

/-- the numbers handed out for key `p` in a list of outputs -/
def numbersFor (p : String) : List Out → List Nat
  | [] => []
  | .counted q n :: os => if q = p then n :: numbersFor p os else numbersFor p os
  | .idx q n :: os => if q = p then n :: numbersFor p os else numbersFor p os
  | .hashed .. :: os => numbersFor p os

/-- text of an output (driver only) -/
def Out.text : Out → String
  | .counted p n => if p.isEmpty then toString n else p ++ "_" ++ toString n
  | .idx _ n => toString n
  | .hashed p code => p ++ "_" ++ String.ofList code

end Qrlew.Namer

import QrlewModel.Model.Tau
import QrlewModel.Model.PupTree
/-
Model of the key-release pipeline of `differential_privacy/group_by.rs` (`tau_thresholding_values`) on the (privacy unit, key)
pairs of the protected rows:

1. `unique`: the distinct (key, unit) pairs;
2. `limit_col_contributions(unit, K)`: every pair gets a random rank; a pair is kept iff at most `K` pairs of the same unit have a
   rank ≥ its own (`Tau.kept` on the unit's ranks);
3. per key: the number of kept pairs (= distinct units, after step 1) plus the drawn noise has to exceed τ.
-/
namespace Qrlew.TauKeys

abbrev Pair := Nat × Int

/-- keep the first occurrence of every element (the same function as in the privacy-unit-tracking model) -/
abbrev dedup {α : Type} [DecidableEq α] (l : List α) : List α := PupTree.dedup l

/-- ranks of the pairs of unit `u` -/
def ranksOf (rank : Pair → Int) (ps : List Pair) (u : Nat) : List Int := (ps.filter fun p => p.1 == u).map rank

/-- step 2 -/
def limited (K : Nat) (rank : Pair → Int) (ps : List Pair) : List Pair :=
  ps.filter fun p => decide (Tau.cnt (ranksOf rank ps p.1) (rank p) ≤ K)

/-- number of pairs with key `k` -/
def countKey (ps : List Pair) (k : Int) : Nat := (ps.filter fun p => p.2 == k).length

/-- the released keys -/
def releasedKeys (K : Nat) (rank : Pair → Int) (noise : Int → Int) (tau : Int) (rows : List Pair) : List Int :=
  let ps := limited K rank (dedup rows)
  (dedup (ps.map (·.2))).filter fun k => Tau.released (Int.ofNat (countKey ps k)) (noise k) tau

end Qrlew.TauKeys

/-
Model of `expr/split.rs`: a select item that mixes aggregates and scalar functions is cut into three layers —
a Map computing the arguments of the aggregates, a Reduce computing the aggregates, a Map combining them —
whose intermediate columns are *named after their content* (`namer::name_from_content`).
`name` is that naming function; the layers communicate only through names.
-/
namespace Qrlew.Split

inductive Fn where | plus | minus | times | abs | neg
  deriving DecidableEq, Repr
inductive Agg where | sum | count | min | max
  deriving DecidableEq, Repr

/-- row-level expressions -/
inductive S where
  | col (i : Nat) | lit (n : Int) | app1 (f : Fn) (a : S) | app2 (f : Fn) (a b : S)
  deriving DecidableEq, Repr

/-- select items: aggregates of row-level expressions, combined by scalar functions -/
inductive A where
  | agg (g : Agg) (s : S) | lit (n : Int) | app1 (f : Fn) (a : A) | app2 (f : Fn) (a b : A)
  deriving DecidableEq, Repr

/-- the top Map: scalar functions over the Reduce's output columns -/
inductive P (ν : Type) where
  | ref (n : ν) | lit (k : Int) | app1 (f : Fn) (a : P ν) | app2 (f : Fn) (a b : P ν)
  deriving Repr

def fn1 : Fn → Int → Int
  | .abs, x => x.natAbs | .neg, x => -x | _, x => x
def fn2 : Fn → Int → Int → Int
  | .plus, x, y => x + y | .minus, x, y => x - y | .times, x, y => x * y | _, x, _ => x

def aggFn : Agg → List Int → Int
  | .sum, l => l.foldl (· + ·) 0
  | .count, l => l.length
  | .min, l => l.foldl min (l.headD 0)
  | .max, l => l.foldl max (l.headD 0)

abbrev Row := List Int

def evalS (r : Row) : S → Int
  | .col i => r.getD i 0 | .lit n => n | .app1 f a => fn1 f (evalS r a) | .app2 f a b => fn2 f (evalS r a) (evalS r b)

/-- the meaning of a select item over one group of rows -/
def evalA (rows : List Row) : A → Int
  | .agg g s => aggFn g (rows.map fun r => evalS r s)
  | .lit n => n | .app1 f a => fn1 f (evalA rows a) | .app2 f a b => fn2 f (evalA rows a) (evalA rows b)

/-- the aggregate columns of the Reduce layer, in the order they are met (duplicates allowed: they get the same name) -/
def aggs : A → List (Agg × S)
  | .agg g s => [(g, s)] | .lit _ => [] | .app1 _ a => aggs a | .app2 _ a b => aggs a ++ aggs b

/-- the columns of the bottom Map: the arguments of the aggregates -/
def pre (a : A) : List S := (aggs a).map (·.2)

/-- the top Map: every aggregate replaced by a reference to the column named after it -/
def post (name : Agg × S → ν) : A → P ν
  | .agg g s => .ref (name (g, s)) | .lit n => .lit n | .app1 f a => .app1 f (post name a) | .app2 f a b => .app2 f (post name a) (post name b)

/-- a layer's output: name ↦ value; a later layer reads the first column with the name it asks for -/
def lookup [DecidableEq ν] (env : List (ν × Int)) (n : ν) : Int :=
  match env with
  | [] => 0
  | (m, v) :: rest => if m = n then v else lookup rest n

/-- bottom Map on one row: one column per aggregate argument, named after the expression -/
def mapOut [DecidableEq σ] (sname : S → σ) (a : A) (r : Row) : List (σ × Int) := (pre a).map fun s => (sname s, evalS r s)

/-- Reduce on a group: one column per aggregate, reading its argument by name from the bottom Map -/
def reduceOut [DecidableEq σ] [DecidableEq ν] (sname : S → σ) (name : Agg × S → ν) (a : A) (rows : List Row) : List (ν × Int) :=
  (aggs a).map fun k => (name k, aggFn k.1 (rows.map fun r => lookup (mapOut sname a r) (sname k.2)))

def evalP [DecidableEq ν] (env : List (ν × Int)) : P ν → Int
  | .ref n => lookup env n | .lit k => k | .app1 f a => fn1 f (evalP env a) | .app2 f a b => fn2 f (evalP env a) (evalP env b)

/-- the three layers run one after the other -/
def evalSplit [DecidableEq σ] [DecidableEq ν] (sname : S → σ) (name : Agg × S → ν) (a : A) (rows : List Row) : Int :=
  evalP (reduceOut sname name a rows) (post name a)

/-! ### a whole select list (`Split::from_iter`): one bottom Map and one Reduce for all items, one top-Map column per item, in the order of the list -/

def aggsAll {ι : Type} (items : List (ι × A)) : List (Agg × S) := items.flatMap fun it => aggs it.2

def mapOutAll {ι : Type} [DecidableEq σ] (sname : S → σ) (items : List (ι × A)) (r : Row) : List (σ × Int) :=
  (aggsAll items).map fun k => (sname k.2, evalS r k.2)

def reduceOutAll {ι : Type} [DecidableEq σ] [DecidableEq ν] (sname : S → σ) (name : Agg × S → ν) (items : List (ι × A)) (rows : List Row) : List (ν × Int) :=
  (aggsAll items).map fun k => (name k, aggFn k.1 (rows.map fun r => lookup (mapOutAll sname items r) (sname k.2)))

/-- the columns of the top Map: (output name, expression over the Reduce's columns), item by item -/
def topAll {ι : Type} (name : Agg × S → ν) (items : List (ι × A)) : List (ι × P ν) := items.map fun it => (it.1, post name it.2)

/-- the row the three layers produce for one group: output name ↦ value, in the order of the top Map's columns -/
def evalSplitAll {ι : Type} [DecidableEq σ] [DecidableEq ν] (sname : S → σ) (name : Agg × S → ν) (items : List (ι × A)) (rows : List Row) : List (ι × Int) :=
  (topAll name items).map fun c => (c.1, evalP (reduceOutAll sname name items rows) c.2)

/-- output columns of a SELECT: an item without alias is named after its content -/
def outputNames [DecidableEq ν] (name : A → ν) (items : List (Option ν × A)) : List ν :=
  (items.map fun (al, a) => al.getD (name a)).eraseDups

end Qrlew.Split

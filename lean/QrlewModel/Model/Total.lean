/-
Model of the arithmetic that decides whether computing a type "image" can panic:
`i64` operations as the code uses them (saturating add/sub/mul, `saturating_div` which panics on a zero divisor,
`abs` which overflows on `i64::MIN`, `unsigned_abs`), the corner evaluation of `PartitionnedMonotonic::super_image`
on the two-piece partition `[0, +∞) / (-∞, 0]`, and the sign class of a float quotient (NaN exactly for 0/0).
`none` always means: the real computation panics.
-/
namespace Qrlew.Total

def minI : Int := -9223372036854775808
def maxI : Int := 9223372036854775807

def clampI (x : Int) : Int := if x < minI then minI else if maxI < x then maxI else x

def satAdd (x y : Int) : Int := clampI (x + y)
def satSub (x y : Int) : Int := clampI (x - y)
def satMul (x y : Int) : Int := clampI (x * y)
/-- `i64::saturating_div`: truncating division, saturating on `MIN / -1`, panicking on a zero divisor -/
def satDiv? (x y : Int) : Option Int := if y = 0 then none else some (clampI (Int.tdiv x y))

/-- `i64::abs` under overflow checks -/
def abs? (x : Int) : Option Nat := if x = minI then none else some x.natAbs
/-- `absolute_upper_bound` as it was (`min.abs()`, `max.abs()`) and as it is (`unsigned_abs`) -/
def absUpperOld? (lo hi : Int) : Option Nat := do let a ← abs? lo; let b ← abs? hi; pure (max a b)
def absUpperNew (lo hi : Int) : Nat := max lo.natAbs hi.natAbs

/-- the pieces of `[a, b]` in `[0, +∞)` and `(-∞, 0]`, in the order the code lists its partitions -/
def parts (a b : Int) : List (Int × Int) :=
  (if 0 ≤ b then [(max a 0, b)] else []) ++ (if a ≤ 0 then [(a, min b 0)] else [])

/-- the four corner values of a piece pair, then `(smallest, largest)` -/
def corners? (f : Int → Int → Option Int) (px py : Int × Int) : Option (Int × Int) :=
  match f px.1 py.1, f px.1 py.2, f px.2 py.1, f px.2 py.2 with
  | some v1, some v2, some v3, some v4 => some (min (min v1 v2) (min v3 v4), max (max v1 v2) (max v3 v4))
  | _, _, _, _ => none

def allSome : List (Option α) → Option (List α)
  | [] => some []
  | none :: _ => none
  | some x :: rest => (allSome rest).map (x :: ·)

/-- image of a piecewise-monotone integer function on `[a,b] × [c,d]`: one interval per pair of pieces -/
def pieceImage? (f : Int → Int → Option Int) (a b c d : Int) : Option (List (Int × Int)) :=
  allSome ((parts a b).flatMap fun px => (parts c d).map fun py => corners? f px py)

def divImage? := pieceImage? satDiv?
def mulImage? := pieceImage? (fun x y => some (satMul x y))
/-- plus / minus are monotone on the whole plane: one corner evaluation -/
def wholeImage? (f : Int → Int → Option Int) (a b c d : Int) : Option (List (Int × Int)) := allSome [corners? f (a, b) (c, d)]

def hull : List (Int × Int) → Option (Int × Int)
  | [] => none
  | p :: rest => match hull rest with | none => some p | some (lo, hi) => some (min p.1 lo, max p.2 hi)

/-- sign class of the float quotient `x / y` after `clamp(f64::MIN, f64::MAX)`, for finite `x`, `y` given by their signs -/
inductive QClass where | nan | neg | zero | pos
  deriving DecidableEq, Repr

def fdivClass (x y : Int) : QClass :=
  if y = 0 then (if x = 0 then .nan else if 0 < x then .pos else .neg)    -- ±inf is clamped to ±MAX; the float zero bound is +0.0
  else if x = 0 then .zero else if (0 < x) = (0 < y) then .pos else .neg

/-- some corner of some piece pair of `[a,b] × [c,d]` evaluates to NaN -/
def fdivNanCorner (a b c d : Int) : Bool :=
  (parts a b).any fun px => (parts c d).any fun py =>
    [fdivClass px.1 py.1, fdivClass px.1 py.2, fdivClass px.2 py.1, fdivClass px.2 py.2].contains .nan

/-- `Map::size` on `i64`: the upper bound after OFFSET and LIMIT as the code computes it (`max(0, max - offset)`, then `min(limit, ·)`),
and the variant that subtracts with `saturating_sub` (which saturates at `i64::MIN`, not at 0) -/
def mapSizeHi (inputMax : Int) (offset limit : Option Int) : Int :=
  let m := match offset with | some o => max 0 (inputMax - o) | none => inputMax
  match limit with | some l => min l m | none => m

/-- `i64::try_from(n).unwrap_or(i64::MAX)`: how `Map::size` converts the `usize` of a LIMIT / OFFSET since `fix:` cd44703 -/
def usizeToI64Sat (n : Nat) : Int := if (n : Int) ≤ maxI then n else maxI
/-- `n as i64` for a 64-bit `usize`: what it did before (two's-complement reinterpretation) -/
def usizeAsI64 (n : Nat) : Int := if (n : Int) ≤ maxI then n else (n : Int) - 18446744073709551616

def mapSizeHiSaturating (inputMax : Int) (offset limit : Option Int) : Int :=
  let m := match offset with | some o => clampI (inputMax - o) | none => inputMax
  match limit with | some l => min l m | none => m

end Qrlew.Total

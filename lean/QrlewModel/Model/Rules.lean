/-
Model of the rewriting-rule search of `src/rewriting/rewriting_rule.rs` / `src/rewriting/mod.rs`:
labels (`Property`), rules, relation trees carrying the rules attached to every node
(`RelationWithRewritingRules`), bottom-up elimination (`RewritingRulesEliminator`), enumeration of
all consistent choices (`SelectRewritingRuleVisitor` + `RewritingRulesSelector`), score and arg-max.
Generic in the rule sets: nothing here depends on which rules the setter attaches.
-/
namespace Qrlew

/-- `rewriting_rule::Property`. -/
inductive Label where
  | priv | sd | pup | dp | pubd | pub
  deriving DecidableEq, Repr, Inhabited

/-- `RewritingRule` (parameters carry no label information and are omitted). -/
structure Rule where
  inputs : List Label
  output : Label
  deriving DecidableEq, Repr, Inhabited

/-- A relation tree with the candidate rules of every node (tables/values are leaves,
maps/reduces unary, joins/sets binary). -/
inductive RTree where
  | leaf (rules : List Rule)
  | unary (rules : List Rule) (c : RTree)
  | binary (rules : List Rule) (l r : RTree)
  deriving Repr, Inhabited

def RTree.rules : RTree → List Rule
  | .leaf rs => rs
  | .unary rs _ => rs
  | .binary rs _ _ => rs

/-- One rule per node (`RelationWithRewritingRule`). -/
inductive Deriv where
  | leaf (r : Rule)
  | unary (r : Rule) (c : Deriv)
  | binary (r : Rule) (l r' : Deriv)
  deriving DecidableEq, Repr, Inhabited

def Deriv.rule : Deriv → Rule
  | .leaf r => r
  | .unary r _ => r
  | .binary r _ _ => r

def Deriv.output (d : Deriv) : Label := d.rule.output

/-- `rr.inputs()[0] == *input.attributes().output()`. -/
def fits1 (r : Rule) (a : Label) : Bool := r.inputs[0]? == some a

/-- `rr.inputs()[0] == left.output && rr.inputs()[1] == right.output`. -/
def fits2 (r : Rule) (a b : Label) : Bool := r.inputs[0]? == some a && r.inputs[1]? == some b

/-- `RewritingRulesEliminator` applied bottom-up by `map_rewriting_rules`. -/
def eliminate : RTree → RTree
  | .leaf rs => .leaf rs
  | .unary rs c =>
    let c' := eliminate c
    .unary (rs.filter fun r => c'.rules.any fun q => fits1 r q.output) c'
  | .binary rs l r =>
    let l' := eliminate l
    let r' := eliminate r
    .binary (rs.filter fun ru =>
      (l'.rules.any fun q => ru.inputs[0]? == some q.output) &&
      (r'.rules.any fun q => ru.inputs[1]? == some q.output)) l' r'

/-- `select_rewriting_rules(RewritingRulesSelector)`: all consistent choices, in the visitor's order. -/
def select : RTree → List Deriv
  | .leaf rs => rs.map Deriv.leaf
  | .unary rs c =>
    (select c).flatMap fun d => (rs.filter fun r => fits1 r d.output).map fun r => Deriv.unary r d
  | .binary rs l r =>
    (select l).flatMap fun dl => (select r).flatMap fun dr =>
      (rs.filter fun ru => fits2 ru dl.output dr.output).map fun ru => Deriv.binary ru dl dr

/-- `Score`: per-node score of the output label, summed over the derivation. -/
def labelScore : Label → Nat
  | .sd => 1 | .pup => 2 | .dp => 5 | .pubd => 1 | .pub => 10 | .priv => 0

def score : Deriv → Nat
  | .leaf r => labelScore r.output
  | .unary r c => labelScore r.output + score c
  | .binary r l r' => labelScore r.output + score l + score r'

/-- `Iterator::max_by`: the last element among the maxima. -/
def maxBy {α : Type} (f : α → Nat) : List α → Option α
  | [] => none
  | x :: xs => some (xs.foldl (fun best y => if f best ≤ f y then y else best) x)

/-- `rewrite_with_differential_privacy` / `rewrite_as_privacy_unit_preserving` up to the rewriting itself:
set rules (given), eliminate, select, keep acceptable root labels, arg-max of the score. -/
def choose (acc : Label → Bool) (t : RTree) : Option Deriv :=
  maxBy score ((select (eliminate t)).filter fun d => acc d.output)

/-- acceptable root labels of `rewrite_with_differential_privacy`. -/
def accDP : Label → Bool
  | .pub | .pubd | .dp | .sd => true
  | _ => false

/-- acceptable root labels of `rewrite_as_privacy_unit_preserving`. -/
def accPUP : Label → Bool
  | .pub | .pup => true
  | _ => false

end Qrlew

/-
Model of `src/hierarchy.rs`: a map from paths to objects where a lookup path may be any
unambiguous suffix.  The `BTreeMap` is modelled as an association list (keys pairwise distinct;
the model never relies on the order, which is theorem `lookup_perm`).
-/
namespace Qrlew

variable {α β : Type} [DecidableEq α]

/-- `is_suffix_of(path, key)`: the two paths agree on every trailing component they both have
(Rust: `left.iter().rev().zip(right.iter().rev()).all(|(s, p)| s == p)`; note that `zip` stops at
the shorter one, so a *longer* lookup path is still compatible). -/
def compat (p k : List α) : Bool := (p.reverse.zip k.reverse).all (fun ab => ab.1 == ab.2)

/-- `is_prefix_of`. -/
def prefixCompat (p k : List α) : Bool := (p.zip k).all (fun ab => ab.1 == ab.2)

/-- `enum Found { Zero, One(T), More }`. -/
inductive Found (γ : Type) where
  | zero | one (x : γ) | more

def Found.toOption {γ : Type} : Found γ → Option γ
  | .one x => some x
  | _ => none

/-- one step of the fold in `get_key_value`. -/
def foundStep (p : List α) (f : Found (List α × β)) (e : List α × β) : Found (List α × β) :=
  if compat p e.1 then
    match f with
    | .zero => .one e
    | _ => .more
  else f

/-- `Hierarchy::get_key_value`: exact key first, otherwise the unique compatible entry. -/
def lookup (m : List (List α × β)) (p : List α) : Option (List α × β) :=
  match m.find? (fun e => e.1 == p) with
  | some e => some e
  | none => (m.foldl (foundStep p) Found.zero).toOption

/-- `Hierarchy::filter`: entries whose key has `p` as a prefix (zip semantics). -/
def hfilter (m : List (List α × β)) (p : List α) : List (List α × β) :=
  m.filter (fun e => prefixCompat p e.1)

/-- `Hierarchy::prepend`. -/
def hprepend (m : List (List α × β)) (h : List α) : List (List α × β) :=
  m.map (fun e => (h ++ e.1, e.2))

/-- one `BTreeMap::insert`: the value of an existing key is replaced -/
def hinsert (m : List (List α × β)) (k : List α) (v : β) : List (List α × β) :=
  if m.any (fun e => e.1 == k) then m.map (fun e => if e.1 == k then (k, v) else e) else m ++ [(k, v)]

/-- `Extend::extend` and `With::with` (a `BTreeMap::append`): the new bindings, in order, replace the old ones —
what `VisitedQueryRelations::new` uses to let the CTEs of a query shadow the tables of the context -/
def hextend (m n : List (List α × β)) : List (List α × β) :=
  n.foldl (fun acc e => hinsert acc e.1 e.2) m

end Qrlew

import QrlewModel.Model.Monotone
/-
Model of the numeric conversions of `src/data_type/injection.rs`.
Integral floats are represented by the integer they denote, so `i64 as f64` is *not* the identity:
it is `ofInt`, rounding to 53 significant bits, ties to even.
-/
namespace Qrlew

/-- number of bits of `n` (fuelled; 0 for 0) -/
def bitLenAux : Nat → Nat → Nat
  | 0, _ => 0
  | fuel + 1, n => if n = 0 then 0 else 1 + bitLenAux fuel (n / 2)

def bitLen (n : Nat) : Nat := bitLenAux 70 n

/-- nearest binary64 to the natural number `n` (< 2^64), as a natural number; ties to even -/
def ofNatF (n : Nat) : Nat :=
  if n < 2 ^ 53 then n
  else
    let e := bitLen n - 53
    let q := n / 2 ^ e
    let r := n % 2 ^ e
    let half := 2 ^ (e - 1)
    let q' := if r > half || (r == half && q % 2 == 1) then q + 1 else q
    q' * 2 ^ e

/-- `n as f64` for an i64 `n`, as the exact integer value of the resulting float -/
def ofInt (n : Int) : Int := if n < 0 then -((ofNatF n.natAbs : Nat) : Int) else ((ofNatF n.natAbs : Nat) : Int)

/-- `Boolean -> Integer` -/
def boolToInt (b : Bool) : Int := if b then 1 else 0
/-- `Integer -> Boolean`: refused unless 0 or 1 -/
def intToBool? (n : Int) : Option Bool := if n = 0 then some false else if n = 1 then some true else none

/-- `x as i64` for an integral float `x` (saturating) -/
def floatToI64 (x : Int) : Int := sat x
/-- `Float -> Integer`: accepted iff `(x as i64) as f64 == x` -/
def floatToInt? (x : Int) : Option Int := if ofInt (floatToI64 x) = x then some (floatToI64 x) else none

/-- a `NaiveDateTime`: day number, second of the day, nanosecond of the second -/
structure Stamp where
  day : Int
  sec : Nat
  nano : Nat
  deriving DecidableEq, Repr, Inhabited

/-- `Date -> DateTime`: midnight of that day -/
def dateToStamp (d : Int) : Stamp := ⟨d, 0, 0⟩
/-- `DateTime -> Date`: accepted iff the timestamp *is* the midnight of its day (`*arg == date.and_hms_opt(0, 0, 0)`), so that a
timestamp with a time of day — however small — is refused instead of truncated -/
def stampToDate? (s : Stamp) : Option Int := if s.sec = 0 ∧ s.nano = 0 then some s.day else none

/-- `intervals_image`: endpoints mapped and re-ordered -/
def imageIvs (cap : Nat) (f : Int → Int) (l : Ivs) : Ivs :=
  fromIntervals cap (l.map fun ab => if f ab.1 < f ab.2 then (f ab.1, f ab.2) else (f ab.2, f ab.1))

end Qrlew

import QrlewModel.Model.Clip
/-
Model of `PupRelation::differentially_private_aggregates` / `differentially_private_sums`
(`differential_privacy/aggregates.rs`) with every noise draw at 0: for the aggregated column `x` the rewriting derives
three per-row quantities — `_ONE_x` (0 for NULL, 1 otherwise), `x` itself and `_SQUARE_x` — sums each of them per
(privacy unit, group), clips each unit's vector over the groups in L2 norm to its own constant (`l2_clipped_sums`, the
model of which is `Clip.total`), adds the units up, and recombines the three clipped sums of a group into
count / sum / avg / variance / stddev.  Generic in the number type (Float in the driver, ℝ in the theorems).
-/
namespace Qrlew.DpAgg
variable {K : Type} (o : NumOps K) (isZero : K → Bool)

/-- a row of the protected input: privacy unit, group, value (`none` is NULL) -/
abbrev Row (K : Type) := Nat × Nat × Option K

/-- `CASE WHEN x IS NULL THEN 0 ELSE 1 END` -/
def one (r : Row K) : K := match r.2.2 with | none => o.ofNat 0 | some _ => o.ofNat 1
/-- `x` under SUM (which skips NULL) -/
def val (r : Row K) : K := match r.2.2 with | none => o.ofNat 0 | some v => v
/-- `pow(x, 2)` under SUM -/
def sqr (r : Row K) : K := match r.2.2 with | none => o.ofNat 0 | some v => o.mul v v

/-- partial sum of `f` over the rows of unit `u` in group `j` -/
def cell (f : Row K → K) (rows : List (Row K)) (u j : Nat) : K :=
  Clip.vsum o ((rows.filter fun r => r.1 == u && r.2.1 == j).map f)

/-- the vector of unit `u`: one partial sum per group -/
def unitVec (g : Nat) (f : Row K → K) (rows : List (Row K)) (u : Nat) : List K :=
  (List.range g).map (cell o f rows u)

/-- `l2_clipped_sums` of the derived column `f` with clipping constant `c`: one sum per group -/
def clippedSums (nU g : Nat) (f : Row K → K) (c : K) (rows : List (Row K)) : List K :=
  Clip.total o isZero g c ((List.range nU).map (unitVec o g f rows))

structure Out (K : Type) where
  count : K
  sum : K
  mean : K
  var : K
  std : K

/-- the output `Map` of the rewriting: `sum / greatest(1, count)`, `greatest(0, sumsq / greatest(1, count) − mean²)`, `sqrt` of it
(`count` is additionally cast to an integer by the code; the driver compares it as such) -/
def recombine (cnt s ss : K) : Out K :=
  let n := o.max (o.ofNat 1) cnt
  let m := o.div s n
  let v := o.max (o.ofNat 0) (o.sub (o.div ss n) (o.mul m m))
  { count := cnt, sum := s, mean := m, var := v, std := o.sqrt v }

def zip3 (a b c : List K) : List (Out K) :=
  match a, b, c with
  | x :: a, y :: b, z :: c => recombine o x y z :: zip3 a b c
  | _, _, _ => []

/-- the released table, one entry per group, noise draws at 0 -/
def release (nU g : Nat) (cOne cVal cSq : K) (rows : List (Row K)) : List (Out K) :=
  zip3 o (clippedSums o isZero nU g (one o) cOne rows) (clippedSums o isZero nU g (val o) cVal rows)
    (clippedSums o isZero nU g (sqr o) cSq rows)

end Qrlew.DpAgg

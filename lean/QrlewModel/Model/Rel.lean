/-
List-level model of the relational operators whose *sizes* and *uniqueness* the Relation IR declares
(`relation/mod.rs`: `Map::size`, `Join::size`, `Set::size`, unique-constraint propagation).
Rows are arbitrary; bags are lists.
-/
namespace Qrlew.Rel
variable {α β κ : Type}

/-- WHERE / OFFSET / LIMIT of a Map -/
def mapRows (p : α → Bool) (offset limit : Option Nat) (b : List α) : List α :=
  let f := b.filter p
  let d := match offset with | some o => f.drop o | none => f
  match limit with | some l => d.take l | none => d

/-- `Map::size`: `[0, min(limit, max(0, inputMax - offset))]` -/
def mapSizeMax (inputMax : Nat) (offset limit : Option Nat) : Nat :=
  let m := match offset with | some o => inputMax - o | none => inputMax
  match limit with | some l => min l m | none => m

/-- equi-join on keys -/
def joinOn [DecidableEq κ] (kl : α → κ) (kr : β → κ) (L : List α) (R : List β) : List (α × β) :=
  L.flatMap fun a => (R.filter fun b => kl a == kr b).map fun b => (a, b)

/-- LEFT OUTER join: unmatched left rows are kept -/
def leftJoinOn [DecidableEq κ] (kl : α → κ) (kr : β → κ) (L : List α) (R : List β) : List (α × Option β) :=
  L.flatMap fun a =>
    let m := R.filter fun b => kl a == kr b
    if m.isEmpty then [(a, none)] else m.map fun b => (a, some b)

/-- `Values::schema`: the single column of a literal value list is declared unique exactly when
the set of its values has as many elements as the list -/
def valuesUnique [DecidableEq α] (vals : List α) : Bool := vals.eraseDups.length == vals.length

/-- the bound `Join::size` declares when one side's join key is unique -/
def joinSizeUnique (l r : Nat) : Nat := max l r

/-- `Set::size` upper bounds -/
def unionMax (l r : Nat) : Nat := l + r
def intersectMax (l r : Nat) : Nat := min l r
def exceptMax (l _r : Nat) : Nat := l

end Qrlew.Rel

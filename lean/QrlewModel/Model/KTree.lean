import QrlewModel.Model.Rules
/-
Relation trees by node kind, and the labelling of each node with the rules of a rule table
(`set_rewriting_rules(RewritingRulesSetter)`), generic in the table.
-/
namespace Qrlew

/-- A relation tree whose nodes carry their kind `κ` (protected table, public table, map, …). -/
inductive KTree (κ : Type) where
  | leaf (k : κ)
  | unary (k : κ) (c : KTree κ)
  | binary (k : κ) (l r : KTree κ)

/-- attach to every node the rules the table gives for its kind -/
def annot {κ : Type} (table : κ → List Rule) : KTree κ → RTree
  | .leaf k => .leaf (table k)
  | .unary k c => .unary (table k) (annot table c)
  | .binary k l r => .binary (table k) (annot table l) (annot table r)

def isRaw : Label → Bool
  | .priv | .pup => true
  | _ => false

/-- The rule of a differentially-private aggregation: the only way out of tracked data. -/
def dpRule : Rule := ⟨[.pup], .dp⟩

/-- Does the derivation carry un-noised protected rows up to its root?  `prot k` says that `k` is a
table with a privacy unit, `red k` that `k` is an aggregation node. A protected table labelled with
its synthetic replacement (`sd`) is not exposed; a node applying `dpRule` at an aggregation cuts the flow. -/
def exposed {κ : Type} (prot red : κ → Bool) : Deriv → KTree κ → Bool
  | .leaf r, .leaf k => prot k && r.output != .sd
  | .unary r d, .unary k c => !(red k && r == dpRule) && exposed prot red d c
  | .binary _ dl dr, .binary _ l r => exposed prot red dl l || exposed prot red dr r
  | _, _ => false

end Qrlew

/-
Model of `src/data_type/intervals.rs` (`Intervals<B>`), over rank-encoded integer bounds.

The Rust code is generic in `B: Bound` and uses only `<`, `<=`, `==` and `clone`; the
correspondence harness rank-encodes the bounds of a case (any of i64, f64, String, dates …)
as integers, so a model over `Int` covers every instance.

Formulation: the Rust index arithmetic (`position` / `drain` / `insert`) is written here as
structural recursion over the (sorted) interval list; the correspondence check
(`intervals/*` streams) ties these definitions to the real code.
-/
namespace Qrlew

/-- A list of closed intervals `[lo, hi]`. -/
abbrev Ivs := List (Int × Int)

/-- `Intervals::union_interval` before the final `to_simple_superset`. -/
def unionIv : Ivs → Int → Int → Ivs
  | [], lo, hi => [(lo, hi)]
  | (a, b) :: rest, lo, hi =>
    if b < lo then (a, b) :: unionIv rest lo hi
    else if hi < a then (lo, hi) :: (a, b) :: rest
    else unionIv rest (min a lo) (max b hi)

/-- `Intervals::intersection_interval` before the final `to_simple_superset`. -/
def interIv : Ivs → Int → Int → Ivs
  | [], _, _ => []
  | (a, b) :: rest, lo, hi =>
    if b < lo then interIv rest lo hi
    else if hi < a then []
    else (max a lo, min b hi) :: interIv rest lo hi

/-- `Intervals::into_interval`: the hull `[first.lo, last.hi]`, or empty. -/
def lastHi : Int → Ivs → Int
  | b, [] => b
  | _, (_, b') :: rest => lastHi b' rest

def hull : Ivs → Ivs
  | [] => []
  | (a, b) :: rest => [(a, lastHi b rest)]

/-- `Intervals::to_simple_superset` with capacity `cap`. -/
def simplify (cap : Nat) (l : Ivs) : Ivs :=
  if l.length < cap then l else hull l

/-- `union_interval` as exposed (including simplification). -/
def unionInterval (cap : Nat) (l : Ivs) (lo hi : Int) : Ivs :=
  simplify cap (unionIv l lo hi)

/-- `intersection_interval` as exposed. -/
def interInterval (cap : Nat) (l : Ivs) (lo hi : Int) : Ivs :=
  simplify cap (interIv l lo hi)

/-- `Intervals::union`: fold the shorter operand into the longer one. -/
def union (cap : Nat) (l r : Ivs) : Ivs :=
  if r.length ≤ l.length then r.foldl (fun acc p => unionInterval cap acc p.1 p.2) l
  else l.foldl (fun acc p => unionInterval cap acc p.1 p.2) r

/-- `Intervals::intersection`: for each interval of the shorter operand, intersect a clone of the
longer one with it, and union the results starting from the empty set. -/
def inter (cap : Nat) (l r : Ivs) : Ivs :=
  if r.length ≤ l.length then
    r.foldl (fun acc p => union cap acc (interInterval cap l p.1 p.2)) (simplify cap [])
  else
    l.foldl (fun acc p => union cap acc (interInterval cap r p.1 p.2)) (simplify cap [])

/-- `Intervals::is_subset_of`. -/
def isSubsetOf (cap : Nat) (l r : Ivs) : Bool := inter cap l r == l

/-- `Intervals::contains`. -/
def containsV (cap : Nat) (l : Ivs) (x : Int) : Bool :=
  isSubsetOf cap (unionInterval cap (simplify cap []) x x) l

/-- `Intervals::from_values`. -/
def fromValues (cap : Nat) (vs : List Int) : Ivs :=
  vs.foldl (fun acc v => unionInterval cap acc v v) (simplify cap [])

/-- `Intervals::from_intervals`. -/
def fromIntervals (cap : Nat) (ps : List (Int × Int)) : Ivs :=
  ps.foldl (fun acc p => unionInterval cap acc p.1 p.2) (simplify cap [])

/-- Operations of an interval-set history (the correspondence protocol's op language). -/
inductive IvOp where
  | unionI (lo hi : Int)
  | interI (lo hi : Int)
  | unionS (s : Ivs)
  | interS (s : Ivs)
  | hullOp
  deriving Repr, DecidableEq

def stepIv (cap : Nat) (l : Ivs) : IvOp → Ivs
  | .unionI lo hi => unionInterval cap l lo hi
  | .interI lo hi => interInterval cap l lo hi
  | .unionS s => union cap l s
  | .interS s => inter cap l s
  | .hullOp => simplify cap (hull l)

def runIv (cap : Nat) (l : Ivs) (ops : List IvOp) : Ivs := ops.foldl (stepIv cap) l

end Qrlew

/-! List lemmas shared by the property files (core Lean only). -/
namespace Qrlew.Lists

theorem eraseDups_length_le_aux [DecidableEq α] : ∀ (n : Nat) (l : List α), l.length ≤ n → l.eraseDups.length ≤ l.length
  | 0, l, h => by
    have : l = [] := List.eq_nil_of_length_eq_zero (by omega)
    subst this; simp
  | _ + 1, [], _ => by simp
  | n + 1, a :: as, h => by
    rw [List.eraseDups_cons]
    have h2 : (as.filter fun b => !b == a).length ≤ as.length := List.length_filter_le _ _
    have := eraseDups_length_le_aux n (as.filter fun b => !b == a) (by simp only [List.length_cons] at h; omega)
    simp only [List.length_cons]; omega

theorem eraseDups_length_le [DecidableEq α] (l : List α) : l.eraseDups.length ≤ l.length :=
  eraseDups_length_le_aux l.length l (Nat.le_refl _)

theorem mem_of_mem_eraseDups_aux [DecidableEq α] : ∀ (n : Nat) (l : List α), l.length ≤ n → ∀ x, x ∈ l.eraseDups → x ∈ l
  | 0, l, h, x, hx => by
    have : l = [] := List.eq_nil_of_length_eq_zero (by omega)
    subst this; simp at hx
  | _ + 1, [], _, x, hx => by simp at hx
  | n + 1, a :: as, h, x, hx => by
    rw [List.eraseDups_cons] at hx
    rcases List.mem_cons.mp hx with rfl | hx
    · simp
    · have h2 : (as.filter fun b => !b == a).length ≤ as.length := List.length_filter_le _ _
      have := mem_of_mem_eraseDups_aux n (as.filter fun b => !b == a) (by simp only [List.length_cons] at h; omega) x hx
      exact List.mem_cons_of_mem _ (List.mem_filter.mp this).1

theorem nodup_eraseDups_aux [DecidableEq α] : ∀ (n : Nat) (l : List α), l.length ≤ n → l.eraseDups.Nodup
  | 0, l, h => by
    have : l = [] := List.eq_nil_of_length_eq_zero (by omega)
    subst this; simp
  | _ + 1, [], _ => by simp
  | n + 1, a :: as, h => by
    rw [List.eraseDups_cons, List.nodup_cons]
    have h2 : (as.filter fun b => !b == a).length ≤ as.length := List.length_filter_le _ _
    have hlen : (as.filter fun b => !b == a).length ≤ n := by simp only [List.length_cons] at h; omega
    refine ⟨fun hmem => ?_, nodup_eraseDups_aux n _ hlen⟩
    have := mem_of_mem_eraseDups_aux n _ hlen a hmem
    simp at this

end Qrlew.Lists

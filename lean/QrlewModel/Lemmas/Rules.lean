import QrlewModel.Model.Rules
namespace Qrlew

/-- A derivation is consistent with an annotated tree: same shape, every node's rule is one of the
node's candidates, and the rule's inputs are exactly the labels produced by the children. -/
def Consistent : Deriv → RTree → Prop
  | .leaf r, .leaf rs => r ∈ rs
  | .unary r d, .unary rs c => r ∈ rs ∧ fits1 r d.output = true ∧ Consistent d c
  | .binary r dl dr, .binary rs l r' =>
    r ∈ rs ∧ fits2 r dl.output dr.output = true ∧ Consistent dl l ∧ Consistent dr r'
  | _, _ => False

theorem Consistent.rule_mem {d : Deriv} {t : RTree} (h : Consistent d t) : d.rule ∈ t.rules := by
  cases d <;> cases t <;> simp [Consistent] at h <;> simp [Deriv.rule, RTree.rules] <;> first | exact h | exact h.1

theorem mem_select_iff (t : RTree) (d : Deriv) : d ∈ select t ↔ Consistent d t := by
  induction t generalizing d with
  | leaf rs =>
    cases d <;> simp [select, Consistent]
  | unary rs c ih =>
    cases d with
    | leaf r => simp [select, Consistent]
    | unary r d' =>
      simp only [select, List.mem_flatMap, List.mem_map, List.mem_filter, Consistent]
      constructor
      · rintro ⟨d0, hd0, r0, ⟨hr0, hf⟩, heq⟩
        injection heq with h1 h2
        subst h1; subst h2
        exact ⟨hr0, hf, (ih _).mp hd0⟩
      · rintro ⟨hr, hf, hc⟩
        exact ⟨d', (ih _).mpr hc, r, ⟨hr, hf⟩, rfl⟩
    | binary r a b => simp [select, Consistent]
  | binary rs l r ihl ihr =>
    cases d with
    | leaf r0 => simp [select, Consistent]
    | unary r0 d' => simp [select, Consistent]
    | binary r0 a b =>
      simp only [select, List.mem_flatMap, List.mem_map, List.mem_filter, Consistent]
      constructor
      · rintro ⟨dl, hdl, dr, hdr, r1, ⟨hr1, hf⟩, heq⟩
        injection heq with h1 h2 h3
        subst h1; subst h2; subst h3
        exact ⟨hr1, hf, (ihl _).mp hdl, (ihr _).mp hdr⟩
      · rintro ⟨hr, hf, hl, hr'⟩
        exact ⟨a, (ihl _).mpr hl, b, (ihr _).mpr hr', r0, ⟨hr, hf⟩, rfl⟩

theorem eliminate_consistent_iff (t : RTree) (d : Deriv) :
    Consistent d (eliminate t) ↔ Consistent d t := by
  induction t generalizing d with
  | leaf rs => cases d <;> simp [eliminate, Consistent]
  | unary rs c ih =>
    cases d with
    | leaf r => simp [eliminate, Consistent]
    | binary r a b => simp [eliminate, Consistent]
    | unary r d' =>
      simp only [eliminate, Consistent, List.mem_filter]
      constructor
      · rintro ⟨⟨hr, _⟩, hf, hc⟩
        exact ⟨hr, hf, (ih _).mp hc⟩
      · rintro ⟨hr, hf, hc⟩
        have hc' := (ih _).mpr hc
        refine ⟨⟨hr, ?_⟩, hf, hc'⟩
        rw [List.any_eq_true]
        exact ⟨d'.rule, hc'.rule_mem, hf⟩
  | binary rs l r ihl ihr =>
    cases d with
    | leaf r0 => simp [eliminate, Consistent]
    | unary r0 d' => simp [eliminate, Consistent]
    | binary r0 a b =>
      simp only [eliminate, Consistent, List.mem_filter]
      constructor
      · rintro ⟨⟨hr, _⟩, hf, hl, hr'⟩
        exact ⟨hr, hf, (ihl _).mp hl, (ihr _).mp hr'⟩
      · rintro ⟨hr, hf, hl, hr'⟩
        have hl' := (ihl _).mpr hl
        have hr'' := (ihr _).mpr hr'
        refine ⟨⟨hr, ?_⟩, hf, hl', hr''⟩
        simp only [fits2, Bool.and_eq_true] at hf
        rw [Bool.and_eq_true, List.any_eq_true, List.any_eq_true]
        exact ⟨⟨a.rule, hl'.rule_mem, hf.1⟩, ⟨b.rule, hr''.rule_mem, hf.2⟩⟩

theorem eliminate_rules_exact (t : RTree) (r : Rule) :
    r ∈ (eliminate t).rules ↔ ∃ d, Consistent d t ∧ d.rule = r := by
  constructor
  · induction t generalizing r with
    | leaf rs =>
      intro h; exact ⟨.leaf r, by simpa [eliminate, RTree.rules, Consistent] using h, rfl⟩
    | unary rs c ih =>
      intro h
      simp only [eliminate, RTree.rules, List.mem_filter, List.any_eq_true] at h
      obtain ⟨hr, q, hq, hf⟩ := h
      obtain ⟨d', hd', hrule⟩ := ih q hq
      refine ⟨.unary r d', ⟨hr, ?_, hd'⟩, rfl⟩
      simp only [Deriv.output, hrule]; exact hf
    | binary rs l r' ihl ihr =>
      intro h
      simp only [eliminate, RTree.rules, List.mem_filter, Bool.and_eq_true, List.any_eq_true] at h
      obtain ⟨hr, ⟨q1, hq1, hf1⟩, ⟨q2, hq2, hf2⟩⟩ := h
      obtain ⟨d1, hd1, hrule1⟩ := ihl q1 hq1
      obtain ⟨d2, hd2, hrule2⟩ := ihr q2 hq2
      refine ⟨.binary r d1 d2, ⟨hr, ?_, hd1, hd2⟩, rfl⟩
      simp only [fits2, Deriv.output, hrule1, hrule2, Bool.and_eq_true]; exact ⟨hf1, hf2⟩
  · rintro ⟨d, hd, rfl⟩
    exact ((eliminate_consistent_iff t d).mpr hd).rule_mem

/-! ### max_by -/

def foldMax {α : Type} (f : α → Nat) (xs : List α) (x : α) : α :=
  xs.foldl (fun best y => if f best ≤ f y then y else best) x

theorem foldl_max_spec {α : Type} (f : α → Nat) (xs : List α) (x : α) :
    (foldMax f xs x = x ∨ foldMax f xs x ∈ xs) ∧ f x ≤ f (foldMax f xs x) ∧
      ∀ y ∈ xs, f y ≤ f (foldMax f xs x) := by
  induction xs generalizing x with
  | nil => simp [foldMax]
  | cons a t ih =>
    by_cases hxa : f x ≤ f a
    · have he : foldMax f (a :: t) x = foldMax f t a := by simp [foldMax, hxa]
      rw [he]
      obtain ⟨h1, h2, h3⟩ := ih a
      refine ⟨?_, by omega, ?_⟩
      · rcases h1 with h1 | h1
        · right; rw [h1]; exact List.mem_cons_self
        · right; exact List.mem_cons_of_mem _ h1
      · intro y hy
        rw [List.mem_cons] at hy
        rcases hy with rfl | hy
        · exact h2
        · exact h3 y hy
    · have he : foldMax f (a :: t) x = foldMax f t x := by simp [foldMax, hxa]
      rw [he]
      obtain ⟨h1, h2, h3⟩ := ih x
      refine ⟨?_, h2, ?_⟩
      · rcases h1 with h1 | h1
        · left; exact h1
        · right; exact List.mem_cons_of_mem _ h1
      · intro y hy
        rw [List.mem_cons] at hy
        rcases hy with rfl | hy
        · omega
        · exact h3 y hy

theorem maxBy_none_iff {α : Type} (f : α → Nat) (l : List α) : maxBy f l = none ↔ l = [] := by
  cases l <;> simp [maxBy]

theorem maxBy_some {α : Type} (f : α → Nat) (l : List α) (m : α) (h : maxBy f l = some m) :
    m ∈ l ∧ ∀ y ∈ l, f y ≤ f m := by
  cases l with
  | nil => simp [maxBy] at h
  | cons x xs =>
    simp only [maxBy, Option.some.injEq] at h
    have := foldl_max_spec f xs x
    simp only [foldMax] at this
    rw [h] at this
    obtain ⟨h1, h2, h3⟩ := this
    refine ⟨?_, ?_⟩
    · rcases h1 with h1 | h1
      · rw [h1]; exact List.mem_cons_self
      · exact List.mem_cons_of_mem _ h1
    · intro y hy
      rw [List.mem_cons] at hy
      rcases hy with rfl | hy
      · exact h2
      · exact h3 y hy

end Qrlew

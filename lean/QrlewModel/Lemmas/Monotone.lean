import QrlewModel.Lemmas.Intervals
import QrlewModel.Model.Monotone
namespace Qrlew

/-- every interval of the list lies inside `[L, H]` -/
def WithinBox (L H : Int) (l : Ivs) : Prop := ∀ ab ∈ l, L ≤ ab.1 ∧ ab.2 ≤ H

theorem withinBox_nil (L H : Int) : WithinBox L H [] := by intro ab h; simp at h

theorem unionIv_within (l : Ivs) (lo hi L H : Int) (h : WithinBox L H l) (h1 : L ≤ lo) (h2 : hi ≤ H) :
    WithinBox L H (unionIv l lo hi) := by
  fun_induction unionIv l lo hi with
  | case1 lo hi => intro ab hab; simp at hab; subst hab; exact ⟨h1, h2⟩
  | case2 a b rest lo hi hb ih =>
    intro ab hab
    rw [List.mem_cons] at hab
    rcases hab with rfl | hab
    · exact h (a, b) List.mem_cons_self
    · exact ih (fun x hx => h x (List.mem_cons_of_mem _ hx)) h1 h2 ab hab
  | case3 a b rest lo hi hb ha =>
    intro ab hab
    rw [List.mem_cons] at hab
    rcases hab with rfl | hab
    · exact ⟨h1, h2⟩
    · exact h ab hab
  | case4 a b rest lo hi hb ha ih =>
    have hab := h (a, b) List.mem_cons_self
    simp only at hab
    exact ih (fun x hx => h x (List.mem_cons_of_mem _ hx)) (by omega) (by omega)

theorem lastHi_within (b H : Int) (rest : Ivs) (hb : b ≤ H) (h : ∀ ab ∈ rest, ab.2 ≤ H) : lastHi b rest ≤ H := by
  induction rest generalizing b with
  | nil => simpa [lastHi]
  | cons p rest ih =>
    obtain ⟨c, d⟩ := p
    simp only [lastHi]
    exact ih d (h (c, d) List.mem_cons_self) (fun x hx => h x (List.mem_cons_of_mem _ hx))

theorem hull_within (L H : Int) (l : Ivs) (h : WithinBox L H l) : WithinBox L H (hull l) := by
  cases l with
  | nil => exact withinBox_nil L H
  | cons p rest =>
    obtain ⟨a, b⟩ := p
    intro ab hab
    simp only [hull, List.mem_singleton] at hab
    subst hab
    have h0 := h (a, b) List.mem_cons_self
    exact ⟨h0.1, lastHi_within b H rest h0.2 (fun x hx => (h x (List.mem_cons_of_mem _ hx)).2)⟩

theorem simplify_within (cap : Nat) (L H : Int) (l : Ivs) (h : WithinBox L H l) : WithinBox L H (simplify cap l) := by
  unfold simplify; split
  · exact h
  · exact hull_within L H l h

theorem foldl_union_within (cap : Nat) (L H : Int) (ps acc : Ivs) (hps : WithinBox L H ps) (hacc : WithinBox L H acc) :
    WithinBox L H (ps.foldl (fun acc p => unionInterval cap acc p.1 p.2) acc) := by
  induction ps generalizing acc with
  | nil => exact hacc
  | cons p rest ih =>
    simp only [List.foldl]
    have hp := hps p List.mem_cons_self
    exact ih _ (fun x hx => hps x (List.mem_cons_of_mem _ hx))
      (simplify_within cap L H _ (unionIv_within acc p.1 p.2 L H hacc hp.1 hp.2))

theorem union_within (cap : Nat) (L H : Int) (l r : Ivs) (hl : WithinBox L H l) (hr : WithinBox L H r) :
    WithinBox L H (union cap l r) := by
  unfold union; split
  · exact foldl_union_within cap L H r l hr hl
  · exact foldl_union_within cap L H l r hl hr

theorem interIv_within (l : Ivs) (lo hi : Int) : WithinBox lo hi (interIv l lo hi) := by
  fun_induction interIv l lo hi with
  | case1 lo hi => exact withinBox_nil _ _
  | case2 a b rest lo hi hb ih => exact ih
  | case3 a b rest lo hi hb ha => exact withinBox_nil _ _
  | case4 a b rest lo hi hb ha ih =>
    intro ab hab
    rw [List.mem_cons] at hab
    rcases hab with rfl | hab
    · simp only; omega
    · exact ih ab hab

/-- every interval of `s ∩ [p, q]` lies inside `[p, q]`, whatever capacity collapses happened on the way -/
theorem inter_single_within (cap : Nat) (s : Ivs) (p q : Int) : WithinBox p q (inter cap s [(p, q)]) := by
  have hempty : WithinBox p q (simplify cap []) := simplify_within cap p q [] (withinBox_nil p q)
  unfold inter; split
  · simp only [List.foldl]
    exact union_within cap p q _ _ hempty (simplify_within cap p q _ (interIv_within s p q))
  · -- fold over the intervals of `s`, each intersected with the single partition interval
    have gen : ∀ (ps acc : Ivs), WithinBox p q acc →
        WithinBox p q (ps.foldl (fun acc p' => union cap acc (interInterval cap [(p, q)] p'.1 p'.2)) acc) := by
      intro ps
      induction ps with
      | nil => intro acc h; exact h
      | cons x rest ih =>
        intro acc h
        simp only [List.foldl]
        apply ih
        apply union_within cap p q _ _ h
        apply simplify_within
        -- intervals of [(p,q)] ∩ [x.1, x.2] are inside [p, q]
        intro ab hab
        simp only [interIv] at hab
        split at hab
        · simp at hab
        · split at hab
          · simp at hab
          · simp at hab; subst hab; simp only; omega
    exact gen s _ hempty

theorem mem_fromIntervals (cap : Nat) (hc : 2 ≤ cap) (ps : Ivs) (hps : ∀ p ∈ ps, p.1 ≤ p.2) (x : Int)
    (hx : Mem x ps) : Mem x (fromIntervals cap ps) :=
  mem_foldl_union cap hc ps hps _ (good_empty cap hc) x (Or.inr hx)

/-- `g` is monotone or antitone on `[p, q]` -/
def DirMono (g : Int → Int) (p q : Int) : Prop :=
  (∀ u v, p ≤ u → u ≤ v → v ≤ q → g u ≤ g v) ∨ (∀ u v, p ≤ u → u ≤ v → v ≤ q → g v ≤ g u)

/-- 1-D corner lemma: on an interval inside a monotone piece, values lie between the endpoint values -/
theorem dirMono_between (g : Int → Int) (p q a b x : Int) (h : DirMono g p q)
    (hpa : p ≤ a) (hax : a ≤ x) (hxb : x ≤ b) (hbq : b ≤ q) :
    min (g a) (g b) ≤ g x ∧ g x ≤ max (g a) (g b) := by
  rcases h with h | h
  · have h1 := h a x hpa hax (by omega); have h2 := h x b (by omega) hxb hbq; omega
  · have h1 := h a x hpa hax (by omega); have h2 := h x b (by omega) hxb hbq; omega

end Qrlew

import QrlewModel.Model.Intervals
/-! Helper lemmas about the interval-set model (core Lean only). -/
namespace Qrlew

/-- Denotation: `x` lies in one of the intervals. -/
def Mem (x : Int) (l : Ivs) : Prop := ∃ p ∈ l, p.1 ≤ x ∧ x ≤ p.2

instance (x : Int) (l : Ivs) : Decidable (Mem x l) := by unfold Mem; infer_instance

/-- every interval is non-empty, starts strictly above `m`, and the list is strictly ascending and disjoint. -/
def SortedAbove : Int → Ivs → Prop
  | _, [] => True
  | m, (a, b) :: rest => m < a ∧ a ≤ b ∧ SortedAbove b rest

/-- Well-formedness of an interval list: sorted, pairwise disjoint, each interval non-empty. -/
def WF : Ivs → Prop
  | [] => True
  | (a, b) :: rest => a ≤ b ∧ SortedAbove b rest

theorem SortedAbove.weaken {m m' : Int} {l : Ivs} (h : SortedAbove m l) (hm : m' ≤ m) :
    SortedAbove m' l := by
  cases l with
  | nil => trivial
  | cons p rest => obtain ⟨a, b⟩ := p; simp only [SortedAbove] at *; exact ⟨by omega, h.2⟩

theorem SortedAbove.wf {m : Int} {l : Ivs} (h : SortedAbove m l) : WF l := by
  cases l with
  | nil => trivial
  | cons p rest => obtain ⟨a, b⟩ := p; simp [SortedAbove, WF] at *; exact ⟨h.2.1, h.2.2⟩

theorem WF.sortedAbove {a b : Int} {rest : Ivs} (h : WF ((a, b) :: rest)) (m : Int) (hm : m < a) :
    SortedAbove m ((a, b) :: rest) := by
  simp [SortedAbove, WF] at *; exact ⟨hm, h.1, h.2⟩

@[simp] theorem mem_nil (x : Int) : Mem x [] ↔ False := by simp [Mem]

@[simp] theorem mem_cons (x a b : Int) (rest : Ivs) :
    Mem x ((a, b) :: rest) ↔ (a ≤ x ∧ x ≤ b) ∨ Mem x rest := by
  simp [Mem]

theorem mem_above {m x : Int} {l : Ivs} (h : SortedAbove m l) (hx : Mem x l) : m < x := by
  induction l generalizing m with
  | nil => simp at hx
  | cons p rest ih =>
    obtain ⟨a, b⟩ := p
    simp [SortedAbove] at h
    rw [mem_cons] at hx
    rcases hx with hx | hx
    · omega
    · have := ih h.2.2 hx; omega

/-! ### union_interval -/

theorem unionIv_sortedAbove (l : Ivs) (lo hi m : Int) (h : SortedAbove m l) (hm : m < lo)
    (hlh : lo ≤ hi) : SortedAbove m (unionIv l lo hi) := by
  fun_induction unionIv l lo hi generalizing m with
  | case1 lo hi => simp [SortedAbove]; omega
  | case2 a b rest lo hi hb ih =>
    simp [SortedAbove] at h ⊢
    exact ⟨h.1, h.2.1, ih b h.2.2 hb hlh⟩
  | case3 a b rest lo hi hb ha =>
    simp [SortedAbove] at h ⊢
    refine ⟨hm, hlh, ha, h.2.1, h.2.2⟩
  | case4 a b rest lo hi hb ha ih =>
    simp [SortedAbove] at h
    apply ih m (h.2.2.weaken (by omega)) <;> omega

theorem unionIv_wf (l : Ivs) (lo hi : Int) (h : WF l) (hlh : lo ≤ hi) : WF (unionIv l lo hi) := by
  cases l with
  | nil => simp [unionIv, WF, SortedAbove]; exact hlh
  | cons p rest =>
    obtain ⟨a, b⟩ := p
    have hs := h.sortedAbove (min a lo - 1) (by omega)
    exact (unionIv_sortedAbove _ lo hi _ hs (by omega) hlh).wf

/-- `union_interval` is exact before simplification: it adds exactly the points of `[lo, hi]`. -/
theorem mem_unionIv (l : Ivs) (lo hi x m : Int) (h : SortedAbove m l) (hlh : lo ≤ hi) :
    Mem x (unionIv l lo hi) ↔ Mem x l ∨ (lo ≤ x ∧ x ≤ hi) := by
  fun_induction unionIv l lo hi generalizing m with
  | case1 lo hi => simp
  | case2 a b rest lo hi hb ih =>
    simp only [SortedAbove] at h
    rw [mem_cons, mem_cons, ih b h.2.2 hlh]
    by_cases hP : Mem x rest <;> simp [hP]
  | case3 a b rest lo hi hb ha =>
    rw [mem_cons]
    by_cases hP : Mem x ((a, b) :: rest) <;> simp [hP]
  | case4 a b rest lo hi hb ha ih =>
    simp only [SortedAbove] at h
    rw [ih b h.2.2 (by omega), mem_cons]
    by_cases hP : Mem x rest <;> simp [hP] <;> omega

/-! ### intersection_interval -/

theorem interIv_sortedAbove (l : Ivs) (lo hi m : Int) (h : SortedAbove m l) (hlh : lo ≤ hi) :
    SortedAbove m (interIv l lo hi) := by
  fun_induction interIv l lo hi generalizing m with
  | case1 lo hi => trivial
  | case2 a b rest lo hi hb ih =>
    simp only [SortedAbove] at h
    exact (ih b h.2.2 hlh).weaken (by omega)
  | case3 a b rest lo hi hb ha => trivial
  | case4 a b rest lo hi hb ha ih =>
    simp only [SortedAbove] at h ⊢
    exact ⟨by omega, by omega, (ih b h.2.2 hlh).weaken (by omega)⟩

theorem interIv_wf (l : Ivs) (lo hi : Int) (h : WF l) (hlh : lo ≤ hi) : WF (interIv l lo hi) := by
  cases l with
  | nil => simp [interIv, WF]
  | cons p rest =>
    obtain ⟨a, b⟩ := p
    exact (interIv_sortedAbove _ lo hi _ (h.sortedAbove (a - 1) (by omega)) hlh).wf

/-- `intersection_interval` is exact before simplification. -/
theorem mem_interIv (l : Ivs) (lo hi x m : Int) (h : SortedAbove m l) :
    Mem x (interIv l lo hi) ↔ Mem x l ∧ (lo ≤ x ∧ x ≤ hi) := by
  fun_induction interIv l lo hi generalizing m with
  | case1 lo hi => simp
  | case2 a b rest lo hi hb ih =>
    simp only [SortedAbove] at h
    rw [mem_cons, ih b h.2.2]
    by_cases hP : Mem x rest <;> simp [hP] <;> omega
  | case3 a b rest lo hi hb ha =>
    simp only [SortedAbove] at h
    rw [mem_cons]
    by_cases hP : Mem x rest
    · have := mem_above h.2.2 hP; simp [hP]; omega
    · simp [hP]; omega
  | case4 a b rest lo hi hb ha ih =>
    simp only [SortedAbove] at h
    rw [mem_cons, mem_cons, ih b h.2.2]
    by_cases hP : Mem x rest <;> simp [hP] <;> omega

theorem interIv_length (l : Ivs) (lo hi : Int) : (interIv l lo hi).length ≤ l.length := by
  fun_induction interIv l lo hi <;> simp <;> omega

theorem unionIv_length (l : Ivs) (lo hi : Int) : (unionIv l lo hi).length ≤ l.length + 1 := by
  fun_induction unionIv l lo hi <;> simp <;> omega

/-! ### hull / to_simple_superset -/

theorem lastHi_ge (b : Int) (rest : Ivs) (h : SortedAbove b rest) :
    b ≤ lastHi b rest ∧ ∀ x, Mem x rest → x ≤ lastHi b rest := by
  induction rest generalizing b with
  | nil => simp [lastHi]
  | cons p rest ih =>
    obtain ⟨c, d⟩ := p
    simp only [SortedAbove] at h
    have := ih d h.2.2
    simp only [lastHi]
    refine ⟨by omega, ?_⟩
    intro x hx
    rw [mem_cons] at hx
    rcases hx with hx | hx
    · omega
    · exact this.2 x hx

theorem hull_wf (l : Ivs) (h : WF l) : WF (hull l) := by
  cases l with
  | nil => trivial
  | cons p rest =>
    obtain ⟨a, b⟩ := p
    simp only [WF] at h
    have := lastHi_ge b rest h.2
    simp only [hull, WF, SortedAbove]; exact ⟨by omega, trivial⟩

/-- The hull never loses a point. -/
theorem mem_hull (l : Ivs) (x : Int) (h : WF l) (hx : Mem x l) : Mem x (hull l) := by
  cases l with
  | nil => simp at hx
  | cons p rest =>
    obtain ⟨a, b⟩ := p
    simp only [WF] at h
    have := lastHi_ge b rest h.2
    rw [mem_cons] at hx
    simp only [hull, mem_cons, mem_nil, or_false]
    rcases hx with hx | hx
    · omega
    · have h1 := mem_above h.2 hx; have h2 := this.2 x hx; omega

theorem hull_length (l : Ivs) : (hull l).length ≤ 1 := by
  cases l with
  | nil => simp [hull]
  | cons p rest => obtain ⟨a, b⟩ := p; simp [hull]

theorem simplify_wf (cap : Nat) (l : Ivs) (h : WF l) : WF (simplify cap l) := by
  unfold simplify; split
  · exact h
  · exact hull_wf l h

/-- `to_simple_superset` never loses a point. -/
theorem mem_simplify (cap : Nat) (l : Ivs) (x : Int) (h : WF l) (hx : Mem x l) :
    Mem x (simplify cap l) := by
  unfold simplify; split
  · exact hx
  · exact mem_hull l x h hx

/-- After simplification the number of intervals is strictly below the capacity. -/
theorem simplify_length (cap : Nat) (hc : 2 ≤ cap) (l : Ivs) : (simplify cap l).length < cap := by
  unfold simplify; split
  · assumption
  · have := hull_length l; omega

theorem simplify_eq_of_lt (cap : Nat) (l : Ivs) (h : l.length < cap) : simplify cap l = l := by
  simp [simplify, h]

/-! ### the exposed operations keep the representation invariant and never lose points -/

/-- Representation invariant of `Intervals<B>`: sorted, disjoint, non-empty intervals, fewer than `cap`. -/
def Good (cap : Nat) (l : Ivs) : Prop := WF l ∧ l.length < cap

theorem WF.le_of_mem {l : Ivs} (h : WF l) : ∀ p ∈ l, p.1 ≤ p.2 := by
  induction l with
  | nil => simp
  | cons q rest ih =>
    obtain ⟨a, b⟩ := q
    simp only [WF] at h
    intro p hp
    rw [List.mem_cons] at hp
    rcases hp with rfl | hp
    · exact h.1
    · exact ih h.2.wf p hp

theorem WF.exists_sortedAbove {l : Ivs} (h : WF l) : ∃ m, SortedAbove m l := by
  cases l with
  | nil => exact ⟨0, trivial⟩
  | cons p rest => obtain ⟨a, b⟩ := p; exact ⟨a - 1, h.sortedAbove _ (by omega)⟩

theorem good_empty (cap : Nat) (hc : 2 ≤ cap) : Good cap (simplify cap []) := by
  have : simplify cap [] = [] := by simp [simplify]; omega
  rw [this]; exact ⟨trivial, by simp; omega⟩

theorem unionInterval_good (cap : Nat) (hc : 2 ≤ cap) (l : Ivs) (lo hi : Int) (h : WF l)
    (hlh : lo ≤ hi) : Good cap (unionInterval cap l lo hi) :=
  ⟨simplify_wf _ _ (unionIv_wf l lo hi h hlh), simplify_length cap hc _⟩

theorem mem_unionInterval (cap : Nat) (l : Ivs) (lo hi x : Int) (h : WF l) (hlh : lo ≤ hi)
    (hx : Mem x l ∨ (lo ≤ x ∧ x ≤ hi)) : Mem x (unionInterval cap l lo hi) := by
  obtain ⟨m, hm⟩ := h.exists_sortedAbove
  exact mem_simplify _ _ _ (unionIv_wf l lo hi h hlh) ((mem_unionIv l lo hi x m hm hlh).2 hx)

theorem interInterval_good (cap : Nat) (hc : 2 ≤ cap) (l : Ivs) (lo hi : Int) (h : WF l)
    (hlh : lo ≤ hi) : Good cap (interInterval cap l lo hi) :=
  ⟨simplify_wf _ _ (interIv_wf l lo hi h hlh), simplify_length cap hc _⟩

theorem mem_interInterval (cap : Nat) (l : Ivs) (lo hi x : Int) (h : WF l) (hlh : lo ≤ hi)
    (hx : Mem x l) (hr : lo ≤ x ∧ x ≤ hi) : Mem x (interInterval cap l lo hi) := by
  obtain ⟨m, hm⟩ := h.exists_sortedAbove
  exact mem_simplify _ _ _ (interIv_wf l lo hi h hlh) ((mem_interIv l lo hi x m hm).2 ⟨hx, hr⟩)

theorem foldl_union_good (cap : Nat) (hc : 2 ≤ cap) (ps : Ivs) (hps : ∀ p ∈ ps, p.1 ≤ p.2)
    (acc : Ivs) (h : Good cap acc) :
    Good cap (ps.foldl (fun acc p => unionInterval cap acc p.1 p.2) acc) := by
  induction ps generalizing acc with
  | nil => exact h
  | cons p rest ih =>
    simp only [List.foldl]
    exact ih (fun q hq => hps q (List.mem_cons_of_mem _ hq)) _
      (unionInterval_good cap hc acc p.1 p.2 h.1 (hps p List.mem_cons_self))

theorem mem_foldl_union (cap : Nat) (hc : 2 ≤ cap) (ps : Ivs) (hps : ∀ p ∈ ps, p.1 ≤ p.2)
    (acc : Ivs) (h : Good cap acc) (x : Int) (hx : Mem x acc ∨ Mem x ps) :
    Mem x (ps.foldl (fun acc p => unionInterval cap acc p.1 p.2) acc) := by
  induction ps generalizing acc with
  | nil => simpa using hx
  | cons p rest ih =>
    obtain ⟨a, b⟩ := p
    simp only [List.foldl]
    have hab : a ≤ b := hps (a, b) List.mem_cons_self
    apply ih (fun q hq => hps q (List.mem_cons_of_mem _ hq)) _
      (unionInterval_good cap hc acc a b h.1 hab)
    rw [mem_cons] at hx
    rcases hx with hx | hx | hx
    · exact Or.inl (mem_unionInterval cap acc a b x h.1 hab (Or.inl hx))
    · exact Or.inl (mem_unionInterval cap acc a b x h.1 hab (Or.inr hx))
    · exact Or.inr hx

theorem union_good (cap : Nat) (hc : 2 ≤ cap) (l r : Ivs) (hl : Good cap l) (hr : Good cap r) :
    Good cap (union cap l r) := by
  unfold union; split
  · exact foldl_union_good cap hc r hr.1.le_of_mem l hl
  · exact foldl_union_good cap hc l hl.1.le_of_mem r hr

theorem mem_union (cap : Nat) (hc : 2 ≤ cap) (l r : Ivs) (hl : Good cap l) (hr : Good cap r)
    (x : Int) (hx : Mem x l ∨ Mem x r) : Mem x (union cap l r) := by
  unfold union; split
  · exact mem_foldl_union cap hc r hr.1.le_of_mem l hl x hx
  · exact mem_foldl_union cap hc l hl.1.le_of_mem r hr x hx.symm

theorem foldl_inter_good (cap : Nat) (hc : 2 ≤ cap) (l : Ivs) (hl : WF l) (ps : Ivs)
    (hps : ∀ p ∈ ps, p.1 ≤ p.2) (acc : Ivs) (h : Good cap acc) :
    Good cap (ps.foldl (fun acc p => union cap acc (interInterval cap l p.1 p.2)) acc) := by
  induction ps generalizing acc with
  | nil => exact h
  | cons p rest ih =>
    simp only [List.foldl]
    exact ih (fun q hq => hps q (List.mem_cons_of_mem _ hq)) _
      (union_good cap hc _ _ h (interInterval_good cap hc l p.1 p.2 hl (hps p List.mem_cons_self)))

theorem mem_foldl_inter (cap : Nat) (hc : 2 ≤ cap) (l : Ivs) (hl : WF l) (ps : Ivs)
    (hps : ∀ p ∈ ps, p.1 ≤ p.2) (acc : Ivs) (h : Good cap acc) (x : Int)
    (hx : Mem x acc ∨ (Mem x l ∧ Mem x ps)) :
    Mem x (ps.foldl (fun acc p => union cap acc (interInterval cap l p.1 p.2)) acc) := by
  induction ps generalizing acc with
  | nil => simpa using hx
  | cons p rest ih =>
    obtain ⟨a, b⟩ := p
    simp only [List.foldl]
    have hab : a ≤ b := hps (a, b) List.mem_cons_self
    have hg := interInterval_good cap hc l a b hl hab
    apply ih (fun q hq => hps q (List.mem_cons_of_mem _ hq)) _ (union_good cap hc _ _ h hg)
    rw [mem_cons] at hx
    rcases hx with hx | ⟨hxl, hx | hx⟩
    · exact Or.inl (mem_union cap hc _ _ h hg x (Or.inl hx))
    · exact Or.inl (mem_union cap hc _ _ h hg x (Or.inr (mem_interInterval cap l a b x hl hab hxl hx)))
    · exact Or.inr ⟨hxl, hx⟩

theorem inter_good (cap : Nat) (hc : 2 ≤ cap) (l r : Ivs) (hl : Good cap l) (hr : Good cap r) :
    Good cap (inter cap l r) := by
  unfold inter; split
  · exact foldl_inter_good cap hc l hl.1 r hr.1.le_of_mem _ (good_empty cap hc)
  · exact foldl_inter_good cap hc r hr.1 l hl.1.le_of_mem _ (good_empty cap hc)

theorem mem_inter (cap : Nat) (hc : 2 ≤ cap) (l r : Ivs) (hl : Good cap l) (hr : Good cap r)
    (x : Int) (hxl : Mem x l) (hxr : Mem x r) : Mem x (inter cap l r) := by
  unfold inter; split
  · exact mem_foldl_inter cap hc l hl.1 r hr.1.le_of_mem _ (good_empty cap hc) x (Or.inr ⟨hxl, hxr⟩)
  · exact mem_foldl_inter cap hc r hr.1 l hl.1.le_of_mem _ (good_empty cap hc) x (Or.inr ⟨hxr, hxl⟩)

end Qrlew

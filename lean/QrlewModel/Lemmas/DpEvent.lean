import QrlewModel.Model.DpEvent
namespace Qrlew.DpEvent
variable {K : Type} (z : K → Bool)

mutual
theorem leaves_of_isNoOp : ∀ (e : DpEvent K), isNoOp z e = true → leaves z e = []
  | .noOp, _ => by simp [leaves]
  | .gaussian m, h => by simp [isNoOp] at h; simp [leaves, h]
  | .epsilonDelta a b, h => by simp [isNoOp] at h; simp [leaves, h]
  | .composed es, h => by simp only [isNoOp] at h; simp only [leaves]; exact leavesL_of_allNoOp es h
theorem leavesL_of_allNoOp : ∀ (es : List (DpEvent K)), allNoOp z es = true → leavesL z es = []
  | [], _ => by simp [leavesL]
  | e :: es, h => by
    simp only [allNoOp, Bool.and_eq_true] at h
    simp only [leavesL, leaves_of_isNoOp e h.1, leavesL_of_allNoOp es h.2, List.append_nil]
end

theorem leavesL_append (a b : List (DpEvent K)) : leavesL z (a ++ b) = leavesL z a ++ leavesL z b := by
  induction a with
  | nil => simp [leavesL]
  | cons e es ih => simp [leavesL, ih, List.append_assoc]

theorem leavesL_singleton (e : DpEvent K) : leavesL z [e] = leaves z e := by simp [leavesL]

end Qrlew.DpEvent

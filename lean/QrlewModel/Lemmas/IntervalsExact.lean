import QrlewModel.Lemmas.Intervals
/-! Exactness of the interval-set operations while no simplification to the hull can happen (core Lean only). -/
namespace Qrlew

theorem simplify_length_le (cap : Nat) (hc : 2 ≤ cap) (l : Ivs) : (simplify cap l).length ≤ l.length := by
  unfold simplify
  split
  · exact Nat.le_refl _
  · have := hull_length l; omega

theorem unionInterval_length_le (cap : Nat) (hc : 2 ≤ cap) (l : Ivs) (lo hi : Int) :
    (unionInterval cap l lo hi).length ≤ l.length + 1 := by
  have h1 := simplify_length_le cap hc (unionIv l lo hi)
  have h2 := unionIv_length l lo hi
  unfold unionInterval; omega

theorem interInterval_length_le (cap : Nat) (hc : 2 ≤ cap) (l : Ivs) (lo hi : Int) :
    (interInterval cap l lo hi).length ≤ l.length := by
  have h1 := simplify_length_le cap hc (interIv l lo hi)
  have h2 := interIv_length l lo hi
  unfold interInterval; omega

theorem mem_unionInterval_iff (cap : Nat) (l : Ivs) (lo hi x : Int) (h : WF l) (hlh : lo ≤ hi)
    (hlen : l.length + 1 < cap) :
    Mem x (unionInterval cap l lo hi) ↔ Mem x l ∨ (lo ≤ x ∧ x ≤ hi) := by
  obtain ⟨m, hm⟩ := h.exists_sortedAbove
  have := unionIv_length l lo hi
  rw [unionInterval, simplify_eq_of_lt _ _ (by omega)]
  exact mem_unionIv l lo hi x m hm hlh

theorem mem_interInterval_iff (cap : Nat) (l : Ivs) (lo hi x : Int) (h : Good cap l) :
    Mem x (interInterval cap l lo hi) ↔ Mem x l ∧ (lo ≤ x ∧ x ≤ hi) := by
  obtain ⟨m, hm⟩ := h.1.exists_sortedAbove
  have := interIv_length l lo hi
  rw [interInterval, simplify_eq_of_lt _ _ (by have := h.2; omega)]
  exact mem_interIv l lo hi x m hm

/-- folding `union_interval` over `ps` is exact and grows by at most `ps.length` while the capacity is not reached -/
theorem foldl_union_exact (cap : Nat) (hc : 2 ≤ cap) (ps : Ivs) (hps : ∀ p ∈ ps, p.1 ≤ p.2)
    (acc : Ivs) (h : Good cap acc) (hlen : acc.length + ps.length < cap) (x : Int) :
    (Mem x (ps.foldl (fun acc p => unionInterval cap acc p.1 p.2) acc) ↔ Mem x acc ∨ Mem x ps) ∧
    (ps.foldl (fun acc p => unionInterval cap acc p.1 p.2) acc).length ≤ acc.length + ps.length := by
  induction ps generalizing acc with
  | nil => simp
  | cons p rest ih =>
    obtain ⟨a, b⟩ := p
    simp only [List.foldl, List.length_cons] at hlen ⊢
    have hab : a ≤ b := hps (a, b) List.mem_cons_self
    have hg := unionInterval_good cap hc acc a b h.1 hab
    have hl1 := unionInterval_length_le cap hc acc a b
    have ⟨ih1, ih2⟩ := ih (fun q hq => hps q (List.mem_cons_of_mem _ hq)) _ hg (by omega)
    refine ⟨?_, by omega⟩
    rw [ih1, mem_unionInterval_iff cap acc a b x h.1 hab (by omega), mem_cons]
    constructor
    · rintro ((h1 | h1) | h1)
      · exact Or.inl h1
      · exact Or.inr (Or.inl h1)
      · exact Or.inr (Or.inr h1)
    · rintro (h1 | h1 | h1)
      · exact Or.inl (Or.inl h1)
      · exact Or.inl (Or.inr h1)
      · exact Or.inr h1

theorem union_exact (cap : Nat) (hc : 2 ≤ cap) (l r : Ivs) (hl : Good cap l) (hr : Good cap r)
    (hlen : l.length + r.length < cap) (x : Int) :
    (Mem x (union cap l r) ↔ Mem x l ∨ Mem x r) ∧ (union cap l r).length ≤ l.length + r.length := by
  unfold union; split
  · exact foldl_union_exact cap hc r hr.1.le_of_mem l hl hlen x
  · have := foldl_union_exact cap hc l hl.1.le_of_mem r hr (by omega) x
    exact ⟨by rw [this.1]; exact Or.comm, by omega⟩

/-- the fold inside `intersection` is exact while the crude bound `acc + |ps|·|l|` stays below the capacity -/
theorem foldl_inter_exact (cap : Nat) (hc : 2 ≤ cap) (l : Ivs) (hl : Good cap l) (ps : Ivs)
    (hps : ∀ p ∈ ps, p.1 ≤ p.2) (acc : Ivs) (h : Good cap acc)
    (hlen : acc.length + ps.length * l.length < cap) (x : Int) :
    (Mem x (ps.foldl (fun acc p => union cap acc (interInterval cap l p.1 p.2)) acc) ↔ Mem x acc ∨ (Mem x l ∧ Mem x ps)) ∧
    (ps.foldl (fun acc p => union cap acc (interInterval cap l p.1 p.2)) acc).length ≤ acc.length + ps.length * l.length := by
  induction ps generalizing acc with
  | nil => simp
  | cons p rest ih =>
    obtain ⟨a, b⟩ := p
    simp only [List.foldl, List.length_cons] at hlen ⊢
    have hab : a ≤ b := hps (a, b) List.mem_cons_self
    have hg := interInterval_good cap hc l a b hl.1 hab
    have hpl := interInterval_length_le cap hc l a b
    have hmul : (rest.length + 1) * l.length = rest.length * l.length + l.length := Nat.succ_mul _ _
    have ⟨hu1, hu2⟩ := union_exact cap hc acc (interInterval cap l a b) h hg (by omega) x
    have hug := union_good cap hc _ _ h hg
    have ⟨ih1, ih2⟩ := ih (fun q hq => hps q (List.mem_cons_of_mem _ hq)) _ hug (by omega)
    refine ⟨?_, by omega⟩
    rw [ih1, hu1, mem_interInterval_iff cap l a b x hl, mem_cons]
    constructor
    · rintro ((h1 | ⟨h1, h2⟩) | ⟨h1, h2⟩)
      · exact Or.inl h1
      · exact Or.inr ⟨h1, Or.inl h2⟩
      · exact Or.inr ⟨h1, Or.inr h2⟩
    · rintro (h1 | ⟨h1, h2 | h2⟩)
      · exact Or.inl (Or.inl h1)
      · exact Or.inl (Or.inr ⟨h1, h2⟩)
      · exact Or.inr ⟨h1, h2⟩

theorem inter_exact (cap : Nat) (hc : 2 ≤ cap) (l r : Ivs) (hl : Good cap l) (hr : Good cap r)
    (hlen : l.length * r.length < cap) (x : Int) : Mem x (inter cap l r) ↔ Mem x l ∧ Mem x r := by
  have he : simplify cap [] = [] := by simp [simplify]; omega
  unfold inter; split
  · have := (foldl_inter_exact cap hc l hl r hr.1.le_of_mem _ (good_empty cap hc)
      (by rw [he]; simp only [List.length_nil, Nat.zero_add]; rw [Nat.mul_comm]; exact hlen) x).1
    rw [this, he]; simp
  · have := (foldl_inter_exact cap hc r hr l hl.1.le_of_mem _ (good_empty cap hc)
      (by rw [he]; simp only [List.length_nil, Nat.zero_add]; exact hlen) x).1
    rw [this, he]; simp [and_comm]

end Qrlew

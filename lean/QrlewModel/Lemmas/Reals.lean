import Mathlib.Analysis.SpecialFunctions.Log.Basic
import Mathlib.Analysis.SpecialFunctions.Sqrt
import QrlewModel.Model.DpEvent
/-! Real-number instance of the budget arithmetic (proof side only). -/
namespace Qrlew

noncomputable def realOps : NumOps ℝ where
  ofNat := fun n => (n : ℝ)
  add := (· + ·)
  sub := (· - ·)
  mul := (· * ·)
  div := (· / ·)
  sqrt := Real.sqrt
  ln := Real.log
  max := max
  c125 := 1.25

end Qrlew

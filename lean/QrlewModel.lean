import QrlewModel.Model.Intervals

import QrlewModel.Props.C02
import QrlewModel.Props.C03
import QrlewModel.Props.C11
import QrlewModel.Props.C13
import QrlewModel.Props.C15
import QrlewModel.Props.C06
import QrlewModel.Props.C10
import QrlewModel.Props.C12

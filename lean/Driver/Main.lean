import Lean.Data.Json
import QrlewModel.Model.Intervals
import QrlewModel.Model.Hierarchy
/-!
JSON-lines driver over the executable model.  One input line = one harness line
(`{"stream":..,"case":..,..}`); one output line = `{"model": <canonical output>}`.
A line the driver cannot interpret yields `{"model":null,"error":..}` (never a default value).
-/
open Lean Qrlew

def jInt? (j : Json) : Option Int := match j.getInt? with | .ok v => some v | _ => none

def jPairs? (j : Json) : Option Ivs := do
  let arr ← (j.getArr?).toOption
  arr.toList.mapM fun p => do
    let a ← (p.getArrVal? 0).toOption >>= jInt?
    let b ← (p.getArrVal? 1).toOption >>= jInt?
    pure (a, b)

def ivsToJson (l : Ivs) : Json := Json.arr (l.map fun p => Json.arr #[Json.num (JsonNumber.fromInt p.1), Json.num (JsonNumber.fromInt p.2)]).toArray

def cap : Nat := 128

def parseIvOp (j : Json) : Option IvOp := do
  let tag ← (j.getArrVal? 0).toOption >>= fun t => t.getStr?.toOption
  match tag with
  | "U" => do
    let a ← (j.getArrVal? 1).toOption >>= jInt?
    let b ← (j.getArrVal? 2).toOption >>= jInt?
    pure (.unionI a b)
  | "I" => do
    let a ← (j.getArrVal? 1).toOption >>= jInt?
    let b ← (j.getArrVal? 2).toOption >>= jInt?
    pure (.interI a b)
  | "US" => do
    let s ← (j.getArrVal? 1).toOption >>= jPairs?
    pure (.unionS (fromIntervals cap s))
  | "IS" => do
    let s ← (j.getArrVal? 1).toOption >>= jPairs?
    pure (.interS (fromIntervals cap s))
  | "H" => pure .hullOp
  | _ => none

def runIntervals (c : Json) : Option Json := do
  let init ← (c.getObjVal? "init").toOption >>= jPairs?
  let opsJ ← (c.getObjVal? "ops").toOption >>= fun o => o.getArr?.toOption
  let ops ← opsJ.toList.mapM parseIvOp
  pure (ivsToJson (runIv cap (fromIntervals cap init) ops))

def jStrs? (j : Json) : Option (List String) := do
  let arr ← (j.getArr?).toOption
  arr.toList.mapM fun s => s.getStr?.toOption

def runHier (c : Json) : Option Json := do
  let es ← (c.getObjVal? "entries").toOption >>= fun o => o.getArr?.toOption
  let entries ← es.toList.mapM fun e => do
    let k ← (e.getArrVal? 0).toOption >>= jStrs?
    let v ← (e.getArrVal? 1).toOption >>= jInt?
    pure (k, v)
  let ls ← (c.getObjVal? "lookups").toOption >>= fun o => o.getArr?.toOption
  let lookups ← ls.toList.mapM jStrs?
  let res := lookups.map fun p =>
    match lookup entries p with
    | some (k, v) => Json.arr #[Json.arr (k.map Json.str).toArray, Json.num (JsonNumber.fromInt v)]
    | none => Json.null
  pure (Json.arr res.toArray)

def handle (line : String) : Json :=
  match Json.parse line with
  | .error e => Json.mkObj [("model", Json.null), ("error", Json.str s!"parse: {e}")]
  | .ok j =>
    let stream := ((j.getObjVal? "stream").toOption >>= fun s => s.getStr?.toOption).getD ""
    let c := (j.getObjVal? "case").toOption.getD Json.null
    let r : Option Json := match stream with
      | "intervals" => runIntervals c
      | "hier" => runHier c
      | _ => none
    match r with
    | some m => Json.mkObj [("model", m)]
    | none => Json.mkObj [("model", Json.null), ("error", Json.str s!"unhandled stream/case: {stream}")]

partial def loop (h : IO.FS.Stream) (out : IO.FS.Stream) : IO Unit := do
  let line ← h.getLine
  if line.isEmpty then return ()
  if line.trimAscii.toString.isEmpty then loop h out else
  out.putStrLn (handle line).compress
  loop h out

def main : IO Unit := do
  let out ← IO.getStdout
  loop (← IO.getStdin) out
  out.flush

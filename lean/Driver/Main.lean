import Lean.Data.Json
import QrlewModel.Model.Intervals
import QrlewModel.Model.Hierarchy
import QrlewModel.Model.Rules
import QrlewModel.Generated.Rules
import QrlewModel.Model.DpEvent
import QrlewModel.Model.DpReduce
import QrlewModel.Model.Print
import QrlewModel.Model.Monotone
import QrlewModel.Model.Injection
import QrlewModel.Model.Filter
import QrlewModel.Model.Clip
import QrlewModel.Model.DpAgg
import QrlewModel.Model.PupTree
import QrlewModel.Model.RelTree
import QrlewModel.Model.TauKeys
import QrlewModel.Model.ExprImg
import QrlewModel.Model.DTLat
import QrlewModel.Model.InjLat
import QrlewModel.Model.Tau
import QrlewModel.Model.Rel
import QrlewModel.Model.Quote
import QrlewModel.Model.Namer
import QrlewModel.Model.Total
import QrlewModel.Model.Split
import QrlewModel.Generated.Dialects
/-!
JSON-lines driver over the executable model.  One input line = one harness line
(`{"stream":..,"case":..,..}`); one output line = `{"model": <canonical output>}`.
A line the driver cannot interpret yields `{"model":null,"error":..}` (never a default value).
-/
open Lean Qrlew

def jInt? (j : Json) : Option Int := match j.getInt? with | .ok v => some v | _ => none

def jPairs? (j : Json) : Option Ivs := do
  let arr ← (j.getArr?).toOption
  arr.toList.mapM fun p => do
    let a ← (p.getArrVal? 0).toOption >>= jInt?
    let b ← (p.getArrVal? 1).toOption >>= jInt?
    pure (a, b)

def ivsToJson (l : Ivs) : Json := Json.arr (l.map fun p => Json.arr #[Json.num (JsonNumber.fromInt p.1), Json.num (JsonNumber.fromInt p.2)]).toArray

def cap : Nat := 128

def parseIvOp (j : Json) : Option IvOp := do
  let tag ← (j.getArrVal? 0).toOption >>= fun t => t.getStr?.toOption
  match tag with
  | "U" => do
    let a ← (j.getArrVal? 1).toOption >>= jInt?
    let b ← (j.getArrVal? 2).toOption >>= jInt?
    pure (.unionI a b)
  | "I" => do
    let a ← (j.getArrVal? 1).toOption >>= jInt?
    let b ← (j.getArrVal? 2).toOption >>= jInt?
    pure (.interI a b)
  | "US" => do
    let s ← (j.getArrVal? 1).toOption >>= jPairs?
    pure (.unionS (fromIntervals cap s))
  | "IS" => do
    let s ← (j.getArrVal? 1).toOption >>= jPairs?
    pure (.interS (fromIntervals cap s))
  | "H" => pure .hullOp
  | _ => none

def runIntervals (c : Json) : Option Json := do
  let init ← (c.getObjVal? "init").toOption >>= jPairs?
  let opsJ ← (c.getObjVal? "ops").toOption >>= fun o => o.getArr?.toOption
  let ops ← opsJ.toList.mapM parseIvOp
  pure (ivsToJson (runIv cap (fromIntervals cap init) ops))

def jStrs? (j : Json) : Option (List String) := do
  let arr ← (j.getArr?).toOption
  arr.toList.mapM fun s => s.getStr?.toOption

def runHier (c : Json) : Option Json := do
  let es ← (c.getObjVal? "entries").toOption >>= fun o => o.getArr?.toOption
  let entries ← es.toList.mapM fun e => do
    let k ← (e.getArrVal? 0).toOption >>= jStrs?
    let v ← (e.getArrVal? 1).toOption >>= jInt?
    pure (k, v)
  let ls ← (c.getObjVal? "lookups").toOption >>= fun o => o.getArr?.toOption
  let lookups ← ls.toList.mapM jStrs?
  let res := lookups.map fun p =>
    match lookup entries p with
    | some (k, v) => Json.arr #[Json.arr (k.map Json.str).toArray, Json.num (JsonNumber.fromInt v)]
    | none => Json.null
  pure (Json.arr res.toArray)

def runHierOps (c : Json) : Option Json := do
  let binds (j : Json) : Option (List (List String × Int)) := do
    let es ← j.getArr?.toOption
    es.toList.mapM fun e => do
      let k ← (e.getArrVal? 0).toOption >>= jStrs?
      let v ← (e.getArrVal? 1).toOption >>= jInt?
      pure (k, v)
  let entries ← (c.getObjVal? "entries").toOption >>= binds
  let ops ← (c.getObjVal? "ops").toOption >>= fun o => o.getArr?.toOption
  let m ← ops.toList.foldlM (init := hextend [] entries) fun (m : List (List String × Int)) op => do
    let kind ← (op.getArrVal? 0).toOption >>= fun s => s.getStr?.toOption
    let arg ← (op.getArrVal? 1).toOption
    match kind with
    | "extend" | "with" => do let b ← binds arg; pure (hextend m b)
    | "prepend" => do let h ← jStrs? arg; pure (hprepend m h)
    | "filter" => do let p ← jStrs? arg; pure (hfilter m p)
    | _ => none
  let ls ← (c.getObjVal? "lookups").toOption >>= fun o => o.getArr?.toOption
  let lookups ← ls.toList.mapM jStrs?
  let res := lookups.map fun p =>
    match lookup m p with
    | some (k, v) => Json.arr #[Json.arr (k.map Json.str).toArray, Json.num (JsonNumber.fromInt v)]
    | none => Json.null
  pure (Json.mkObj [("size", Json.num (JsonNumber.fromNat m.length)), ("res", Json.arr res.toArray)])

/-- stream `injtime`: Date → DateTime and DateTime → Date on (day, second, nanosecond) triples -/
def runInjTime (c : Json) : Option Json := do
  let days ← (c.getObjVal? "days").toOption >>= (fun a => a.getArr?.toOption) >>= (fun a => a.toList.mapM jInt?)
  let stampsJ ← (c.getObjVal? "stamps").toOption >>= fun a => a.getArr?.toOption
  let stamps ← stampsJ.toList.mapM fun s => do
    let d ← (s.getArrVal? 0).toOption >>= jInt?
    let sec ← (s.getArrVal? 1).toOption >>= jInt?
    let n ← (s.getArrVal? 2).toOption >>= jInt?
    pure ({ day := d, sec := sec.toNat, nano := n.toNat } : Stamp)
  let num (i : Int) : Json := Json.num (JsonNumber.fromInt i)
  let d2dt := days.map fun d => let s := dateToStamp d; Json.arr #[num s.day, num s.sec, num s.nano]
  let dt2d := stamps.map fun s => match stampToDate? s with | some d => num d | none => Json.str "refused"
  pure (Json.mkObj [("d2dt", Json.arr d2dt.toArray), ("dt2d", Json.arr dt2d.toArray)])

/-- stream `exprprint`: the tokens `Qrlew.Print.print` writes for an expression tree -/
partial def peOfJson? (j : Json) : Option Print.PE := do
  let tag ← (j.getArrVal? 0).toOption >>= fun t => t.getStr?.toOption
  let k ← (j.getArrVal? 1).toOption >>= jInt?
  match tag with
  | "atom" => pure (.atom k.toNat)
  | "bin" => do pure (.bin k.toNat (← (j.getArrVal? 2).toOption >>= peOfJson?) (← (j.getArrVal? 3).toOption >>= peOfJson?))
  | "pre" => do pure (.pre k.toNat (← (j.getArrVal? 2).toOption >>= peOfJson?))
  | "suf" => do pure (.suf k.toNat (← (j.getArrVal? 2).toOption >>= peOfJson?))
  | _ => none

def tokStr : Print.Tok → String
  | .lp => "(" | .rp => ")" | .atom n => s!"a{n}" | .op k => s!"op:{k}" | .pre k => s!"pre:{k}" | .suf k => s!"suf:{k}"

def runExprPrint (c : Json) : Option Json := do
  let e ← (c.getObjVal? "expr").toOption >>= peOfJson?
  -- the outermost expression is not an operand: the model's `print` of an operand is what appears inside the parentheses
  pure (Json.arr ((Print.print e).map (fun t => Json.str (tokStr t))).toArray)

def labelOfStr? : String → Option Label
  | "priv" => some .priv | "sd" => some .sd | "pup" => some .pup | "dp" => some .dp | "pubd" => some .pubd | "pub" => some .pub
  | _ => none

def labelStr : Label → String
  | .priv => "priv" | .sd => "sd" | .pup => "pup" | .dp => "dp" | .pubd => "pubd" | .pub => "pub"

def ruleOfJson? (j : Json) : Option Rule := do
  let ins ← (j.getArrVal? 0).toOption >>= jStrs?
  let ins ← ins.mapM labelOfStr?
  let out ← (j.getArrVal? 1).toOption >>= (fun s => s.getStr?.toOption) >>= labelOfStr?
  pure ⟨ins, out⟩

def ruleToJson (r : Rule) : Json :=
  Json.arr #[Json.arr (r.inputs.map (fun l => Json.str (labelStr l))).toArray, Json.str (labelStr r.output)]

/-- the annotated tree together with the node kinds (kept only to echo them back) -/
partial def treeOfJson? (j : Json) : Option (RTree × Json) := do
  let rules ← (j.getObjVal? "rules").toOption >>= (fun a => a.getArr?.toOption)
  let rules ← rules.toList.mapM ruleOfJson?
  let kids ← (j.getObjVal? "in").toOption >>= (fun a => a.getArr?.toOption)
  let kids ← kids.toList.mapM treeOfJson?
  match kids with
  | [] => pure (.leaf rules, j)
  | [c] => pure (.unary rules c.1, j)
  | [l, r] => pure (.binary rules l.1 r.1, j)
  | _ => none

/-- echo the tree in the harness' shape, with the model's rules and the original node kinds -/
partial def treeToJson (t : RTree) (orig : Json) : Json :=
  let kind := (orig.getObjVal? "kind").toOption.getD Json.null
  let okids := ((orig.getObjVal? "in").toOption >>= (fun a => a.getArr?.toOption)).getD #[]
  let (rules, kids) : List Rule × List RTree := match t with
    | .leaf rs => (rs, [])
    | .unary rs c => (rs, [c])
    | .binary rs l r => (rs, [l, r])
  let jk := (kids.zip okids.toList).map fun (k, o) => treeToJson k o
  Json.mkObj [("kind", kind), ("rules", Json.arr (rules.map ruleToJson).toArray), ("in", Json.arr jk.toArray)]

def derivToJson : Deriv → Json
  | .leaf r => Json.mkObj [("rule", ruleToJson r), ("in", Json.arr #[])]
  | .unary r c => Json.mkObj [("rule", ruleToJson r), ("in", Json.arr #[derivToJson c])]
  | .binary r a b => Json.mkObj [("rule", ruleToJson r), ("in", Json.arr #[derivToJson a, derivToJson b])]

def chosenToJson : Option Deriv → Json
  | none => Json.null
  | some d => Json.mkObj [("deriv", derivToJson d), ("score", Json.num (JsonNumber.fromNat (score d)))]

def kindOfStr? : String → Option Generated.NodeKind
  | "tableProtected" => some .tableProtected | "tablePublic" => some .tablePublic | "values" => some .values
  | "map" => some .map | "reduceDpOk" => some .reduceDpOk | "reduceDpNo" => some .reduceDpNo
  | "join" => some .join | "set" => some .set | _ => none

/-- every node of the real tree carries exactly the rules of the generated table for its kind -/
partial def tableOk (synthetic hard : Bool) (j : Json) : Bool :=
  let kind := ((j.getObjVal? "kind").toOption >>= (fun s => s.getStr?.toOption)) >>= kindOfStr?
  let rules := ((j.getObjVal? "rules").toOption >>= (fun a => a.getArr?.toOption)) >>= (fun a => a.toList.mapM ruleOfJson?)
  let kids := ((j.getObjVal? "in").toOption >>= (fun a => a.getArr?.toOption)).getD #[]
  match kind, rules with
  | some k, some rs => decide (rs = Generated.rulesFor k synthetic hard) && kids.toList.all (tableOk synthetic hard)
  | _, _ => false

def runRules (aux : Json) : Option Json := do
  let tj ← (aux.getObjVal? "tree").toOption
  let (t, orig) ← treeOfJson? tj
  let hard ← (aux.getObjVal? "hard").toOption >>= (fun b => b.getBool?.toOption)
  let synthetic ← (aux.getObjVal? "synthetic").toOption >>= (fun b => b.getBool?.toOption)
  let e := eliminate t
  let sel := select e
  let cdp := choose accDP t
  let cpup := choose accPUP t
  pure (Json.mkObj [
    ("table_ok", Json.bool (tableOk synthetic hard tj)),
    ("elim", treeToJson e orig),
    ("select", Json.arr (sel.map derivToJson).toArray),
    ("chosen_dp", chosenToJson cdp),
    ("chosen_pup", chosenToJson cpup),
    ("dp_ok", if hard then Json.bool cdp.isSome else Json.null),
    ("pup_ok", Json.bool cpup.isSome)])

/-! ### DpEvent / budget -/

partial def evOfJson? (j : Json) : Option (DpEvent Int) := do
  let tag ← (j.getArrVal? 0).toOption >>= fun t => t.getStr?.toOption
  match tag with
  | "noop" => pure .noOp
  | "gauss" => do pure (.gaussian (← (j.getArrVal? 1).toOption >>= jInt?))
  | "ed" => do pure (.epsilonDelta (← (j.getArrVal? 1).toOption >>= jInt?) (← (j.getArrVal? 2).toOption >>= jInt?))
  | "comp" => do
    let arr ← (j.getArrVal? 1).toOption >>= fun a => a.getArr?.toOption
    pure (.composed (← arr.toList.mapM evOfJson?))
  | _ => none

partial def evToJson : DpEvent Int → Json
  | .noOp => Json.arr #[Json.str "noop"]
  | .gaussian m => Json.arr #[Json.str "gauss", Json.num (JsonNumber.fromInt m)]
  | .epsilonDelta e d => Json.arr #[Json.str "ed", Json.num (JsonNumber.fromInt e), Json.num (JsonNumber.fromInt d)]
  | .composed es => Json.arr #[Json.str "comp", Json.arr (es.map evToJson).toArray]

def isZeroInt (x : Int) : Bool := x == 0

def runDpEvent (c : Json) : Option Json := do
  let arr ← (c.getObjVal? "events").toOption >>= fun a => a.getArr?.toOption
  let evs ← arr.toList.mapM evOfJson?
  let collected := DpEvent.collect isZeroInt evs
  let noop := evs.map (DpEvent.isNoOp isZeroInt)
  let pair := match evs with
    | a :: b :: _ => evToJson (DpEvent.compose isZeroInt a b)
    | _ => Json.null
  pure (Json.mkObj [("collected", evToJson collected), ("noop", Json.arr (noop.map Json.bool).toArray), ("pair", pair)])

def floatOps : NumOps Float where
  ofNat := fun n => n.toFloat
  add := (· + ·)
  sub := (· - ·)
  mul := (· * ·)
  div := (· / ·)
  sqrt := Float.sqrt
  ln := Float.log
  max := fun a b => if a < b then b else a
  c125 := 1.25

def jFloat? (j : Json) : Option Float := match j with
  | Json.num n => some n.toFloat
  | _ => none

def closeTo (a b : Float) : Bool :=
  let d := (a - b).abs
  d ≤ 1e-9 * (if a.abs < b.abs then b.abs else a.abs) || d ≤ 1e-300

def runDpQuery (aux : Json) : Option Json := do
  let eps ← (aux.getObjVal? "eps").toOption >>= jFloat?
  let delta ← (aux.getObjVal? "delta").toOption >>= jFloat?
  let share ← (aux.getObjVal? "share").toOption >>= jFloat?
  let tauUsed ← (aux.getObjVal? "tau_used").toOption >>= (fun b => b.getBool?.toOption)
  let groupsJ ← (aux.getObjVal? "groups").toOption >>= (fun a => a.getArr?.toOption)
  let groups ← groupsJ.toList.mapM fun g => do
    let sites ← g.getArr?.toOption
    sites.toList.mapM fun s => do
      let sg ← (s.getArrVal? 0).toOption >>= jFloat?
      let c ← (s.getArrVal? 1).toOption >>= jFloat?
      pure (sg, c)
  let gauss ← (aux.getObjVal? "gauss").toOption >>= (fun a => a.getArr?.toOption) >>= (fun a => a.toList.mapM jFloat?)
  let edsJ ← (aux.getObjVal? "eds").toOption >>= (fun a => a.getArr?.toOption)
  let eds ← edsJ.toList.mapM fun e => do
    let a ← (e.getArrVal? 0).toOption >>= jFloat?
    let b ← (e.getArrVal? 1).toOption >>= jFloat?
    pure (a, b)
  let o := floatOps
  let bounds := groups.map fun sites => sites.map (·.2)
  -- σ of every sum: the model of the whole reduce (`Model/DpReduce.lean`)
  let want := DpReduce.sigmas o eps delta share tauUsed bounds
  let sigmaOk := groups.length == want.length && (groups.zip want).all fun (sites, ws) =>
    sites.all (fun sc => sc.2 ≥ 0) && sites.length == ws.length && (sites.zip ws).all fun (sc, w) => closeTo sc.1 w
  -- the event: its elementary mechanisms, in order
  let ev := DpEvent.leaves (fun x : Float => x == 0.0)
    (DpReduce.event o (fun x : Float => x == 0.0) (fun x : Float => x > 0.0) eps delta share tauUsed bounds)
  let evG := ev.filterMap fun e => match e with | .gaussian m => some m | _ => none
  let evE := ev.filterMap fun e => match e with | .epsilonDelta a b => some (a, b) | _ => none
  let eventOk := gauss.length == evG.length && (gauss.zip evG).all fun (a, b) => closeTo a b
  let tauOk := eds.length == evE.length && (eds.zip evE).all fun (a, b) => closeTo a.1 b.1 && closeTo a.2 b.2
  pure (Json.mkObj [("sigma_ok", Json.bool sigmaOk), ("event_ok", Json.bool eventOk), ("tau_ok", Json.bool tauOk)])

def runFnImg (c : Json) : Option Json := do
  let f ← (c.getObjVal? "f").toOption >>= fun s => s.getStr?.toOption
  let s1 ← (c.getObjVal? "s1").toOption >>= jPairs?
  let s2 ← (c.getObjVal? "s2").toOption >>= jPairs?
  let a := fromIntervals cap s1
  let b := fromIntervals cap s2
  match f with
  | "plus" => pure (ivsToJson (plusImage cap a b))
  | "minus" => pure (ivsToJson (minusImage cap a b))
  | "multiply" => pure (ivsToJson (mulImage cap a b))
  | "sum" => pure (ivsToJson (sumImage cap a b))
  | _ => none

def runOfInt (c : Json) : Option Json := do
  let n ← (c.getObjVal? "n").toOption >>= jInt?
  pure (Json.str (toString (ofInt n)))

def optStr (o : Option (List Char)) : Json := match o with | some v => Json.str (String.ofList v) | none => Json.null

/-- rendered text and value read back, from the quoting model and the generated dialect table -/
def runQuote (c : Json) : Option Json := do
  let s ← (c.getObjVal? "s").toOption >>= fun t => t.getStr?.toOption
  let kind ← (c.getObjVal? "kind").toOption >>= fun t => t.getStr?.toOption
  if kind == "col" then pure Json.null else
  let d ← (c.getObjVal? "dialect").toOption >>= fun t => t.getStr?.toOption
  let row ← Generated.dialects.find? (fun r => r.name == (if d == "pg" then "postgresql" else d))
  let (q, bs) := if kind == "lit" then ('\'', row.backslash) else (row.write, false)
  let text := Quote.write q s.toList
  pure (Json.mkObj [("text", Json.str (String.ofList text)), ("back", optStr (Quote.readBack q bs text))])

def opndOfJson? (j : Json) : Option Operand := do
  let tag ← (j.getArrVal? 0).toOption >>= fun t => t.getStr?.toOption
  match tag with
  | "col" => do let i ← (j.getArrVal? 1).toOption >>= jInt?; pure (.col i.toNat)
  | "lit" => do let k ← (j.getArrVal? 1).toOption >>= jInt?; pure (.lit k)
  | _ => none

partial def predOfJson? (j : Json) : Option Pred := do
  let tag ← (j.getArrVal? 0).toOption >>= fun t => t.getStr?.toOption
  match tag with
  | "gt" | "ge" => do pure (.gt (← (j.getArrVal? 1).toOption >>= opndOfJson?) (← (j.getArrVal? 2).toOption >>= opndOfJson?))
  | "lt" | "le" => do pure (.lt (← (j.getArrVal? 1).toOption >>= opndOfJson?) (← (j.getArrVal? 2).toOption >>= opndOfJson?))
  | "eq" => do pure (.eq (← (j.getArrVal? 1).toOption >>= opndOfJson?) (← (j.getArrVal? 2).toOption >>= opndOfJson?))
  | "and" => do pure (.and (← (j.getArrVal? 1).toOption >>= predOfJson?) (← (j.getArrVal? 2).toOption >>= predOfJson?))
  | "or" => do pure (.or (← (j.getArrVal? 1).toOption >>= predOfJson?) (← (j.getArrVal? 2).toOption >>= predOfJson?))
  | "other" => pure (.other true)
  | _ => none

def runFilter (c : Json) : Option Json := do
  let colsJ ← (c.getObjVal? "cols").toOption >>= fun a => a.getArr?.toOption
  let cols ← colsJ.toList.mapM jPairs?
  let T := cols.map (fromIntervals cap)
  let p ← (c.getObjVal? "pred").toOption >>= predOfJson?
  let out := filterT cap T p
  pure (Json.mkObj [("cols", Json.arr (out.map ivsToJson).toArray)])

/-- stream `joinnarrow`: `joinNarrow` on the column types of the two sides of a join -/
def runJoinNarrow (c : Json) : Option Json := do
  let colsJ ← (c.getObjVal? "cols").toOption >>= fun a => a.getArr?.toOption
  let cols ← colsJ.toList.mapM jPairs?
  let T := cols.map (fromIntervals cap)
  let nl ← (c.getObjVal? "nl").toOption >>= jInt?
  let p ← (c.getObjVal? "pred").toOption >>= predOfJson?
  let kindS ← (c.getObjVal? "kind").toOption >>= fun s => s.getStr?.toOption
  let kind : JoinKind := match kindS with | "inner" => .inner | "left" => .left | "right" => .right | _ => .full
  let (L, R) := joinNarrow cap kind (T.take nl.toNat) (T.drop nl.toNat) p
  pure (Json.mkObj [("left", Json.arr (L.map ivsToJson).toArray), ("right", Json.arr (R.map ivsToJson).toArray)])

/-- clipping model on Float: rows (unit, group, value|null) -> per-group clipped sums; compared with the sums the real
relation produced on SQLite (passed in `aux`) -/
def runClip (c : Json) (aux : Json) : Option Json := do
  let nU ← (c.getObjVal? "n_units").toOption >>= jInt?
  let nG ← (c.getObjVal? "n_groups").toOption >>= jInt?
  let cc ← (c.getObjVal? "c").toOption >>= jFloat?
  let rowsJ ← (c.getObjVal? "rows").toOption >>= fun a => a.getArr?.toOption
  let rows ← rowsJ.toList.mapM fun r => do
    let u ← (r.getArrVal? 0).toOption >>= jInt?
    let g ← (r.getArrVal? 1).toOption >>= jInt?
    let x := ((r.getArrVal? 2).toOption >>= jFloat?)
    pure (u, g, x)
  -- per-unit vectors of per-group partial sums (NULL values are ignored by SUM)
  let units : List (List Float) := (List.range nU.toNat).map fun u =>
    (List.range nG.toNat).map fun g =>
      (rows.filter fun r => r.1 == Int.ofNat u && r.2.1 == Int.ofNat g).foldl (fun acc r => acc + (r.2.2.getD 0.0)) 0.0
  -- units without any row do not appear in the data: their vector is zero and contributes nothing
  let tot := Clip.total floatOps (fun x => x == 0.0) nG.toNat cc units
  let sumsJ ← (aux.getObjVal? "sums").toOption >>= fun a => a.getArr?.toOption
  let ok := sumsJ.toList.all fun s =>
    match (s.getArrVal? 0).toOption >>= jInt?, (s.getArrVal? 1).toOption >>= jFloat? with
    | some g, some v => (closeTo v (tot.getD g.toNat 0.0)) || (v - tot.getD g.toNat 0.0).abs ≤ 1e-9
    | some g, none => (tot.getD g.toNat 0.0).abs ≤ 1e-9      -- SUM over only NULLs is NULL
    | _, _ => false
  -- groups the relation did not output must have no rows
  let present := sumsJ.toList.filterMap fun s => (s.getArrVal? 0).toOption >>= jInt?
  let ok2 := (List.range nG.toNat).all fun g => present.contains (Int.ofNat g) || !(rows.any fun r => r.2.1 == Int.ofNat g)
  pure (Json.mkObj [("clip_ok", Json.bool (ok && ok2))])

/-- DP aggregation model on Float (`Qrlew.DpAgg.release`) against the table the real DP relation produced on SQLite with
the noise draws at 0 (passed in `aux`, together with the clipping constants read off the relation); one or two aggregated
columns (x with bound A, y with bound 3A), each with its own three derived columns -/
def runDpAgg (c : Json) (aux : Json) : Option Json := do
  let nU ← (c.getObjVal? "n_units").toOption >>= jInt?
  let nG ← (c.getObjVal? "n_groups").toOption >>= jInt?
  let a ← (c.getObjVal? "a").toOption >>= jFloat?
  let mult ← (c.getObjVal? "mult").toOption >>= jFloat?
  let two := ((c.getObjVal? "two_columns").toOption >>= fun b => b.getBool?.toOption).getD false
  let rowsJ ← (c.getObjVal? "rows").toOption >>= fun a => a.getArr?.toOption
  let rowsOf (k : Nat) : Option (List (DpAgg.Row Float)) := rowsJ.toList.mapM fun r => do
    let u ← (r.getArrVal? 0).toOption >>= jInt?
    let g ← (r.getArrVal? 1).toOption >>= jInt?
    let x := ((r.getArrVal? (2 + k)).toOption >>= jFloat?)
    pure (u.toNat, g.toNat, x)
  let tableJ ← (aux.getObjVal? "table").toOption >>= fun a => a.getArr?.toOption
  let nClips ← (aux.getObjVal? "n_clips").toOption >>= jInt?
  let near (x y tol : Float) : Bool := (x - y).abs ≤ tol
  -- one aggregated column: its rows, its declared bound, the name of its constants in `aux`, the offset of its 5 outputs
  let column (k : Nat) (bound : Float) (key : String) : Option (Bool × List (DpAgg.Out Float)) := do
    let rows ← rowsOf k
    let cs ← (aux.getObjVal? key).toOption >>= fun a => a.getArr?.toOption
    let cOne ← cs[0]? >>= jFloat?
    let cVal ← cs[1]? >>= jFloat?
    let cSq ← cs[2]? >>= jFloat?
    -- the constants must be the declared bounds times the multiplicity (the square's may be any upper bound of it)
    let constsOk := closeTo cOne mult && closeTo cVal (bound * mult) && cSq ≥ bound * bound * mult * (1 - 1e-9)
    let outs := DpAgg.release floatOps (fun x => x == 0.0) nU.toNat nG.toNat cOne cVal cSq rows
    let rowOk (j : Nat) (m : DpAgg.Out Float) : Bool :=
      match tableJ.toList.find? fun r => ((r.getArrVal? 0).toOption >>= jInt?) == some (Int.ofNat j) with
      | none => false                 -- public grouping keys: every listed group is released
      | some r =>
        let o := 1 + 5 * k
        match (r.getArrVal? o).toOption >>= jFloat?, (r.getArrVal? (o + 1)).toOption >>= jFloat?, (r.getArrVal? (o + 2)).toOption >>= jFloat?,
              (r.getArrVal? (o + 3)).toOption >>= jFloat?, (r.getArrVal? (o + 4)).toOption >>= jFloat? with
        | some ic, some is, some im, some iv, some id =>
          let scale := (if m.sum.abs < 1 then 1 else m.sum.abs)
          -- the count is cast to an integer by the relation (truncation on SQLite); a clipped count may sit an ulp below a whole number
          let cntOk := ic == m.count.floor || (near m.count m.count.round 1e-6 && (ic == m.count.round || ic == m.count.round - 1))
          let n := if m.count < 1 then 1 else m.count
          let vtol := 1e-9 * (1 + m.mean * m.mean + (m.var).abs) + 1e-9
          cntOk && near is m.sum (1e-9 * scale) && near im m.mean (1e-9 * scale / n + 1e-9 * m.mean.abs + 1e-12)
            && near iv m.var vtol && near id m.std (Float.sqrt (2 * vtol) + 1e-9 * m.std)
        | _, _, _, _, _ => false
    let rec go (j : Nat) (l : List (DpAgg.Out Float)) : Bool := match l with
      | [] => true
      | m :: t => rowOk j m && go (j + 1) t
    pure (constsOk && outs.length == nG.toNat && go 0 outs, outs)
  let (okx, outsx) ← column 0 a "clips_x"
  let (oky, outsy) ← if two then column 1 (3 * a) "clips_y" else pure (true, [])
  let ok := okx && oky && tableJ.size == nG.toNat && nClips == (if two then 6 else 3)
  if ok then pure (Json.mkObj [("agg_ok", Json.bool true)])
  else pure (Json.mkObj [("agg_ok", Json.bool false), ("x_ok", Json.bool okx), ("y_ok", Json.bool oky),
    ("model", Json.arr ((outsx ++ outsy).map fun m => Json.arr #[toJson m.count, toJson m.sum, toJson m.mean, toJson m.var, toJson m.std]).toArray)])

/-- trees of privacy-unit-tracking operators: `Qrlew.PupTree.eval` on the case's tables, rows rendered `unit|weight|c0|c1` and sorted -/
partial def pupTreeOfJson? (j : Json) : Option PupTree.T := do
  let tag ← (j.getArrVal? 0).toOption >>= fun t => t.getStr?.toOption
  let n (i : Nat) : Option Nat := ((j.getArrVal? i).toOption >>= jInt?).map Int.toNat
  let z (i : Nat) : Option Int := (j.getArrVal? i).toOption >>= jInt?
  let b (i : Nat) : Option Bool := (j.getArrVal? i).toOption >>= fun x => x.getBool?.toOption
  let t (i : Nat) : Option PupTree.T := (j.getArrVal? i).toOption >>= pupTreeOfJson?
  match tag with
  | "table" => do pure (.table (← n 1))
  | "map" => do pure (.map (← n 1) (← z 2) (← n 3) (← z 4) (← t 5))
  | "filter" => do pure (.filter (← n 1) (← z 2) (← t 3))
  | "join" => do pure (.join (← n 1) (← n 2) (← n 3) (← n 4) (← t 5) (← t 6))
  | "joinpub" => do pure (.joinPub (← n 1) (← n 2) (← b 3) (← t 4))
  | "union" => do pure (.union (← b 1) (← t 2) (← t 3))
  | "reduce" => do pure (.reduce (← n 1) (← n 2) (← b 3) (← t 4))
  | _ => none

def runPup (c : Json) : Option Json := do
  let tree ← (c.getObjVal? "tree").toOption >>= pupTreeOfJson?
  let cellOf (j : Json) : PupTree.Cell := jInt? j
  -- `tracked[i]`: the rows of protected table i as the privacy-unit definition tracks them: [unit, weight, c0, c1]
  let trackedJ ← (c.getObjVal? "tracked").toOption >>= fun a => a.getArr?.toOption
  let tables : List (List (Nat × PupTree.Row)) ← trackedJ.toList.mapM fun tb => do
    let rowsJ ← tb.getArr?.toOption
    rowsJ.toList.mapM fun r => do
      let u ← (r.getArrVal? 0).toOption >>= jInt?
      let w ← (r.getArrVal? 1).toOption >>= jInt?
      let k ← (r.getArrVal? 2).toOption
      let x ← (r.getArrVal? 3).toOption
      pure (u.toNat, (w, [cellOf k, cellOf x]))
  let ppJ ← (c.getObjVal? "pp").toOption >>= fun a => a.getArr?.toOption
  let pp ← ppJ.toList.mapM fun r => do
    let k ← (r.getArrVal? 0).toOption
    let w ← (r.getArrVal? 1).toOption
    pure [cellOf k, cellOf w]
  let env : PupTree.Env := { tracked := fun i => tables.getD i [], pub := pp }
  let showC (x : PupTree.Cell) : String := match x with | some v => toString v | none => "null"
  let rows := (PupTree.eval env tree).map fun r =>
    s!"{r.1}|{r.2.1}|{showC (PupTree.getC r.2.2 0)}|{showC (PupTree.getC r.2.2 1)}"
  let sorted := rows.toArray.qsort (fun a b => a < b)
  pure (Json.mkObj [("rows", Json.arr (sorted.map Json.str))])

/-- Relation IR trees: `Qrlew.RelTree.sizeMax`, `uniq` and (unless a LIMIT / OFFSET makes the rows order-dependent) `eval` -/
partial def relTreeOfJson? (decl : List (Nat × List Bool)) (j : Json) : Option RelTree.T := do
  let tag ← (j.getArrVal? 0).toOption >>= fun t => t.getStr?.toOption
  let n (i : Nat) : Option Nat := ((j.getArrVal? i).toOption >>= jInt?).map Int.toNat
  let on (i : Nat) : Option (Option Nat) := match (j.getArrVal? i).toOption with
    | some Json.null => some none
    | some x => (jInt? x).map fun v => some v.toNat
    | none => none
  let b (i : Nat) : Option Bool := (j.getArrVal? i).toOption >>= fun x => x.getBool?.toOption
  let t (i : Nat) : Option RelTree.T := (j.getArrVal? i).toOption >>= relTreeOfJson? decl
  match tag with
  | "table" => do
      let id ← n 1
      let d ← decl[id]?
      pure (.table id d.1 d.2)
  | "map" => do
      let projJ ← (j.getArrVal? 1).toOption >>= fun a => a.getArr?.toOption
      let proj ← projJ.toList.mapM fun p => do
        let c ← (p.getArrVal? 0).toOption >>= jInt?
        let f ← (p.getArrVal? 1).toOption >>= fun t => t.getStr?.toOption
        let fn ← match f with
          | "id" => some RelTree.Fn.id
          | "neg" => some RelTree.Fn.neg
          | "abs" => some RelTree.Fn.abs
          | "plus" => ((p.getArrVal? 2).toOption >>= jInt?).map RelTree.Fn.plus
          | _ => none
        pure (c.toNat, fn)
      let flt ← match (j.getArrVal? 2).toOption with
        | some Json.null => some none
        | some x => do
            let c ← (x.getArrVal? 0).toOption >>= jInt?
            let k ← (x.getArrVal? 1).toOption >>= jInt?
            pure (some (c.toNat, k))
        | none => none
      pure (.map proj flt (← on 3) (← on 4) (← t 5))
  | "join" => do pure (.join (← n 1) (← n 2) (← t 3) (← t 4))
  | "union" => do pure (.union (← b 1) (← t 2) (← t 3))
  | "intersect" => do pure (.intersect (← t 1) (← t 2))
  | "except" => do pure (.except (← t 1) (← t 2))
  | "reduce" => do
      let keysJ ← (j.getArrVal? 1).toOption >>= fun a => a.getArr?.toOption
      let keys ← keysJ.toList.mapM fun k => (jInt? k).map Int.toNat
      pure (.reduce keys (← t 2))
  | _ => none

def relTreeHasLimit : RelTree.T → Bool
  | .table _ _ _ => false
  | .map _ _ off lim t => off.isSome || lim.isSome || relTreeHasLimit t
  | .join _ _ l r => relTreeHasLimit l || relTreeHasLimit r
  | .union _ l r => relTreeHasLimit l || relTreeHasLimit r
  | .intersect l r => relTreeHasLimit l || relTreeHasLimit r
  | .except l r => relTreeHasLimit l || relTreeHasLimit r
  | .reduce _ t => relTreeHasLimit t

def runRelTree (c : Json) : Option Json := do
  let declJ ← (c.getObjVal? "decl").toOption >>= fun a => a.getArr?.toOption
  let decl ← declJ.toList.mapM fun d => do
    let n ← (d.getArrVal? 0).toOption >>= jInt?
    let fl ← (d.getArrVal? 1).toOption >>= fun a => a.getArr?.toOption
    let flags ← fl.toList.mapM fun x => x.getBool?.toOption
    pure (n.toNat, flags)
  let tree ← (c.getObjVal? "tree").toOption >>= relTreeOfJson? decl
  let tablesJ ← (c.getObjVal? "tables").toOption >>= fun a => a.getArr?.toOption
  let tables ← tablesJ.toList.mapM fun tb => do
    let rowsJ ← tb.getArr?.toOption
    rowsJ.toList.mapM fun r => do
      let cs ← r.getArr?.toOption
      cs.toList.mapM jInt?
  let db : Nat → List RelTree.Row := fun i => tables.getD i []
  let rows := (RelTree.eval db tree).map fun r => "|".intercalate (r.map toString)
  let sorted := rows.toArray.qsort (fun a b => a < b)
  pure (Json.mkObj [("size_max", Json.num (JsonNumber.fromNat (RelTree.sizeMax tree))),
    ("uniq", Json.arr ((RelTree.uniq tree).map Json.bool).toArray),
    ("rows", if relTreeHasLimit tree then Json.null else Json.arr (sorted.map Json.str))])

/-- key release: `Qrlew.TauKeys.releasedKeys` with all ranks tied and noise 0, the threshold read off the real relation -/
def runTauKeys (c : Json) (aux : Json) : Option Json := do
  let rowsJ ← (c.getObjVal? "rows").toOption >>= fun a => a.getArr?.toOption
  let rows : List TauKeys.Pair ← rowsJ.toList.mapM fun r => do
    let u ← (r.getArrVal? 0).toOption >>= jInt?
    let k ← (r.getArrVal? 1).toOption >>= jInt?
    pure (u.toNat, k)
  let tauF ← (aux.getObjVal? "tau_floor").toOption >>= jFloat?
  let k ← (aux.getObjVal? "k").toOption >>= jInt?
  let tau : Int := tauF.toInt64.toInt
  let released := TauKeys.releasedKeys k.toNat (fun _ => 0) (fun _ => 0) tau rows
  let sorted := released.toArray.qsort (fun a b => a < b)
  pure (Json.mkObj [("released", Json.arr (sorted.map fun x => Json.num (JsonNumber.fromInt x)))])

/-- arithmetic expression trees: `Qrlew.ExprImg.image` and `eval` -/
partial def aeOfJson? (j : Json) : Option ExprImg.AE := do
  let tag ← (j.getArrVal? 0).toOption >>= fun t => t.getStr?.toOption
  match tag with
  | "col" => do pure (.col ((← (j.getArrVal? 1).toOption >>= jInt?).toNat))
  | "lit" => do pure (.lit (← (j.getArrVal? 1).toOption >>= jInt?))
  | "plus" => do pure (.plus (← (j.getArrVal? 1).toOption >>= aeOfJson?) (← (j.getArrVal? 2).toOption >>= aeOfJson?))
  | "minus" => do pure (.minus (← (j.getArrVal? 1).toOption >>= aeOfJson?) (← (j.getArrVal? 2).toOption >>= aeOfJson?))
  | "mul" => do pure (.mul (← (j.getArrVal? 1).toOption >>= aeOfJson?) (← (j.getArrVal? 2).toOption >>= aeOfJson?))
  | "greatest" => do pure (.greatest (← (j.getArrVal? 1).toOption >>= aeOfJson?) (← (j.getArrVal? 2).toOption >>= aeOfJson?))
  | "least" => do pure (.least (← (j.getArrVal? 1).toOption >>= aeOfJson?) (← (j.getArrVal? 2).toOption >>= aeOfJson?))
  | _ => none

def runExprImg (c : Json) : Option Json := do
  let colsJ ← (c.getObjVal? "cols").toOption >>= fun a => a.getArr?.toOption
  let cols ← colsJ.toList.mapM jPairs?
  let tys := cols.map (fromIntervals cap)
  let valsJ ← (c.getObjVal? "vals").toOption >>= fun a => a.getArr?.toOption
  let vals ← valsJ.toList.mapM jInt?
  let e ← (c.getObjVal? "expr").toOption >>= aeOfJson?
  pure (Json.mkObj [("image", ivsToJson (ExprImg.image cap (fun i => tys.getD i []) e)),
    ("value", Json.num (JsonNumber.fromInt (ExprImg.eval (fun i => vals.getD i 0) e)))])

/-- DataType lattice on the composite fragment: `Qrlew.DTLat.subset / union / inter` -/
partial def dtOfJson? (j : Json) : Option DTLat.DT := do
  let tag ← (j.getArrVal? 0).toOption >>= fun t => t.getStr?.toOption
  match tag with
  | "int" => do pure (.int (fromIntervals cap (← (j.getArrVal? 1).toOption >>= jPairs?)))
  | "opt" => do
      let inner ← (j.getArrVal? 1).toOption
      let t ← (inner.getArrVal? 0).toOption >>= fun t => t.getStr?.toOption
      if t == "int" then pure (.opt (fromIntervals cap (← (inner.getArrVal? 1).toOption >>= jPairs?))) else none
  | "pair" => do pure (.pair (← (j.getArrVal? 1).toOption >>= dtOfJson?) (← (j.getArrVal? 2).toOption >>= dtOfJson?))
  | "list" => do pure (.list (← (j.getArrVal? 1).toOption >>= dtOfJson?) (fromIntervals cap (← (j.getArrVal? 2).toOption >>= jPairs?)))
  | _ => none

partial def dtToJson : DTLat.DT → Json
  | .int s => Json.arr #[Json.str "int", ivsToJson s]
  | .opt s => Json.arr #[Json.str "opt", Json.arr #[Json.str "int", ivsToJson s]]
  | .pair a b => Json.arr #[Json.str "pair", dtToJson a, dtToJson b]
  | .list t s => Json.arr #[Json.str "list", dtToJson t, ivsToJson s]

def runDtLat (c : Json) : Option Json := do
  let a ← (c.getObjVal? "a").toOption >>= dtOfJson?
  let b ← (c.getObjVal? "b").toOption >>= dtOfJson?
  let render (o : Option DTLat.DT) : Json := match o with | some t => dtToJson t | none => Json.str "outside-fragment"
  pure (Json.mkObj [("sub", Json.bool (DTLat.subset cap a b)), ("union", render (DTLat.union cap a b)), ("inter", render (DTLat.inter cap a b))])

/-- conversions between composite types: `Qrlew.InjLat.imageT` and `conv` -/
partial def vOfJson? (j : Json) : Option InjLat.V := do
  let tag ← (j.getArrVal? 0).toOption >>= fun t => t.getStr?.toOption
  match tag with
  | "i" => do pure (.i (← (j.getArrVal? 1).toOption >>= jInt?))
  | "none" => pure .none
  | "some" => do pure (.some (← (j.getArrVal? 1).toOption >>= vOfJson?))
  | "pair" => do pure (.pair (← (j.getArrVal? 1).toOption >>= vOfJson?) (← (j.getArrVal? 2).toOption >>= vOfJson?))
  | "list" => do
      let a ← (j.getArrVal? 1).toOption >>= fun a => a.getArr?.toOption
      pure (.list (← a.toList.mapM vOfJson?))
  | _ => none

partial def vToJson : InjLat.V → Json
  | .i n => Json.arr #[Json.str "i", Json.num (JsonNumber.fromInt n)]
  | .none => Json.arr #[Json.str "none"]
  | .some v => Json.arr #[Json.str "some", vToJson v]
  | .pair a b => Json.arr #[Json.str "pair", vToJson a, vToJson b]
  | .list vs => Json.arr #[Json.str "list", Json.arr (vs.map vToJson).toArray]

def runInjLat (c : Json) : Option Json := do
  let a ← (c.getObjVal? "a").toOption >>= dtOfJson?
  let b ← (c.getObjVal? "b").toOption >>= dtOfJson?
  match InjLat.imageT cap a b with
  | none => pure (Json.mkObj [("accepted", Json.bool false)])
  | some img =>
    let one (k : String) : Json := match (c.getObjVal? k).toOption with
      | some Json.null => Json.null
      | some j => match vOfJson? j with
        | some v => match InjLat.conv cap a b v with
          | some w => vToJson w
          | none => Json.str "refused"
        | none => Json.str "bad-value"
      | none => Json.null
    pure (Json.mkObj [("accepted", Json.bool true), ("image", dtToJson img), ("conv", Json.arr #[one "v1", one "v2"])])

def runLimit (c : Json) : Option Json := do
  let k ← (c.getObjVal? "k").toOption >>= jInt?
  let nU ← (c.getObjVal? "n_units").toOption >>= jInt?
  let rowsJ ← (c.getObjVal? "rows").toOption >>= fun a => a.getArr?.toOption
  let units ← rowsJ.toList.mapM fun r => (r.getArrVal? 0).toOption >>= jInt?
  let counts := (List.range nU.toNat).map fun u =>
    let n := (units.filter fun x => x == Int.ofNat u).length
    (Tau.kept k.toNat (List.replicate n 0)).length
  pure (Json.mkObj [("const_counts", Json.arr (counts.map fun n => Json.num (JsonNumber.fromNat n)).toArray)])

def optNat? (j : Json) (k : String) : Option Nat :=
  match (j.getObjVal? k).toOption with
  | some (Json.num n) => if n.exponent == 0 then some n.mantissa.toNat else some n.toFloat.toUInt64.toNat   -- exact for integers (u64::MAX included)
  | _ => none

/-- declared sizes `[0, max]` per node kind, as the code computes them (the outer-join bound is the code's, a known finding) -/
def runSizes (c : Json) : Option Json := do
  let kind ← (c.getObjVal? "kind").toOption >>= fun s => s.getStr?.toOption
  let l ← (c.getObjVal? "l").toOption >>= jInt?
  let r ← (c.getObjVal? "r").toOption >>= jInt?
  let mx : Nat ← match kind with
    | "map" => pure (Rel.mapSizeMax l.toNat (optNat? c "offset") (optNat? c "limit"))
    | "join" => do
      let lu ← (c.getObjVal? "left_unique").toOption >>= fun b => b.getBool?.toOption
      let ru ← (c.getObjVal? "right_unique").toOption >>= fun b => b.getBool?.toOption
      pure (if lu || ru then Rel.joinSizeUnique l.toNat r.toNat else l.toNat * r.toNat)
    | "set" => do
      let op ← (c.getObjVal? "set").toOption >>= fun s => s.getStr?.toOption
      pure (match op with | "union" => Rel.unionMax l.toNat r.toNat | "intersect" => Rel.intersectMax l.toNat r.toNat | _ => Rel.exceptMax l.toNat r.toNat)
    | _ => none
  pure (Json.arr #[Json.num (JsonNumber.fromNat 0), Json.num (JsonNumber.fromNat mx)])

def alphabetOf (n : Int) : List Char :=
  if n == 37 then Namer.base37 else if n == 36 then Namer.base37.take 36
  else if n == 62 then "0123456789abcdefghijklmnopqrstuvwxyzABCDEFGHIJKLMNOPQRSTUVWXYZ".toList else "01".toList

/-- namer operations against the model; `encode` ops do not touch the counter -/
def runNamer (c aux : Json) : Option Json := do
  let ops ← (c.getObjVal? "ops").toOption >>= fun a => a.getArr?.toOption
  let hashes ← (aux.getObjVal? "hashes").toOption >>= fun a => a.getArr?.toOption
  let mut st : Namer.Counter := []
  let mut outs : Array Json := #[]
  for i in [0:ops.size] do
    let op := ops[i]!
    let kind ← (op.getArrVal? 0).toOption >>= fun t => t.getStr?.toOption
    match kind with
    | "name" =>
      let p ← (op.getArrVal? 1).toOption >>= fun t => t.getStr?.toOption
      let (st', o) := Namer.step st (.name p); st := st'; outs := outs.push (Json.str o.text)
    | "id" =>
      let p ← (op.getArrVal? 1).toOption >>= fun t => t.getStr?.toOption
      let (st', o) := Namer.step st (.id p); st := st'; outs := outs.push (Json.str o.text)
    | "encode" =>
      let a ← (op.getArrVal? 1).toOption >>= jInt?
      let len ← (op.getArrVal? 2).toOption >>= jInt?
      let x ← (op.getArrVal? 3).toOption >>= fun t => t.getStr?.toOption >>= String.toNat?
      outs := outs.push (Json.str (String.ofList (Namer.encode (alphabetOf a) len.toNat x)))
    | "content" =>
      let p ← (op.getArrVal? 1).toOption >>= fun t => t.getStr?.toOption
      let h ← (hashes[i]?) >>= fun t => t.getStr?.toOption >>= String.toNat?
      let (st', o) := Namer.step st (.content p h); st := st'; outs := outs.push (Json.str o.text)
    | _ => none
  pure (Json.arr outs)

def pairOf? (j : Json) : Option (Int × Int) := do
  let a ← (j.getArrVal? 0).toOption >>= jInt?
  let b ← (j.getArrVal? 1).toOption >>= jInt?
  pure (a, b)

def hullJson (r : Option (List (Int × Int))) : Json :=
  match r with
  | none => Json.str "panic"
  | some l => match Total.hull l with
    | none => Json.str "empty"
    | some (lo, hi) => Json.arr #[Json.num (JsonNumber.fromInt lo), Json.num (JsonNumber.fromInt hi)]

def runArith (c aux : Json) : Option Json := do
  let kind ← (c.getObjVal? "kind").toOption >>= fun t => t.getStr?.toOption
  match kind with
  | "fdiv" =>
    let (a, b) ← (aux.getObjVal? "x").toOption >>= pairOf?
    let (c', d) ← (aux.getObjVal? "y").toOption >>= pairOf?
    pure (Json.str (if Total.fdivNanCorner a b c' d then "nan-corner" else "ok"))
  | "absup" =>
    let (lo, hi) ← (c.getObjVal? "x").toOption >>= pairOf?
    pure (Json.str (toString (ofInt (Int.ofNat (Total.absUpperNew lo hi)))))
  | _ =>
    let (a, b) ← (c.getObjVal? "x").toOption >>= pairOf?
    let (c', d) ← (c.getObjVal? "y").toOption >>= pairOf?
    match kind with
    | "idiv" => pure (hullJson (Total.divImage? a b c' d))
    | "imul" => pure (hullJson (Total.mulImage? a b c' d))
    | "iplus" => pure (hullJson (Total.wholeImage? (fun x y => some (Total.satAdd x y)) a b c' d))
    | "iminus" => pure (hullJson (Total.wholeImage? (fun x y => some (Total.satSub x y)) a b c' d))
    | _ => none

def fnOf? (s : String) : Option Split.Fn :=
  match s with | "plus" => some .plus | "minus" => some .minus | "times" => some .times | "abs" => some .abs | "neg" => some .neg | _ => none
def fnName : Split.Fn → String | .plus => "plus" | .minus => "minus" | .times => "times" | .abs => "abs" | .neg => "neg"
def aggOf? (s : String) : Option Split.Agg :=
  match s with | "sum" => some .sum | "count" => some .count | "min" => some .min | "max" => some .max | _ => none
def aggName : Split.Agg → String | .sum => "sum" | .count => "count" | .min => "min" | .max => "max"

partial def sOfJson? (j : Json) : Option Split.S := do
  let tag ← (j.getArrVal? 0).toOption >>= fun t => t.getStr?.toOption
  match tag with
  | "col" => do let i ← (j.getArrVal? 1).toOption >>= jInt?; pure (.col i.toNat)
  | "lit" => do let n ← (j.getArrVal? 1).toOption >>= jInt?; pure (.lit n)
  | "app1" => do
    let f ← (j.getArrVal? 1).toOption >>= fun t => t.getStr?.toOption >>= fnOf?
    pure (.app1 f (← (j.getArrVal? 2).toOption >>= sOfJson?))
  | "app2" => do
    let f ← (j.getArrVal? 1).toOption >>= fun t => t.getStr?.toOption >>= fnOf?
    pure (.app2 f (← (j.getArrVal? 2).toOption >>= sOfJson?) (← (j.getArrVal? 3).toOption >>= sOfJson?))
  | _ => none

partial def aOfJson? (j : Json) : Option Split.A := do
  let tag ← (j.getArrVal? 0).toOption >>= fun t => t.getStr?.toOption
  match tag with
  | "agg" => do
    let g ← (j.getArrVal? 1).toOption >>= fun t => t.getStr?.toOption >>= aggOf?
    pure (.agg g (← (j.getArrVal? 2).toOption >>= sOfJson?))
  | "lit" => do let n ← (j.getArrVal? 1).toOption >>= jInt?; pure (.lit n)
  | "app1" => do
    let f ← (j.getArrVal? 1).toOption >>= fun t => t.getStr?.toOption >>= fnOf?
    pure (.app1 f (← (j.getArrVal? 2).toOption >>= aOfJson?))
  | "app2" => do
    let f ← (j.getArrVal? 1).toOption >>= fun t => t.getStr?.toOption >>= fnOf?
    pure (.app2 f (← (j.getArrVal? 2).toOption >>= aOfJson?) (← (j.getArrVal? 3).toOption >>= aOfJson?))
  | _ => none

def sToJson : Split.S → Json
  | .col i => Json.arr #[Json.str "col", Json.num (JsonNumber.fromNat i)]
  | .lit n => Json.arr #[Json.str "lit", Json.num (JsonNumber.fromInt n)]
  | .app1 f a => Json.arr #[Json.str "app1", Json.str (fnName f), sToJson a]
  | .app2 f a b => Json.arr #[Json.str "app2", Json.str (fnName f), sToJson a, sToJson b]

def refToJson (k : Split.Agg × Split.S) : Json := Json.arr #[Json.str "ref", Json.str (aggName k.1), sToJson k.2]

def pToJson : Split.P (Split.Agg × Split.S) → Json
  | .ref k => refToJson k
  | .lit n => Json.arr #[Json.str "lit", Json.num (JsonNumber.fromInt n)]
  | .app1 f a => Json.arr #[Json.str "app1", Json.str (fnName f), pToJson a]
  | .app2 f a b => Json.arr #[Json.str "app2", Json.str (fnName f), pToJson a, pToJson b]

def sortedSet (l : List String) : List String := (l.mergeSort (fun a b => decide (a ≤ b))).eraseDups

/-- the three layers of a select item, intermediate columns named by their content -/
def runSplit (c : Json) : Option Json := do
  let a ← (c.getObjVal? "item").toOption >>= aOfJson?
  let aggs := sortedSet ((Split.aggs a).map fun k => (refToJson k).compress)
  let pre := sortedSet ((Split.pre a).map fun s => (sToJson s).compress)
  pure (Json.mkObj [("post", pToJson (Split.post id a)), ("aggs", Json.arr (aggs.map Json.str).toArray),
    ("pre", Json.arr (pre.map Json.str).toArray), ("group_by", Json.num (JsonNumber.fromNat 0))])

/-- stream `splitlist`: the columns of the top Map of a whole select list, each with its aggregates put back (`post id` read as the item) -/
def runSplitList (c : Json) : Option Json := do
  let itemsJ ← (c.getObjVal? "items").toOption >>= fun a => a.getArr?.toOption
  let items ← itemsJ.toList.mapM aOfJson?
  let named := (List.range items.length).zip items |>.map fun (i, a) => (s!"o{i}", a)
  -- `topAll` with the identity naming (a column is named by its content); the order is the list's
  let cols := (Split.topAll id named).map fun c => Json.arr #[Json.str c.1, pToJson c.2]
  pure (Json.arr cols.toArray)

def runValues (c : Json) : Option Json := do
  let vs ← (c.getObjVal? "vals").toOption >>= fun a => a.getArr?.toOption
  let ns ← vs.toList.mapM jInt?
  pure (Json.bool (Rel.valuesUnique ns))

def handle (line : String) : Json :=
  match Json.parse line with
  | .error e => Json.mkObj [("model", Json.null), ("error", Json.str s!"parse: {e}")]
  | .ok j =>
    let stream := ((j.getObjVal? "stream").toOption >>= fun s => s.getStr?.toOption).getD ""
    let c := (j.getObjVal? "case").toOption.getD Json.null
    let r : Option Json := match stream with
      | "intervals" => runIntervals c
      | "hier" => runHier c
      | "fnimg" => runFnImg c
      | "ofint" => runOfInt c
      | "quote" => runQuote c
      | "filter" => runFilter c
      | "limit" => runLimit c
      | "sizes" => runSizes c
      | "values" => runValues c
      | "split" => runSplit c
      | "arith" => runArith c ((j.getObjVal? "aux").toOption.getD Json.null)
      | "namer" => runNamer c ((j.getObjVal? "aux").toOption.getD Json.null)
      | "clip" => runClip c ((j.getObjVal? "aux").toOption.getD Json.null)
      | "dpagg" => runDpAgg c ((j.getObjVal? "aux").toOption.getD Json.null)
      | "pup" => runPup c
      | "reltree" => runRelTree c
      | "taukeys" => runTauKeys c ((j.getObjVal? "aux").toOption.getD Json.null)
      | "exprimg" => runExprImg c
      | "dtlat" => runDtLat c
      | "injlat" => runInjLat c
      | "dpevent" => runDpEvent c
      | "hierops" => runHierOps c
      | "joinnarrow" => runJoinNarrow c
      | "splitlist" => runSplitList c
      | "injtime" => runInjTime c
      | "exprprint" => runExprPrint c
      | "dpquery" => runDpQuery ((j.getObjVal? "aux").toOption.getD Json.null)
      | "rules" => runRules ((j.getObjVal? "aux").toOption.getD Json.null)
      | _ => none
    match r with
    | some m => Json.mkObj [("model", m)]
    | none => Json.mkObj [("model", Json.null), ("error", Json.str s!"unhandled stream/case: {stream}")]

partial def loop (h : IO.FS.Stream) (out : IO.FS.Stream) : IO Unit := do
  let line ← h.getLine
  if line.isEmpty then return ()
  if line.trimAscii.toString.isEmpty then loop h out else
  out.putStrLn (handle line).compress
  loop h out

def main : IO Unit := do
  let out ← IO.getStdout
  loop (← IO.getStdin) out
  out.flush

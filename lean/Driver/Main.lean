import Lean.Data.Json
import QrlewModel.Model.Intervals
import QrlewModel.Model.Hierarchy
import QrlewModel.Model.Rules
import QrlewModel.Generated.Rules
/-!
JSON-lines driver over the executable model.  One input line = one harness line
(`{"stream":..,"case":..,..}`); one output line = `{"model": <canonical output>}`.
A line the driver cannot interpret yields `{"model":null,"error":..}` (never a default value).
-/
open Lean Qrlew

def jInt? (j : Json) : Option Int := match j.getInt? with | .ok v => some v | _ => none

def jPairs? (j : Json) : Option Ivs := do
  let arr ← (j.getArr?).toOption
  arr.toList.mapM fun p => do
    let a ← (p.getArrVal? 0).toOption >>= jInt?
    let b ← (p.getArrVal? 1).toOption >>= jInt?
    pure (a, b)

def ivsToJson (l : Ivs) : Json := Json.arr (l.map fun p => Json.arr #[Json.num (JsonNumber.fromInt p.1), Json.num (JsonNumber.fromInt p.2)]).toArray

def cap : Nat := 128

def parseIvOp (j : Json) : Option IvOp := do
  let tag ← (j.getArrVal? 0).toOption >>= fun t => t.getStr?.toOption
  match tag with
  | "U" => do
    let a ← (j.getArrVal? 1).toOption >>= jInt?
    let b ← (j.getArrVal? 2).toOption >>= jInt?
    pure (.unionI a b)
  | "I" => do
    let a ← (j.getArrVal? 1).toOption >>= jInt?
    let b ← (j.getArrVal? 2).toOption >>= jInt?
    pure (.interI a b)
  | "US" => do
    let s ← (j.getArrVal? 1).toOption >>= jPairs?
    pure (.unionS (fromIntervals cap s))
  | "IS" => do
    let s ← (j.getArrVal? 1).toOption >>= jPairs?
    pure (.interS (fromIntervals cap s))
  | "H" => pure .hullOp
  | _ => none

def runIntervals (c : Json) : Option Json := do
  let init ← (c.getObjVal? "init").toOption >>= jPairs?
  let opsJ ← (c.getObjVal? "ops").toOption >>= fun o => o.getArr?.toOption
  let ops ← opsJ.toList.mapM parseIvOp
  pure (ivsToJson (runIv cap (fromIntervals cap init) ops))

def jStrs? (j : Json) : Option (List String) := do
  let arr ← (j.getArr?).toOption
  arr.toList.mapM fun s => s.getStr?.toOption

def runHier (c : Json) : Option Json := do
  let es ← (c.getObjVal? "entries").toOption >>= fun o => o.getArr?.toOption
  let entries ← es.toList.mapM fun e => do
    let k ← (e.getArrVal? 0).toOption >>= jStrs?
    let v ← (e.getArrVal? 1).toOption >>= jInt?
    pure (k, v)
  let ls ← (c.getObjVal? "lookups").toOption >>= fun o => o.getArr?.toOption
  let lookups ← ls.toList.mapM jStrs?
  let res := lookups.map fun p =>
    match lookup entries p with
    | some (k, v) => Json.arr #[Json.arr (k.map Json.str).toArray, Json.num (JsonNumber.fromInt v)]
    | none => Json.null
  pure (Json.arr res.toArray)

def labelOfStr? : String → Option Label
  | "priv" => some .priv | "sd" => some .sd | "pup" => some .pup | "dp" => some .dp | "pubd" => some .pubd | "pub" => some .pub
  | _ => none

def labelStr : Label → String
  | .priv => "priv" | .sd => "sd" | .pup => "pup" | .dp => "dp" | .pubd => "pubd" | .pub => "pub"

def ruleOfJson? (j : Json) : Option Rule := do
  let ins ← (j.getArrVal? 0).toOption >>= jStrs?
  let ins ← ins.mapM labelOfStr?
  let out ← (j.getArrVal? 1).toOption >>= (fun s => s.getStr?.toOption) >>= labelOfStr?
  pure ⟨ins, out⟩

def ruleToJson (r : Rule) : Json :=
  Json.arr #[Json.arr (r.inputs.map (fun l => Json.str (labelStr l))).toArray, Json.str (labelStr r.output)]

/-- the annotated tree together with the node kinds (kept only to echo them back) -/
partial def treeOfJson? (j : Json) : Option (RTree × Json) := do
  let rules ← (j.getObjVal? "rules").toOption >>= (fun a => a.getArr?.toOption)
  let rules ← rules.toList.mapM ruleOfJson?
  let kids ← (j.getObjVal? "in").toOption >>= (fun a => a.getArr?.toOption)
  let kids ← kids.toList.mapM treeOfJson?
  match kids with
  | [] => pure (.leaf rules, j)
  | [c] => pure (.unary rules c.1, j)
  | [l, r] => pure (.binary rules l.1 r.1, j)
  | _ => none

/-- echo the tree in the harness' shape, with the model's rules and the original node kinds -/
partial def treeToJson (t : RTree) (orig : Json) : Json :=
  let kind := (orig.getObjVal? "kind").toOption.getD Json.null
  let okids := ((orig.getObjVal? "in").toOption >>= (fun a => a.getArr?.toOption)).getD #[]
  let (rules, kids) : List Rule × List RTree := match t with
    | .leaf rs => (rs, [])
    | .unary rs c => (rs, [c])
    | .binary rs l r => (rs, [l, r])
  let jk := (kids.zip okids.toList).map fun (k, o) => treeToJson k o
  Json.mkObj [("kind", kind), ("rules", Json.arr (rules.map ruleToJson).toArray), ("in", Json.arr jk.toArray)]

def derivToJson : Deriv → Json
  | .leaf r => Json.mkObj [("rule", ruleToJson r), ("in", Json.arr #[])]
  | .unary r c => Json.mkObj [("rule", ruleToJson r), ("in", Json.arr #[derivToJson c])]
  | .binary r a b => Json.mkObj [("rule", ruleToJson r), ("in", Json.arr #[derivToJson a, derivToJson b])]

def chosenToJson : Option Deriv → Json
  | none => Json.null
  | some d => Json.mkObj [("deriv", derivToJson d), ("score", Json.num (JsonNumber.fromNat (score d)))]

def kindOfStr? : String → Option Generated.NodeKind
  | "tableProtected" => some .tableProtected | "tablePublic" => some .tablePublic | "values" => some .values
  | "map" => some .map | "reduceDpOk" => some .reduceDpOk | "reduceDpNo" => some .reduceDpNo
  | "join" => some .join | "set" => some .set | _ => none

/-- every node of the real tree carries exactly the rules of the generated table for its kind -/
partial def tableOk (synthetic hard : Bool) (j : Json) : Bool :=
  let kind := ((j.getObjVal? "kind").toOption >>= (fun s => s.getStr?.toOption)) >>= kindOfStr?
  let rules := ((j.getObjVal? "rules").toOption >>= (fun a => a.getArr?.toOption)) >>= (fun a => a.toList.mapM ruleOfJson?)
  let kids := ((j.getObjVal? "in").toOption >>= (fun a => a.getArr?.toOption)).getD #[]
  match kind, rules with
  | some k, some rs => decide (rs = Generated.rulesFor k synthetic hard) && kids.toList.all (tableOk synthetic hard)
  | _, _ => false

def runRules (aux : Json) : Option Json := do
  let tj ← (aux.getObjVal? "tree").toOption
  let (t, orig) ← treeOfJson? tj
  let hard ← (aux.getObjVal? "hard").toOption >>= (fun b => b.getBool?.toOption)
  let synthetic ← (aux.getObjVal? "synthetic").toOption >>= (fun b => b.getBool?.toOption)
  let e := eliminate t
  let sel := select e
  let cdp := choose accDP t
  let cpup := choose accPUP t
  pure (Json.mkObj [
    ("table_ok", Json.bool (tableOk synthetic hard tj)),
    ("elim", treeToJson e orig),
    ("select", Json.arr (sel.map derivToJson).toArray),
    ("chosen_dp", chosenToJson cdp),
    ("chosen_pup", chosenToJson cpup),
    ("dp_ok", if hard then Json.bool cdp.isSome else Json.null),
    ("pup_ok", Json.bool cpup.isSome)])

def handle (line : String) : Json :=
  match Json.parse line with
  | .error e => Json.mkObj [("model", Json.null), ("error", Json.str s!"parse: {e}")]
  | .ok j =>
    let stream := ((j.getObjVal? "stream").toOption >>= fun s => s.getStr?.toOption).getD ""
    let c := (j.getObjVal? "case").toOption.getD Json.null
    let r : Option Json := match stream with
      | "intervals" => runIntervals c
      | "hier" => runHier c
      | "rules" => runRules ((j.getObjVal? "aux").toOption.getD Json.null)
      | _ => none
    match r with
    | some m => Json.mkObj [("model", m)]
    | none => Json.mkObj [("model", Json.null), ("error", Json.str s!"unhandled stream/case: {stream}")]

partial def loop (h : IO.FS.Stream) (out : IO.FS.Stream) : IO Unit := do
  let line ← h.getLine
  if line.isEmpty then return ()
  if line.trimAscii.toString.isEmpty then loop h out else
  out.putStrLn (handle line).compress
  loop h out

def main : IO Unit := do
  let out ← IO.getStdout
  loop (← IO.getStdin) out
  out.flush
